/-
Kernel-checked witnesses for C02, on the toy FPU of Lemmas/FpToy.lean (an FPU that meets every contract of `FpuSpec`).

All three former known findings of C02 were REPAIRED in /repo (known_findings.json, "fixed"); nothing is open.  What is
kept here are witnesses that the *old* formulas were wrong (so the repairs were needed, and a revert is a defect), each
beside the statement that the current, regenerated code is right on the same input:

  C02-u64-to-f32-signed        (repaired, /repo cb60798) old cell `cvtsi2ssq %rax, %xmm0`: (float)(unsigned long)2^63 had its
                               sign bit set.  Now: the halving sequence; `C02_select` covers all 2^64 values.
  C02-fp-to-u64-above-2p63     (repaired, /repo d20bf97) old cell `cvttsd2siq %xmm0, %rax`: (unsigned long)x for x = 3·2^62 was
                               the integer indefinite 0x8000000000000000.  Now: compare with 2^63, subtract, set bit 63.
  C02-literal-double-rounding  (repaired, /repo 0b14cf9) old path `strtold` then narrowing: round₅₃ ∘ round₆₄ ≠ round₅₃ at
                               2^64 + 2^11 + 1.  Now: `strtod`/`strtof` of the spelling (`C02_const_parser`, `C02_const_rounded`).
-/
import ChibiVerif.Props.C02

namespace ChibiVerif.Findings.C02
open ChibiVerif.Fp ChibiVerif.Asm ChibiVerif.X86 ChibiVerif.Spec.Fpu ChibiVerif.FpCodegen ChibiVerif.Spec.FpC11
open ChibiVerif.Spec.IntSpec ChibiVerif.Props.C02 ChibiVerif.FpChain

/-- a machine state with `%rax = r`, `%xmm0 = x`, empty x87 stack, default control word -/
def st0 (r x : BitVec 64) : FState :=
  ⟨{ regs := fun _ => r, mem := fun _ => 0 }, x, 0, [], 0x37f#16⟩

/-! ### C02-u64-to-f32-signed (repaired) -/

/-- the cell as it was before the repair -/
def old_u64f32 : List Ins := [⟨"cvtsi2ssq", [.r "%rax", .r "%xmm0"]⟩]

/-- the old cell on 2^63: the result is negative, the C11 result `ofInt32 2^63` is not -/
theorem C02_old_u64_to_f32_signed :
    ∃ s', Fp.run Toy.toy old_u64f32 (st0 0x8000000000000000#64 0) = some s' ∧
      (s'.xmm0.setWidth 32).msb = true ∧ (Toy.toy.ofInt32 9223372036854775808).msb = false := by
  refine ⟨_, rfl, ?_, ?_⟩
  · have h2 := Toy.toy.ofInt32_sign (-9223372036854775808)
    have e : (State.get (st0 0x8000000000000000#64 0).x Reg.rax).toInt = -9223372036854775808 := by decide
    show ((setLow32 (st0 0x8000000000000000#64 0).xmm0
      (Toy.toy.cvtsi2ss64 ((st0 0x8000000000000000#64 0).x.get Reg.rax))).setWidth 32).msb = true
    rw [setLow32_low, Toy.toy.cvtsi2ss64_spec, e, h2]; decide
  · rw [Toy.toy.ofInt32_sign]; decide

/-- the current cell on the same input: the C11 result, bit for bit -/
theorem C02_fixed_u64_to_f32 :
    ∃ s', Fp.run Toy.toy (castSeq (.int .u64) .f32) (st0 0x8000000000000000#64 0) = some s' ∧
      s'.xmm0.setWidth 32 = Toy.toy.ofInt32 9223372036854775808 := by
  obtain ⟨s', h1, h2, _⟩ := C02_u64f32 Toy.toy (st0 0x8000000000000000#64 0) 9223372036854775808
    (by simp [Holds, RInt, ITy.inRange, ITy.min, ITy.max, ITy.signed, ITy.bits, State.get, st0])
  exact ⟨s', h1, h2⟩

/-! ### C02-fp-to-u64-above-2p63 (repaired) -/

/-- the toy double 3·2^62: q = 3, shift 62 -/
def x3p62 : BitVec 64 := BitVec.ofNat 64 (Toy.enc 57 false 3 62)

def old_f64u64 : List Ins := [⟨"cvttsd2siq", [.r "%xmm0", .r "%rax"]⟩]

/-- the old cell on 3·2^62 ≥ 2^63: the integer indefinite, not 13835058055282163712 -/
theorem C02_old_fp_to_u64_above_2p63 :
    ∃ s', Fp.run Toy.toy old_f64u64 (st0 0 x3p62) = some s' ∧ s'.x.get .rax = 0x8000000000000000#64 ∧
      fpToInt .u64 (Toy.toy.val64 x3p62) = some 13835058055282163712 := by
  have hval : Toy.toy.val64 x3p62 = .fin false 3 62 := by decide
  refine ⟨_, rfl, ?_, ?_⟩
  · show truncTo 64 (Toy.toy.val64 x3p62) = _
    rw [hval]; decide
  · rw [hval]; decide

/-- the current cell on the same input: the integral part -/
theorem C02_fixed_fp_to_u64 :
    ∃ s', Fp.run Toy.toy (castSeq .f64 (.int .u64)) (st0 0 x3p62) = some s' ∧
      ((s'.x.get .rax).toNat : Int) = 13835058055282163712 := by
  have hval : (Toy.toy.val64 x3p62).trunc? = some 13835058055282163712 := by decide
  obtain ⟨s', h1, h2, _⟩ := (C02_fp_to_u64 Toy.toy (st0 0 x3p62) 13835058055282163712 (by decide)).2.1 x3p62 rfl hval
  exact ⟨s', h1, h2⟩

/-! ### C02-literal-double-rounding (repaired) -/

/-- the old path (the arithmetic core): rounding to the 64 bits of `strtold`'s long double and then to 53 (or 24) is not
    rounding to 53 (24): 2^64 + 2^11 + 1 → 2^64 + 2^11 → 2^64 (tie, to even), but directly → 2^64 + 2^12
    (the literal `18446744073709553665.0`; the old chibicc gave 0x43f0000000000000, C11/gcc 0x43f0000000000001) -/
theorem C02_old_literal_double_rounding :
    ¬ (∀ n : Nat, roundNat 53 (roundNat 64 n) = roundNat 53 n ∧ roundNat 24 (roundNat 64 n) = roundNat 24 n) := by
  intro h
  exact absurd (h 18446744073709553665).1 (by decide)

/-- … the old path was right for every spelling whose value has at most 64 significant bits: the first rounding is the identity -/
theorem C02_old_literal_exact_below_2p64 (n : Nat) (h : n < 2 ^ 64) :
    roundNat 53 (roundNat 64 n) = roundNat 53 n ∧ roundNat 24 (roundNat 64 n) = roundNat 24 n := by
  have hb : bitLen n ≤ 64 := by
    unfold bitLen
    split
    · omega
    · rename_i h0
      have := (Nat.log2_lt h0).2 h
      omega
  have e : roundNat 64 n = n := by simp [roundNat, roundQS, hb]
  rw [e]; exact ⟨rfl, rfl⟩

/-- the current ladder, as regenerated: no arm narrows a `strtold` result -/
theorem C02_fixed_literal_parsers :
    Gen.FpLiteral.suffixArms.map (fun a => (a.2.1, a.2.2)) ++ [Gen.FpLiteral.defaultArm] =
      [(.ty_float, .strtof), (.ty_ldouble, .strtold), (.ty_double, .strtod)] := by decide

/-! ### earlier repairs (fix: commits recorded in known_findings.json): the current table, checked -/

/-- (short)ld / (unsigned short)ld / (unsigned)ld reload with the right width and extension, and (unsigned)ld stores 64 bits -/
theorem C02_fixed_f80_cells :
    (Gen.CastTable.f80i16.instrs.getLast? = some ⟨"movswl", [.m (-24) "%rsp", .r "%eax"]⟩) ∧
    (Gen.CastTable.f80u16.instrs.getLast? = some ⟨"movzwl", [.m (-24) "%rsp", .r "%eax"]⟩) ∧
    (Gen.CastTable.f80u32.instrs.contains ⟨"fistpq", [.m (-24) "%rsp"]⟩ = true) := by decide

/-! ### a "round-trip cast" peephole (seeded change C02c; not in /repo): what dropping `(T)(F)x` would do

`(int)(float)x` is not `x`.  `elided` is the code a compiler prints that treats the two conversions as cancelling: the operand's
code and nothing else (in the model: the nest with no `ND_CAST` node).  On 2^24 + 1 it leaves 16777217 in %eax; the code
`gen_expr` really prints — one `cast()` per node, `C02_cast_chain` — leaves 16777216, the C11 value on every FPU that meets the
contract (`C02_roundtrip_not_identity`).  Same for `(long)(double)x` at 2^53 + 1. -/

/-- what the ND_CAST arm of /repo prints for `(int)(float)e` and `(long)(double)e`: both cells, in order -/
theorem C02_roundtrip_code (code : List Asm.Line) :
    (nest (.int .i32) code [.f32, .int .i32]).gen = code ++ [Gen.CastTable.i32f32] ++ [Gen.CastTable.f32i32] ∧
    (nest (.int .i64) code [.f64, .int .i64]).gen = code ++ [Gen.CastTable.i64f64] ++ [Gen.CastTable.f64i64] :=
  ⟨rfl, rfl⟩

/-- the elided code on the witnesses: %rax still holds the operand, which is not the C11 value of the chain -/
theorem C02_elided_roundtrip_wrong :
    (∃ s', Fp.run Toy.toy (instrsOf (nest (.int .i32) [] []).gen) (st0 16777217#64 0) = some s' ∧
      Holds (.int .i32) s' (.int 16777217) ∧ ¬ Holds (.int .i32) s' (.int 16777216) ∧
      convertChain Toy.toy s'.cw [.f32, .int .i32] (.int 16777217) = some (.int 16777216)) ∧
    (∃ s', Fp.run Toy.toy (instrsOf (nest (.int .i64) [] []).gen) (st0 9007199254740993#64 0) = some s' ∧
      Holds (.int .i64) s' (.int 9007199254740993) ∧ ¬ Holds (.int .i64) s' (.int 9007199254740992) ∧
      convertChain Toy.toy s'.cw [.f64, .int .i64] (.int 9007199254740993) = some (.int 9007199254740992)) := by
  have h32 : Holds (.int .i32) (st0 16777217#64 0) (.int 16777217) := by
    simp [Holds, RInt, ITy.inRange, ITy.min, ITy.max, ITy.signed, ITy.bits, State.get, st0]
  have h64 : Holds (.int .i64) (st0 9007199254740993#64 0) (.int 9007199254740993) := by
    simp [Holds, RInt, ITy.inRange, ITy.min, ITy.max, ITy.signed, ITy.bits, State.get, st0]
  obtain ⟨a1, a2, a3⟩ := (C02_roundtrip_not_identity Toy.toy [] (st0 16777217#64 0) _ rfl).1 h32
  obtain ⟨b1, b2, b3⟩ := (C02_roundtrip_not_identity Toy.toy [] (st0 9007199254740993#64 0) _ rfl).2 h64
  exact ⟨⟨_, rfl, h32, a2, a3⟩, ⟨_, rfl, h64, b2, b3⟩⟩

/-- the code of /repo on the same witnesses -/
theorem C02_roundtrip_rounds_witness :
    (∃ s', Fp.run Toy.toy (instrsOf (nest (.int .i32) [] [.f32, .int .i32]).gen) (st0 16777217#64 0) = some s' ∧
      Holds (.int .i32) s' (.int 16777216)) ∧
    (∃ s', Fp.run Toy.toy (instrsOf (nest (.int .i64) [] [.f64, .int .i64]).gen) (st0 9007199254740993#64 0) = some s' ∧
      Holds (.int .i64) s' (.int 9007199254740992)) := by
  have h32 : Holds (.int .i32) (st0 16777217#64 0) (.int 16777217) := by
    simp [Holds, RInt, ITy.inRange, ITy.min, ITy.max, ITy.signed, ITy.bits, State.get, st0]
  have h64 : Holds (.int .i64) (st0 9007199254740993#64 0) (.int 9007199254740993) := by
    simp [Holds, RInt, ITy.inRange, ITy.min, ITy.max, ITy.signed, ITy.bits, State.get, st0]
  exact ⟨((C02_roundtrip_not_identity Toy.toy [] (st0 16777217#64 0) _ rfl).1 h32).1,
         ((C02_roundtrip_not_identity Toy.toy [] (st0 9007199254740993#64 0) _ rfl).2 h64).1⟩

end ChibiVerif.Findings.C02
