namespace ChibiVerif.Findings.C02
end ChibiVerif.Findings.C02
