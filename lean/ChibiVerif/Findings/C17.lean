/-
C17 — kernel-checked witness of the ORIGINAL defect in hashmap.c
(`get_or_insert_entry` reused the first tombstone on the probe path immediately,
without checking whether the key is stored further down the path).  The defect is
repaired in /repo by a `fix:` commit; `Model/HashMap.lean` models the repaired code
and `Props/C17.lean` proves it correct.  This file keeps the pre-fix loop as
`insLoopOld` and shows, by evaluation in the kernel (`decide`), a six-operation
history on which the pre-fix code answers a lookup of a deleted key with a stale
value, whereas the abstract dictionary and the repaired code answer "absent".

Pre-fix loop body (chibicc as published):

    if (match(ent, key, keylen)) return ent;
    if (ent->key == TOMBSTONE) { ent->key = key; ent->keylen = keylen; return ent; }
    if (ent->key == NULL) { ent->key = key; ent->keylen = keylen; map->used++; return ent; }
-/
import ChibiVerif.Model.HashMap

namespace ChibiVerif.Findings.C17
open ChibiVerif.HashMap
open ChibiVerif.Gen.HashMap (INIT_SIZE HIGH_WATERMARK LOW_WATERMARK)

variable {α β : Type} [DecidableEq α]

/-- the pre-fix probe loop of `get_or_insert_entry`: the first tombstone is taken
    immediately -/
def insLoopOld (b : List (Slot α β)) (hk : Nat) (k : α) : Nat → Nat → Except Crash HM.InsPos
  | 0, _ => .error .unreachable
  | n+1, i =>
    let idx := (hk + i) % b.length
    match HM.slotAt b idx with
    | .full k' _ => if k' = k then .ok (.found idx) else insLoopOld b hk k n (i+1)
    | .tomb => .ok (.reuse idx)
    | .empty => .ok (.fresh idx)

/-- `hashmap_put2` inside `rehash`, pre-fix loop -/
def putNoRehashOld (h : α → Nat) (m : HM α β) (k : α) (v : β) : Except Crash (HM α β) :=
  if m.buckets.isEmpty then .error .assertCap
  else if m.used * 100 / m.buckets.length ≥ HIGH_WATERMARK then .error .nestedRehash
  else do
    let p ← insLoopOld m.buckets (h k) k m.buckets.length 0
    pure (HM.applyIns m k v p)

/-- `rehash`, pre-fix loop (identical to `HM.rehash` otherwise) -/
def rehashOld (h : α → Nat) (m : HM α β) : Except Crash (HM α β) := do
  let live := HM.liveEntries m.buckets
  let nkeys := live.length
  if m.buckets.isEmpty then throw .assertCap
  let cap := HM.growCap nkeys (nkeys + 2) m.buckets.length
  if cap = 0 then throw .assertCap
  let m2 : HM α β := ⟨List.replicate cap .empty, 0⟩
  let m2 ← live.foldlM (fun acc kv => putNoRehashOld h acc kv.1 kv.2) m2
  if m2.used ≠ nkeys then throw .assertUsed
  pure m2

/-- `hashmap_put2`, pre-fix loop (identical to `HM.put` otherwise) -/
def putOld (h : α → Nat) (m : HM α β) (k : α) (v : β) : Except Crash (HM α β) := do
  let m ←
    if m.buckets.isEmpty then pure (⟨List.replicate INIT_SIZE .empty, m.used⟩ : HM α β)
    else if m.used * 100 / m.buckets.length ≥ HIGH_WATERMARK then rehashOld h m
    else pure m
  let p ← insLoopOld m.buckets (h k) k m.buckets.length 0
  pure (HM.applyIns m k v p)

/-- `step` with the pre-fix `put`; `get` and `delete` were not changed by the fix -/
def stepOld (h : α → Nat) (m : HM α β) : Op α β → Except Crash (HM α β × Option (Option β))
  | .put k v => do pure (← putOld h m k v, none)
  | .del k => do pure (← m.delete h k, none)
  | .get k => do pure (m, some (← m.get h k))

def runOld (h : α → Nat) : HM α β → List (Op α β) → Except Crash (HM α β × List (Option β))
  | m, [] => .ok (m, [])
  | m, op :: ops => do
    let (m', o) ← stepOld h m op
    let (m'', outs) ← runOld h m' ops
    pure (m'', match o with | some a => a :: outs | none => outs)

/-- the answers of a run, `none` if it crashed -/
def answers (r : Except Crash (HM α β × List (Option β))) : Option (List (Option β)) :=
  match r with
  | .ok (_, outs) => some outs
  | .error _ => none

/-- Every key hashes to bucket 5.  Keys 9 and 12 collide; 12 is displaced behind 9;
    deleting 9 leaves a tombstone in front of 12; the pre-fix `put 12 3` writes a second
    copy of 12 into the tombstone; `del 12` removes only that copy; `get 12` then finds
    the stale first copy. -/
def witnessOps : List (Op Nat Nat) :=
  [.put 9 1, .put 12 2, .del 9, .put 12 3, .del 12, .get 12]

/-- the pre-fix code answers `some 2` for a key whose most recent operation was a delete -/
theorem C17_witness_old :
    answers (runOld (fun _ => 5) HM.empty witnessOps) = some [some 2] := by decide

/-- the abstract dictionary answers "absent" -/
theorem C17_witness_abstract : (arun AMap.empty witnessOps).2 = [none] := by decide

/-- the repaired code (the model proved correct in `Props/C17.lean`) answers "absent" -/
theorem C17_witness_current :
    answers (run (fun _ => 5) HM.empty witnessOps) = some [none] := by decide

/-- **Witness of the repaired defect.**  On the history
    `put 9 1; put 12 2; del 9; put 12 3; del 12; get 12` (all keys hash to 5) the pre-fix
    code runs without crashing and answers `[some 2]`; the abstract dictionary answers
    `[none]`; the current model runs without crashing and answers `[none]`. -/
theorem C17_fixed_tombstone_witness :
    answers (runOld (fun _ => 5) HM.empty
        [.put 9 1, .put 12 2, .del 9, .put 12 3, .del 12, .get 12]) = some [some 2] ∧
    (arun (AMap.empty : AMap Nat Nat)
        [.put 9 1, .put 12 2, .del 9, .put 12 3, .del 12, .get 12]).2 = [none] ∧
    answers (run (fun _ => 5) HM.empty
        [.put 9 1, .put 12 2, .del 9, .put 12 3, .del 12, .get 12]) = some [none] := by
  decide

/-- the two copies of key 12 after the fourth operation of the pre-fix run: slot 5
    (the reused tombstone) and slot 6 (the original) -/
theorem C17_witness_duplicate :
    (runOld (fun _ => 5) (HM.empty : HM Nat Nat) (witnessOps.take 4)).toOption.map
        (fun r => (HM.slotAt r.1.buckets 5, HM.slotAt r.1.buckets 6)) =
      some (.full 12 3, .full 12 2) := by decide

end ChibiVerif.Findings.C17
