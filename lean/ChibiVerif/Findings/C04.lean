/-
C04 — kernel-checked witnesses.

1. Repaired defects of the bit-field arms (fix: commits in /repo, recorded in known_findings.json): the witnesses that
   failed on the pinned tree, evaluated on the model of the code as it is now.
2. Documented limits of the theorems in Props/C04.lean, shown to be sharp:
   * alignments above 16 on automatic objects (finding `C04-overaligned-auto`): assign_lvar_offsets makes the offset
     from %rbp a multiple of the alignment, but %rbp is only 16-byte aligned; `C04_frame_aligned` proves min(align, 16),
     `C04_finding_overaligned_sharp` that nothing more holds for any function with such an object;
   * alloca / VLA requests of 2^32 - 15 bytes or more are truncated by `and $0xfffffff0, %edi`.
-/
import ChibiVerif.Model.BitField
import ChibiVerif.Spec.C04Spec
import ChibiVerif.Model.Frame
import ChibiVerif.Model.Alloca
import ChibiVerif.Props.C04
import ChibiVerif.Lemmas.C04Repair

namespace ChibiVerif.Findings.C04
open ChibiVerif.BitField ChibiVerif.Spec.C04 ChibiVerif.Frame ChibiVerif.Alloca ChibiVerif.Gen.C04

/-! ### repaired: `_Bool f:1; s.f = 1; s.f` read -1 (the load arm used `sar` because ty_bool is not `is_unsigned`) -/
theorem C04_fixed_bool_bitfield : bfLoadT .bool 1 0 (bfAssignT .bool 1 0 0#8 1#64).unit = 1#64 := by decide
/-- what the pinned tree computed: an arithmetic shift of the 1-bit field -/
theorem C04_pinned_bool_bitfield : extract 1 0 false false (loadUnit .b1 false 1#8) = (-1 : BitVec 64) := by decide

/-! ### repaired: widths 32..63 did not assemble (`and $4294967295, %rdi`); the mask now goes through %r9 -/
theorem C04_fixed_wide_mask_text :
    (assignSeq .uint 32 0).take 3 =
      [.ins ⟨"mov", [.r "%rax", .r "%rdi"]⟩, .ins ⟨"mov", [.i 4294967295, .r "%r9"]⟩, .ins ⟨"and", [.r "%r9", .r "%rdi"]⟩] := by
  decide
theorem C04_fixed_wide_field : bfLoadT .long 33 31 (bfAssignT .long 33 31 0#64 (-3 : BitVec 64)).unit = (-3 : BitVec 64) := by decide

/-! ### repaired: `long x:64` stores were lost (host `1L << 64`): the mask is all ones now -/
theorem C04_fixed_width64_mask : bfMask 64 = (-1 : BitVec 64) := by decide
theorem C04_fixed_width64 :
    (bfAssignT .long 64 0 0x1111111111111111#64 0x7fffffffffffffff#64).unit.toNat = 0x7fffffffffffffff := by decide
/-- the pinned tree's mask for width 64 (x86 takes the shift count modulo 64): every store kept the old content -/
theorem C04_pinned_width64_mask : ((1 : BitVec 64) <<< (64 % 64)) - 1 = 0 := by decide

/-! ### repaired: `(s.a = 9)` with `int a:3` was 9 (the saved right operand); now the field is re-extracted -/
theorem C04_fixed_assign_value : (bfAssignT .int 3 0 0#32 9#64).rax = 1#64 ∧ (bfAssignT .uint 5 3 0#32 0x3f#64).rax = 31#64 := by decide

/-! ### finding C04-overaligned-auto -/

/-- `_Alignas(32) char a;` gets offset -32 from %rbp (a multiple of 32, as `C04_frame_disjoint` states) … -/
theorem C04_finding_overaligned_offset :
    (assignLvarOffsets [⟨1, 32, false, false⟩, ⟨8, 8, false, false⟩] []).offsets = [-32, -40] := by decide
/-- … but %rbp is only guaranteed to be a multiple of 16: with %rbp = 16 (mod 32) the object is misaligned.
    The frame theorem cannot be strengthened to absolute alignment for alignments that do not divide 16. -/
theorem C04_finding_overaligned_auto : ∃ rbp : Int, rbp % 16 = 0 ∧ (rbp + (-32)) % 32 ≠ 0 := ⟨48, by decide⟩

/-- the limit of `C04_frame_aligned` is sharp for **every** frame, not only for the witness: whatever the function, an
    object of the frame whose alignment is a power of two above 16 is misaligned when %rbp ≡ 16 modulo that alignment
    (witness: %rbp = 16) — which the psABI allows, it only promises a multiple of 16.  So no statement stronger than
    `min(align, 16)` holds for any function that has such an object. -/
theorem C04_finding_overaligned_sharp (body params : List Var) (hwf : ∀ v ∈ body ++ params, 0 ≤ v.size ∧ 0 < v.align)
    (s : Slot) (hs : s ∈ frameSlots body params) (hst : s.stack = false) (k : Nat) (hk : 5 ≤ k) (hal : s.align = 2 ^ k) :
    ∃ rbp : Int, rbp % 16 = 0 ∧ (rbp + s.off) % s.align ≠ 0 := by
  obtain ⟨_, _, _, h⟩ := ChibiVerif.Props.C04.C04_frame_disjoint body params hwf
  obtain ⟨_, _, h3⟩ := (h s hs).2 hst
  refine ⟨16, by decide, ?_⟩
  have hge : (32 : Int) ≤ s.align := by
    obtain ⟨j, rfl⟩ : ∃ j, k = 5 + j := ⟨k - 5, by omega⟩
    have e : (2 : Int) ^ (5 + j) = 32 * 2 ^ j := by rw [Int.pow_add]; rfl
    have : (0 : Int) < 2 ^ j := Int.pow_pos (by decide)
    rw [hal, e]; omega
  rw [Int.add_emod, h3, Int.add_zero, Int.emod_emod_of_dvd _ (Int.dvd_refl _), Int.emod_eq_of_lt (by decide) (by omega)]
  decide

/-- the witness frame is an instance -/
example : (⟨-32, 1, 32, false⟩ : Slot) ∈ frameSlots [⟨1, 32, false, false⟩, ⟨8, 8, false, false⟩] [] := by decide

/-- **what a small repair would give** (sketch; /repo is unchanged, so the finding stands): reserve `size + (A - 16)` bytes
    for an object with alignment `A = 2^k > 16` in a 16-aligned slot at `x` and address it as `(x + (A - 16)) & -A`
    (`lea off(%rbp), reg; add $(A-16), reg; and $-A, reg` at the four places that take a local's address).  Then the object
    is `A`-aligned for every psABI-conforming %rbp and stays inside its slot: -/
theorem C04_repair_overaligned_arith (x A : Int) (k : Nat) (hk : 4 ≤ k) (hA : A = 2 ^ k) (hx : x % 16 = 0) (size : Int) :
    roundDown (x + (A - 16)) A % A = 0 ∧ x ≤ roundDown (x + (A - 16)) A ∧
    roundDown (x + (A - 16)) A + size ≤ x + (size + (A - 16)) :=
  repair_arith x A k hk hA hx size

/-- e.g. `_Alignas(64)` in a slot at 4112 (= 16 mod 64): the object goes to 4160 -/
example : roundDown (4112 + (64 - 16)) 64 = 4160 := by decide

/-! ### limit of alloca: the bound `n < 2^32 - 15` of `C04_alloca_size` is sharp -/
theorem C04_limit_alloca_truncates : allocaSize (BitVec.ofNat 64 (2 ^ 32 - 15)) = 0 ∧ allocaSize (BitVec.ofNat 64 (2 ^ 32 + 1)) = 16 := by
  decide

end ChibiVerif.Findings.C04
