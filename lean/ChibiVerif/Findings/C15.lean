import ChibiVerif.Model.Linkage
import ChibiVerif.Spec.LinkageSpec
namespace ChibiVerif.Findings.C15
end ChibiVerif.Findings.C15
