/-
C15 — kernel-checked witnesses of the known findings (known_findings.json) and of the defects repaired by
`fix:` commits.  Every witness is evaluated in the kernel (`decide`) on the model of the code as it is now.

Known findings (model ≠ Spec on a valid unit, confirmed on the real binary against gcc 12 by checklib/C15.py):
* C15-inline-flags-frozen          `inline int f(void){..} extern inline int f(void);`     no external definition
* C15-static-local-in-dead-inline  static local with an address constant inside an unreferenced static inline
* C15-tentative-composite-size     `int c[]; extern int c[5];`                             size 4 instead of 20
* C15-extern-init-after-static     `static int x; extern int x = 7;`                       emitted GLOBAL
* C15-extern-tls-local-exec        non-PIC `extern _Thread_local` addressed with local exec
-/
import ChibiVerif.Model.Linkage
import ChibiVerif.Spec.LinkageSpec
import ChibiVerif.Lemmas.LinkageLemmas
import ChibiVerif.Props.C15

namespace ChibiVerif.Findings.C15
open ChibiVerif.Linkage
open ChibiVerif.Spec.Linkage
open ChibiVerif.Gen.AddrForms
open ChibiVerif.Props.C15

def intTy : ObjTy := ⟨4, 4, false, false⟩

/-- evaluate a closed statement for each of the sixteen rule sets -/
local macro "all_rules" : tactic =>
  `(tactic| (intro r; obtain ⟨a, b, c, d⟩ := r; cases a <;> cases b <;> cases c <;> cases d <;> decide))

/-- model and Spec disagree on the symbol table of `ds` (both `-fcommon` settings checked separately) -/
def differs [Rules] (fcommon : Bool) (ds : List Decl) : Bool :=
  holdsOn (parseUnit ds) (fun gs =>
    !((objectSymbols fcommon gs).all (fun e => (symbols fcommon ds).contains e) &&
      (symbols fcommon ds).all (fun e => (objectSymbols fcommon gs).contains e)))

/-! Each witness below is a VALID unit inside the region of its finding.  The status theorems are stated for every rule
set: the model differs from the Spec on the witness exactly when the rule that repairs the finding is off.  So the file
keeps checking when a repair lands in /repo (`Rules.asBuilt` is regenerated from the source), and it records both facts:
the finding of the code without the repair, and the agreement of the repaired code. -/

/-! ### C15-inline-flags-frozen -/

/-- `inline int f(void){ }  extern inline int f(void);`   (f = 0) -/
def wInlineFrozen : List Decl :=
  [ .func 0 1 false false true (some []), .func 0 1 false true true none ]

theorem C15_finding_inline_flags_frozen :
    valid wInlineFrozen = true ∧ inlineFrozenFinding wInlineFrozen = true ∧
    -- C11 6.7.4p7: an external definition of f
    symbols true wInlineFrozen = [⟨.named 0, .global, .text, none, 0⟩] ∧
    -- chibicc without the repair: nothing; with it: the Spec's table
    (∀ r : Rules, holdsOn (@parseUnit r wInlineFrozen) (fun gs =>
      objectSymbols true gs == (if r.flagsFollow then [⟨.named 0, .global, .text, none, 0⟩] else [])) = true) :=
  ⟨by decide, by decide, by decide, by all_rules⟩

/-! ### C15-static-local-in-dead-inline -/

/-- `static inline int f(void){ }  static inline int g(void){ static void *p = f; }  int main(void){ }`
    (f = 0, g = 1, main = 2) -/
def wDeadStaticLocal : List Decl :=
  [ .func 0 1 true false true (some []),
    .func 1 1 true false true (some [.staticLocal false ⟨8, 8, false, false⟩ (some [.ref (.fn 0)])]),
    .func 2 4 false false false (some []) ]

theorem C15_finding_static_local_in_dead_inline :
    valid wDeadStaticLocal = true ∧ deadStaticLocalRegion wDeadStaticLocal = true ∧
    deadStaticLocalVisibleRegion wDeadStaticLocal = true ∧
    symbols true wDeadStaticLocal = [⟨.named 2, .global, .text, none, 0⟩] ∧
    -- without the repair the always-emitted anonymous datum mentions f, f is not emitted: `f` becomes an undefined
    -- global symbol; with it the datum is not printed
    (∀ r : Rules, holdsOn (@parseUnit r wDeadStaticLocal) (fun gs =>
      ((objectSymbols true gs).contains ⟨.named 0, .global, .undef, none, 0⟩ == !r.ownedData) &&
      ((emittedUses gs).contains (.named 0) == !r.ownedData) && !liveFn gs 0) = true) :=
  ⟨by decide, by decide, by decide, by decide, by all_rules⟩

/-! ### C15-tentative-composite-size -/

/-- `int c[]; extern int c[5];`   (c = 0) -/
def wCompositeSize : List Decl :=
  [ .obj 0 false false false ⟨4, 4, true, true⟩ none, .obj 0 false true false ⟨20, 4, true, false⟩ none ]

theorem C15_finding_tentative_composite_size :
    valid wCompositeSize = true ∧ compositeSizeRegion wCompositeSize = true ∧
    symbols false wCompositeSize = [⟨.named 0, .global, .bss, some 20, 16⟩] ∧
    (∀ r : Rules, holdsOn (@parseUnit r wCompositeSize) (fun gs => objectSymbols false gs ==
      (if r.compositeFromDecls then [⟨.named 0, .global, .bss, some 20, 16⟩] else [⟨.named 0, .global, .bss, some 4, 4⟩])) = true) :=
  ⟨by decide, by decide, by decide, by all_rules⟩

/-- the repaired part (`fix:` D10): `int a[]; int a[5];` has the composite size -/
theorem C15_fixed_composite_of_tentatives : ∀ r : Rules,
    holdsOn (@parseUnit r [ .obj 0 false false false ⟨4, 4, true, true⟩ none, .obj 0 false false false ⟨20, 4, true, false⟩ none ])
      (fun gs => objectSymbols false gs == [⟨.named 0, .global, .bss, some 20, 16⟩]) = true := by all_rules

/-! ### C15-extern-init-after-static -/

/-- `static int x; extern int x = 7;`   (x = 0) -/
def wExternInit : List Decl :=
  [ .obj 0 true false false intTy none, .obj 0 false true false intTy (some []) ]

theorem C15_finding_extern_init_after_static :
    valid wExternInit = true ∧ externInitAfterStaticRegion wExternInit = true ∧
    symbols true wExternInit = [⟨.named 0, .local, .data, some 4, 4⟩] ∧
    (∀ r : Rules, holdsOn (@parseUnit r wExternInit) (fun gs => objectSymbols true gs ==
      [⟨.named 0, if r.externInherits then .local else .global, .data, some 4, 4⟩]) = true) :=
  ⟨by decide, by decide, by decide, by all_rules⟩

/-! ### what `Spec.valid` excludes beyond the obvious: units that are not C

`valid` used to admit these; the symbol-table theorem carried them as a side condition (`symbolsSide`).  They are now part
of `valid` itself (identifiers are declared at the point of use, C11 6.2.1p7; compatible types, 6.2.7p1/p2); checklib/C15.py
requires that gcc rejects each of them and that no generated unit gcc accepts is invalid. -/

/-- `int main(void){ (void)&x; extern int x; }` (main=0, x=1): use before the block-scope declaration; chibicc - like every
    C compiler - rejects it ("undefined variable"), so there is no output whose symbol table could be compared -/
def wUseBeforeExtern : List Decl :=
  [ .func 0 4 false false false (some [.ref (.obj 1), .externObj 1 false intTy]) ]

theorem C15_side_use_before_block_extern :
    valid wUseBeforeExtern = false ∧ refsOrdered wUseBeforeExtern [] [] = false ∧
    (∀ r : Rules, (match @parseUnit r wUseBeforeExtern with | .error (.undeclared (.obj 1)) => true | _ => false) = true) :=
  ⟨by decide, by decide, by all_rules⟩

/-- `int a[]; struct { int x, y; } a[];` (a=0): two tentative definitions that leave the length open and disagree on
    the element size (not compatible types; gcc: "conflicting types") -/
def wElemSize : List Decl :=
  [ .obj 0 false false false ⟨4, 4, true, true⟩ none, .obj 0 false false false ⟨8, 4, true, true⟩ none ]

theorem C15_side_element_size :
    valid wElemSize = false ∧ (∀ r : Rules, @differs r false wElemSize = true) := ⟨by decide, by all_rules⟩

/-- an object type with alignment 0 (no C type has it) -/
def wAlignZero : List Decl := [ .obj 0 false false false ⟨4, 0, false, false⟩ (some []) ]

theorem C15_side_alignment_zero :
    valid wAlignZero = false ∧ (∀ r : Rules, @differs r true wAlignZero = true) := ⟨by decide, by all_rules⟩

/-- `void f(void){ extern int c[7]; }  int c[];` (f=0, c=1): the block-scope declaration states a length the file-scope
    object (one element, 6.9.2p5) does not have (6.2.7p2: undefined; gcc rejects the same two declarations in the other
    order).  The repaired `scan_globals` would complete the array from it. -/
def wBlockExternLength : List Decl :=
  [ .func 0 1 false false false (some [.externObj 1 false ⟨28, 4, true, false⟩]), .obj 1 false false false ⟨4, 4, true, true⟩ none ]

theorem C15_side_block_extern_length :
    valid wBlockExternLength = false ∧ blockExternsAgree wBlockExternLength = false ∧
    (∀ r : Rules, @differs r false wBlockExternLength = r.compositeFromDecls) := ⟨by decide, by decide, by all_rules⟩

/-! ### the narrowed regions -/

/-- `static int f(void); static inline int f(void);` (never defined): the C11 class (`localIfNeeded`) differs from
    the class of the first declaration (`localAlways`), so the unit lies in `flagsFrozenRegion`; but `f` is not
    defined, the class is never looked at, and the unit is inside the scope of `C15_symbols_partial` -/
def wFrozenDeclOnly : List Decl := [ .func 0 1 true false false none, .func 0 1 true false true none ]

theorem C15_region_frozen_narrowed :
    flagsFrozenRegion wFrozenDeclOnly = true ∧ flagsFrozenDefRegion wFrozenDeclOnly = false ∧
    (∀ r : Rules, @InScope r wFrozenDeclOnly = true) := ⟨by decide, by decide, by all_rules⟩

/-- `int x; static inline int g(void){ static int *p = &x; }  int main(void){ }` (x=0, g=1, main=2): the static local of
    the dead function names an object the unit defines anyway.  Inside `deadStaticLocalRegion`, outside the narrowed
    `deadStaticLocalVisibleRegion`: the always-emitted datum adds a relocation but no symbol, the unit is inside the
    scope of `C15_symbols_partial`, and the tables agree. -/
def wDeadStaticLocalHarmless : List Decl :=
  [ .obj 0 false false false intTy none,
    .func 1 1 true false true (some [.staticLocal false ⟨8, 8, false, false⟩ (some [.ref (.obj 0)])]),
    .func 2 4 false false false (some []) ]

theorem C15_region_dead_static_local_narrowed :
    deadStaticLocalRegion wDeadStaticLocalHarmless = true ∧ deadStaticLocalVisibleRegion wDeadStaticLocalHarmless = false ∧
    (∀ r : Rules, @InScope r wDeadStaticLocalHarmless = true ∧
      @differs r true wDeadStaticLocalHarmless = false ∧ @differs r false wDeadStaticLocalHarmless = false) :=
  ⟨by decide, by decide, by all_rules⟩

/-- every witness of a known finding of the symbol table lies outside `InScope` exactly as long as its rule is off -/
theorem C15_findings_outside_scope : ∀ r : Rules,
    @InScope r wInlineFrozen = r.flagsFollow ∧ @InScope r wDeadStaticLocal = r.ownedData ∧
    @InScope r wCompositeSize = r.compositeFromDecls ∧ @InScope r wExternInit = r.externInherits := by all_rules

/-! ### consequence for the full statement -/

/-- a valid unit on which model and Spec disagree refutes the full statement -/
theorem refutes (r : Rules) {fc : Bool} {w : List Decl} (hv : valid w = true) (hd : @differs r fc w = true) :
    ¬ @C15_symbols_Statement r := by
  intro h
  obtain ⟨gs, hp, hiff⟩ := h fc w hv
  unfold differs at hd
  rw [hp] at hd
  simp only [holdsOn, Bool.not_eq_true', Bool.and_eq_false_iff, List.all_eq_false, List.contains_eq_mem,
    decide_eq_true_eq] at hd
  rcases hd with ⟨e, he, hne⟩ | ⟨e, he, hne⟩
  · exact hne ((hiff e).mp he)
  · exact hne ((hiff e).mpr he)

/-- **the full symbol-table statement fails for every rule set that lacks one of the four repairs** (and holds for the
    one that has them all: `Props.C15.C15_symbols_repaired`) -/
theorem C15_finding_symbols : ∀ r : Rules,
    (r.externInherits && r.flagsFollow && r.compositeFromDecls && r.ownedData) = false → ¬ @C15_symbols_Statement r := by
  intro r
  obtain ⟨a, b, c, d⟩ := r
  cases a <;> cases b <;> cases c <;> cases d <;> intro h
  all_goals first
    | exact absurd h (by decide)
    | exact refutes _ (fc := true) (w := wExternInit) (by decide) (by decide)
    | exact refutes _ (fc := true) (w := wInlineFrozen) (by decide) (by decide)
    | exact refutes _ (fc := false) (w := wCompositeSize) (by decide) (by decide)
    | exact refutes _ (fc := true) (w := wDeadStaticLocal) (by decide) (by decide)

/-! ### C15-extern-tls-local-exec -/

/-- non-PIC, thread-local, not defined by the unit: `gen_addr` prints `mov %fs:0, %rax; add $t@tpoff, %rax` -/
def wExternTls : VarCtx := ⟨false, false, false, true, false, false⟩

/-- local exec is not a valid form for the witness context; the regenerated ladder chooses either local exec (the
    finding: then the context lies in the region) or - once gen_addr is repaired - initial exec, which is valid, and the
    region is empty.  Stated as a disjunction so that the file keeps checking across the repair; which branch holds is
    decided by evaluating the ladder regenerated from codegen.c. -/
theorem C15_finding_extern_tls :
    ctxConsistent wExternTls = true ∧ validForm (refCtxOf wExternTls) .tlsLE = false ∧
    ((addrForm wExternTls = some .tlsLE ∧ externTlsRegion wExternTls = true) ∨
     (addrForm wExternTls = some .tlsIE ∧ externTlsRegion wExternTls = false ∧
      validForm (refCtxOf wExternTls) .tlsIE = true)) := by decide

/-- as long as the ladder chooses local exec in the witness context, the full address-table statement is false -/
theorem C15_finding_addr_table (hle : addrForm wExternTls = some .tlsLE) : ¬ C15_addr_table_Statement := by
  intro h
  obtain ⟨f, hf, hv⟩ := h wExternTls (by decide)
  rw [hle] at hf
  cases hf
  revert hv
  decide

/-! ### repaired defects: the model of the code gives the C11 answer (for every rule set) -/

/-- D1: `int x; int x;` leaves one definition (was: none) -/
theorem C15_fixed_two_tentatives : ∀ r : Rules,
    holdsOn (@parseUnit r [ .obj 0 false false false intTy none, .obj 0 false false false intTy none ])
      (fun gs => objectSymbols true gs == [⟨.named 0, .global, .common, some 4, 4⟩] &&
                 objectSymbols false gs == [⟨.named 0, .global, .bss, some 4, 4⟩]) = true := by all_rules

/-- D3: `_Thread_local int t; _Thread_local int t = 1;` is one definition in .tdata (was: two labels) -/
theorem C15_fixed_tls_tentative : ∀ r : Rules,
    holdsOn (@parseUnit r [ .obj 0 false false true intTy none, .obj 0 false false true intTy (some []) ])
      (fun gs => objectSymbols true gs == [⟨.named 0, .global, .tdata, some 4, 4⟩]) = true := by all_rules

/-- D7: `extern int e = 5;` is a definition -/
theorem C15_fixed_extern_initializer : ∀ r : Rules,
    holdsOn (@parseUnit r [ .obj 0 false true false intTy (some []) ])
      (fun gs => objectSymbols true gs == [⟨.named 0, .global, .data, some 4, 4⟩]) = true := by all_rules

/-- the first C15 fix (is_root recomputed on redeclaration):
    `static inline int f(void); void *p = f; static inline int f(void){ }` emits f -/
theorem C15_fixed_root_survives_redeclaration : ∀ r : Rules,
    holdsOn (@parseUnit r [ .func 0 1 true false true none, .obj 1 false false false ⟨8, 8, false, false⟩ (some [.ref (.fn 0)]),
                         .func 0 1 true false true (some []) ])
      (fun gs => liveFn gs 0 && (emitText gs).map (·.sym) == [.named 0]) = true := by all_rules

/-- the mirror image of C15-inline-flags-frozen (harmless): `static int f(void); static inline int f(void){ }` - the
    unreferenced function is emitted by the code that takes the flags from the first declaration, dropped by the repaired one -/
theorem C15_mirror_static_then_inline : ∀ r : Rules,
    holdsOn (@parseUnit r [ .func 0 1 true false false none, .func 0 1 true false true (some []) ])
      (fun gs => (emitText gs).map (·.sym) == (if r.flagsFollow then [] else [.named 0])) = true := by all_rules

end ChibiVerif.Findings.C15
