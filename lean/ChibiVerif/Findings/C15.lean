/-
C15 — kernel-checked witnesses of the known findings (known_findings.json) and of the defects repaired by
`fix:` commits.  Every witness is evaluated in the kernel (`decide`) on the model of the code as it is now.

Known findings (model ≠ Spec on a valid unit, confirmed on the real binary against gcc 12 by checklib/C15.py):
* C15-inline-flags-frozen          `inline int f(void){..} extern inline int f(void);`     no external definition
* C15-static-local-in-dead-inline  static local with an address constant inside an unreferenced static inline
* C15-tentative-composite-size     `int c[]; extern int c[5];`                             size 4 instead of 20
* C15-extern-init-after-static     `static int x; extern int x = 7;`                       emitted GLOBAL
* C15-extern-tls-local-exec        non-PIC `extern _Thread_local` addressed with local exec
-/
import ChibiVerif.Model.Linkage
import ChibiVerif.Spec.LinkageSpec
import ChibiVerif.Lemmas.LinkageLemmas
import ChibiVerif.Props.C15

namespace ChibiVerif.Findings.C15
open ChibiVerif.Linkage
open ChibiVerif.Spec.Linkage
open ChibiVerif.Gen.AddrForms
open ChibiVerif.Props.C15

def intTy : ObjTy := ⟨4, 4, false, false⟩

/-- model and Spec disagree on the symbol table of `ds` (both `-fcommon` settings checked separately) -/
def differs (fcommon : Bool) (ds : List Decl) : Bool :=
  holdsOn (parseUnit ds) (fun gs =>
    !((objectSymbols fcommon gs).all (fun e => (symbols fcommon ds).contains e) &&
      (symbols fcommon ds).all (fun e => (objectSymbols fcommon gs).contains e)))

/-! ### C15-inline-flags-frozen -/

/-- `inline int f(void){ }  extern inline int f(void);`   (f = 0) -/
def wInlineFrozen : List Decl :=
  [ .func 0 1 false false true (some []), .func 0 1 false true true none ]

theorem C15_finding_inline_flags_frozen :
    valid wInlineFrozen = true ∧ inlineFrozenFinding wInlineFrozen = true ∧
    -- C11 6.7.4p7: an external definition of f
    symbols true wInlineFrozen = [⟨.named 0, .global, .text, none, 0⟩] ∧
    -- chibicc: nothing
    holdsOn (parseUnit wInlineFrozen) (fun gs => objectSymbols true gs == []) = true := by decide

/-! ### C15-static-local-in-dead-inline -/

/-- `static inline int f(void){ }  static inline int g(void){ static void *p = f; }  int main(void){ }`
    (f = 0, g = 1, main = 2) -/
def wDeadStaticLocal : List Decl :=
  [ .func 0 1 true false true (some []),
    .func 1 1 true false true (some [.staticLocal false ⟨8, 8, false, false⟩ (some [.ref (.fn 0)])]),
    .func 2 4 false false false (some []) ]

theorem C15_finding_static_local_in_dead_inline :
    valid wDeadStaticLocal = true ∧ deadStaticLocalRegion wDeadStaticLocal = true ∧
    deadStaticLocalVisibleRegion wDeadStaticLocal = true ∧
    -- the always-emitted anonymous datum mentions f, f is not emitted: `f` becomes an undefined global symbol
    holdsOn (parseUnit wDeadStaticLocal) (fun gs =>
      (objectSymbols true gs).contains ⟨.named 0, .global, .undef, none, 0⟩ &&
      (emittedUses gs).contains (.named 0) && !liveFn gs 0) = true ∧
    symbols true wDeadStaticLocal = [⟨.named 2, .global, .text, none, 0⟩] := by decide

/-! ### C15-tentative-composite-size -/

/-- `int c[]; extern int c[5];`   (c = 0) -/
def wCompositeSize : List Decl :=
  [ .obj 0 false false false ⟨4, 4, true, true⟩ none, .obj 0 false true false ⟨20, 4, true, false⟩ none ]

theorem C15_finding_tentative_composite_size :
    valid wCompositeSize = true ∧ compositeSizeRegion wCompositeSize = true ∧
    symbols false wCompositeSize = [⟨.named 0, .global, .bss, some 20, 16⟩] ∧
    holdsOn (parseUnit wCompositeSize) (fun gs => objectSymbols false gs == [⟨.named 0, .global, .bss, some 4, 4⟩]) = true := by
  decide

/-- the repaired part (`fix:` D10): `int a[]; int a[5];` has the composite size -/
theorem C15_fixed_composite_of_tentatives :
    holdsOn (parseUnit [ .obj 0 false false false ⟨4, 4, true, true⟩ none, .obj 0 false false false ⟨20, 4, true, false⟩ none ])
      (fun gs => objectSymbols false gs == [⟨.named 0, .global, .bss, some 20, 16⟩]) = true := by decide

/-! ### C15-extern-init-after-static -/

/-- `static int x; extern int x = 7;`   (x = 0) -/
def wExternInit : List Decl :=
  [ .obj 0 true false false intTy none, .obj 0 false true false intTy (some []) ]

theorem C15_finding_extern_init_after_static :
    valid wExternInit = true ∧ externInitAfterStaticRegion wExternInit = true ∧
    symbols true wExternInit = [⟨.named 0, .local, .data, some 4, 4⟩] ∧
    holdsOn (parseUnit wExternInit) (fun gs => objectSymbols true gs == [⟨.named 0, .global, .data, some 4, 4⟩]) = true := by
  decide

/-! ### why `C15_symbols_partial` carries the side condition `symbolsSide`

These are not findings about chibicc: they are units that `Spec.valid` admits although they are not C, and on
which the full statement fails for that reason alone. -/

/-- `int main(void){ (void)&x; extern int x; }` (main=0, x=1): `refsDeclared` lets the block-scope `extern` count for
    the whole body; chibicc - like every C compiler - rejects the use before the declaration ("undefined variable"),
    so there is no output whose symbol table could be compared -/
def wUseBeforeExtern : List Decl :=
  [ .func 0 4 false false false (some [.ref (.obj 1), .externObj 1 false intTy]) ]

theorem C15_side_use_before_block_extern :
    valid wUseBeforeExtern = true ∧ InScope wUseBeforeExtern = true ∧ refsOrdered wUseBeforeExtern [] [] = false ∧
    (match parseUnit wUseBeforeExtern with | .error (.undeclared (.obj 1)) => true | _ => false) = true := by decide

/-- `int a[]; struct { int x, y; } a[];` (a=0): two tentative definitions that leave the length open and disagree on
    the element size (not compatible types; gcc: "conflicting types").  The Spec takes the first element size, the
    completed array of chibicc the last. -/
def wElemSize : List Decl :=
  [ .obj 0 false false false ⟨4, 4, true, true⟩ none, .obj 0 false false false ⟨8, 4, true, true⟩ none ]

theorem C15_side_element_size :
    valid wElemSize = true ∧ InScope wElemSize = true ∧ symbolsSide wElemSize = false ∧ differs false wElemSize = true := by
  decide

/-- an object type with alignment 0 (no C type has it): the Spec's `objAlign` starts its maximum at 1 -/
def wAlignZero : List Decl := [ .obj 0 false false false ⟨4, 0, false, false⟩ (some []) ]

theorem C15_side_alignment_zero :
    valid wAlignZero = true ∧ InScope wAlignZero = true ∧ symbolsSide wAlignZero = false ∧ differs true wAlignZero = true := by
  decide

/-! ### the narrowed region -/

/-- `static int f(void); static inline int f(void);` (never defined): the C11 class (`localIfNeeded`) differs from
    the class of the first declaration (`localAlways`), so the unit lies in `flagsFrozenRegion`; but `f` is not
    defined, the class is never looked at, and the unit is inside the scope of `C15_symbols_partial` -/
def wFrozenDeclOnly : List Decl := [ .func 0 1 true false false none, .func 0 1 true false true none ]

theorem C15_region_frozen_narrowed :
    flagsFrozenRegion wFrozenDeclOnly = true ∧ flagsFrozenDefRegion wFrozenDeclOnly = false ∧
    InScope wFrozenDeclOnly = true ∧ symbolsSide wFrozenDeclOnly = true := by decide

/-- `int x; static inline int g(void){ static int *p = &x; }  int main(void){ }` (x=0, g=1, main=2): the static local of
    the dead function names an object the unit defines anyway.  Inside `deadStaticLocalRegion`, outside the narrowed
    `deadStaticLocalVisibleRegion`: the always-emitted datum adds a relocation but no symbol, the unit is inside the
    scope of `C15_symbols_partial`, and the tables agree. -/
def wDeadStaticLocalHarmless : List Decl :=
  [ .obj 0 false false false intTy none,
    .func 1 1 true false true (some [.staticLocal false ⟨8, 8, false, false⟩ (some [.ref (.obj 0)])]),
    .func 2 4 false false false (some []) ]

theorem C15_region_dead_static_local_narrowed :
    deadStaticLocalRegion wDeadStaticLocalHarmless = true ∧ deadStaticLocalVisibleRegion wDeadStaticLocalHarmless = false ∧
    InScope wDeadStaticLocalHarmless = true ∧ symbolsSide wDeadStaticLocalHarmless = true ∧
    differs true wDeadStaticLocalHarmless = false ∧ differs false wDeadStaticLocalHarmless = false := by decide

/-- every witness of a known finding of the symbol table lies outside `InScope` -/
theorem C15_findings_outside_scope :
    InScope wInlineFrozen = false ∧ InScope wDeadStaticLocal = false ∧ InScope wCompositeSize = false ∧
    InScope wExternInit = false := by decide

/-! ### consequence for the full statement -/

/-- the full symbol-table statement does not hold: `wInlineFrozen` is a valid unit on which the model's
    table (empty) differs from the Spec's (a global definition of f) -/
theorem C15_finding_symbols : ¬ C15_symbols_Statement := by
  intro h
  obtain ⟨gs, hp, hiff⟩ := h true wInlineFrozen (by decide)
  have hmem : (⟨.named 0, .global, .text, none, 0⟩ : SymEntry) ∈ symbols true wInlineFrozen := by decide
  have := (hiff _).mpr hmem
  have hgs : parseUnit wInlineFrozen = .ok gs := hp
  have hempty : holdsOn (parseUnit wInlineFrozen) (fun gs => objectSymbols true gs == []) = true := by decide
  rw [hgs] at hempty
  simp only [holdsOn, beq_iff_eq] at hempty
  rw [hempty] at this
  cases this

/-! ### C15-extern-tls-local-exec -/

/-- non-PIC, thread-local, not defined by the unit: `gen_addr` prints `mov %fs:0, %rax; add $t@tpoff, %rax` -/
def wExternTls : VarCtx := ⟨false, false, false, true, false, false⟩

/-- local exec is not a valid form for the witness context; the regenerated ladder chooses either local exec (the
    finding: then the context lies in the region) or - once gen_addr is repaired - initial exec, which is valid, and the
    region is empty.  Stated as a disjunction so that the file keeps checking across the repair; which branch holds is
    decided by evaluating the ladder regenerated from codegen.c. -/
theorem C15_finding_extern_tls :
    ctxConsistent wExternTls = true ∧ validForm (refCtxOf wExternTls) .tlsLE = false ∧
    ((addrForm wExternTls = some .tlsLE ∧ externTlsRegion wExternTls = true) ∨
     (addrForm wExternTls = some .tlsIE ∧ externTlsRegion wExternTls = false ∧
      validForm (refCtxOf wExternTls) .tlsIE = true)) := by decide

/-- as long as the ladder chooses local exec in the witness context, the full address-table statement is false -/
theorem C15_finding_addr_table (hle : addrForm wExternTls = some .tlsLE) : ¬ C15_addr_table_Statement := by
  intro h
  obtain ⟨f, hf, hv⟩ := h wExternTls (by decide)
  rw [hle] at hf
  cases hf
  revert hv
  decide

/-! ### repaired defects: the model of the code as it is now gives the C11 answer -/

/-- D1: `int x; int x;` leaves one definition (was: none) -/
theorem C15_fixed_two_tentatives :
    holdsOn (parseUnit [ .obj 0 false false false intTy none, .obj 0 false false false intTy none ])
      (fun gs => objectSymbols true gs == [⟨.named 0, .global, .common, some 4, 4⟩] &&
                 objectSymbols false gs == [⟨.named 0, .global, .bss, some 4, 4⟩]) = true := by decide

/-- D3: `_Thread_local int t; _Thread_local int t = 1;` is one definition in .tdata (was: two labels) -/
theorem C15_fixed_tls_tentative :
    holdsOn (parseUnit [ .obj 0 false false true intTy none, .obj 0 false false true intTy (some []) ])
      (fun gs => objectSymbols true gs == [⟨.named 0, .global, .tdata, some 4, 4⟩]) = true := by decide

/-- D7: `extern int e = 5;` is a definition -/
theorem C15_fixed_extern_initializer :
    holdsOn (parseUnit [ .obj 0 false true false intTy (some []) ])
      (fun gs => objectSymbols true gs == [⟨.named 0, .global, .data, some 4, 4⟩]) = true := by decide

/-- the first C15 fix (is_root recomputed on redeclaration):
    `static inline int f(void); void *p = f; static inline int f(void){ }` emits f -/
theorem C15_fixed_root_survives_redeclaration :
    holdsOn (parseUnit [ .func 0 1 true false true none, .obj 1 false false false ⟨8, 8, false, false⟩ (some [.ref (.fn 0)]),
                         .func 0 1 true false true (some []) ])
      (fun gs => liveFn gs 0 && (emitText gs).map (·.sym) == [.named 0]) = true := by decide

end ChibiVerif.Findings.C15
