/-
C13 — kernel-checked witnesses on Model/LexTotal.lean.

Repaired defects (the model follows /repo; these show the repaired behaviour, the campaign replays the inputs on the
binary from corpus/C13/regress):
  * `//` in a buffer without newline (paste of `/` `/`, `-DX=//`): was a heap over-read until SIGSEGV  (fix ee6fc96)
  * `"\` and `'\` directly before the terminating NUL: stepped over the NUL                             (fix ee6fc96)
  * bytes `//` NUL newline …: tokens behind the NUL got line 0                                            (fix ee6fc96)
  * `\u000a` became a line break: a one-line file answered with a diagnostic on line 4                    (fix 5bc1be4)
Remaining explicit over-read outcome: convert_universal_chars copies the NUL after a backslash (only in files that
contain a NUL byte; the buffer is longer than the string, so the process is not harmed).
-/
import ChibiVerif.Model.LexTotal

namespace ChibiVerif.Findings.C13
open ChibiVerif.LexTotal

theorem C13_fixed_line_comment_tmp_buffer : scan [47, 47] = .ok 0 := by decide
theorem C13_fixed_string_backslash_tmp_buffer : scan [34, 92] = .diag 1 .unclosedString := by decide
theorem C13_fixed_char_backslash_tmp_buffer : scan [39, 92] = .diag 1 .unclosedChar := by decide
theorem C13_fixed_nul_in_comment : lexFile [47, 47, 0, 10, 105, 110, 116, 32, 122, 32, 61, 32, 59, 10] = .ok 0 := by decide
theorem C13_fixed_ucn_newline :
    lexFile [92, 117, 48, 48, 48, 97, 92, 117, 48, 48, 48, 97, 39] = .diag 2 .unclosedChar := by decide

/-- the `\`-NUL pair of convert_universal_chars (`*q++ = *p++; *q++ = *p++;`) -/
theorem C13_note_nul_after_backslash : lexFile [34, 92, 0, 34, 10] = .overread .universalBackslash := by decide

end ChibiVerif.Findings.C13
