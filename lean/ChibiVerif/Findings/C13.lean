/-
C13 — kernel-checked witnesses on Model/LexTotal.lean of the places where the scanner leaves its text
(the outcome `overread`), and of a diagnostic line that is not a line of the file.  Each is reproduced
on the real binary by checklib/C13.py (signature in brackets).
-/
import ChibiVerif.Model.LexTotal

namespace ChibiVerif.Findings.C13
open ChibiVerif.LexTotal

/-- [signal@tokenize / heap-buffer-overflow tokenize.c `while (*p != '\n') p++`]  The buffer `paste` builds for `/ ## /`
    (and `define_macro` for `-DX=//`) is `//` without a newline: the scanner runs off its end. -/
theorem C13_finding_line_comment_tmp_buffer : scan [47, 47] = .overread .lineComment := by decide

/-- the hypothesis of `C13_scan_total` is necessary: the same happens for `"\` and `'\` at the end of a buffer -/
theorem C13_finding_string_backslash_tmp_buffer : scan [34, 92] = .overread .stringBackslash := by decide
theorem C13_finding_char_backslash_tmp_buffer : scan [39, 92] = .overread .charBackslash := by decide

/-- [bad-location@line0]  In a FILE the terminating NUL is stepped over only when the file itself contains a NUL byte
    (`C13_lex_no_overread`): `//` NUL newline … — the scan continues in the stale part of the buffer, and the tokens
    found there never get a line number (add_line_numbers stops at the NUL): diagnostics say line 0. -/
theorem C13_finding_nul_in_comment : lexFile [47, 47, 0, 10, 105, 110, 116, 32, 122, 32, 61, 32, 59, 10] = .overread .lineComment := by
  decide

/-- `"\` NUL and `'\` NUL: convert_universal_chars is the first to copy the NUL as the second half of a pair -/
theorem C13_finding_nul_after_backslash : lexFile [34, 92, 0, 34, 10] = .overread .universalBackslash := by decide

/-- [bad-location@beyond-eof]  convert_universal_chars turns `\u000a` into a newline: the one-line file `\u000a\u000a'`
    is answered with "unclosed char literal" on line 4 (and `\u000a#error` becomes a directive).  So the last line of
    the text is not bounded by the lines of the file: `C13_text_lines` stops before this pass. -/
theorem C13_finding_ucn_newline :
    lexFile [92, 117, 48, 48, 48, 97, 92, 117, 48, 48, 48, 97, 39] = .diag 4 .unclosedChar ∧
    terminators (readFile [92, 117, 48, 48, 48, 97, 92, 117, 48, 48, 48, 97, 39]) = 1 := by decide

end ChibiVerif.Findings.C13
