/-
C20 — kernel-checked witnesses.

* `C20_finding_empty_struct_arg` (known finding `C20-empty-struct-arg`): the full statement
  `C20_expr_Statement` is FALSE on the current code.  Witness: the call `g(e, 3)` with `e` of the GNU
  empty struct type (size 0): `push_struct` pushes `align_to(0, 8) / 8 = 0` slots but the
  register-loading loop of the ND_FUNCALL arm pops one GP register for the argument, so `depth`
  ends at −1 (on the real compiler: `emit_text: Assertion 'depth == 0' failed`).
* `C20_finding_jump_out_of_stmt_expr` (known finding `C20-jump-out-of-stmt-expr`): the full statement
  `C20_function_Statement` is FALSE on the current code.  Witness: `for (;;) { n = ({ continue; 2; }); }`:
  the assignment has pushed the address of `n` when the `continue` (a plain `jmp`) leaves the
  statement expression, so the loop's continue label is reached at two different stack heights —
  every such `continue` leaks 8 bytes.
* `C20_fixed_*`: the two defects repaired by /repo commit 5874e28, replayed on the model: with the
  old arms the effect is wrong, with the current arms it is right.
-/
import ChibiVerif.Props.C20

namespace ChibiVerif.Findings.C20
open ChibiVerif ChibiVerif.Codegen ChibiVerif.Effect ChibiVerif.Asm ChibiVerif.Ast
open ChibiVerif.Lemmas.C20 ChibiVerif.C20Scope ChibiVerif.Props.C20

def tInt : Ty := ⟨0, .int, 4, 4, false, false, -1, 0, -1, false, false, false, -1, [], []⟩
def tLD : Ty := { tInt with id := 1, kind := .ldouble, size := 16, align := 16 }
def tEmpty : Ty := { tInt with id := 2, kind := .struct, size := 0, align := 1 }
def tFn : Ty := { tInt with id := 3, kind := .func, size := 1, align := 1, returnTy := 0 }
def vX : Var := ⟨0, some "x", some tLD, 16, true, false, false, false, false, false, false, false, false⟩
def vE : Var := ⟨1, some "e", some tEmpty, 1, true, false, false, false, false, false, false, false, false⟩
def vG : Var := ⟨2, some "g", some tFn, 1, false, true, true, false, false, false, false, true, true⟩
def env0 : Env := { fpic := false, types := [tInt, tLD, tEmpty, tFn], offsets := [(0, -16), (1, -17)] }

def outOf (r : Except String (Unit × St × List Line)) : Option (List Line) :=
  match r with
  | .ok (_, _, ls) => some ls
  | .error _ => none

def depthOf (r : Except String (Unit × St × List Line)) : Option Int :=
  match r with
  | .ok (_, s, _) => some s.depth
  | .error _ => none

/-- `g(e, 3)` with `struct E {} e;` -/
def emptyCall : Node :=
  .funcall ⟨some tInt, 1, 3⟩ (.var ⟨some tFn, 1, 3⟩ (some vG)) 3 none
    (.cons (.var ⟨some tEmpty, 1, 3⟩ (some vE)) (.cons (.num ⟨some tInt, 1, 3⟩ 3 0 0 0 0) .nil))

/-- the region of the known finding: a struct/union argument of size 0 -/
def emptyStructArg : Node → Bool
  | .funcall _ _ _ _ args => args.toList.any fun a =>
      match a.ty? with
      | some t => (t.kind == .struct || t.kind == .union) && t.size == 0
      | none => false
  | _ => false

theorem emptyCall_in_region : emptyStructArg emptyCall = true := by decide
theorem emptyCall_typed : typedE env0 emptyCall = true := by decide
theorem emptyCall_depth : depthOf (genExpr env0 emptyCall {}) = some (-1) := by decide

/-- **Known finding C20-empty-struct-arg**: the full statement of C20 does not hold. -/
theorem C20_finding_empty_struct_arg : ¬ C20_expr_Statement := by
  intro h
  have hd := emptyCall_depth
  cases hres : genExpr env0 emptyCall {} with
  | error e => rw [hres] at hd; simp [depthOf] at hd
  | ok r =>
    obtain ⟨⟨⟩, s', ls⟩ := r
    have := (h env0 emptyCall emptyCall_typed {} s' ls hres).2
    rw [hres] at hd
    simp only [depthOf, Option.some.injEq] at hd
    rw [hd] at this
    exact absurd this (by decide)

/-! ### jump out of a statement expression under a pending push -/

def vN : Var := ⟨0, some "n", some tInt, 4, true, false, false, false, false, false, false, false, false⟩
def vAB : Var := ⟨1, some "__alloca_size__", some { tInt with id := 4, kind := .ptr, size := 8, align := 8, base := 0 },
  8, true, false, false, false, false, false, false, false, false⟩
def tFnV : Ty := { tInt with id := 3, kind := .func, size := 1, align := 1, returnTy := 0 }
def i0 : NInfo := ⟨none, 1, 1⟩
def iI : NInfo := ⟨some tInt, 1, 1⟩

/-- `for (;;) { n = ({ continue; 2; }); }` (`continue` is `goto .L..2`, the loop's continue label) -/
def leakBody : Node :=
  .for_ i0 .null .null .null
    (.exprStmt i0 (.assign iI (.var iI (some vN))
      (.stmtExpr iI (.cons (.goto_ i0 none (some ".L..2")) (.cons (.exprStmt i0 (.num iI 2 0 0 0 0)) .nil)))))
    (some ".L..1") (some ".L..2")

def leakFn : Obj :=
  { v := ⟨2, some "f", some tFnV, 1, false, true, true, false, false, false, false, true, true⟩,
    initData := none, rels := [], params := [], locals := [vN, vAB], vaArea := none,
    allocaBottom := some vAB, body := leakBody }

def leakProg : Program :=
  { fpic := false, fcommon := true, baseFile := none, files := [], prog := [leakFn],
    types := [tInt, tLD, tEmpty, tFnV], vlaLens := [] }

def leakEnv : Env :=
  { fpic := false, types := [tInt, tLD, tEmpty, tFnV], fnName := some "f", retTy := some tInt, params := [],
    allocaBottom := some vAB, offsets := [(1, -16), (0, -4)] }

/-- the region of the known finding: a `goto` (break / continue / goto) directly inside a statement
    expression (conservative: the jump may also stay inside) -/
def jumpInStmtExpr : NodeList → Bool
  | .nil => false
  | .cons (.goto_ _ _ _) _ => true
  | .cons _ rest => jumpInStmtExpr rest

theorem leak_env : fnEnv leakProg leakFn = .ok (leakEnv, 16) := by
  have h : (match fnEnv leakProg leakFn with
      | .ok (e, k) => decide (e = leakEnv ∧ k = 16)
      | .error _ => false) = true := by decide
  cases hf : fnEnv leakProg leakFn with
  | error e => rw [hf] at h; simp at h
  | ok r =>
    obtain ⟨e, k⟩ := r
    rw [hf] at h
    simp only [decide_eq_true_eq] at h
    rw [h.1, h.2]

theorem leak_typed : typedS leakEnv leakBody = true := by decide

def isErr : Except String Unit → Bool
  | .error _ => true
  | .ok _ => false

/-- `Effect.checkBody` rejects the code of the witness ("fall-through into .L..2 at (rsp 0), label is
    at (rsp -8)") -/
theorem leak_check : (outOf (genStmt leakEnv leakBody {})).map (fun ls => isErr (checkBody ls)) = some true := by
  decide

/-- **Known finding C20-jump-out-of-stmt-expr**: a function whose code does not have one stack height
    per label. -/
theorem C20_finding_jump_out_of_stmt_expr : ¬ C20_function_Statement := by
  intro h
  have hc := leak_check
  cases hres : genStmt leakEnv leakBody {} with
  | error e => rw [hres] at hc; simp [outOf] at hc
  | ok r =>
    obtain ⟨⟨⟩, s', ls⟩ := r
    have := (h leakProg leakFn leakEnv 16 leak_env leak_typed {} s' ls hres).1
    rw [hres] at hc
    simp only [outOf, Option.map_some, Option.some.injEq] at hc
    rw [this] at hc
    cases hc

/-! ### repaired by 5874e28 ("keep the x87 register stack balanced") -/

/-- `x;` for `long double x` -/
def ldStmt : Node := .exprStmt ⟨none, 1, 2⟩ (.var ⟨some tLD, 1, 2⟩ (some vX))

/-- before the fix ND_EXPR_STMT was `gen_expr(node->lhs)` alone: one x87 register leaked per
    discarded long double value -/
theorem C20_fixed_discard_old :
    (outOf (genExpr env0 (.var ⟨some tLD, 1, 2⟩ (some vX)) {})).map delta = some (some ⟨0, 1⟩) := by
  decide

/-- now: `gen_expr(node->lhs); discard(node->lhs->ty)` -/
theorem C20_fixed_discard_new : (outOf (genStmt env0 ldStmt {})).map delta = some (some ⟨0, 0⟩) := by
  decide

/-- before the fix `store` ended in `fstpt (%rdi)` for a long double: the value of the assignment
    expression was popped (`a = b = c` then stored an empty register) -/
theorem C20_fixed_store_old :
    delta [ins1 "pop" (.r "%rdi"), ins1 "fstpt" (.m0 "%rdi")] = some ⟨8, -1⟩ := by
  decide

/-- now `fstpt (%rdi); fldt (%rdi)`: the value stays -/
theorem C20_fixed_store_new : (outOf (store (some tLD) {})).map delta = some (some ⟨8, 0⟩) := by
  decide

end ChibiVerif.Findings.C20
