/-
C20 — kernel-checked witnesses.

* `C20_fixed_empty_struct_*` (was known finding `C20-empty-struct-arg`, repaired by /repo b298aee): the call
  `g(e, 3)` with `e` of the GNU empty struct type (size 0).  Before the repair `struct_in_regs`
  answered "one SSE register" for zero bytes (`structClsE`, the old answer, still says so):
  `push_struct` pushed `align_to(0, 8) / 8 = 0` slots but the register-loading loop popped one register
  and `depth` ended at −1 (`emit_text: Assertion 'depth == 0' failed`).  Now `struct_in_regs` answers
  "no register" for size 0 and the loop skips the argument: `depth` is back at 0 and the code is balanced.
* `C20_finding_jump_out_of_stmt_expr` (known finding `C20-jump-out-of-stmt-expr`): the full statement
  `C20_function_Statement` is FALSE on the current code.  Witness: `for (;;) { n = ({ continue; 2; }); }`:
  the assignment has pushed the address of `n` when the `continue` (a plain `jmp`) leaves the
  statement expression, so the loop's continue label is reached at two different stack heights —
  every such `continue` leaks 8 bytes.
* `C20_finding_x87_depth_overflow` (known finding `C20-x87-depth-overflow`): `a+(a+(a+(a+(a+(a+(a+(a+a)))))))`
  with nine long double operands: `gen_expr` keeps the left operand of every `+` on the x87 register
  stack while it evaluates the right one, so the ninth `fldt` finds all eight registers occupied
  (stack overflow: the result is NaN where gcc computes 9.0).  On the model: the code is balanced
  (one height per label, `verifyL` passes: the label-height theorems apply) but its x87 depth
  reaches 9, which `Effect.checkBody` rejects — `C20_function_Statement` is false.  Region:
  `x87Deep` (Model/C20Flow.lean): the evaluation needs more than eight x87 registers.
* `C20_checker_incomplete_repaired`: `checkBody` used to infer label heights in three passes; a chain
  of five labels that are only reached backwards needs four — a latent false alarm of the check, not a
  defect of the compiler.  `checkBody` now iterates to a fixpoint and is proved complete
  (`C20_checkBody_complete`); the witness shows the old verdict and the new one.
* `C20_treeDistinct_needed`: the one hypothesis of the label-height theorems beyond typing and scope —
  the parser's labels of the tree are pairwise distinct — cannot be dropped.
* `C20_fixed_*`: the two defects repaired by /repo commit 5874e28, replayed on the model: with the
  old arms the effect is wrong, with the current arms it is right.
-/
import ChibiVerif.Props.C20

namespace ChibiVerif.Findings.C20
open ChibiVerif ChibiVerif.Codegen ChibiVerif.Effect ChibiVerif.Asm ChibiVerif.Ast
open ChibiVerif.Lemmas.C20 ChibiVerif.C20Scope ChibiVerif.Props.C20

def tInt : Ty := ⟨0, .int, 4, 4, false, false, -1, 0, -1, false, false, false, -1, [], []⟩
def tLD : Ty := { tInt with id := 1, kind := .ldouble, size := 16, align := 16 }
def tEmpty : Ty := { tInt with id := 2, kind := .struct, size := 0, align := 1 }
def tFn : Ty := { tInt with id := 3, kind := .func, size := 1, align := 1, returnTy := 0 }
def vX : Var := ⟨0, some "x", some tLD, 16, true, false, false, false, false, false, false, false, false⟩
def vE : Var := ⟨1, some "e", some tEmpty, 1, true, false, false, false, false, false, false, false, false⟩
def vG : Var := ⟨2, some "g", some tFn, 1, false, true, true, false, false, false, false, true, true⟩
def env0 : Env := { fpic := false, types := [tInt, tLD, tEmpty, tFn], offsets := [(0, -16), (1, -17)] }

def outOf (r : Except String (Unit × St × List Line)) : Option (List Line) :=
  match r with
  | .ok (_, _, ls) => some ls
  | .error _ => none

def depthOf (r : Except String (Unit × St × List Line)) : Option Int :=
  match r with
  | .ok (_, s, _) => some s.depth
  | .error _ => none

/-- `g(e, 3)` with `struct E {} e;` -/
def emptyCall : Node :=
  .funcall ⟨some tInt, 1, 3⟩ (.var ⟨some tFn, 1, 3⟩ (some vG)) 3 none
    (.cons (.var ⟨some tEmpty, 1, 3⟩ (some vE)) (.cons (.num ⟨some tInt, 1, 3⟩ 3 0 0 0 0) .nil))

/-- the shape the repaired defect needed: a struct/union argument of size 0 -/
def emptyStructArg : Node → Bool
  | .funcall _ _ _ _ args => args.toList.any fun a =>
      match a.ty? with
      | some t => (t.kind == .struct || t.kind == .union) && t.size == 0
      | none => false
  | _ => false

theorem emptyCall_in_region : emptyStructArg emptyCall = true := by decide
theorem emptyCall_typed : typedE env0 emptyCall = true := by decide

/-- before b298aee: `struct_in_regs` counted one SSE register for an aggregate of no bytes (`has_flonum` is vacuously true of it)
    (the classification without the size-0 guard), so the register-loading loop popped a register that
    `push_struct` had not pushed -/
theorem C20_fixed_empty_struct_old : (structClsE env0 tEmpty).toOption = some (0, 1) := by decide

/-- now: no register, no stack slot; the call is in the scope of the theorems (`covE`, `flowE`), `depth`
    returns to where it was and the code is straight-line with effect (0, 0) -/
theorem C20_fixed_empty_struct_new :
    (structInRegsE env0 tEmpty 0 0).toOption = some (true, 0, 0) ∧ covE env0 emptyCall = true ∧ flowE emptyCall = true ∧
    depthOf (genExpr env0 emptyCall {}) = some 0 ∧
    (outOf (genExpr env0 emptyCall {})).map delta = some (some ⟨0, 0⟩) := by
  decide

/-! ### jump out of a statement expression under a pending push -/

def vN : Var := ⟨0, some "n", some tInt, 4, true, false, false, false, false, false, false, false, false⟩
def vAB : Var := ⟨1, some "__alloca_size__", some { tInt with id := 4, kind := .ptr, size := 8, align := 8, base := 0 },
  8, true, false, false, false, false, false, false, false, false⟩
def tFnV : Ty := { tInt with id := 3, kind := .func, size := 1, align := 1, returnTy := 0 }
def i0 : NInfo := ⟨none, 1, 1⟩
def iI : NInfo := ⟨some tInt, 1, 1⟩

/-- `for (;;) { n = ({ continue; 2; }); }` (`continue` is `goto .L..2`, the loop's continue label) -/
def leakBody : Node :=
  .for_ i0 .null .null .null
    (.exprStmt i0 (.assign iI (.var iI (some vN))
      (.stmtExpr iI (.cons (.goto_ i0 none (some ".L..2")) (.cons (.exprStmt i0 (.num iI 2 0 0 0 0)) .nil)))))
    (some ".L..1") (some ".L..2")

def leakFn : Obj :=
  { v := ⟨2, some "f", some tFnV, 1, false, true, true, false, false, false, false, true, true⟩,
    initData := none, rels := [], params := [], locals := [vN, vAB], vaArea := none,
    allocaBottom := some vAB, body := leakBody }

def leakProg : Program :=
  { fpic := false, fcommon := true, baseFile := none, files := [], prog := [leakFn],
    types := [tInt, tLD, tEmpty, tFnV], vlaLens := [] }

def leakEnv : Env :=
  { fpic := false, types := [tInt, tLD, tEmpty, tFnV], fnName := some "f", retTy := some tInt, params := [],
    allocaBottom := some vAB, offsets := [(1, -16), (0, -4)] }

/-- the region of the known finding: a `goto` (break / continue / goto) directly inside a statement
    expression (conservative: the jump may also stay inside) -/
def jumpInStmtExpr : NodeList → Bool
  | .nil => false
  | .cons (.goto_ _ _ _) _ => true
  | .cons _ rest => jumpInStmtExpr rest

theorem leak_env : fnEnv leakProg leakFn = .ok (leakEnv, 16) := by
  have h : (match fnEnv leakProg leakFn with
      | .ok (e, k) => decide (e = leakEnv ∧ k = 16)
      | .error _ => false) = true := by decide
  cases hf : fnEnv leakProg leakFn with
  | error e => rw [hf] at h; simp at h
  | ok r =>
    obtain ⟨e, k⟩ := r
    rw [hf] at h
    simp only [decide_eq_true_eq] at h
    rw [h.1, h.2]

theorem leak_typed : typedS leakEnv leakBody = true := by decide

def isErr : Except String Unit → Bool
  | .error _ => true
  | .ok _ => false

/-- `Effect.checkBody` rejects the code of the witness ("fall-through into .L..2 at (rsp 0), label is
    at (rsp -8)") -/
theorem leak_check : (outOf (genStmt leakEnv leakBody {})).map (fun ls => isErr (checkBody ls)) = some true := by
  decide

/-- **Known finding C20-jump-out-of-stmt-expr**: a function whose code does not have one stack height
    per label. -/
theorem C20_finding_jump_out_of_stmt_expr : ¬ C20_function_Statement := by
  intro h
  have hc := leak_check
  cases hres : genStmt leakEnv leakBody {} with
  | error e => rw [hres] at hc; simp [outOf] at hc
  | ok r =>
    obtain ⟨⟨⟩, s', ls⟩ := r
    have := (h leakProg leakFn leakEnv 16 leak_env leak_typed {} s' ls hres).1
    rw [hres] at hc
    simp only [outOf, Option.map_some, Option.some.injEq] at hc
    rw [this] at hc
    cases hc

/-! ### more long double values live than the x87 stack has registers -/

def ldVar : Node := .var ⟨some tLD, 1, 2⟩ (some vX)

/-- `x + (x + (… + x))` with `n + 1` long double operands -/
def deep : Nat → Node
  | 0 => ldVar
  | n + 1 => .binop ⟨some tLD, 1, 2⟩ .add ldVar (deep n)

def deepBody : Node := .exprStmt i0 (deep 8)

def deepFn : Obj :=
  { v := ⟨2, some "f", some tFnV, 1, false, true, true, false, false, false, false, true, true⟩,
    initData := none, rels := [], params := [], locals := [vX, vAB], vaArea := none,
    allocaBottom := some vAB, body := deepBody }

def deepProg : Program :=
  { fpic := false, fcommon := true, baseFile := none, files := [], prog := [deepFn],
    types := [tInt, tLD, tEmpty, tFnV], vlaLens := [] }

def deepEnv : Env :=
  { fpic := false, types := [tInt, tLD, tEmpty, tFnV], fnName := some "f", retTy := some tInt, params := [],
    allocaBottom := some vAB, offsets := [(1, -24), (0, -16)] }

theorem deep_env : fnEnv deepProg deepFn = .ok (deepEnv, 32) := by
  have h : (match fnEnv deepProg deepFn with
      | .ok (e, k) => decide (e = deepEnv ∧ k = 32)
      | .error _ => false) = true := by decide
  cases hf : fnEnv deepProg deepFn with
  | error e => rw [hf] at h; simp at h
  | ok r =>
    obtain ⟨e, k⟩ := r
    rw [hf] at h
    simp only [decide_eq_true_eq] at h
    rw [h.1, h.2]

theorem deep_typed : typedS deepEnv deepBody = true := by decide
/-- the witness is inside the scope of the label-height theorems … -/
theorem deep_in_scope : flowFn deepEnv deepBody = true := by decide
/-- … and in the region of the finding: nine registers needed; with eight operands, eight -/
theorem deep_region : x87Need (deep 8) = 9 ∧ x87Deep deepBody = true ∧ x87Deep (deep 7) = false := by decide

/-- `Effect.checkBody` rejects the code of the witness ("height out of range: rsp 0, x87 9"), accepts the
    same expression with eight operands, and the label-height check alone (`verifyL`) accepts both -/
theorem deep_check :
    (outOf (genStmt deepEnv deepBody {})).map (fun ls => (isErr (checkBody ls), isErr (verifyL [] (steps ls) (some H.zero))))
      = some (true, false) ∧
    (outOf (genExpr deepEnv (deep 7) {})).map (fun ls => isErr (checkBody ls)) = some false := by
  decide

/-- **Known finding C20-x87-depth-overflow**: a function whose code needs nine x87 registers. -/
theorem C20_finding_x87_depth_overflow : ¬ C20_function_Statement := by
  intro h
  have hc := deep_check.1
  cases hres : genStmt deepEnv deepBody {} with
  | error e => rw [hres] at hc; simp [outOf] at hc
  | ok r =>
    obtain ⟨⟨⟩, s', ls⟩ := r
    have := (h deepProg deepFn deepEnv 32 deep_env deep_typed {} s' ls hres).1
    rw [hres] at hc
    simp only [outOf, Option.map_some, Option.some.injEq, Prod.mk.injEq] at hc
    rw [this] at hc
    cases hc.1

/-! ### the executable check was incomplete (not a defect of the compiler; repaired in the check) -/

/-- `goto A; D: goto E; C: goto D; B: goto C; A: goto B; E:` as a control-flow skeleton: balanced (every
    label at height 0), but three inference passes give `E` no height -/
def chainSteps : List Step :=
  [.jump "A", .label "D", .jump "E", .label "C", .jump "D", .label "B", .jump "C", .label "A", .jump "B", .label "E"]

/-- a latent false alarm of the check, repaired: with three inference passes (`inferN 3`, the checker
    as it was) the balanced skeleton is rejected; the fixpoint iteration (`inferred`, what `checkBody`
    runs now; complete by `C20_checkBody_complete`) accepts it -/
theorem C20_checker_incomplete_repaired :
    isErr (verify (inferN 3 chainSteps []) chainSteps (some H.zero)) = true ∧
    isErr (verifyL [("A", H.zero), ("B", H.zero), ("C", H.zero), ("D", H.zero), ("E", H.zero)] chainSteps
      (some H.zero)) = false ∧
    isErr (verify (inferred chainSteps) chainSteps (some H.zero)) = false := by
  decide

/-! ### the hypothesis `treeDistinct` of the label-height theorems is needed -/

/-- `for (;;) break;` with the labels `.L..1` (break) and `.L..2` (continue) -/
def dupLoop : Node := .for_ i0 .null .null .null (.goto_ i0 none (some ".L..1")) (some ".L..1") (some ".L..2")

/-- a tree `parse.c` never builds — two loops carry the same labels, one of them inside a statement
    expression that is evaluated under a pending push: `for (;;) break; n = ({ for (;;) break; 2; });` -/
def dupBody : Node :=
  .block i0 (.cons dupLoop (.cons
    (.exprStmt i0 (.assign iI (.var iI (some vN))
      (.stmtExpr iI (.cons dupLoop (.cons (.exprStmt i0 (.num iI 2 0 0 0 0)) .nil))))) .nil))

/-- The tree is well typed and inside the scope `flowFn` (every jump targets a label of its own
    region), only `treeDistinct` fails — and the conclusion of `C20_function_flow_partial` fails with
    it: the label `.L..1` is reached at rsp 0 and at rsp −8, so no labelling exists.  (The inferred
    labelling is as good as any: `verifyL_inferred`.) -/
theorem C20_treeDistinct_needed :
    typedS leakEnv dupBody = true ∧ flowFn leakEnv dupBody = true ∧ treeDistinct dupBody = false ∧
    ∀ s' ls, genStmt leakEnv dupBody {} = .ok ((), s', ls) → ¬ FnBalanced ls := by
  refine ⟨by decide, by decide, by decide, ?_⟩
  intro s' ls hg hb
  obtain ⟨lab, hv⟩ := hb
  have h1 := verifyL_inferred (steps ls) lab hv
  have hc : (outOf (genStmt leakEnv dupBody {})).map
      (fun ls => isErr (verifyL (inferred (steps ls)) (steps ls) (some H.zero))) = some true := by decide
  rw [hg] at hc
  simp only [outOf, Option.map_some, Option.some.injEq] at hc
  rw [h1] at hc
  cases hc

/-! ### repaired by 5874e28 ("keep the x87 register stack balanced") -/

/-- `x;` for `long double x` -/
def ldStmt : Node := .exprStmt ⟨none, 1, 2⟩ (.var ⟨some tLD, 1, 2⟩ (some vX))

/-- before the fix ND_EXPR_STMT was `gen_expr(node->lhs)` alone: one x87 register leaked per
    discarded long double value -/
theorem C20_fixed_discard_old :
    (outOf (genExpr env0 (.var ⟨some tLD, 1, 2⟩ (some vX)) {})).map delta = some (some ⟨0, 1⟩) := by
  decide

/-- now: `gen_expr(node->lhs); discard(node->lhs->ty)` -/
theorem C20_fixed_discard_new : (outOf (genStmt env0 ldStmt {})).map delta = some (some ⟨0, 0⟩) := by
  decide

/-- before the fix `store` ended in `fstpt (%rdi)` for a long double: the value of the assignment
    expression was popped (`a = b = c` then stored an empty register) -/
theorem C20_fixed_store_old :
    delta [ins1 "pop" (.r "%rdi"), ins1 "fstpt" (.m0 "%rdi")] = some ⟨8, -1⟩ := by
  decide

/-- now `fstpt (%rdi); fldt (%rdi)`: the value stays -/
theorem C20_fixed_store_new : (outOf (store (some tLD) {})).map delta = some (some ⟨8, 0⟩) := by
  decide

end ChibiVerif.Findings.C20
