/-
C06 — kernel-checked witnesses (evaluation in the kernel, `decide`) of the known findings of known_findings.json, and of
one defect that was repaired in /repo (the model follows the repaired code; the pre-fix behaviour is kept here).

Each known finding is a signature on which the model of chibicc (`callerAssign` / `calleeAssign` / `calleeVa`) differs from
the psABI (`Spec.PsABI`); the check replays the same signatures on the real binary against gcc and clang on every run.
-/
import ChibiVerif.Model.CallConv
import ChibiVerif.Spec.PsABI
import ChibiVerif.Spec.CallRegions
import ChibiVerif.Lemmas.CallConvLemmas
import ChibiVerif.Props.C06

namespace ChibiVerif.Findings.C06
open ChibiVerif.CallConv
open ChibiVerif.Spec
open ChibiVerif.Props.C06

deriving instance DecidableEq for Except

def int4 : ATy := .int 4 false false
def long8 : ATy := .int 8 false false

/-- `struct { long double x; }` -/
def structLd : ATy := .agg false 16 16 (.cons 0 .ldbl .nil)
/-- `struct { _Alignas(16) int x; }` -/
def structA16 : ATy := .agg false 16 16 (.cons 0 int4 .nil)
/-- `struct __attribute__((packed)) { char c; double d; }` -/
def structPacked : ATy := .agg false 9 1 (.cons 0 (.int 1 false false) (.cons 1 .dbl .nil))
/-- `struct { long a; }` -/
def structL : ATy := .agg false 8 8 (.cons 0 long8 .nil)

def fixedSig (ret : Option ATy) (ps : List ATy) : Sig := { ret := ret, params := ps, nNamed := ps.length, variadic := false }

/-- C06-struct-with-ldouble, `void f(struct {long double x;}, int)`: chibicc rdi+xmm0 and rsi; psABI: memory and rdi -/
def wLd : Sig := fixedSig none [structLd, int4]
theorem C06_finding_struct_with_ldouble :
    callerAssign wLd = .ok [.regs [.gp 0, .sse 0], .regs [.gp 1]] ∧ PsABI.assign wLd = [.stack 0, .regs [.gp 0]] ∧
    calleeAssign wLd = callerAssign wLd ∧ CallRegions.supported wLd = false ∧
    retCallee (some structLd) = .ok (.regs [.rax, .xmm0]) ∧ PsABI.ret (some structLd) = .regs [.st0] := by decide

/-- C06-ldouble-stack-align, `void g(int ×7, long double)`: the long double at 8(%rsp), the psABI puts it at 16(%rsp) -/
def wAlign : Sig := fixedSig none [int4, int4, int4, int4, int4, int4, int4, .ldbl]
theorem C06_finding_ldouble_stack_align :
    (callerAssign wAlign).map (fun l => l.getLast?) = .ok (some (.stack 8)) ∧ (PsABI.assign wAlign).getLast? = some (.stack 16) ∧
    calleeAssign wAlign = callerAssign wAlign ∧ CallRegions.supported wAlign = false := by decide

/-- C06-padding-eightbyte, `void f(struct {_Alignas(16) int x;}, double d)`: d in xmm1, the psABI says xmm0 -/
def wPad : Sig := fixedSig none [structA16, .dbl]
theorem C06_finding_padding_eightbyte :
    callerAssign wPad = .ok [.regs [.gp 0, .sse 0], .regs [.sse 1]] ∧ PsABI.assign wPad = [.regs [.gp 0], .regs [.sse 0]] ∧
    calleeAssign wPad = callerAssign wPad ∧ CallRegions.supported wPad = false := by decide

/-- C06-packed-unaligned-param, `void f(struct __attribute__((packed)) {char c; double d;}, int)`: the prologue reaches
    `unreachable()` in store_fp (size 1); the caller passes rdi+xmm0, the psABI memory -/
def wPacked : Sig := fixedSig none [structPacked, int4]
theorem C06_finding_packed_unaligned_param :
    calleeAssign wPacked = .error .storeSize ∧ callerAssign wPacked = .ok [.regs [.gp 0, .sse 0], .regs [.gp 1]] ∧
    PsABI.assign wPacked = [.stack 0, .regs [.gp 0]] ∧ sizesOk wPacked = false ∧ CallRegions.supported wPacked = false := by decide

/-- the GNU empty struct as an argument: the second pass pushes nothing, the pop phase pops 8 bytes -/
def wEmpty : Sig := fixedSig none [.agg false 0 1 .nil, int4]
theorem C06_finding_empty_struct : callerAssign wEmpty = .error .stackImbalance ∧ sizesOk wEmpty = false := by decide

/-- C06-va-arg-small-struct, `void f(int n, ...)` called with `(1, (struct {long a;}){..}, 2)`: the struct travels in rsi
    (save area offset 8), `va_arg` reads the overflow area -/
def wVa : Sig := { ret := none, params := [int4, structL, int4], nNamed := 1, variadic := true }
theorem C06_finding_va_arg_small_struct :
    calleeVa wVa = [.overflow 0, .saveArea 8] ∧
    ((PsABI.assign wVa).drop 1).map PsABI.vaLoc = [some (.saveArea 8), some (.saveArea 16)] ∧
    CallRegions.vaSmallStruct wVa = true := by decide

theorem C06_abi_Statement_fails : ¬ C06_abi_Statement := by
  intro h
  have := (h wPad (by decide)).1
  revert this
  decide

theorem C06_va_Statement_fails : ¬ C06_va_Statement := by
  intro h
  have := h wVa (by decide) (by decide) (by decide)
  revert this
  decide

theorem C06_self_Statement_fails : ¬ C06_self_Statement := by
  intro h
  obtain ⟨a, _, h2⟩ := h wPacked
  have : calleeAssign wPacked = .error .storeSize := by decide
  rw [this] at h2
  cases h2

/-! ### repaired in /repo: `copy_struct_mem` left rax = address of the callee's own object (fix 658c008)

The caller takes the value of a call that returns a struct of more than 16 bytes from the address in rax; before the
fix the callee did not return the hidden pointer there. -/

def retCalleeOld : Option ATy → Except Abort RetLoc
  | some (.agg _ sz _ _) => if sz ≤ 16 then .ok (.regs []) else .ok (.memory false)
  | _ => .ok .void

theorem C06_fixed_sret_rax :
    retCalleeOld (some (.agg false 32 8 .nil)) = .ok (.memory false) ∧
    retCaller (some (.agg false 32 8 .nil)) = .ok (.memory true) ∧
    retCallee (some (.agg false 32 8 .nil)) = .ok (.memory true) ∧
    PsABI.ret (some (.agg false 32 8 .nil)) = .memory true := by decide

end ChibiVerif.Findings.C06
