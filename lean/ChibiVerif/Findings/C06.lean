import ChibiVerif.Model.CallConv
namespace ChibiVerif.Findings.C06
end ChibiVerif.Findings.C06
