/-
C06 — kernel-checked witnesses (evaluation in the kernel, `decide`) of the known findings of known_findings.json, and of
one defect that was repaired in /repo (the model follows the repaired code; the pre-fix behaviour is kept here).

Each known finding is a signature on which the model of chibicc (`callerAssign` / `calleeAssign` / `calleeVa`) differs from
the psABI (`Spec.PsABI`); the check replays the same signatures on the real binary against gcc and clang on every run.
-/
import ChibiVerif.Model.CallConv
import ChibiVerif.Spec.PsABI
import ChibiVerif.Spec.CallRegions
import ChibiVerif.Lemmas.CallConvLemmas
import ChibiVerif.Props.C06
import ChibiVerif.Props.C06Ret

namespace ChibiVerif.Findings.C06
open ChibiVerif.CallConv
open ChibiVerif.Spec
open ChibiVerif.Props.C06

deriving instance DecidableEq for Except

def int4 : ATy := .int 4 false false
def long8 : ATy := .int 8 false false

/-- `struct { long double x; }` -/
def structLd : ATy := .agg false 16 16 (.cons 0 .ldbl .nil)
/-- `struct { _Alignas(16) int x; }` -/
def structA16 : ATy := .agg false 16 16 (.cons 0 int4 .nil)
/-- `struct __attribute__((packed)) { char c; double d; }` -/
def structPacked : ATy := .agg false 9 1 (.cons 0 (.int 1 false false) (.cons 1 .dbl .nil))
/-- `struct { long a; }` -/
def structL : ATy := .agg false 8 8 (.cons 0 long8 .nil)

def fixedSig (ret : Option ATy) (ps : List ATy) : Sig := { ret := ret, params := ps, nNamed := ps.length, variadic := false }

/-- C06-struct-with-ldouble, `void f(struct {long double x;}, int)`: chibicc rdi+xmm0 and rsi; psABI: memory and rdi -/
def wLd : Sig := fixedSig none [structLd, int4]
theorem C06_finding_struct_with_ldouble :
    callerAssign wLd = .ok [.regs [.gp 0, .sse 0], .regs [.gp 1]] ∧ PsABI.assign wLd = [.stack 0, .regs [.gp 0]] ∧
    calleeAssign wLd = callerAssign wLd ∧ CallRegions.supported wLd = false ∧
    retCallee (some structLd) = .ok (.regs [.rax, .xmm0]) ∧ PsABI.ret (some structLd) = .regs [.st0] := by decide

/-- C06-ldouble-stack-align, `void g(int ×7, long double)`: the long double at 8(%rsp), the psABI puts it at 16(%rsp) -/
def wAlign : Sig := fixedSig none [int4, int4, int4, int4, int4, int4, int4, .ldbl]
theorem C06_finding_ldouble_stack_align :
    (callerAssign wAlign).map (fun l => l.getLast?) = .ok (some (.stack 8)) ∧ (PsABI.assign wAlign).getLast? = some (.stack 16) ∧
    calleeAssign wAlign = callerAssign wAlign ∧ CallRegions.supported wAlign = false := by decide

/-- C06-padding-eightbyte, `void f(struct {_Alignas(16) int x;}, double d)`: d in xmm1, the psABI says xmm0 -/
def wPad : Sig := fixedSig none [structA16, .dbl]
theorem C06_finding_padding_eightbyte :
    callerAssign wPad = .ok [.regs [.gp 0, .sse 0], .regs [.sse 1]] ∧ PsABI.assign wPad = [.regs [.gp 0], .regs [.sse 0]] ∧
    calleeAssign wPad = callerAssign wPad ∧ CallRegions.supported wPad = false := by decide

/-- C06-packed-unaligned-param, `void f(struct __attribute__((packed)) {char c; double d;}, int)`: the prologue reaches
    `unreachable()` in store_fp (size 1); the caller passes rdi+xmm0, the psABI memory -/
def wPacked : Sig := fixedSig none [structPacked, int4]
theorem C06_finding_packed_unaligned_param :
    calleeAssign wPacked = .error .storeSize ∧ callerAssign wPacked = .ok [.regs [.gp 0, .sse 0], .regs [.gp 1]] ∧
    PsABI.assign wPacked = [.stack 0, .regs [.gp 0]] ∧ sizesOk wPacked = false ∧ CallRegions.supported wPacked = false := by decide

/-- the GNU empty struct as an argument (repaired in /repo b298aee; it used to be part of C06-packed-unaligned-param): an
    aggregate of size 0 takes no register and no stack slot on either side, as in gcc's and clang's C ABI.  Before the fix
    the second pass pushed nothing for it while the pop phase popped one register (`popOldEmpty`): `assert(depth == 0)`. -/
def emptyStruct : ATy := .agg false 0 1 .nil
def wEmpty : Sig := fixedSig (some emptyStruct) [emptyStruct, int4, .agg true 0 1 .nil, .dbl]
/-- the pop phase before the fix: `has_flonum1` is vacuously true for a struct without members, so one `popf` -/
def popOldEmpty : List Pop := [Pop.fp 0]
theorem C06_fixed_empty_struct :
    callerAssign wEmpty = .ok [.regs [], .regs [.gp 0], .regs [], .regs [.sse 0]] ∧ calleeAssign wEmpty = callerAssign wEmpty ∧
    PsABI.assign wEmpty = [.regs [], .regs [.gp 0], .regs [], .regs [.sse 0]] ∧
    retCaller wEmpty.ret = .ok (.regs []) ∧ retCallee wEmpty.ret = .ok (.regs []) ∧ PsABI.ret wEmpty.ret = .regs [] ∧
    sizesOk wEmpty = true ∧ CallRegions.supported wEmpty = true ∧ popOldEmpty.length ≠ pushSlots emptyStruct := by decide

/-- C06-va-arg-small-struct, `void f(int n, ...)` called with `(1, (struct {long a;}){..}, 2)`: the struct travels in rsi
    (save area offset 8), `va_arg` reads the overflow area -/
def wVa : Sig := { ret := none, params := [int4, structL, int4], nNamed := 1, variadic := true }
theorem C06_finding_va_arg_small_struct :
    calleeVa wVa = [.overflow 0, .saveArea 8] ∧
    ((PsABI.assign wVa).drop 1).map PsABI.vaLoc = [some (.saveArea 8), some (.saveArea 16)] ∧
    CallRegions.vaSmallStruct wVa = true := by decide

theorem C06_abi_Statement_fails : ¬ C06_abi_Statement := by
  intro h
  have := (h wPad (by decide)).1
  revert this
  decide

theorem C06_va_Statement_fails : ¬ C06_va_Statement := by
  intro h
  have := h wVa (by decide) (by decide) (by decide)
  revert this
  decide

theorem C06_self_Statement_fails : ¬ C06_self_Statement := by
  intro h
  obtain ⟨a, _, h2⟩ := h wPacked
  have : calleeAssign wPacked = .error .storeSize := by decide
  rw [this] at h2
  cases h2

/-! ### repaired in /repo: `copy_struct_mem` left rax = address of the callee's own object (fix 658c008)

The caller takes the value of a call that returns a struct of more than 16 bytes from the address in rax; before the
fix the callee did not return the hidden pointer there. -/

def retCalleeOld : Option ATy → Except Abort RetLoc
  | some (.agg _ sz _ _) => if sz ≤ 16 then .ok (.regs []) else .ok (.memory false)
  | _ => .ok .void

theorem C06_fixed_sret_rax :
    retCalleeOld (some (.agg false 32 8 .nil)) = .ok (.memory false) ∧
    retCaller (some (.agg false 32 8 .nil)) = .ok (.memory true) ∧
    retCallee (some (.agg false 32 8 .nil)) = .ok (.memory true) ∧
    PsABI.ret (some (.agg false 32 8 .nil)) = .memory true := by decide

/-! ### argument conversions

Not a defect: the witness that `C06_arg_extension` cannot be strengthened to "the register is the sign extension to 64 bits",
and the witness of what a missing `char → _Bool` conversion would do (the seeded change C06c: same-width integer casts
skipped). -/

section Args
open ChibiVerif.C06Args ChibiVerif.Spec.IntSpec ChibiVerif.Gen.CommonType
open ChibiVerif.C01 (Represents)

/-- a machine state with %rax = 0xdeadbeef_ffffff80: the `signed char` -128 as `load` / `movsbl` may leave it -/
def garbageState : X86.State :=
  { regs := fun r => if r = .rax then 0xdeadbeef_ffffff80#64 else if r = .rsp then 0x7fff_0000#64 else 0, mem := fun _ => 0 }

/-- `signed char` argument for a `signed char` parameter: no instruction is added, and bits 32..63 of %rdi are whatever was
    in %rax — not the sign extension of the value.  (A callee that reads them is wrong; chibicc's reads `%dil`.) -/
theorem C06_arg_upper_bits_garbage :
    Represents .i8 (garbageState.get .rax) (-128) ∧ argSeq false (some ty_char) ty_char = some [] ∧
    ∃ s', X86.run (passRegSeq [] 0) garbageState = some s' ∧ s'.get .rdi = 0xdeadbeef_ffffff80#64 ∧
      s'.get .rdi ≠ BitVec.ofInt 64 (-128) := by
  refine ⟨⟨by decide, by decide⟩, rfl, ?_⟩
  obtain ⟨s', h1, h2, _⟩ := pass_reg [] 0 (by decide) garbageState garbageState rfl
  refine ⟨s', h1, h2, ?_⟩
  rw [show s'.get .rdi = 0xdeadbeef_ffffff80#64 from h2]
  decide

/-- without the conversion a `char` argument 2 would reach a `_Bool` parameter as the byte 2 (C06c): the C11 value is 1 -/
theorem C06_arg_bool_needs_cast :
    convert .bool 2 = 1 ∧ ¬ Represents .bool 2#64 (convert .bool 2) ∧ Represents .i8 2#64 2 ∧
    argSeq false (some ty_bool) ty_char ≠ some [] := by
  refine ⟨by decide, ?_, ⟨by decide, by decide⟩, by decide⟩
  intro h
  have := h.2
  simp [convert] at this

end Args

/-! ### repaired in /repo: `copy_struct_reg` loaded 8 bytes for the second eightbyte of a 12-byte all-float struct (fix 7826748)

`struct { float a, b, c; }` is returned in xmm0 (a, b) and xmm1 (c).  Before the fix the callee tested `ty->size == 4` where
`copy_ret_buffer` (the caller's side of the same ladder) tests `ty->size == 12`, so it printed `movsd 8(%rdi), %xmm1`: an 8-byte
load of the 4 bytes at offset 8 — the value arrives (low 32 bits of xmm1) but the load reads 4 bytes beyond the object.  The
model follows the repaired code; 16-byte structs whose second eightbyte is all-float keep `movsd`. -/

/-- `struct { float a, b, c; }` -/
def structFFF : ATy := .agg false 12 4 (.cons 0 .flt (.cons 4 .flt (.cons 8 .flt .nil)))
/-- `struct { float a, b; double c; }` -/
def structFFD : ATy := .agg false 16 8 (.cons 0 .flt (.cons 4 .flt (.cons 8 .dbl .nil)))
/-- `struct { double a; float b; }` -/
def structDF : ATy := .agg false 16 8 (.cons 0 .dbl (.cons 8 .flt .nil))

/-- the second-eightbyte load of `copy_struct_reg` before the fix (`if (ty->size == 4)`) -/
def secondLoadOld (sz fp : Nat) : String := if sz = 4 then s!"  movss 8(%rdi), %xmm{fp}" else s!"  movsd 8(%rdi), %xmm{fp}"

theorem C06_fixed_copy_struct_reg_12 :
    copyStructRegLines structFFF = ["  mov %rax, %rdi", "  movsd (%rdi), %xmm0", "  movss 8(%rdi), %xmm1"] ∧
    secondLoadOld structFFF.size 1 = "  movsd 8(%rdi), %xmm1" ∧
    copyRetBufferLines structFFF (-16) = ["  movsd %xmm0, -16(%rbp)", "  movss %xmm1, -8(%rbp)"] ∧
    copyStructRegLines structFFD = ["  mov %rax, %rdi", "  movsd (%rdi), %xmm0", "  movsd 8(%rdi), %xmm1"] ∧
    copyStructRegLines structDF = ["  mov %rax, %rdi", "  movsd (%rdi), %xmm0", "  movsd 8(%rdi), %xmm1"] ∧
    retCallee (some structFFF) = .ok (.regs [.xmm0, .xmm1]) ∧ retCaller (some structFFF) = .ok (.regs [.xmm0, .xmm1]) ∧
    PsABI.ret (some structFFF) = .regs [.xmm0, .xmm1] ∧ PsABI.ret (some structFFD) = .regs [.xmm0, .xmm1] ∧
    PsABI.ret (some structDF) = .regs [.xmm0, .xmm1] := by decide

/-- the pre-fix load of the second eightbyte (8 bytes at offset 8) reaches byte 15 of the 12-byte object; the repaired ladder
    reads bytes 0..11 (`C06_struct_return_bytes`) -/
theorem C06_fixed_copy_struct_reg_12_overread :
    15 ∈ (RetOp.fpLoad 8 8 1).bytes ∧ ¬ (15 < structFFF.size) ∧
    (copyStructRegOps structFFF).flatMap RetOp.bytes = [0, 1, 2, 3, 4, 5, 6, 7, 8, 9, 10, 11] := by decide

/-! ### return values

Not defects: the witness that `C06_return_extension` cannot be strengthened to "%rax is the sign extension to 64 bits" (so a
caller that reads bits 32..63 of an `int` result is wrong; chibicc's never does: `C06_return_caller`), and the witness of what a
missing conversion in `return e;` would do. -/

section Ret
open ChibiVerif.C06Ret ChibiVerif.C06Args ChibiVerif.Spec.IntSpec ChibiVerif.Gen.CommonType
open ChibiVerif.C01 (Represents descr)

/-- %rax = 0x00000000_ffffffff: the `unsigned` 4294967295 as `mov (%rax), %eax` leaves it -/
def uintMaxState : X86.State :=
  { regs := fun r => if r = .rax then 0x00000000_ffffffff#64 else if r = .rbp then 0x7fff_0000#64 else 0, mem := fun _ => 0 }

/-- `int f(void) { return u; }` with `unsigned u = 4294967295`: no instruction is added (`cast(u32, i32)` is empty), %rax
    represents -1 as an `int` (low 32 bits), and bits 32..63 are zero — not the sign extension of -1. -/
theorem C06_return_upper_bits_unspecified :
    Represents .u32 (uintMaxState.get .rax) 4294967295 ∧ retSeq (descr .i32) (descr .u32) = [] ∧ convert .i32 4294967295 = -1 ∧
    ∃ s', X86.run (calleeRetSeq (descr .i32) (descr .u32)) uintMaxState = some s' ∧
      s'.get .rax = 0x00000000_ffffffff#64 ∧ Represents .i32 (s'.get .rax) (-1) ∧ s'.get .rax ≠ BitVec.ofInt 64 (-1) := by
  refine ⟨⟨by decide, by decide⟩, rfl, by decide, ?_⟩
  obtain ⟨s', h1, h2, _⟩ := epilogue_ok uintMaxState
  refine ⟨s', h1, h2, ?_, ?_⟩
  · rw [h2]; exact ⟨by decide, by decide⟩
  · rw [h2]; decide

/-- without the cast `return c;` in a `_Bool` function would hand the caller the byte 2 for `char c = 2`: the C11 value is 1, and
    a gcc caller at -O2 uses the byte as an `int` without masking -/
theorem C06_return_bool_needs_cast :
    convert .bool 2 = 1 ∧ ¬ LowHolds .bool 2#64 (convert .bool 2) ∧ retSeq (descr .bool) (descr .i8) ≠ [] := by
  refine ⟨by decide, ?_, by decide⟩
  intro h
  have := h.2
  simp [convert, ITy.size] at this

end Ret

end ChibiVerif.Findings.C06
