/-
C01 — kernel-checked witnesses.

Known finding C01-bool-postfix-incdec (known_findings.json): postfix `++`/`--` on a `_Bool` operand that is a bit-field
member or `_Atomic`.  For such operands parse.c `new_inc_dec` computes `(T)((x += addend) - addend)`; for `_Bool` the `+=`
saturates through the conversion to `_Bool`, so the subtraction does not give back the old value:
`struct {_Bool b:1;} s = {1}; s.b++` yields 0 (C11 6.5.2.4p2: 1), `s.b--` on 0 yields 1 (C11: 0).  The stored value is
right in both cases.  (Ordinary `_Bool` objects take the temporary route since the fix in /repo and are correct:
`C01_incdec_partial`.)
-/
import ChibiVerif.Props.C01

namespace ChibiVerif.Findings.C01
open ChibiVerif.C01 ChibiVerif.Props.C01 ChibiVerif.Spec.IntSpec

/-- `_Bool` bit-field holding 1, `++`: chibicc's formula gives value 0 (stored 1); C11 gives value 1 (stored 1) -/
theorem C01_witness_bool_postinc :
    chibiPostfix .bool false 1 1 = some (0, 1) ∧ specPostfix .bool 1 1 = some (1, 1) := by decide

/-- `_Bool` bit-field holding 0, `--`: chibicc's formula gives value 1 (stored 1); C11 gives value 0 (stored 1) -/
theorem C01_witness_bool_postdec :
    chibiPostfix .bool false 0 (-1) = some (1, 1) ∧ specPostfix .bool 0 (-1) = some (0, 1) := by decide

/-- the repaired case: an ordinary `_Bool` object -/
theorem C01_repaired_bool_object :
    chibiPostfix .bool true 1 1 = some (1, 1) ∧ chibiPostfix .bool true 0 (-1) = some (0, 1) := by decide

/-- the witness lies in the region the `_partial` theorem excludes -/
theorem C01_witness_in_region : BoolPostfixIncDec .bool false := ⟨rfl, rfl⟩

/-- the full statement fails (so `C01_incdec_partial` cannot be strengthened without a change to new_inc_dec) -/
theorem C01_finding_bool_postfix_incdec : ¬ C01_incdec_Statement := by
  intro h
  have h1 := h .bool false 1 1 (by decide) (Or.inl rfl) (1, 1) (by decide)
  revert h1
  decide

end ChibiVerif.Findings.C01
