import ChibiVerif.Spec.IntSpec
namespace ChibiVerif.Findings.C01
end ChibiVerif.Findings.C01
