/-
C09 — kernel-checked witnesses.  No known finding of C09 is left: both defects of `subst` against C11 6.10.3.2/6.10.3.3
were repaired in /repo, and the witnesses are kept here as a record of the OLD code against the specification and the
present code.

1. REPAIRED (`fix:` 5a15c0f): C09-placemarker.  chibicc had no placemarker.  `#define t(x,y,z) x ## y ## z` with `t(,,)` —
   the standard's own example (6.10.3.5 EXAMPLE 5) — must expand to nothing (placemarker ## placemarker = placemarker,
   again, then the placemarker is removed); the old `subst` (`substLoopOld`, Lemmas/C09Placemarker.lean) stopped with
   "'##' cannot appear at start of macro expansion", and with a token in front of the chain, `a x ## y ## z` with `(,,3)`,
   it silently pasted that token to `3`.  The present `subst` is right on both — and on every C11 replacement list
   (`Props.C09.C09_subst_spec`).
2. REPAIRED (`fix:` 6fecbd6): C09-stringize-backslash-outside-literal.  `quote_string` escaped every `\` and `"` of the
   stringized text; C11 6.10.3.2p2 only those inside string literals and character constants.  `#define str(s) # s` with
   `str(: @\n)` (6.10.3.5 EXAMPLE 4) must give `": @\n"`; the old `subst` gave `": @\\n"`, the present one is right.
3. Why `C09_subst_spec_Statement` (all constructs) is still not a theorem: outside C11 the model and the specification
   (= gcc 12) read the two extensions differently (`statement_fails_outside_C11`).  Latitude, not a finding.

All are evaluated by the kernel (`decide`) on the model and on the specification.
-/
import ChibiVerif.Props.C09
import ChibiVerif.Lemmas.C09Stringize
import ChibiVerif.Lemmas.C09Placemarker
import ChibiVerif.Lemmas.C09PlacemarkerExact

namespace ChibiVerif.Findings.C09
open ChibiVerif.PP ChibiVerif.Props.C09

private def tk (s : String) (k : Kind := .ident) (sp : Bool := false) : Tok := { kind := k, text := s, hasSpace := sp }

/-! ### REPAIRED: C09-placemarker  (`fix:` 5a15c0f in /repo) -/

/-- `subst` of the model BEFORE the repair, run like `Props.C09.modelSubst` -/
def modelSubstOld (lx : String → LexOne) (full : List Tok → List Tok) (body : List Tok) (args : List MacroArg) :
    Except Err (List Tok) :=
  (substOld lx (fun st ts => .ok (full ts, st)) {} body args false).map (·.1)

/-- replacement list of `#define t(x,y,z) x ## y ## z` -/
def tBody : List Tok := [tk "x" .ident true, tk "##" .punct true, tk "y" .ident true, tk "##" .punct true, tk "z" .ident true]
/-- the arguments of `t(,,)` -/
def tArgs : List MacroArg := [{ name := "x", toks := [] }, { name := "y", toks := [] }, { name := "z", toks := [] }]

/-- the witness lies in the former region (`p ## q ##` with both arguments empty) and is C11 -/
theorem witness_in_region : ¬ NoPlacemarkerChain tBody tArgs ∧ isC11 tBody tArgs = true := by decide

/-- the OLD model rejected `t(,,)` … -/
theorem old_model_rejects : modelSubstOld Lex.lexOne id tBody tArgs = .error .pasteAtStart := by decide

/-- … the standard defines its replacement: no tokens … -/
theorem spec_accepts : ChibiVerif.Spec.PPSpec.subst Lex.lexOne id true tBody tArgs = .ok [] := by decide

/-- … and the present model produces it -/
theorem model_accepts : modelSubst Lex.lexOne id tBody tArgs = .ok [] := by decide

/-- **repaired** (was known finding C09-placemarker, `C09_finding_placemarker`): the statement `C09_subst_spec_Statement`
    with the OLD `subst` in place of the present one is false -/
theorem repaired_placemarker :
    ¬ ∀ (lx : String → LexOne) (full : List Tok → List Tok) (body : List Tok) (args : List MacroArg) (s : List Tok),
      ChibiVerif.Spec.PPSpec.subst lx full true body args = .ok s →
        ∃ m, modelSubstOld lx full body args = .ok m ∧ spell m = spell s := by
  intro h
  obtain ⟨m, hm, _⟩ := h Lex.lexOne id tBody tArgs [] spec_accepts
  rw [old_model_rejects] at hm
  cases hm

/-- the whole pipeline: from the empty table plus `t`, the model's `preprocess2` and the specification's `expand` both
    yield the empty token list for `t(,,)` -/
theorem pipeline :
    expand 50 [("t", .fn ["x", "y", "z"] none tBody)]
      [tk "t", tk "(" .punct, tk "," .punct, tk "," .punct, tk ")" .punct] = .ok [] ∧
    ChibiVerif.Spec.PPSpec.expand 50 [("t", .fn ["x", "y", "z"] none tBody)]
      [tk "t", tk "(" .punct, tk "," .punct, tk "," .punct, tk ")" .punct] = .ok [] := by decide

/-- C11 6.10.3.5 EXAMPLE 5 in full: `t(1,2,3), t(,4,5), t(6,,7), t(8,9,), t(10,,), t(,11,), t(,,12)` gives
    `123, 45, 67, 89, 10, 11, 12` — old model, present model and specification, argument list by argument list -/
theorem example5 :
    let arg (x y z : List Tok) : List MacroArg := [{ name := "x", toks := x }, { name := "y", toks := y }, { name := "z", toks := z }]
    let n (s : String) : List Tok := [tk s .num]
    let cases : List (List MacroArg) := [arg (n "1") (n "2") (n "3"), arg [] (n "4") (n "5"), arg (n "6") [] (n "7"),
      arg (n "8") (n "9") [], arg (n "10") [] [], arg [] (n "11") [], arg [] [] (n "12")]
    let want : List (Except Err (List (Kind × String))) :=
      ["123", "45", "67", "89", "10", "11", "12"].map fun s => .ok [(.num, s)]
    cases.map (fun a => (modelSubst Lex.lexOne id tBody a).map spell) = want ∧
    cases.map (fun a => (ChibiVerif.Spec.PPSpec.subst Lex.lexOne id true tBody a).map spell) = want ∧
    -- the old code was right on the first six and wrong on the last (`t(,,12)`: "'##' cannot appear at start …")
    cases.map (fun a => (modelSubstOld Lex.lexOne id tBody a).map spell) = want.take 6 ++ [.error .pasteAtStart] := by decide

/-! #### inside the former region the defect was not only the diagnostic

`#define u(x,y,z) a x ## y ## z`.  With a token in front, `u(,,3)` silently pasted that token to `3` (`a3` instead of
`a 3`).  The former region `¬ NoPlacemarkerChain` was not tight: `u(,,)` lies in it, yet the old `subst` gave what the
standard gives (`a`), because every remaining operand of the chain is empty too and something was emitted before. -/

def uBody : List Tok := tk "a" .ident true :: tBody
def uArgs3 : List MacroArg := [{ name := "x", toks := [] }, { name := "y", toks := [] }, { name := "z", toks := [tk "3" .num] }]

/-- **repaired**: `a x ## y ## z` with `(,,3)`: the old code `a3`, the standard and the present code `a 3` -/
theorem repaired_chain_with_prefix :
    ¬ NoPlacemarkerChain uBody uArgs3 ∧
    (modelSubstOld Lex.lexOne id uBody uArgs3).map spell = .ok [(.ident, "a3")] ∧
    (ChibiVerif.Spec.PPSpec.subst Lex.lexOne id true uBody uArgs3).map spell = .ok [(.ident, "a"), (.num, "3")] ∧
    (modelSubst Lex.lexOne id uBody uArgs3).map spell = .ok [(.ident, "a"), (.num, "3")] := by decide

theorem old_region_not_tight :
    ¬ NoPlacemarkerChain uBody tArgs ∧
    (modelSubstOld Lex.lexOne id uBody tArgs).map spell = .ok [(.ident, "a")] ∧
    (modelSubst Lex.lexOne id uBody tArgs).map spell = .ok [(.ident, "a")] ∧
    (ChibiVerif.Spec.PPSpec.subst Lex.lexOne id true uBody tArgs).map spell = .ok [(.ident, "a")] := by decide

/-- outside the former region nothing changed: `t(,4,5)` (a non-empty middle) -/
theorem neighbour_unchanged :
    let a : List MacroArg := [{ name := "x", toks := [] }, { name := "y", toks := [tk "4" .num] }, { name := "z", toks := [tk "5" .num] }]
    NoPlacemarkerChain tBody a ∧
    (modelSubstOld Lex.lexOne id tBody a).map spell = .ok [(.num, "45")] ∧
    (modelSubst Lex.lexOne id tBody a).map spell = .ok [(.num, "45")] := by decide

/-- **the repair is conservative**: outside the former region (no `p ## q ##` with both arguments empty) the present `subst`
    and the one before `fix:` 5a15c0f are the same function — for every lexer, pre-expander, replacement list (`__VA_OPT__`
    contents included) and argument list: same tokens, same diagnostics (Lemmas/C09PlacemarkerExact.lean).  The former
    known-finding region is exactly where the repair changed the code's behaviour. -/
theorem repair_changes_only_the_region (lx : String → LexOne) (full : List Tok → List Tok) (body : List Tok)
    (args : List MacroArg) (h : NoPlacemarkerChain body args) :
    modelSubst lx full body args = modelSubstOld lx full body args := by
  unfold modelSubst modelSubstOld
  rw [subst_eq_old lx _ _ body args false h]

/-- non-vacuity: `a x ## y ## z b` with `(1,,3)` lies outside the region (only one empty argument in a row) -/
example : NoPlacemarkerChain uBody [{ name := "x", toks := [tk "1" .num] }, { name := "y", toks := [] }, { name := "z", toks := [tk "3" .num] }] := by
  decide

/-- the loop of the repair stops in front of a last `##` (`rhs->next->next->kind != TK_EOF`): `#define e(x,y) x ## y ##`
    with `e(,)` is still the constraint violation of 6.10.3.3p1 for model and specification
    (the model names the `##` it trips over: "at start", nothing was emitted; the specification checks the ends first) -/
theorem trailing_paste_still_rejected :
    let b : List Tok := [tk "x", tk "##" .punct, tk "y", tk "##" .punct]
    let a : List MacroArg := [{ name := "x", toks := [] }, { name := "y", toks := [] }]
    modelSubst Lex.lexOne id b a = .error .pasteAtStart ∧
    ChibiVerif.Spec.PPSpec.subst Lex.lexOne id true b a = .error .pasteAtEnd := by decide

/-! ### outside C11: why `C09_subst_spec_Statement` is not a theorem as it stands (latitude, no finding) -/

/-- the complete macro replacement used by the two witnesses: `M` becomes `1`, `E` disappears -/
def fullME (ts : List Tok) : List Tok :=
  ts.flatMap fun t => if t.text == "M" then [tk "1" .num] else if t.text == "E" then [] else [t]

/-- (1) GNU `, ## __VA_ARGS__` with a variable argument `M`: chibicc substitutes the macro-replaced argument (`a , 1`),
    the specification — gcc's documented behaviour — the argument as written (`a , M`; it is replaced on rescanning, so
    the final output agrees unless `M` is painted).  (2) `__VA_OPT__(b)` with a variable argument `E` that vanishes under
    macro replacement: chibicc tests the argument as written (`b`), the specification (C2x, gcc 12) the replaced one
    (nothing).  Neither construct has C11 text; the check counts such runs and does not compare them. -/
theorem statement_fails_outside_C11 :
    let gBody : List Tok := [tk "a", tk "," .punct, tk "##" .punct, tk "__VA_ARGS__"]
    let oBody : List Tok := [tk "__VA_OPT__", tk "(" .punct, tk "b", tk ")" .punct]
    let va (ts : List Tok) : List MacroArg := [{ name := "__VA_ARGS__", isVa := true, toks := ts }]
    isC11 gBody (va [tk "M"]) = false ∧ isC11 oBody (va [tk "E"]) = false ∧
    (ChibiVerif.Spec.PPSpec.subst Lex.lexOne fullME true gBody (va [tk "M"])).map spell = .ok [(.ident, "a"), (.punct, ","), (.ident, "M")] ∧
    (modelSubst Lex.lexOne fullME gBody (va [tk "M"])).map spell = .ok [(.ident, "a"), (.punct, ","), (.num, "1")] ∧
    (ChibiVerif.Spec.PPSpec.subst Lex.lexOne fullME true oBody (va [tk "E"])).map spell = .ok [] ∧
    (modelSubst Lex.lexOne fullME oBody (va [tk "E"])).map spell = .ok [(.ident, "b")] := by decide

theorem C09_subst_spec_Statement_false : ¬ C09_subst_spec_Statement := by
  intro h
  obtain ⟨m, hm, hs⟩ := h Lex.lexOne fullME [tk "a", tk "," .punct, tk "##" .punct, tk "__VA_ARGS__"]
    [{ name := "__VA_ARGS__", isVa := true, toks := [tk "M"] }] [tk "a", tk "," .punct, tk "M"] (by decide)
  have hm' : modelSubst Lex.lexOne fullME [tk "a", tk "," .punct, tk "##" .punct, tk "__VA_ARGS__"]
      [{ name := "__VA_ARGS__", isVa := true, toks := [tk "M"] }] = .ok [tk "a", tk "," .punct, tk "1" .num] := by decide
  rw [hm'] at hm
  cases hm
  revert hs
  decide

/-! ### REPAIRED: C09-stringize-backslash-outside-literal  (`fix:` 6fecbd6 in /repo)

Before the repair `stringize` was `quote_string(join_tokens(arg))` (`stringizeOld`, Lemmas/C09Stringize.lean): every `\`
and `"` of the stringized text was escaped, also those outside literals.  The witnesses below are kept as a record: the
OLD formula on the standard's own example differs from the specification, the present `stringize` does not — for this
argument by evaluation, for every argument by `Props.C09.C09_stringize_spec`.  The old formula was wrong on exactly the
arguments outside `StringizeLiteralSafe` (`stringizeOld_ne_spec`). -/

/-- replacement list of `#define str(s) # s` -/
def strBody : List Tok := [tk "#" .punct true, tk "s" .ident true]
/-- the argument of `str(: @\n)`: the tokens `:` `@` `\` `n` -/
def strToks : List Tok := [tk ":" .punct, tk "@" .punct true, tk "\\" .punct, tk "n" .ident]
def strArgs : List MacroArg := [{ name := "s", toks := strToks }]

/-- the witness lies in the former region -/
theorem bs_witness_in_region : ¬ StringizeLiteralSafe strBody strArgs := by decide

/-- **repaired** (was known finding C09-stringize-backslash-outside-literal): the formula before `fix:` 6fecbd6 gives
    `": @\\n"` for C11 6.10.3.5 EXAMPLE 4, the standard and the present code give `": @\n"` -/
theorem repaired_stringize_backslash :
    (stringizeOld (tk "#" .punct true) strToks).text = "\": @\\\\n\"" ∧
    (ChibiVerif.Spec.PPSpec.stringizeSpec (tk "#" .punct true) strToks).text = "\": @\\n\"" ∧
    (stringize (tk "#" .punct true) strToks).text = "\": @\\n\"" := by decide

/-- the old formula was wrong on every argument with a `\` or `"` outside a literal, not only on the witness -/
theorem old_formula_wrong_in_region (hash : Tok) (arg : List Tok) (h : ∃ t ∈ arg, strSafeTok t = false) :
    (stringizeOld hash arg).text ≠ (ChibiVerif.Spec.PPSpec.stringizeSpec hash arg).text :=
  stringizeOld_ne_spec hash arg h

theorem bs_model : (modelSubst Lex.lexOne id strBody strArgs).map spell = .ok [(.str, "\": @\\n\"")] := by decide

theorem bs_spec : (ChibiVerif.Spec.PPSpec.subst Lex.lexOne id true strBody strArgs).map spell = .ok [(.str, "\": @\\n\"")] := by
  decide

/-- inside a string literal the escaping is (and was) right: `str("a\n")` -/
theorem bs_literal_ok :
    (modelSubst Lex.lexOne id strBody [{ name := "s", toks := [tk "\"a\\n\"" .str] }]).map spell =
    (ChibiVerif.Spec.PPSpec.subst Lex.lexOne id true strBody [{ name := "s", toks := [tk "\"a\\n\"" .str] }]).map spell := by
  decide

/-- where the model stops following the C function (`Props.C09.C09_stringize_wellformed` needs its hypothesis): for
    `str(\)` the buffer is `"\"`, `tokenize()` reports "unclosed string literal" — undefined behaviour by 6.10.3.2p2, not
    compared by the check; for `str(\"a")` the buffer `"\\"a\""` is four tokens for the lexer and the C function keeps
    only the first -/
theorem stringize_buffer_not_a_literal :
    Lex.lexOne (stringize (tk "#" .punct) [tk "\\" .punct]).text = .error ∧
    (stringize (tk "#" .punct) [tk "\\" .punct, tk "\"a\"" .str]).text = "\"\\\\\"a\\\"\"" ∧
    Lex.lexOne (stringize (tk "#" .punct) [tk "\\" .punct, tk "\"a\"" .str]).text = .many := by decide +kernel

end ChibiVerif.Findings.C09
