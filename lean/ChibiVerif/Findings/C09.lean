/-
C09 — kernel-checked witnesses of the known finding C09-placemarker (chibicc's `subst` differs from C11 6.10.3.3) and,
as a record, of the repaired defect C09-stringize-backslash-outside-literal.

1. C09-placemarker.  chibicc has no placemarker token.  `#define t(x,y,z) x ## y ## z` with `t(,,)` — the standard's
   own example (6.10.3.5 EXAMPLE 5) — must expand to nothing (placemarker ## placemarker = placemarker, again, then
   the placemarker is removed); `subst` stops with "'##' cannot appear at start of macro expansion".
2. REPAIRED (`fix:` 6fecbd6): C09-stringize-backslash-outside-literal.  `quote_string` escaped every `\` and `"` of the
   stringized text; C11 6.10.3.2p2 only those inside string literals and character constants.  `#define str(s) # s` with
   `str(: @\n)` (6.10.3.5 EXAMPLE 4) must give `": @\n"`; the old `subst` gave `": @\\n"`, the present one is right.

Both are evaluated by the kernel (`decide`) on the model and on the specification.
-/
import ChibiVerif.Props.C09
import ChibiVerif.Lemmas.C09Stringize

namespace ChibiVerif.Findings.C09
open ChibiVerif.PP ChibiVerif.Props.C09

private def tk (s : String) (k : Kind := .ident) (sp : Bool := false) : Tok := { kind := k, text := s, hasSpace := sp }

/-- replacement list of `#define t(x,y,z) x ## y ## z` -/
def tBody : List Tok := [tk "x" .ident true, tk "##" .punct true, tk "y" .ident true, tk "##" .punct true, tk "z" .ident true]
/-- the arguments of `t(,,)` -/
def tArgs : List MacroArg := [{ name := "x", toks := [] }, { name := "y", toks := [] }, { name := "z", toks := [] }]

/-- the witness lies in the excluded region -/
theorem witness_in_region : ¬ NoPlacemarkerChain tBody tArgs := by decide

/-- the model rejects `t(,,)` … -/
theorem model_rejects : modelSubst Lex.lexOne id tBody tArgs = .error .pasteAtStart := by decide

/-- … the standard defines its replacement: no tokens -/
theorem spec_accepts : ChibiVerif.Spec.PPSpec.subst Lex.lexOne id true tBody tArgs = .ok [] := by decide

/-- **known finding C09-placemarker**: the full statement is false -/
theorem C09_finding_placemarker : ¬ C09_subst_spec_Statement := by
  intro h
  obtain ⟨m, hm, _⟩ := h Lex.lexOne id tBody tArgs [] spec_accepts
  rw [model_rejects] at hm
  cases hm

/-- the whole pipeline agrees: from the empty table plus `t`, the model's `preprocess2` stops with the diagnostic,
    the specification's `expand` yields the empty token list -/
theorem pipeline :
    expand 50 [("t", .fn ["x", "y", "z"] none tBody)]
      [tk "t", tk "(" .punct, tk "," .punct, tk "," .punct, tk ")" .punct] = .error .pasteAtStart ∧
    ChibiVerif.Spec.PPSpec.expand 50 [("t", .fn ["x", "y", "z"] none tBody)]
      [tk "t", tk "(" .punct, tk "," .punct, tk "," .punct, tk ")" .punct] = .ok [] := by decide

/-- one token to the right the algorithm is right again: `t(,,12)`-shapes with a non-empty middle, e.g. `t(,4,5)` -/
theorem neighbour_ok :
    (modelSubst Lex.lexOne id tBody
      [{ name := "x", toks := [] }, { name := "y", toks := [tk "4" .num] }, { name := "z", toks := [tk "5" .num] }]).map spell
      = .ok [(.num, "45")] := by decide

/-! #### how far the region `¬ NoPlacemarkerChain` is from exact

`#define u(x,y,z) a x ## y ## z`.  Inside the region the defect is not only the diagnostic at the start of a replacement
list: with a token in front, `u(,,3)` silently pastes that token to `3` (`a3` instead of `a 3`).  And the region is not
tight: `u(,,)` lies in it, yet `subst` gives what the standard gives (`a`), because every remaining operand of the chain
is empty too and something was emitted before.  A narrower region would have to say "some operand after `p ## q` is
non-empty, or nothing was emitted before the chain" — the second half depends on how earlier arguments macro-expand,
so it is not a predicate of replacement list and arguments alone; the region is kept as it is. -/

def uBody : List Tok := tk "a" .ident true :: tBody

theorem chain_with_prefix_pastes_wrongly :
    ¬ NoPlacemarkerChain uBody [{ name := "x", toks := [] }, { name := "y", toks := [] }, { name := "z", toks := [tk "3" .num] }] ∧
    (modelSubst Lex.lexOne id uBody
      [{ name := "x", toks := [] }, { name := "y", toks := [] }, { name := "z", toks := [tk "3" .num] }]).map spell
      = .ok [(.ident, "a3")] ∧
    (ChibiVerif.Spec.PPSpec.subst Lex.lexOne id true uBody
      [{ name := "x", toks := [] }, { name := "y", toks := [] }, { name := "z", toks := [tk "3" .num] }]).map spell
      = .ok [(.ident, "a"), (.num, "3")] := by decide

theorem region_not_tight :
    ¬ NoPlacemarkerChain uBody tArgs ∧
    (modelSubst Lex.lexOne id uBody tArgs).map spell = .ok [(.ident, "a")] ∧
    (ChibiVerif.Spec.PPSpec.subst Lex.lexOne id true uBody tArgs).map spell = .ok [(.ident, "a")] := by decide

/-! ### REPAIRED: C09-stringize-backslash-outside-literal  (`fix:` 6fecbd6 in /repo)

Before the repair `stringize` was `quote_string(join_tokens(arg))` (`stringizeOld`, Lemmas/C09Stringize.lean): every `\`
and `"` of the stringized text was escaped, also those outside literals.  The witnesses below are kept as a record: the
OLD formula on the standard's own example differs from the specification, the present `stringize` does not — for this
argument by evaluation, for every argument by `Props.C09.C09_stringize_spec`.  The old formula was wrong on exactly the
arguments outside `StringizeLiteralSafe` (`stringizeOld_ne_spec`). -/

/-- replacement list of `#define str(s) # s` -/
def strBody : List Tok := [tk "#" .punct true, tk "s" .ident true]
/-- the argument of `str(: @\n)`: the tokens `:` `@` `\` `n` -/
def strToks : List Tok := [tk ":" .punct, tk "@" .punct true, tk "\\" .punct, tk "n" .ident]
def strArgs : List MacroArg := [{ name := "s", toks := strToks }]

/-- the witness lies in the former region -/
theorem bs_witness_in_region : ¬ StringizeLiteralSafe strBody strArgs := by decide

/-- **repaired** (was known finding C09-stringize-backslash-outside-literal): the formula before `fix:` 6fecbd6 gives
    `": @\\n"` for C11 6.10.3.5 EXAMPLE 4, the standard and the present code give `": @\n"` -/
theorem repaired_stringize_backslash :
    (stringizeOld (tk "#" .punct true) strToks).text = "\": @\\\\n\"" ∧
    (ChibiVerif.Spec.PPSpec.stringizeSpec (tk "#" .punct true) strToks).text = "\": @\\n\"" ∧
    (stringize (tk "#" .punct true) strToks).text = "\": @\\n\"" := by decide

/-- the old formula was wrong on every argument with a `\` or `"` outside a literal, not only on the witness -/
theorem old_formula_wrong_in_region (hash : Tok) (arg : List Tok) (h : ∃ t ∈ arg, strSafeTok t = false) :
    (stringizeOld hash arg).text ≠ (ChibiVerif.Spec.PPSpec.stringizeSpec hash arg).text :=
  stringizeOld_ne_spec hash arg h

theorem bs_model : (modelSubst Lex.lexOne id strBody strArgs).map spell = .ok [(.str, "\": @\\n\"")] := by decide

theorem bs_spec : (ChibiVerif.Spec.PPSpec.subst Lex.lexOne id true strBody strArgs).map spell = .ok [(.str, "\": @\\n\"")] := by
  decide

/-- inside a string literal the escaping is (and was) right: `str("a\n")` -/
theorem bs_literal_ok :
    (modelSubst Lex.lexOne id strBody [{ name := "s", toks := [tk "\"a\\n\"" .str] }]).map spell =
    (ChibiVerif.Spec.PPSpec.subst Lex.lexOne id true strBody [{ name := "s", toks := [tk "\"a\\n\"" .str] }]).map spell := by
  decide

/-- where the model stops following the C function (`Props.C09.C09_stringize_wellformed` needs its hypothesis): for
    `str(\)` the buffer is `"\"`, `tokenize()` reports "unclosed string literal" — undefined behaviour by 6.10.3.2p2, not
    compared by the check; for `str(\"a")` the buffer `"\\"a\""` is four tokens for the lexer and the C function keeps
    only the first -/
theorem stringize_buffer_not_a_literal :
    Lex.lexOne (stringize (tk "#" .punct) [tk "\\" .punct]).text = .error ∧
    (stringize (tk "#" .punct) [tk "\\" .punct, tk "\"a\"" .str]).text = "\"\\\\\"a\\\"\"" ∧
    Lex.lexOne (stringize (tk "#" .punct) [tk "\\" .punct, tk "\"a\"" .str]).text = .many := by decide +kernel

end ChibiVerif.Findings.C09
