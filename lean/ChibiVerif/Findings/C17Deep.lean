/-
C17 — kernel-checked witnesses that the hypotheses of the deepened theorems are needed
(none of these is a defect of /repo; each shows what the code relies on).

* a copied token with an embedded NUL would be missed by a span lookup of the same token, and
  two tokens that differ only after the NUL would collide (`C17_client_keys` needs NUL-free
  copies; identifiers are NUL-free, `C17_ident_no_nul`);
* `match` without the `keylen` comparison would let the token `out` hit the stored `out_err`;
* the C index expression `(hash + i) % capacity` wraps modulo 2^64: for a capacity that is
  not a power of two it differs from the model's index (`C17_index_agrees` needs the shape
  proved in `C17_capacity_shape`);
* a sign-extending `hash ^= s[i]` hashes `é` differently;
* the dual of `C17_capacity_bound`: if `used` counted live keys only (seeded changes C17c and
  C13b), tombstones would never trigger a rehash; after 16 define/undefine cycles over distinct
  names every bucket of a 16-bucket table is a tombstone and the next operation runs the probe
  loop into `unreachable()`.
-/
import ChibiVerif.Model.C17Clients

namespace ChibiVerif.Findings.C17
open ChibiVerif.HashMap ChibiVerif.C17Clients
open ChibiVerif.Gen.HashMap (INIT_SIZE HIGH_WATERMARK LOW_WATERMARK fnvHash FNV_PRIME FNV_OFFSET)
open ChibiVerif.Gen.HashSites (probeIndexC fnvHashC)

/-- `a\0b` copied by `strndup` and looked up as the span `a\0b`: same spelling, different keys -/
theorem C17_nul_false_miss :
    let buf : Bytes := [97, 0, 98, 59, 0]
    (Src.dup buf 3).spelling = (Src.span buf 3).spelling ∧
    (Src.dup buf 3).key.toOption = some [97] ∧ (Src.span buf 3).key.toOption = some [97, 0, 98] ∧
    matchC [97] [97, 0, 98] = false := by decide

/-- `a\0b` and `a\0c`, both copied: different spellings, equal keys -/
theorem C17_nul_false_hit :
    (Src.dup [97, 0, 98, 0] 3).spelling ≠ (Src.dup [97, 0, 99, 0] 3).spelling ∧
    (Src.dup [97, 0, 98, 0] 3).key.toOption = some [97] ∧
    (Src.dup [97, 0, 99, 0] 3).key.toOption = some [97] := by decide

/-- without the length comparison the lookup key `out` matches the stored key `out_err` -/
theorem C17_prefix_needs_length_check :
    matchNoLen [111, 117, 116, 95, 101, 114, 114] [111, 117, 116] = true ∧
    matchC [111, 117, 116, 95, 101, 114, 114] [111, 117, 116] = false := by decide

/-- capacity 12, hash 2^64 - 1, i = 1: the C expression gives 0, arithmetic without wrap-around 4 -/
theorem C17_index_needs_pow2 :
    (probeIndexC 0xFFFFFFFFFFFFFFFF (Int32.ofNat 1) (Int32.ofNat 12)).toNat = 0 ∧
    ((0xFFFFFFFFFFFFFFFF : UInt64).toNat + 1) % 12 = 4 := by decide

/-- `é` = C3 A9: the code's hash (zero extension) and the hash a sign-extending xor would give -/
theorem C17_sign_extension_would_differ :
    fnvHashC [Int8.ofInt (-61), Int8.ofInt (-87)] = fnvHash [0xC3, 0xA9] ∧
    [Int8.ofInt (-61), Int8.ofInt (-87)].foldl
        (fun h c => (h * FNV_PRIME) ^^^ c.toInt64.toUInt64) FNV_OFFSET ≠ fnvHash [0xC3, 0xA9] := by
  decide

/-! ### `used` counting live keys only (seeded C17c / C13b) -/

variable {α β : Type} [DecidableEq α]

/-- `get_or_insert_entry` of the seeded change: `map->used++` also when a tombstone is reused -/
def applyInsLive (m : HM α β) (k : α) (v : β) : HM.InsPos → HM α β
  | .found idx => ⟨m.buckets.set idx (.full k v), m.used⟩
  | .reuse idx => ⟨m.buckets.set idx (.full k v), m.used + 1⟩
  | .fresh idx => ⟨m.buckets.set idx (.full k v), m.used + 1⟩

/-- `hashmap_put2` of the seeded change (the rehash path is unchanged: a fresh table has no
    tombstone to reuse) -/
def putLive (h : α → Nat) (m : HM α β) (k : α) (v : β) : Except Crash (HM α β) := do
  let m ←
    if m.buckets.isEmpty then pure (⟨List.replicate INIT_SIZE .empty, m.used⟩ : HM α β)
    else if m.used * 100 / m.buckets.length ≥ HIGH_WATERMARK then HM.rehash h m
    else pure m
  let p ← HM.insLoop m.buckets (h k) k m.buckets.length 0 none
  pure (applyInsLive m k v p)

/-- `hashmap_delete2` of the seeded change: `map->used--` -/
def deleteLive (h : α → Nat) (m : HM α β) (k : α) : Except Crash (HM α β) := do
  match ← HM.getEntry h m k with
  | none => pure m
  | some idx => pure ⟨m.buckets.set idx .tomb, m.used - 1⟩

def runLive (h : α → Nat) : HM α β → List (Op α β) → Except Crash (HM α β)
  | m, [] => .ok m
  | m, .put k v :: ops => do runLive h (← putLive h m k v) ops
  | m, .del k :: ops => do runLive h (← deleteLive h m k) ops
  | m, .get k :: ops => do let _ ← m.get h k; runLive h m ops

/-- the abort site a run ended in -/
def crashOf {γ : Type} : Except Crash γ → Option Crash
  | .error c => some c
  | .ok _ => none

/-- sixteen define/undefine cycles over distinct names (name `i` hashes to bucket `i`) -/
def churn16 : List (Op Nat Nat) :=
  [.put 0 1, .del 0, .put 1 1, .del 1, .put 2 1, .del 2, .put 3 1, .del 3,
   .put 4 1, .del 4, .put 5 1, .del 5, .put 6 1, .del 6, .put 7 1, .del 7,
   .put 8 1, .del 8, .put 9 1, .del 9, .put 10 1, .del 10, .put 11 1, .del 11,
   .put 12 1, .del 12, .put 13 1, .del 13, .put 14 1, .del 14, .put 15 1, .del 15]

set_option maxRecDepth 8000 in
/-- **Dual of the capacity bound.**  With live-only accounting the churn leaves 16 tombstones
    and `used = 0`; a lookup of any absent name then reaches `unreachable()`.  The code as it
    is (tombstones counted, dropped by `rehash`) answers the same history, and the capacity
    stays 16 (`C17_churn_bounded`: at most one name alive). -/
theorem C17_live_only_accounting_aborts :
    crashOf (runLive (fun k => k) HM.empty (churn16 ++ [.get 99])) = some .unreachable ∧
    (run (fun k => k) HM.empty (churn16 ++ [.get 99])).toOption.map (fun r => (r.1.capacity, r.2))
      = some (16, [none]) := by
  decide

end ChibiVerif.Findings.C17
