/-
C16 — kernel-checked witnesses (`by decide`) for the typing of the atomic primitives and for `_Atomic` propagation:
the OLD behaviour of the defects repaired in /repo (4993f7e, c3d94ea, c29052b, 1c76c1e; recorded as `fixed:` in
known_findings.json), shown on the code-generation model, the places where chibicc is more liberal than the standard
(harmless for the property), and what lies outside the single-instruction guarantee for plain atomic accesses.
-/
import ChibiVerif.Model.C16Typing
import ChibiVerif.Model.C16Qual
import ChibiVerif.Model.C16Declr
import ChibiVerif.Spec.C16QualSpec
import ChibiVerif.Model.Codegen

namespace ChibiVerif.Findings.C16
open ChibiVerif.Ast ChibiVerif.Asm ChibiVerif.C16Typing

def mk (id : Int) (k : TyKind) (sz : Int) (u : Bool := false) (b : Int := -1) : Ty :=
  { id, kind := k, size := sz, align := 1, isUnsigned := u, isAtomic := false, base := b, arrayLen := 0, returnTy := -1,
    isVariadic := false, isFlexible := false, isPacked := false, vlaSize := -1, params := [], members := [] }

/-- 0: `long *`, 1: `long`, 2: `int *`, 3: `int`, 4: `long double *`, 5: `long double`, 6: `char (*)[3]`, 7: `char[3]`,
    8: `char`, 9: `struct { int a; } *`, 10: that struct -/
def types : List Ty :=
  [mk 0 .ptr 8 true 1, mk 1 .long 8, mk 2 .ptr 8 true 3, mk 3 .int 4, mk 4 .ptr 8 true 5, mk 5 .ldouble 16,
   mk 6 .ptr 8 true 7, mk 7 .array 3 false 8, mk 8 .char 1, mk 9 .ptr 8 true 10, mk 10 .struct 4]

def env : Codegen.Env := { fpic := false, types }

/-- the lines `casArm` prints for argument types `a`, `o` (ids) with a desired value of type `n`, argument expressions
    printing nothing; `none` = the code generator aborts (`unreachable()`) -/
def armText (a o n : Nat) : Option (List String) :=
  match Codegen.casArm env (pure ()) types[a]? (pure ()) types[o]? (pure ()) types[n]? {} with
  | .ok (_, _, ls) => some (ls.map fun l => l.render)
  | .error _ => none

/-- repaired by /repo 4993f7e.  `long *p; int *q; __builtin_compare_and_swap(p, q, 1)` was accepted: the expected value
    was read with a 4-byte load, compared by an 8-byte `lock cmpxchg`, and on failure 8 bytes were written through `q`
    into a 4-byte object.  Now: "the expected value must have the size of the atomic object". -/
theorem C16_repaired_cas_two_widths :
    armText 0 2 1 = some ["  push %rax", "  push %rax", "  mov %rax, %r8", "  movsxd (%rax), %rax", "  pop %rdx", "  pop %rdi",
      "  lock cmpxchg %rdx, (%rdi)", "  sete %cl", "  je 1f", "  mov %rax, (%r8)", "1:", "  movzbl %cl, %eax"] ∧
    (casCheck types types[0]? types[2]?).toOption = none ∧
    (match casCheck types types[0]? types[2]? with | .error d => d.tag | .ok _ => "ok") = "size" := by decide

/-- repaired by /repo 4993f7e.  `int *p; long double *q;`: `reg_ax(16)` → "internal error"; now a diagnostic -/
theorem C16_repaired_cas_ldouble_expected :
    armText 2 4 3 = none ∧ (match casCheck types types[2]? types[4]? with | .error d => d.tag | .ok _ => "ok") = "size" := by
  decide

/-- repaired by /repo c3d94ea.  `char (*p)[3], (*q)[3];`: the object test `!is_numeric(base) && !base->base` let every
    type with a `base` through, `reg_dx(3)` → "internal error at codegen.c"; the test is now `base->kind != TY_PTR` -/
theorem C16_repaired_cas_array_object :
    armText 6 6 8 = none ∧ (match casCheck types types[6]? types[6]? with | .error d => d.tag | .ok _ => "ok") = "aggr-addr" := by
  decide

/-- repaired by /repo c3d94ea.  `int *p; struct { int a; } *q;`: sizes agree, `load` of a structure prints nothing, so
    `%rax` still held the ADDRESS `q` at the `lock cmpxchg`; the object test is now applied to `*old` as well -/
theorem C16_repaired_cas_struct_expected :
    armText 2 9 3 = some ["  push %rax", "  push %rax", "  mov %rax, %r8", "  pop %rdx", "  pop %rdi",
      "  lock cmpxchg %edx, (%rdi)", "  sete %cl", "  je 1f", "  mov %eax, (%r8)", "1:", "  movzbl %cl, %eax"] ∧
    (match casCheck types types[2]? types[9]? with | .error d => d.tag | .ok _ => "ok") = "aggr-old" := by decide

/-! ### plain accesses outside the single-instruction guarantee (`C16_plain_access_single`) -/

def storeText (t : Nat) : Option (List String) :=
  match Codegen.store types[t]? {} with
  | .ok (_, _, ls) => some (ls.map fun l => l.render)
  | .error _ => none

/-- `_Atomic struct { int a; } s; s = v;` is a byte-by-byte copy (two instructions per byte): another thread can observe
    a mixture of the old and the new value.  Measured on the binary: a writer alternating {0,0} / {-1,-1} in an
    `_Atomic struct { int a, b; }`, 2·10^7 reads: 12,827,249 torn (gcc: 0).  Not a read-modify-write: recorded as an
    observation, outside the letter of C16. -/
theorem C16_plain_struct_store_not_single :
    storeText 10 = some ["  pop %rdi", "  mov 0(%rax), %r8b", "  mov %r8b, 0(%rdi)", "  mov 1(%rax), %r8b", "  mov %r8b, 1(%rdi)",
      "  mov 2(%rax), %r8b", "  mov %r8b, 2(%rdi)", "  mov 3(%rax), %r8b", "  mov %r8b, 3(%rdi)"] := by decide

/-- `_Atomic long double` is stored by `fstpt` (10 bytes; outside the guarantee of SDM 8.1.1, and split in practice:
    4,432,777 torn reads out of 5·10^7 on the test machine) -/
theorem C16_plain_ldouble_store_ten_bytes :
    storeText 5 = some ["  pop %rdi", "  fstpt (%rdi)", "  fldt (%rdi)"] := by decide

/-! ### `_Atomic` propagation: repaired defect and the places where chibicc is more liberal than the standard -/

open ChibiVerif.C16Qual ChibiVerif.C16QualSpec in
/-- repaired by /repo c29052b.  `struct S { int y : 5; _Atomic int x : 3; } s; s.x += 1;` was accepted and compiled to the
    compare-and-swap loop on `&s.x`, i.e. on the whole 4-byte storage unit: the 1 was added to `y` (y=2 x=2 instead of
    y=1 x=3 on the binary).  Now the member declaration is a diagnostic; the C semantics (as in gcc and clang) rejects
    an atomic bit-field as well. -/
theorem C16_repaired_atomic_bitfield :
    let ds := [Decl.aggDef false "S" [⟨"y", .prim .int, false, .name, true⟩, ⟨"x", .prim .int, true, .name, true⟩]]
    (match elabDecls {} ds with | .error d => d.tag | .ok _ => "ok") = "atomic-bitfield" ∧
    (specDecls {} ds).isNone = true := by decide

open ChibiVerif.C16Qual ChibiVerif.C16QualSpec in
/-- latitude: `typedef int arr3[3]; _Atomic arr3 a; ++a[1];` violates a constraint (6.7.3p3: `_Atomic` shall not modify
    an array type; gcc rejects).  chibicc accepts, puts the flag on the ARRAY `Type`, and the element is not atomic. -/
theorem C16_latitude_atomic_array_typedef :
    let ds := [Decl.typedef_ "arr3" (.prim .int) false (.arr .name 3), Decl.var "a" (.tdef "arr3") true .name]
    (specDecls {} ds).isNone = true ∧
    (match elabDecls {} ds with
     | .ok m => (elabUpdate m .preInc (.idx (.var "a") 1)).toOption
     | .error _ => none) = some .plainDeref := by decide

open ChibiVerif.C16Qual ChibiVerif.C16QualSpec in
/-- latitude (over-approximation, harmless): `_Atomic int x; typeof((_Atomic int)x) y; y++;` - the cast yields an
    unqualified `int` in C, so `y` is not atomic; chibicc's `new_cast` copies the `Type` with its flag and updates `y`
    through the loop. -/
theorem C16_latitude_typeof_rvalue_keeps_flag :
    let ds := [Decl.var "x" (.prim .int) true .name,
               Decl.var "y" (.typeofE (.cast (.prim .int) true .name (.var "x"))) false .name]
    (match specDecls {} ds with | some s => (typeOf s (.var "y")).map (·.ty.isAtomic) | none => none) = some false ∧
    (match elabDecls {} ds with
     | .ok m => (elabUpdate m .postInc (.var "y")).toOption
     | .error _ => none) = some (.casLoop 4) := by decide

open ChibiVerif.C16Qual ChibiVerif.C16QualSpec in
/-- deviation outside the specified fragment: `_Atomic int a[3];` - `&a` has type pointer-to-array in C, chibicc's ND_ADDR
    gives it the type pointer-to-element (so `typeof(&a) p;` declares an `_Atomic int *`).  The specification says nothing
    about programs that apply `&` to an array. -/
theorem C16_deviation_addr_of_array :
    let ds := [Decl.var "a" (.prim .int) true (.arr .name 3)]
    (match specDecls {} ds with | some s => (typeOf s (.addr (.var "a"))).isNone | none => false) = true ∧
    (match elabDecls {} ds with
     | .ok m => (exprTy m (.addr (.var "a"))).toOption.map (·.ty)
     | .error _ => none) = some (.ptr (.num .int true) false) := by decide

/-! ### `_Atomic` as a qualifier of a pointer (repaired by /repo 1c76c1e) -/

open ChibiVerif.C16Qual ChibiVerif.C16Declr in
/-- parse.c `pointers` BEFORE /repo 1c76c1e: after a `*`,
    `while (equal(tok, "const") || equal(tok, "volatile") || equal(tok, "restrict") || equal(tok, "__restrict") ||
    equal(tok, "__restrict__")) tok = tok->next;` - `_Atomic` was not among them and ended the loop (and `pointers`) -/
def oldQualsT : List DTok → C16Qual.Ty → C16Qual.Ty × List DTok
  | .qual q :: ts, ty => if q = .atomic then (ty, .qual q :: ts) else oldQualsT ts ty
  | .star :: ts, ty => oldQualsT ts (pointerTo ty)
  | ts, ty => (ty, ts)

open ChibiVerif.C16Qual ChibiVerif.C16Declr in
def oldPointersT : List DTok → C16Qual.Ty → C16Qual.Ty × List DTok
  | .star :: ts, ty => oldQualsT ts (pointerTo ty)
  | ts, ty => (ty, ts)

open ChibiVerif.C16Qual ChibiVerif.C16QualSpec ChibiVerif.C16Declr in
/-- repaired by /repo 1c76c1e.  `int *_Atomic p; … p++` (valid C11, 6.7.6.1: an atomic pointer to `int`) was rejected:
    the old `pointers` stopped in front of `_Atomic`, `declarator` found a keyword where the identifier should be and
    `declaration` reported "variable name omitted" (the same with `const` in front: `int *const _Atomic p`).  Now the
    qualifier loop marks the pointer type, the declarator is consumed to its end, `p` is an atomic lvalue of 8 bytes in
    the C semantics and `p++`, `p += 1` are the compare-and-swap loop of 8 bytes, while the pointee `*p` stays plain. -/
theorem C16_repaired_pointer_atomic_qualifier :
    let d : Declr := .ptr .name [.atomic]
    toks d = [.star, .qual .atomic, .ident] ∧
    oldPointersT (toks d) (.num .int false) = (.ptr (.num .int false) false, [.qual .atomic, .ident]) ∧
    oldPointersT (toks (.ptr .name [.const, .atomic])) (.num .int false) = (.ptr (.num .int false) false, [.qual .atomic, .ident]) ∧
    pointersT (toks d) (.num .int false) = (.ptr (.num .int false) true, [.ident]) ∧
    declaratorT 2 (toks d) (.num .int false) = some (.ptr (.num .int false) true, []) ∧
    (match specDecls {} [Decl.var "p" (.prim .int) false d] with
     | some s => [(atomicLvalue s (.var "p")).bind CType.rmwSize?, (atomicLvalue s (.deref (.var "p"))).bind CType.rmwSize?]
     | none => []) = [some 8, none] ∧
    (match elabDecls {} [Decl.var "p" (.prim .int) false d] with
     | .ok m => [elabUpdate m .postInc (.var "p"), elabUpdate m .add (.var "p"), elabUpdate m .add (.deref (.var "p"))].map Except.toOption
     | .error _ => []) = [some (.casLoop 8), some (.casLoop 8), some .plainDeref] := by decide

open ChibiVerif.C16Qual ChibiVerif.C16QualSpec in
/-- the mutant the check must catch: the qualifier loop of `pointers` WITHOUT the line `ty->is_atomic = true` (it
    skips `_Atomic` like `const`) gives `int *_Atomic p` the plain pointer type, on which `p++` is a plain
    load-add-store - while the C semantics (and the model of the code as it is) says atomic, 8 bytes -/
theorem C16_pointer_qualifier_flag_matters :
    let plain : C16Qual.Ty := applyQuals [.const] (pointerTo (.num .int false))          -- what the mutant computes for `*_Atomic`
    let env : Env := { vars := [("p", plain)] }
    (elabUpdate env .postInc (.var "p")).toOption = some .plainDeref ∧
    (match elabDecls {} [Decl.var "p" (.prim .int) false (.ptr .name [.atomic])] with
     | .ok m => (elabUpdate m .postInc (.var "p")).toOption
     | .error _ => none) = some (.casLoop 8) := by decide

end ChibiVerif.Findings.C16
