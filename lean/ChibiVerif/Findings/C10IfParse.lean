/-
C10, `#if` lines as tokens: kernel-checked witnesses (by `decide`).

* repaired defect (tokenize.c, UTF-32 character literal; found by the token-line correspondence of checklib/C10.py): the token
  of `U'\xFFFFFFFF'` carried the sign-extended value of the `int` that read_char_literal returns; eval_const_expr retypes it
  to unsigned long, so in `#if` it was 0xFFFFFFFFFFFFFFFF and `#if U'\xFFFFFFFF' == 0xFFFFFFFF` was false.  After the repair
  (`cur->val = (uint32_t)cur->val;`) the token carries 0xFFFFFFFF.
* latitude, not claimed by `C10_ifline` (`ifRegion`): chibicc's eval() of a comma operator evaluates only the right operand, so
  `#if (1/0, 2)` is accepted and true; C11 6.6p3 makes an evaluated comma a constraint violation (gcc -pedantic-errors rejects
  it, plain gcc reports the division by zero).
-/
import ChibiVerif.Model.IfParse

namespace ChibiVerif.Findings.C10
open ChibiVerif.CondIncl ChibiVerif.PPExpr ChibiVerif.IfParse

/-- `U'\xFFFFFFFF' == 0xFFFFFFFF`: with the token value of the code before the repair both evaluators say false, with the
    repaired value both say true (C11 6.4.4.4p9/p11: the value of a `U` constant is that of char32_t, 0xFFFFFFFF) -/
theorem C10_repaired_char32_bit31 :
    (ifParse [.num 0xFFFFFFFFFFFFFFFF true, .punct "==", .num 0xFFFFFFFF false]).map (fun t => (evC t.toExpr [], ev t.toExpr []))
      = .ok (.ok false, .ok false) ∧
    (ifParse [.num 0xFFFFFFFF true, .punct "==", .num 0xFFFFFFFF false]).map (fun t => (evC t.toExpr [], ev t.toExpr []))
      = .ok (.ok true, .ok true) := by decide

/-- `( 1 / 0 , 2 )`: the parser builds ND_COMMA, chibicc's evaluation takes the right operand only and accepts the line -/
theorem C10_witness_comma_left_operand_unevaluated :
    ifParse [.punct "(", .num 1 false, .punct "/", .num 0 false, .punct ",", .num 2 false, .punct ")"]
      = .ok (.comma (.bin .div (.num 1 false) (.num 0 false)) (.num 2 false)) ∧
    evC (PT.comma (.bin .div (.num 1 false) (.num 0 false)) (.num 2 false)).toExpr [] = .ok true ∧
    (PT.comma (.bin .div (.num 1 false) (.num 0 false)) (.num 2 false)).hasComma = true := by decide

end ChibiVerif.Findings.C10
