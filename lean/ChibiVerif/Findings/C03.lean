/-
C03 — kernel-checked witnesses.
-/
import ChibiVerif.Model.Stmt

namespace ChibiVerif.Findings.C03
open ChibiVerif.Ctl ChibiVerif.Spec.Ctl

/-- repaired defect (fix 0d889cd): `case 0x100000001L` is compared through a register, not
    truncated to `int` -/
theorem C03_fixed_case_64 :
    ladderEnt true ⟨7, 0x100000001#64, 0x100000001#64⟩ =
      [.movImm 0x100000001#64 .di, .cmpReg .di .ax, .je (.u 7)] := by decide

end ChibiVerif.Findings.C03
