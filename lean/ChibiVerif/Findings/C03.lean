/-
C03 — kernel-checked witnesses (`by decide`): the repaired case-label truncation, the
boundaries of the fragment `C03_preserve_partial` covers, and the recorded latitude.
-/
import ChibiVerif.Model.Stmt
import ChibiVerif.Lemmas.StmtMachine
import ChibiVerif.Spec.ControlSpecG

namespace ChibiVerif.Findings.C03
open ChibiVerif.Ctl ChibiVerif.Spec.Ctl

/-- repaired defect (`fix:` 0d889cd, "case labels keep 64 bits"): `case 0x100000001L` of a 64-bit
    switch is compared through a register, not truncated to `int` … -/
theorem C03_fixed_case_64_ladder :
    ladderEnt true ⟨7, 0x100000001#64, 0x100000001#64⟩ =
      [.movImm 0x100000001#64 .di, .cmpReg .di .ax, .je (.u 7)] := by decide

/-- … so `switch (0x100000001L) { case 0x100000001L: m(1); break; default: m(2); }` executes
    `m(1)` on the model's machine (it went to `default` on the pinned tree). -/
theorem C03_fixed_case_64_runs :
    (match parseFn 0 (.switch_ true false 0 (.block (.seq (.case_ 0x100000001#64 0x100000001#64 (.marker 1))
        (.seq .break_ (.seq (.default_ (.marker 2)) .skip))))) with
     | .ok (st, _) => (runM (fun _ => 0x100000001#64) (genFn st 1) 40 (MState.init ⟨0, []⟩)).σ.tr
     | .error _ => []) = [.inp 0, .m 1] := by decide

/-- a range whose bounds do not fit imm32 goes through %rdx for the subtraction and the width -/
theorem C03_range_register_path :
    ladderEnt true ⟨3, 0x100000000#64, 0x300000000#64⟩ =
      [.movAxDi true, .movImm 0x100000000#64 .dx, .subDxDi, .movImm 0x200000000#64 .dx, .cmpReg .dx .di, .jbe (.u 3)] := by
  decide

/-- boundary of the fragment: Duff's device (a `case` label inside a `do` inside the switch body)
    is not `structured`, and `Spec.exec` answers `unsupported` for it … -/
def duff : SStmt :=
  .switch_ false false 1 (.block (.seq (.case_ 0 0 (.doWhile (.block (.seq (.marker 10) (.seq (.case_ 1 1 (.marker 11)) .skip))) 2)) .skip))

theorem C03_duff_outside_fragment :
    structured duff = false ∧ exec (fun _ => 1) 30 duff ⟨0, []⟩ = .unsupported := by decide

/-- … while the model's code for it, run on the model's machine, enters the loop body at
    `case 1` and then iterates the whole body (what gcc-compiled code does, checked by the
    correspondence run on every check). -/
theorem C03_duff_model_runs :
    (match parseFn 0 duff with
     | .ok (st, _) => (runM (fun i => [1, 1, 0].getD i 0) (genFn st 1) 60 (MState.init ⟨0, []⟩)).σ.tr
     | .error _ => []) = [.inp 1, .m 11, .c 2, .m 10, .m 11, .c 2] := by decide

/-- … and the small-step abstract machine `execG` (Spec/ControlSpecG.lean; the machine of
    `C03_preserve_goto_partial`) gives Duff's device exactly that meaning: the constraints hold and the
    trace is the one the model's code produces on the model's machine. -/
theorem C03_duff_execG :
    validG duff = true ∧
    execG (fun i => [1, 1, 0].getD i 0) 60 duff ⟨0, []⟩ =
      .done .normal ⟨3, [.inp 1, .m 11, .c 2, .m 10, .m 11, .c 2]⟩ := by decide

/-- boundary of `C03_preserve_goto_partial` (hypothesis `validG`): programs the parser accepts although
    they violate a constraint of the language have no meaning in the abstract machine — two `case`s
    selecting one value (chibicc takes the one later in the source, gcc rejects the program), and a
    label defined twice (chibicc resolves `goto` to the later definition, gcc rejects). -/
theorem C03_constraint_violations_unsupported :
    (parseFn 0 (.switch_ false false 1 (.block (.seq (.case_ 1 5 (.marker 1)) (.seq (.case_ 3 3 (.marker 2)) .skip))))).toBool = true ∧
    validG (.switch_ false false 1 (.block (.seq (.case_ 1 5 (.marker 1)) (.seq (.case_ 3 3 (.marker 2)) .skip)))) = false ∧
    execG (fun _ => 3) 20 (.switch_ false false 1 (.block (.seq (.case_ 1 5 (.marker 1)) (.seq (.case_ 3 3 (.marker 2)) .skip)))) ⟨0, []⟩
      = .unsupported ∧
    (parseFn 0 (.block (.seq (.label 1 (.marker 1)) (.seq (.label 1 (.marker 2)) (.seq (.goto_ 1) .skip))))).toBool = true ∧
    execG (fun _ => 0) 20 (.block (.seq (.label 1 (.marker 1)) (.seq (.label 1 (.marker 2)) (.seq (.goto_ 1) .skip)))) ⟨0, []⟩
      = .unsupported := by decide

/-- recorded latitude (not a finding; gcc only warns "empty range specified"): a range that is
    non-empty as `long` but empty after conversion to the controlling type — `case -1 ... 5` of
    an `unsigned` switch — is accepted by `parseStmt` (bounds compared as `long`), violates the
    hypothesis of `C03_switch_select`, and the ladder's wrapped test accepts 0xffffffff and 3. -/
theorem C03_latitude_range_empty_after_conversion :
    decide (toT false true (-1 : Val) ≤ toT false true (5 : Val)) = false ∧
    entMatches false ⟨1, -1, 5⟩ 0xffffffff#64 = true ∧ entMatches false ⟨1, -1, 5⟩ 3#64 = true ∧
    caseMatches false true (-1) 5 3#64 = false := by decide

end ChibiVerif.Findings.C03
