/-
C19 — kernel-checked witnesses of the defects that were repaired in /repo by `fix:` commits
(known_findings.json "fixed" list).  `Model/PrintTokens.lean` and `Gen/LexGen.lean` follow the
repaired code and `Props/C19.lean` proves it correct; this file keeps the earlier code and shows,
by evaluation in the kernel (`decide`), inputs on which the printed text does not lex back to the
tokens.

1. `print_tokens` as published: a newline before an `at_bol` token, one blank if `has_space`, the
   spelling — nothing else.  `#define N -1` / `-N` gives the tokens `-` `-` `1`, none with `has_space`.
2. the first `need_space` (commit 4c7d8b6): rule 2 was
   `is_num && (b == '.' || ((b == '+' || b == '-') && strchr("eEpP", a)))` — a pp-number ending in
   `.`, `+` or `-` followed by an alphanumeric character was printed glued (`f(1.)f(x)` → `1.x`,
   `f(1e+)f(5)` → `1e+5`).
-/
import ChibiVerif.Model.PrintTokens

namespace ChibiVerif.Findings.C19
open ChibiVerif.Lex ChibiVerif.LexChar ChibiVerif.Gen.Lex

/-- `print_tokens` before the fix -/
def printFromOld (first : Bool) : List Tok → List Nat
  | [] => [10]
  | t :: ts =>
    (if !first && t.atBol then [10] else if t.hasSpace && !t.atBol then [32] else []) ++ t.text ++ printFromOld false ts

def minusMinusOne : List Tok :=
  [⟨.punct, [45], true, false⟩, ⟨.punct, [45], false, false⟩, ⟨.ppnum, [49], false, false⟩]

/-- `-N` with `#define N -1` was printed `--1`, which is the two tokens `--` `1` -/
theorem C19_fixed_glued_printer :
    printFromOld true minusMinusOne = [45, 45, 49, 10] ∧
    spellings (lex (printFromOld true minusMinusOne)) = .ok [[45, 45], [49]] ∧
    spellings (lex (printFromOld true minusMinusOne)) ≠ .ok (minusMinusOne.map (·.text)) ∧
    spellings (lex (printTokens minusMinusOne)) = .ok (minusMinusOne.map (·.text)) := by decide

/-- `need_space` of commit 4c7d8b6 (rule 2 without `isalnum(b)`) -/
def needSpaceCoreV1 (a b : Nat) (isNum : Bool) : Bool :=
  if (isWordChar a && ((isWordChar b || (b == 34)) || (b == 39))) then true else
  if (isNum && ((b == 46) || (((b == 43) || (b == 45)) && ([101, 69, 112, 80]).contains a))) then true else
  if ((a == 46) && isDigit b) then true else
  ((ops).contains a && (ops).contains b)

def needSpaceV1 (prev tok : List Nat) : Bool :=
  match prev.getLast?, tok.head? with
  | some a, some b => needSpaceCoreV1 a b (isNumStart prev)
  | _, _ => false

/-- `1.` `x` and `1e+` `5`: self-lexing spellings, the old `need_space` asked for no separator, and the glued text is ONE
    pp-number; the repaired `need_space` asks for the separator -/
theorem C19_fixed_ppnumber_tail :
    selfLexing [49, 46] = true ∧ selfLexing [120] = true ∧ needSpaceV1 [49, 46] [120] = false ∧
    spellings (lex ([49, 46] ++ [120])) = .ok [[49, 46, 120]] ∧ needSpace [49, 46] [120] = true ∧
    selfLexing [49, 101, 43] = true ∧ selfLexing [53] = true ∧ needSpaceV1 [49, 101, 43] [53] = false ∧
    spellings (lex ([49, 101, 43] ++ [53])) = .ok [[49, 101, 43, 53]] ∧ needSpace [49, 101, 43] [53] = true := by decide

end ChibiVerif.Findings.C19
