/-
C19 — kernel-checked witnesses of the defects that were repaired in /repo by `fix:` commits
(known_findings.json "fixed" list).  `Model/PrintTokens.lean` and `Gen/LexGen.lean` follow the
repaired code and `Props/C19.lean` proves it correct; this file keeps the earlier code and shows,
by evaluation in the kernel (`decide`), inputs on which the printed text does not lex back to the
tokens.

1. `print_tokens` as published: a newline before an `at_bol` token, one blank if `has_space`, the
   spelling — nothing else.  `#define N -1` / `-N` gives the tokens `-` `-` `1`, none with `has_space`.
2. the first `need_space` (commit 4c7d8b6): rule 2 was
   `is_num && (b == '.' || ((b == '+' || b == '-') && strchr("eEpP", a)))` — a pp-number ending in
   `.`, `+` or `-` followed by an alphanumeric character was printed glued (`f(1.)f(x)` → `1.x`,
   `f(1e+)f(5)` → `1e+5`).

Second part: the SECOND PASS (`chibicc -E a.c -o b.c; chibicc -E b.c`).  `Props.C19.C19_idempotent` proves it is the identity
when the printed token list is inert for the table of `init_macros`.  Outside that region the full statement
`C19_idempotent_Statement` is FALSE for the actual preprocessor; the witnesses below run the whole pipeline over the models
(`passText`: tokenize, `preprocess2` of Model/PP.lean from the table of `init_macros`, print_tokens) in the kernel, and each
was confirmed on the binary built from /repo (second `-E` differs AND compiling the `-E` text fails or differs):

3. a name of the initial table survives the first pass and is a macro again for the second (the text carries neither
   `#undef`s nor hide sets):   `#undef linux` / `int linux = 1;`  →  `int linux = 1;`  →  `int 1 = 1;`
                               `#define linux linux` / `linux`    →  `linux`           →  `1`          (painted blue, 6.10.3.4p2)
                               `#define unix() 0` / `unix`        →  `unix`            →  `1`          (function-like, no `(`)
                               `#define unsigned __SIZE_TYPE__` / `__SIZE_TYPE__ x;` → `__SIZE_TYPE__ long x;` → `unsigned long long x;`
4. a `#` produced by macro expansion starts a line (6.10.3.4p3: not a directive for the first pass):
                               `#define H #` / `H define X 1` / `X`  →  `# define X 1` / `X`  →  `1`
Both are inherent in writing preprocessed text without a marker that it is preprocessed (gcc -E behaves the same and offers
`-fpreprocessed` / the `.i` suffix; chibicc has neither).
-/
import ChibiVerif.Props.C19
import ChibiVerif.Props.C19Program

namespace ChibiVerif.Findings.C19
open ChibiVerif.Lex ChibiVerif.LexChar ChibiVerif.Gen.Lex

/-- `print_tokens` before the fix -/
def printFromOld (first : Bool) : List Tok → List Nat
  | [] => [10]
  | t :: ts =>
    (if !first && t.atBol then [10] else if t.hasSpace && !t.atBol then [32] else []) ++ t.text ++ printFromOld false ts

def minusMinusOne : List Tok :=
  [⟨.punct, [45], true, false⟩, ⟨.punct, [45], false, false⟩, ⟨.ppnum, [49], false, false⟩]

/-- `-N` with `#define N -1` was printed `--1`, which is the two tokens `--` `1` -/
theorem C19_fixed_glued_printer :
    printFromOld true minusMinusOne = [45, 45, 49, 10] ∧
    spellings (lex (printFromOld true minusMinusOne)) = .ok [[45, 45], [49]] ∧
    spellings (lex (printFromOld true minusMinusOne)) ≠ .ok (minusMinusOne.map (·.text)) ∧
    spellings (lex (printTokens minusMinusOne)) = .ok (minusMinusOne.map (·.text)) := by decide

/-- `need_space` of commit 4c7d8b6 (rule 2 without `isalnum(b)`) -/
def needSpaceCoreV1 (a b : Nat) (isNum : Bool) : Bool :=
  if (isWordChar a && ((isWordChar b || (b == 34)) || (b == 39))) then true else
  if (isNum && ((b == 46) || (((b == 43) || (b == 45)) && ([101, 69, 112, 80]).contains a))) then true else
  if ((a == 46) && isDigit b) then true else
  ((ops).contains a && (ops).contains b)

def needSpaceV1 (prev tok : List Nat) : Bool :=
  match prev.getLast?, tok.head? with
  | some a, some b => needSpaceCoreV1 a b (isNumStart prev)
  | _, _ => false

/-- `1.` `x` and `1e+` `5`: self-lexing spellings, the old `need_space` asked for no separator, and the glued text is ONE
    pp-number; the repaired `need_space` asks for the separator -/
theorem C19_fixed_ppnumber_tail :
    selfLexing [49, 46] = true ∧ selfLexing [120] = true ∧ needSpaceV1 [49, 46] [120] = false ∧
    spellings (lex ([49, 46] ++ [120])) = .ok [[49, 46, 120]] ∧ needSpace [49, 46] [120] = true ∧
    selfLexing [49, 101, 43] = true ∧ selfLexing [53] = true ∧ needSpaceV1 [49, 101, 43] [53] = false ∧
    spellings (lex ([49, 101, 43] ++ [53])) = .ok [[49, 101, 43, 53]] ∧ needSpace [49, 101, 43] [53] = true := by decide

/-! ## The second pass outside the inert region -/
section SecondPass
open ChibiVerif.C19Bridge ChibiVerif.Props.C19

/-- `#undef linux` / `int linux = 1;`: the first pass prints `int linux = 1;`, the second pass `int 1 = 1;` -/
theorem C19_second_pass_undef_predefined :
    passText 100 "a.c" (cps "#undef linux\nint linux = 1;\n") = .ok (cps "int linux = 1;\n") ∧
    passText 100 "b.c" (cps "int linux = 1;\n") = .ok (cps "int 1 = 1;\n") := by decide +kernel

/-- `#define linux linux` / `linux`: the painted token prints as `linux`; the paint is not in the text -/
theorem C19_second_pass_painted_predefined :
    passText 100 "a.c" (cps "#define linux linux\nlinux\n") = .ok (cps "linux\n") ∧
    passText 100 "b.c" (cps "linux\n") = .ok (cps "1\n") := by decide +kernel

/-- `#define unix() 0` / `unix`: a function-like macro name without `(` is left alone by the first pass -/
theorem C19_second_pass_funclike_predefined :
    passText 100 "a.c" (cps "#define unix() 0\nunix;\n") = .ok (cps "unix;\n") ∧
    passText 100 "b.c" (cps "unix;\n") = .ok (cps "1;\n") := by decide +kernel

/-- `#define unsigned __SIZE_TYPE__` / `__SIZE_TYPE__ x;`: no directive names the initial-table macro; its own expansion
    `unsigned long` re-enters it through the user macro, painted: the first pass prints `__SIZE_TYPE__ long x;` -/
theorem C19_second_pass_painted_through_user_macro :
    passText 100 "a.c" (cps "#define unsigned __SIZE_TYPE__\n__SIZE_TYPE__ x;\n") = .ok (cps "__SIZE_TYPE__ long x;\n") ∧
    passText 100 "b.c" (cps "__SIZE_TYPE__ long x;\n") = .ok (cps "unsigned long long x;\n") := by decide +kernel

/-- `#undef __LINE__` / `int __LINE__;`: the second pass substitutes the line of the `-E` text (and the handler's token
    starts a line of its own) -/
theorem C19_second_pass_undef_builtin :
    passText 100 "a.c" (cps "#undef __LINE__\nint __LINE__;\n") = .ok (cps "int __LINE__;\n") ∧
    passText 100 "b.c" (cps "int __LINE__;\n") = .ok (cps "int\n1;\n") := by decide +kernel

/-- `#define H #` / `H define X 1` / `X`: the expansion result `#` starts a line of the text and is a directive for the
    second pass -/
theorem C19_second_pass_hash_from_expansion :
    passText 100 "a.c" (cps "#define H #\nH define X 1\nX\n") = .ok (cps "# define X 1\nX\n") ∧
    passText 100 "b.c" (cps "# define X 1\nX\n") = .ok (cps "1\n") ∧
    passText 100 "a.c" (cps "#define H #\nH error\n") = .ok (cps "# error\n") ∧
    passText 100 "b.c" (cps "# error\n") = .error (.pp .errorDirective) := by decide +kernel

/-- no `#` of the source is anywhere but at the beginning of a line, and still one survives as a non-directive: an argument
    next to `##` is copied without macro replacement (6.10.3.3), so the `# pragma p` line inside the invocation is not executed
    as a directive but substituted — `#define K(x,y) x##y` / `K(,` / `# pragma p` / `)` / `z` -/
theorem C19_second_pass_hash_from_raw_argument :
    passText 100 "a.c" (cps "#define K(x,y) x##y\nK(,\n# pragma p\n)\nz\n") = .ok (cps "# pragma p\nz\n") ∧
    passText 100 "b.c" (cps "# pragma p\nz\n") = .ok (cps "z\n") := by decide +kernel

/-- the token list the first pass holds for `#undef linux` / `linux` -/
def survivingName : List Tok := [⟨.ident, [108, 105, 110, 117, 120], true, false⟩]

/-- it satisfies every hypothesis of `C19_idempotent` except inertness -/
theorem survivingName_not_inert :
    (∀ t ∈ survivingName, selfLexing t.text = true) ∧ (∀ t ∈ survivingName.head?, t.atBol = true) ∧
    validText survivingName = true ∧ Inert isInitMacro survivingName = false := by decide

theorem secondPass_survivingName (fuel : Nat) (file : String) :
    secondPass fuel file survivingName = [] ∨ secondPass fuel file survivingName = [⟨.ppnum, [49], true, false⟩] := by
  match fuel with
  | 0 => exact .inl rfl
  | 1 => exact .inl rfl
  | 2 => exact .inr rfl
  | n + 3 => exact .inr rfl

/-- **`C19_idempotent_Statement` is false for the actual second pass**, whatever fuel and display name: on the one-token
    list `linux` the second pass prints `1` (or, with fuel < 2, nothing) -/
theorem C19_finding_second_pass_surviving_name (fuel : Nat) (file : String) :
    ¬ C19_idempotent_Statement (secondPass fuel file) := by
  intro h
  obtain ⟨ts', hl, hp⟩ := h survivingName (by decide) (by decide)
  have h1 : lex (printTokens survivingName) = .ok survivingName := by decide
  rw [h1] at hl
  cases hl
  rcases secondPass_survivingName fuel file with h2 | h2 <;> rw [h2] at hp <;> revert hp <;> decide

/-- the token list the first pass holds for `#define H #` / `H pragma` / `a`: `#` (at_bol), `pragma`, `a` (at_bol) -/
def hashAtBol : List Tok :=
  [⟨.punct, [35], true, false⟩, ⟨.ident, [112, 114, 97, 103, 109, 97], false, true⟩, ⟨.ident, [97], true, false⟩]

theorem secondPass_hashAtBol (fuel : Nat) (file : String) :
    secondPass fuel file hashAtBol = [] ∨ secondPass fuel file hashAtBol = [⟨.ident, [97], true, false⟩] := by
  match fuel with
  | 0 => exact .inl rfl
  | 1 => exact .inl rfl
  | 2 => exact .inr rfl
  | n + 3 => exact .inr rfl

/-- … and it is false on a list without any macro name: `# pragma` / `a` loses its first line -/
theorem C19_finding_second_pass_hash_at_bol :
    (∀ t ∈ hashAtBol, selfLexing t.text = true) ∧ Inert isInitMacro hashAtBol = false ∧
    hashAtBol.all (fun t => !isInitMacro t.text) = true ∧
    lex (printTokens hashAtBol) = .ok hashAtBol ∧
    ∀ fuel file, printTokens (secondPass fuel file hashAtBol) ≠ printTokens hashAtBol := by
  refine ⟨by decide, by decide, by decide, by decide, ?_⟩
  intro fuel file hp
  rcases secondPass_hashAtBol fuel file with h2 | h2 <;> rw [h2] at hp <;> revert hp <;> decide

/-- `#define E` / `E # pragma p` / `a`: the `#` is the first token of the output but was not at the beginning of a line for
    the first pass (the empty expansion of `E` was); printed ` # pragma p`, it is a directive for the second pass.  This is
    why `C19_idempotent` asks for inertness of `normFirst ts`.  Also the harmless case: `#define E` / `E x` prints ` x`, the
    second pass `x` (same token, the blank is gone). -/
theorem C19_second_pass_first_token :
    passText 100 "a.c" (cps "#define E\nE # pragma p\na\n") = .ok (cps " # pragma p\na\n") ∧
    passText 100 "b.c" (cps " # pragma p\na\n") = .ok (cps "a\n") ∧
    passText 100 "a.c" (cps "#define E\nE x\n") = .ok (cps " x\n") ∧
    passText 100 "b.c" (cps " x\n") = .ok (cps "x\n") := by decide +kernel

/-- the token list of that first case: inert as it stands, not inert once its first token is at the beginning of a line -/
theorem C19_second_pass_first_token_region :
    let ts : List Tok := [⟨.punct, [35], false, true⟩, ⟨.ident, [112, 114, 97, 103, 109, 97], false, true⟩,
      ⟨.ident, [112], false, true⟩, ⟨.ident, [97], true, false⟩]
    printTokens ts = cps " # pragma p\na\n" ∧ Inert isInitMacro ts = true ∧ Inert isInitMacro (normFirst ts) = false := by
  decide +kernel

end SecondPass

/-! ## The same-program half outside the inert region -/
section SameProgram
open ChibiVerif.C19Bridge ChibiVerif.C19Convert ChibiVerif.Props.C19

/-- the token list the first compilation holds for `#undef linux` / `int linux = 1;` -/
def intLinux : List Tok :=
  [⟨.ident, [105, 110, 116], true, false⟩, ⟨.ident, [108, 105, 110, 117, 120], false, true⟩, ⟨.punct, [61], false, true⟩,
   ⟨.ppnum, [49], false, true⟩, ⟨.punct, [59], false, false⟩]

/-- compiled directly, `parse` receives keyword `int`, identifier `linux`, `=`, number `1`, `;`; compiled from the `-E` text
    `int linux = 1;` it receives keyword `int`, NUMBER `1`, `=`, number `1`, `;` (and rejects it: confirmed on the binary) -/
theorem C19_same_program_undef_predefined :
    printTokens intLinux = cps "int linux = 1;\n" ∧
    cc1OfTokens numOkSimple intLinux = .ok [⟨.keyword, .ident, [105, 110, 116]⟩, ⟨.ident, .ident, [108, 105, 110, 117, 120]⟩,
      ⟨.punct, .punct, [61]⟩, ⟨.num, .ppnum, [49]⟩, ⟨.punct, .punct, [59]⟩] ∧
    cc1Tokens numOkSimple 100 "b.c" (printTokens intLinux) = .ok [⟨.keyword, .ident, [105, 110, 116]⟩, ⟨.num, .ppnum, [49]⟩,
      ⟨.punct, .punct, [61]⟩, ⟨.num, .ppnum, [49]⟩, ⟨.punct, .punct, [59]⟩] := by decide +kernel

/-- **`C19_same_program_Statement` is false for chibicc**: the list satisfies every hypothesis of `C19_same_tokens` except
    inertness (known finding C19-second-pass-initial-macro-name) -/
theorem C19_finding_same_program_initial_macro_name : ¬ C19_same_program_Statement := by
  intro h
  have h1 := h numOkSimple intLinux (by decide) (by decide) 100 (by decide) "b.c"
  have h2 := C19_same_program_undef_predefined
  rw [h2.2.1, h2.2.2] at h1
  revert h1
  decide

theorem intLinux_not_inert : Inert isInitMacro (normFirst intLinux) = false := by decide

end SameProgram

end ChibiVerif.Findings.C19
