import ChibiVerif.Model.PrintTokens
namespace ChibiVerif.Findings.C19
end ChibiVerif.Findings.C19
