/-
Model of the initializer machinery of /repo/parse.c and of `emit_data` in /repo/codegen.c (property C05).

Hand-written, one C function = one Lean function of the same name (camelCase):

  new_initializer            → `newInit` / `newInitMs`
  skip_excess_element        → `skipExcess`
  string_initializer         → `stringInitializer`
  array_designator           → `arrayDesignator`
  struct_designator          → `structDesignator`   (`get_struct_member` → `hasMember`)
  designation                → `designation`
  count_array_init_elements  → `countArrayInit` (+ its `while` loop `countLoop`)
  array_initializer1 / 2     → `arrayInit1` (+ `arrayInit1Loop`) / `arrayInit2` (+ `arrayInit2Loop`)
  struct_initializer1 / 2    → `structInit1` (+ `structInit1Loop`) / `structInit2`
  union_initializer          → `unionInit` (+ its helper `union_rest` → `unionRest`)
  initializer2               → `initializer2` (the guard of its braced-string branch → `bracedStr`)
  initializer                → `initializer` (`parseInit` = `initializer` with the standard fuel)
  write_gvar_data, read_buf, write_buf, gvar_initializer → `writeGvar…`, `readBuf`, `writeBuf`, `gvarInit`
  create_lvar_init, init_desg_expr, lvar_initializer     → `createLvarInit…`, `Assign.addr`, `lvarInit`
  codegen.c ND_MEMZERO + ND_ASSIGN (`store`, bit-field read-modify-write) → `runAssign`, `runAssigns`
  codegen.c emit_data (the `.data` arm)                  → `emitData`

Abstractions (the tie in checklib/C05.py feeds the model exactly this view of a declaration):
* The C token list of an initializer is abstracted to `ITok`: `{` `}` `,` `=`; `.name` (C: `.` ident — the
  "expected a field designator" diagnostic for a `.` not followed by an identifier is outside the abstraction);
  `[a]`, `[a ... b]` (C: `[` const-expr (`...` const-expr)? `]`; `a`,`b` are the values `const_expr` returned);
  `expr e` = one complete assignment-expression that is not a string literal; `str …` = a string literal token.
  `assign()` is `parseAssign`: it consumes exactly one `expr`/`str` token and fails on anything else.
* An initialising expression is opaque (`Expr`): the model is given what the expression evaluates to after conversion
  to each scalar type (integer value `ival` as `eval` returns it, truth value `nz`, `float`/`double`/`long double` bit
  patterns, or `label + ival` for an address constant).  That translation-time and run-time evaluation produce these same
  values is property C07/C01/C02, not C05; C05 is about *where* each value lands.
* A type is given with its layout (`MemInfo.offset`, bit offsets, sizes) as struct_decl/union_decl computed it (C08).
* `Initializer.expr` exists in C on every node; the model keeps it on scalar, struct and union nodes only: on array
  nodes it is never read by either back end.
* An `Initializer` with `is_flexible` is the node `.flex`.  C keeps `array_len` = -1 (object of unknown bound) or 0
  (flexible array member, after struct_members) for it; the only reader of that length before resolution is
  `array_designator`, whose bounds test rejects every index in both cases.
  `new_initializer(array of unknown bound, false)` allocates no children (`.arr []`); every reader compares an index
  against `array_len` = -1 there, and behaves as for 0 children.
* C sites that can abort are explicit: `unreachable()` in string_initializer/read_buf/write_buf, `children[i]` outside the
  allocated block, reading `tok->str` past its end → `Fail.crash`; `error_tok` → `Fail.diag`; recursion depth → `Fail.fuel`.
-/

namespace ChibiVerif.Init

/-! ## Types, tokens, initializer trees -/

inductive SKind where
  | int | flt | ptr | bool
  deriving DecidableEq, Repr, Inhabited

structure MemInfo where
  name : Option String          -- none: anonymous struct/union member or unnamed bit-field
  offset : Nat
  bf : Option (Nat × Nat)       -- is_bitfield: (bit_offset, bit_width)
  deriving DecidableEq, Repr, Inhabited

inductive Ty where
  | scalar (size : Nat) (kind : SKind)
  | array (elem : Ty) (len : Nat)
  | inc (elem : Ty)                                            -- array of unknown bound (array_len = -1, size < 0)
  | struct (ms : List (MemInfo × Ty)) (size : Nat) (flex : Bool)   -- flex: ty->is_flexible (last member is `array _ 0`)
  | union (ms : List (MemInfo × Ty)) (size : Nat) (flex : Bool)
  deriving Repr, Inhabited

abbrev Members := List (MemInfo × Ty)

def Ty.size : Ty → Int
  | .scalar n _ => n
  | .array e n => e.size * n
  | .inc e => - e.size
  | .struct _ n _ => n
  | .union _ n _ => n

/-- `ty->kind == TY_ARRAY`: the element type -/
def Ty.elem? : Ty → Option Ty
  | .array e _ => some e
  | .inc e => some e
  | _ => none

/-- `is_integer(ty)` (TY_BOOL, TY_CHAR … TY_LONG, TY_ENUM) -/
def Ty.isInteger : Ty → Bool
  | .scalar _ .int => true
  | .scalar _ .bool => true
  | _ => false

def Ty.isAgg : Ty → Bool
  | .struct .. => true
  | .union .. => true
  | _ => false

/-- an initialising expression as the two back ends see it -/
structure Expr where
  ival : Int                    -- `eval(expr)`; the addend when `label` is set
  nz : Bool                     -- the expression compares unequal to 0
  f32 : Nat                     -- bit pattern after conversion to float
  f64 : Nat                     -- … to double
  f80 : Nat                     -- … to long double (80 bits)
  label : Option String := none -- address constant `label + ival`
  isStruct : Bool := false      -- the expression has struct type (`struct T x = y;`)
  isUnion : Bool := false       -- the expression has union type
  deriving DecidableEq, Repr, Inhabited

def Expr.num (v : Int) : Expr := { ival := v, nz := v != 0, f32 := 0, f64 := 0, f80 := 0 }

inductive ITok where
  | lbrace | rbrace | comma | eq
  | dot (name : String)
  | idx (a : Int)
  | range (a b : Int)
  | expr (e : Expr)
  | str (id : Nat) (bytes : List Nat) (esz : Nat)   -- tok->str (terminator included), element size of tok->ty->base
  deriving DecidableEq, Repr, Inhabited

inductive Fail where
  | diag (msg : String)
  | crash (why : String)
  | fuel
  deriving DecidableEq, Repr, Inhabited

/-- `struct Initializer` -/
inductive Init where
  | leaf (e : Option Expr)
  | arr (cs : List Init)
  | flex
  | struct (e : Option Expr) (cs : List Init)
  | union (e : Option Expr) (mem : Option Nat) (cs : List Init)
  deriving Repr, Inhabited

mutual
  def Init.beq : Init → Init → Bool
    | .leaf a, .leaf b => a == b
    | .arr a, .arr b => Init.beqList a b
    | .flex, .flex => true
    | .struct e a, .struct f b => e == f && Init.beqList a b
    | .union e m a, .union f n b => e == f && m == n && Init.beqList a b
    | _, _ => false
  def Init.beqList : List Init → List Init → Bool
    | [], [] => true
    | a :: as, b :: bs => Init.beq a b && Init.beqList as bs
    | _, _ => false
end

instance : BEq Init := ⟨Init.beq⟩

mutual
  /-- `new_initializer(ty, is_flexible)` -/
  def newInit : Ty → Bool → Init
    | .scalar _ _, _ => .leaf none
    | .array e n, _ => .arr (List.replicate n (newInit e false))
    | .inc _, fl => if fl then .flex else .arr []
    | .struct ms _ f, fl => .struct none (newInitMs ms (fl && f))
    | .union ms _ f, fl => .union none none (newInitMs ms (fl && f))
  /-- the member loop; `fl` = `is_flexible && ty->is_flexible` -/
  def newInitMs : Members → Bool → List Init
    | [], _ => []
    | [(_, t)], fl => if fl then [.flex] else [newInit t false]
    | (_, t) :: m :: r, fl => newInit t false :: newInitMs (m :: r) fl
end

/-! ## Token helpers -/

/-- `is_end` -/
def isEnd : List ITok → Bool
  | .rbrace :: _ => true
  | .comma :: .rbrace :: _ => true
  | _ => false

/-- `consume_end` -/
def consumeEnd : List ITok → Option (List ITok)
  | .rbrace :: r => some r
  | .comma :: .rbrace :: r => some r
  | _ => none

def skipTok (t : ITok) (what : String) : List ITok → Except Fail (List ITok)
  | x :: r => if x = t then .ok r else .error (.diag ("expected '" ++ what ++ "'"))
  | [] => .error (.diag ("expected '" ++ what ++ "'"))

/-- label of the anonymous object a string literal denotes when it is parsed as an expression -/
def strLabel (id : Nat) : String := ".str" ++ toString id

/-- `assign(rest, tok)` on the abstract token list -/
def parseAssign : List ITok → Except Fail (Expr × List ITok)
  | .expr e :: r => .ok (e, r)
  | .str id _ _ :: r => .ok ({ ival := 0, nz := true, f32 := 0, f64 := 0, f80 := 0, label := some (strLabel id) }, r)
  | _ => .error (.diag "expected an expression")

def isDesg : List ITok → Bool
  | .dot _ :: _ => true
  | .idx _ :: _ => true
  | .range _ _ :: _ => true
  | _ => false

/-- `equal(tok, "[")` -/
def isBracket : List ITok → Bool
  | .idx _ :: _ => true
  | .range _ _ :: _ => true
  | _ => false

def startsBrace : List ITok → Bool
  | .lbrace :: _ => true
  | _ => false

/-- `skip_excess_element` -/
def skipExcess : Nat → List ITok → Except Fail (List ITok)
  | 0, _ => .error .fuel
  | f+1, .lbrace :: r => do
    let t ← skipExcess f r
    skipTok .rbrace "}" t
  | _+1, toks => do
    let (_, r) ← parseAssign toks
    pure r

/-! ## Tree helpers -/

def getChild (cs : List Init) (i : Nat) : Except Fail Init :=
  match cs[i]? with
  | some c => .ok c
  | none => .error (.crash "children[i] outside the allocated block")

def Init.children : Init → List Init
  | .arr cs => cs
  | .struct _ cs => cs
  | .union _ _ cs => cs
  | _ => []

def Init.withChildren : Init → List Init → Init
  | .arr _, cs => .arr cs
  | .struct e _, cs => .struct e cs
  | .union e m _, cs => .union e m cs
  | i, _ => i

def Init.setChild (init : Init) (i : Nat) (c : Init) : Init :=
  init.withChildren (init.children.set i c)

/-- `init->expr = e` (kept on scalar, struct and union nodes only, see the header) -/
def Init.setExpr : Init → Option Expr → Init
  | .leaf _, e => .leaf e
  | .struct _ cs, e => .struct e cs
  | .union _ m cs, e => .union e m cs
  | i, _ => i

def Init.expr? : Init → Option Expr
  | .leaf e => e
  | .struct e _ => e
  | .union e _ _ => e
  | _ => none

/-- `init->mem = mem` -/
def Init.setMem : Init → Nat → Init
  | .union e _ cs, k => .union e (some k) cs
  | i, _ => i

/-- `init->mem` as a member index -/
def Init.mem? : Init → Option Nat
  | .union _ m _ => m
  | _ => none

def memTy (ms : Members) (i : Nat) : Except Fail Ty :=
  match ms[i]? with
  | some (_, t) => .ok t
  | none => .error (.crash "member index outside the member list")

mutual
  /-- does the object value carry any explicit initializer? -/
  def hasExpr : Init → Bool
    | .leaf e => e.isSome
    | .arr cs => hasExprList cs
    | .flex => false
    | .struct e cs => e.isSome || hasExprList cs
    | .union e m cs => e.isSome || m.isSome || hasExprList cs
  def hasExprList : List Init → Bool
    | [] => false
    | c :: cs => hasExpr c || hasExprList cs
end

/-! ## String literals -/

/-- little-endian element `i` of width `w` of `tok->str`; `none` = read past the end of the literal -/
def strElem (bytes : List Nat) (w i : Nat) : Option Nat :=
  let seg := (bytes.drop (i * w)).take w
  if seg.length = w then some (seg.foldr (fun b acc => b + 256 * acc) 0) else none

/-- the `Node` `new_num(str[i], tok)` builds: `char` is signed, `uint16_t`/`uint32_t` are not -/
def strNum (w v : Nat) : Expr :=
  if w = 1 then Expr.num (if v ≥ 128 then (v : Int) - 256 else v) else Expr.num v

/-- `for (i = 0; i < len; i++) init->children[i]->expr = new_num(str[i], tok)` -/
def strFill (bytes : List Nat) (w : Nat) : List Init → Nat → Nat → Except Fail (List Init)
  | cs, _, 0 => .ok cs
  | [], _, _+1 => .error (.crash "children[i] outside the allocated block")
  | c :: cs, i, n+1 =>
    match strElem bytes w i with
    | none => .error (.crash "string literal read past its end")
    | some v => do
      let rest ← strFill bytes w cs (i+1) n
      pure (c.setExpr (some (strNum w v)) :: rest)

/-- `string_initializer`; `elem` = `init->ty->base` -/
def stringInitializer (elem : Ty) (bytes : List Nat) (esz : Nat) (rest : List ITok) (init : Init) :
    Except Fail (Init × List ITok) :=
  -- `if (init->ty->base->size != tok->ty->base->size) error_tok(...)`
  if elem.size ≠ (esz : Int) then .error (.diag "array of inappropriate type initialized from string constant") else
  let tokLen := bytes.length / esz                 -- tok->ty->array_len
  let init := match init with
    | .flex => newInit (.array elem tokLen) false
    | i => i
  let cs := init.children
  let len := min cs.length tokLen
  let w := elem.size
  if w = 1 ∨ w = 2 ∨ w = 4 then do
    let cs' ← strFill bytes w.toNat cs 0 len
    pure (init.withChildren cs', rest)
  else .error (.crash "unreachable: string_initializer element size")

/-! ## Designators -/

/-- `array_designator`: the bounds tests against `ty->array_len` = `len` -/
def arrayDesignator (len : Nat) : List ITok → Except Fail (Nat × Nat × List ITok)
  | .idx a :: r =>
    if a < 0 ∨ a ≥ len then .error (.diag "array designator index exceeds array bounds")
    else .ok (a.toNat, a.toNat, r)
  | .range a b :: r =>
    if a < 0 ∨ a ≥ len then .error (.diag "array designator index exceeds array bounds")
    else if b ≥ len then .error (.diag "array designator index exceeds array bounds")
    else if b < a then .error (.diag "array designator range is empty")
    else .ok (a.toNat, b.toNat, r)
  | _ => .error (.crash "array_designator on a token that is not '['")

mutual
  /-- `get_struct_member(ty, tok) != NULL` -/
  def hasMember : Ty → String → Bool
    | .struct ms _ _, n => hasMemberMs ms n
    | .union ms _ _, n => hasMemberMs ms n
    | _, _ => false
  def hasMemberMs : Members → String → Bool
    | [], _ => false
    | (mi, t) :: r, n =>
      if t.isAgg && mi.name.isNone then
        (hasMember t n) || hasMemberMs r n
      else match mi.name with
        | none => hasMemberMs r n
        | some m => if m = n then true else hasMemberMs r n
end

/-- `struct_designator`: index of the member, and whether it is an anonymous struct/union member
    (then `*rest = start`: the same `.name` is looked up again one level down) -/
def structDesignator (name : String) : Members → Nat → Except Fail (Nat × Bool)
  | [], _ => .error (.diag "struct has no such member")
  | (mi, t) :: r, i =>
    if t.isAgg && mi.name.isNone then
      if hasMember t name then .ok (i, true) else structDesignator name r (i+1)
    else match mi.name with
      | none => structDesignator name r (i+1)
      | some m => if m = name then .ok (i, false) else structDesignator name r (i+1)

/-- `while (mem && mem->is_bitfield && !mem->name) mem = mem->next;` on member indices -/
def skipUnnamedBf (ms : Members) : Nat → Nat → Nat
  | 0, i => i
  | n+1, i =>
    match ms[i]? with
    | some (mi, _) => if mi.bf.isSome && mi.name.isNone then skipUnnamedBf ms n (i+1) else i
    | none => i

/-- `while (mem->next && mem->is_bitfield && !mem->name) mem = mem->next;` starting at index `i` (union default member) -/
def firstNamed (ms : Members) : Nat → Nat → Nat
  | 0, i => i
  | n+1, i =>
    match ms[i]?, ms[i+1]? with
    | some (mi, _), some _ => if mi.bf.isSome && mi.name.isNone then firstNamed ms n (i+1) else i
    | _, _ => i

abbrev P := Except Fail (Init × List ITok)

/-- `is_integer(ty) && ty->kind != TY_BOOL` -/
def Ty.isIntNotBool : Ty → Bool
  | .scalar _ .int => true
  | _ => false

/-- the guard of the first branch of `initializer2` for an array whose element type is `elem`, on the tokens after `{`:
    `is_integer(base) && base->kind != TY_BOOL && tok->next->kind == TK_STR && tok->next->ty->base->size == base->size &&
    (equal(tok->next->next, "}") || (equal(…, ",") && equal(…->next, "}")))`.  Result: the literal and what follows the
    closing brace (`consume(&tok, tok, ","); *rest = skip(tok, "}")`) -/
def bracedStr (elem : Ty) : List ITok → Option (Nat × List Nat × Nat × List ITok)
  | .str id bytes esz :: r =>
    if elem.isIntNotBool && elem.size == (esz : Int) then
      match consumeEnd r with
      | some rest => some (id, bytes, esz, rest)
      | none => none
    else none
  | _ => none

/-! ## The mutually recursive parser (fuel = one unit per C call or loop iteration) -/

mutual

  /-- `designation = ("[" const-expr "]" | "." ident)* "="? initializer` -/
  def designation : Nat → Ty → List ITok → Init → P
    | 0, _, _, _ => .error .fuel
    | f+1, ty, toks, init =>
      match toks with
      | .idx _ :: _ | .range _ _ :: _ =>
        match ty.elem? with
        | none => .error (.diag "array index in non-array initializer")
        | some elem =>
          match init with
          | .flex => .error (.diag "array designator index exceeds array bounds")
          | _ => do
            let (b, e, tok) ← arrayDesignator init.children.length toks
            -- for (int i = begin; i <= end; i++) designation(&tok2, tok, init->children[i]);
            let (init, tok2) ← (List.range' b (e + 1 - b)).foldlM
              (fun (acc : Init × List ITok) i => do
                let c ← getChild acc.1.children i
                let (c', t2) ← designation f elem tok c
                pure (acc.1.setChild i c', t2)) (init, tok)
            arrayInit2 f elem tok2 init (e + 1)
      | .dot name :: r =>
        match ty with
        | .struct ms _ _ => do
          let (k, anon) ← structDesignator name ms 0
          let tok := if anon then toks else r
          let mty ← memTy ms k
          let c ← getChild init.children k
          let (c', tok) ← designation f mty tok c
          let init := (init.setChild k c').setExpr none
          -- `bool first = (mem == init->ty->members)` is false for `mem->next`: a comma comes first
          structInit2 f ms tok init (k + 1) false
        | .union ms _ _ => do
          let (k, anon) ← structDesignator name ms 0
          let tok := if anon then toks else r
          let mty ← memTy ms k
          let init := init.setMem k
          let c ← getChild init.children k
          let (c', rest) ← designation f mty tok c
          pure (init.setChild k c', rest)
        | _ => .error (.diag "field name not in struct or union initializer")
      | .eq :: r => initializer2 f ty r init
      | _ => initializer2 f ty toks init
  termination_by structural f _ _ _ => f

  /-- the `while` loop of `count_array_init_elements`; `elem` = `ty->base` -/
  def countLoop : Nat → Ty → List ITok → Init → Int → Int → Bool → Except Fail Int
    | 0, _, _, _, _, _, _ => .error .fuel
    | f+1, elem, toks, dummy, i, mx, first =>
      match consumeEnd toks with
      | some _ => .ok mx
      | none => do
        let toks ← if first then pure toks else skipTok .comma "," toks
        let (dummy, toks, i) ← (match toks with
          | .idx a :: r => do
            let (d, t) ← designation f elem r dummy
            pure (d, t, a)
          | .range _ b :: r => do
            let (d, t) ← designation f elem r dummy
            pure (d, t, b)
          | _ => do
            let (d, t) ← initializer2 f elem toks dummy
            pure (d, t, i) : Except Fail (Init × List ITok × Int))
        let i := i + 1
        countLoop f elem toks dummy i (max mx i) false
  termination_by structural f _ _ _ _ _ _ => f

  /-- `count_array_init_elements(tok, ty)`; `elem` = `ty->base` -/
  def countArrayInit : Nat → Ty → List ITok → Except Fail Nat
    | 0, _, _ => .error .fuel
    | f+1, elem, toks => do
      let mx ← countLoop f elem toks (newInit elem true) 0 0 true
      pure mx.toNat
  termination_by structural f _ _ => f

  /-- the `for` loop of `array_initializer1` -/
  def arrayInit1Loop : Nat → Ty → List ITok → Init → Nat → Bool → P
    | 0, _, _, _, _, _ => .error .fuel
    | f+1, elem, toks, init, i, first =>
      match consumeEnd toks with
      | some rest => .ok (init, rest)
      | none => do
        let toks ← if first then pure toks else skipTok .comma "," toks
        if isBracket toks then do
          let (b, e, tok) ← arrayDesignator init.children.length toks
          let (init, tok2) ← (List.range' b (e + 1 - b)).foldlM
            (fun (acc : Init × List ITok) j => do
              let c ← getChild acc.1.children j
              let (c', t2) ← designation f elem tok c
              pure (acc.1.setChild j c', t2)) (init, tok)
          arrayInit1Loop f elem tok2 init (e + 1) false
        else if i < init.children.length then do
          let c ← getChild init.children i
          let (c', toks) ← initializer2 f elem toks c
          arrayInit1Loop f elem toks (init.setChild i c') (i + 1) false
        else do
          let toks ← skipExcess f toks
          arrayInit1Loop f elem toks init (i + 1) false
  termination_by structural f _ _ _ _ _ => f

  /-- `array_initializer1 = "{" initializer ("," initializer)* ","? "}"` -/
  def arrayInit1 : Nat → Ty → List ITok → Init → P
    | 0, _, _, _ => .error .fuel
    | f+1, elem, toks, init => do
      let toks ← skipTok .lbrace "{" toks
      let init ← (match init with
        | .flex => do
          let len ← countArrayInit f elem toks
          pure (newInit (.array elem len) false)
        | i => pure i : Except Fail Init)
      arrayInit1Loop f elem toks init 0 true
  termination_by structural f _ _ _ => f

  /-- the `for` loop of `array_initializer2` -/
  def arrayInit2Loop : Nat → Ty → List ITok → Init → Nat → P
    | 0, _, _, _, _ => .error .fuel
    | f+1, elem, toks, init, i =>
      if i < init.children.length && !isEnd toks then do
        let start := toks
        let toks ← if i > 0 then skipTok .comma "," toks else pure toks
        if isDesg toks then pure (init, start)
        else do
          let c ← getChild init.children i
          let (c', toks) ← initializer2 f elem toks c
          arrayInit2Loop f elem toks (init.setChild i c') (i + 1)
      else pure (init, toks)
  termination_by structural f _ _ _ _ => f

  /-- `array_initializer2 = initializer ("," initializer)*` -/
  def arrayInit2 : Nat → Ty → List ITok → Init → Nat → P
    | 0, _, _, _, _ => .error .fuel
    | f+1, elem, toks, init, i => do
      let init ← (match init with
        | .flex => do
          let len ← countArrayInit f elem toks
          pure (newInit (.array elem len) false)
        | x => pure x : Except Fail Init)
      arrayInit2Loop f elem toks init i
  termination_by structural f _ _ _ _ => f

  /-- the `while` loop of `struct_initializer1`; `mem` is an index into `ms` (`ms.length` = NULL) -/
  def structInit1Loop : Nat → Members → List ITok → Init → Nat → Bool → P
    | 0, _, _, _, _, _ => .error .fuel
    | f+1, ms, toks, init, mem, first =>
      match consumeEnd toks with
      | some rest => .ok (init, rest)
      | none => do
        let toks ← if first then pure toks else skipTok .comma "," toks
        match toks with
        | .dot name :: r => do
          let (k, anon) ← structDesignator name ms 0
          let tok := if anon then toks else r
          let mty ← memTy ms k
          let c ← getChild init.children k
          let (c', tok) ← designation f mty tok c
          structInit1Loop f ms tok (init.setChild k c') (k + 1) false
        | _ =>
          let mem := skipUnnamedBf ms ms.length mem
          if mem < ms.length then do
            let mty ← memTy ms mem
            let c ← getChild init.children mem
            let (c', toks) ← initializer2 f mty toks c
            structInit1Loop f ms toks (init.setChild mem c') (mem + 1) false
          else do
            let toks ← skipExcess f toks
            structInit1Loop f ms toks init mem false
  termination_by structural f _ _ _ _ _ => f

  /-- `struct_initializer1 = "{" initializer ("," initializer)* ","? "}"` -/
  def structInit1 : Nat → Members → List ITok → Init → P
    | 0, _, _, _ => .error .fuel
    | f+1, ms, toks, init => do
      let toks ← skipTok .lbrace "{" toks
      structInit1Loop f ms toks init 0 true
  termination_by structural f _ _ _ => f

  /-- `struct_initializer2 = initializer ("," initializer)*` (the whole function is its `for` loop) -/
  def structInit2 : Nat → Members → List ITok → Init → Nat → Bool → P
    | 0, _, _, _, _, _ => .error .fuel
    | f+1, ms, toks, init, mem, first =>
      match ms[mem]? with
      | none => pure (init, toks)
      | some (mi, mty) =>
        if isEnd toks then pure (init, toks)
        else if mi.bf.isSome && mi.name.isNone then structInit2 f ms toks init (mem + 1) first
        else do
          let start := toks
          let toks ← if first then pure toks else skipTok .comma "," toks
          if isDesg toks then pure (init, start)
          else do
            let c ← getChild init.children mem
            let (c', toks) ← initializer2 f mty toks c
            structInit2 f ms toks (init.setChild mem c') (mem + 1) false
  termination_by structural f _ _ _ _ _ => f

  /-- `union_rest`: the remaining initializers of a union's list.  A designated one selects - and initialises - a member, the last
      one wins (C11 6.7.9p19); a member other than the one initialised so far starts from zero; others are excess elements -/
  def unionRest : Nat → Members → List ITok → Init → P
    | 0, _, _, _ => .error .fuel
    | f+1, ms, toks, init =>
      match consumeEnd toks with
      | some rest => .ok (init, rest)
      | none => do
        let toks ← skipTok .comma "," toks
        match toks with
        | .dot name :: r => do
          let (k, anon) ← structDesignator name ms 0
          let tok := if anon then toks else r
          let mty ← memTy ms k
          -- `if (mem != init->mem) *init->children[mem->idx] = *new_initializer(mem->ty, false);`
          let init := if init.mem? = some k then init else init.setChild k (newInit mty false)
          let init := init.setMem k
          let c ← getChild init.children k
          let (c', tok) ← designation f mty tok c
          unionRest f ms tok (init.setChild k c')
        | _ => do
          let toks ← skipExcess f toks
          unionRest f ms toks init
  termination_by structural f _ _ _ => f

  /-- `union_initializer` -/
  def unionInit : Nat → Members → List ITok → Init → P
    | 0, _, _, _ => .error .fuel
    | f+1, ms, toks, init =>
      match toks with
      | .lbrace :: .dot name :: r => do
        let (k, anon) ← structDesignator name ms 0
        let tok := if anon then (.dot name :: r) else r
        let mty ← memTy ms k
        let init := init.setMem k
        let c ← getChild init.children k
        let (c', tok) ← designation f mty tok c
        unionRest f ms tok (init.setChild k c')
      | _ =>
        -- a GNU empty union has no member to initialize: `if (!init->ty->members) { if "{" struct_initializer1 else *rest = tok }`
        if ms.isEmpty then (if startsBrace toks then structInit1 f ms toks init else pure (init, toks))
        else
          -- by default the first named member: `while (mem->next && mem->is_bitfield && !mem->name) mem = mem->next`
          let k := firstNamed ms ms.length 0
          let init := init.setMem k
          match toks with
          | .lbrace :: r => do
            let mty ← memTy ms k
            let c ← getChild init.children k
            let (c', tok) ← initializer2 f mty r c
            unionRest f ms tok (init.setChild k c')
          | _ => do
            let mty ← memTy ms k
            let c ← getChild init.children k
            let (c', rest) ← initializer2 f mty toks c
            pure (init.setChild k c', rest)
  termination_by structural f _ _ _ => f

  /-- `initializer2` -/
  def initializer2 : Nat → Ty → List ITok → Init → P
    | 0, _, _, _ => .error .fuel
    | f+1, ty, toks, init =>
      match ty with
      | .array elem _ | .inc elem =>
        match toks with
        | .str _ bytes esz :: r =>
          if elem.isInteger then stringInitializer elem bytes esz r init
          else arrayInit2 f elem toks init 0
        | .lbrace :: r =>
          -- C11 6.7.9p14-15: `{ "abc" }` / `{ "abc", }` for an array of character type (the first branch in C)
          match bracedStr elem r with
          | some (_, bytes, esz, rest) => stringInitializer elem bytes esz rest init
          | none => arrayInit1 f elem toks init
        | _ => arrayInit2 f elem toks init 0
      | .struct ms _ _ =>
        if startsBrace toks then structInit1 f ms toks init
        else do
          -- `struct T x = y;`
          let (e, rest) ← parseAssign toks
          if e.isStruct then pure (init.setExpr (some e), rest)
          else structInit2 f ms toks init 0 true
      | .union ms _ _ =>
        if startsBrace toks then unionInit f ms toks init
        else do
          -- `union T x = y;`
          let (e, rest) ← parseAssign toks
          if e.isUnion then pure (init.setExpr (some e), rest)
          else unionInit f ms toks init
      | .scalar _ _ =>
        match toks with
        | .lbrace :: r => do
          let (init, tok) ← initializer2 f ty r init
          let tok := match tok with | .comma :: t => t | t => t
          let rest ← skipTok .rbrace "}" tok
          pure (init, rest)
        | _ => do
          let (e, rest) ← parseAssign toks
          pure (init.setExpr (some e), rest)
  termination_by structural f _ _ _ => f


end

/-! ## `initializer`: the resulting type -/

/-- the type of a resolved array node: `array_of(base, len)` -/
def resolveArr (elem : Ty) : Init → Ty
  | .arr cs => .array elem cs.length
  | _ => .array elem 0

/-- replace the type of the last member by the type of its initializer node -/
def resolveLast : Members → List Init → Members
  | [(mi, t)], [c] => match t.elem? with
    | some elem => [(mi, resolveArr elem c)]
    | none => [(mi, t)]
  | m :: ms, _ :: cs => m :: resolveLast ms cs
  | ms, _ => ms

def lastMemberSize : Members → Int
  | [] => 0
  | [(_, t)] => t.size
  | _ :: ms => lastMemberSize ms

/-- `*new_ty` of `initializer` -/
def resolveTy (ty : Ty) (init : Init) : Ty :=
  match ty with
  | .struct ms sz true =>
    let ms' := resolveLast ms init.children
    .struct ms' (sz + (lastMemberSize ms').toNat) true
  | .union ms sz true =>
    let ms' := resolveLast ms init.children
    .union ms' (sz + (lastMemberSize ms').toNat) true
  | .inc elem => resolveArr elem init
  | t => t

mutual
  def Ty.nodes : Ty → Nat
    | .scalar .. => 1
    | .array e _ => e.nodes + 1
    | .inc e => e.nodes + 1
    | .struct ms _ _ => nodesMs ms + 1
    | .union ms _ _ => nodesMs ms + 1
  def nodesMs : Members → Nat
    | [] => 0
    | (_, t) :: r => t.nodes + nodesMs r + 1
end

/-- the standard fuel: every C call or loop iteration of the parser consumes a token, descends one type level,
    or steps over one member; `C05_fuel_mono` shows that more fuel never changes an answer -/
def stdFuel (ty : Ty) (toks : List ITok) : Nat := (toks.length + 2) * (2 * ty.nodes + 6) + 8

/-- `initializer(rest, tok, ty, &new_ty)` with explicit fuel -/
def initializer (fuel : Nat) (ty : Ty) (toks : List ITok) : Except Fail (Init × Ty × List ITok) := do
  let (init, rest) ← initializer2 fuel ty toks (newInit ty true)
  pure (init, resolveTy ty init, rest)

def parseInit (ty : Ty) (toks : List ITok) : Except Fail (Init × List ITok) :=
  initializer2 (stdFuel ty toks) ty toks (newInit ty true)

/-! ## Object images -/

structure Reloc where
  offset : Nat
  label : String
  addend : Int
  deriving DecidableEq, Repr, Inhabited

/-- `var->init_data` (`buf`) and `var->rel` -/
structure Image where
  bytes : List Nat
  relocs : List Reloc
  deriving DecidableEq, Repr, Inhabited

/-- a byte of an object at run time: a number or byte `k` of the 8-byte value `label + addend` -/
inductive Cell where
  | byte (b : Nat)
  | sym (label : String) (addend : Int) (k : Nat)
  | junk                                     -- result of arithmetic on part of an address
  deriving DecidableEq, Repr, Inhabited

def leBytes (v : Nat) : Nat → List Nat
  | 0 => []
  | n+1 => v % 256 :: leBytes (v / 256) n

def fromLE : List Nat → Nat
  | [] => 0
  | b :: r => b % 256 + 256 * fromLE r

def u64 (v : Int) : Nat := (v % 18446744073709551616).toNat

def writeAt {α : Type} (mem : List α) (off : Nat) (vs : List α) : List α :=
  mem.take off ++ (vs.take (mem.length - off)) ++ mem.drop (off + vs.length)

/-- `read_buf(buf + off, sz)` (sz = 1 reads a `char`: sign-extended) -/
def readBuf (buf : List Nat) (off sz : Nat) : Except Fail Nat :=
  if sz = 1 ∨ sz = 2 ∨ sz = 4 ∨ sz = 8 then
    if off + sz ≤ buf.length then
      let v := fromLE ((buf.drop off).take sz)
      .ok (if sz = 1 ∧ v ≥ 128 then v + (18446744073709551616 - 256) else v)
    else .error (.crash "read_buf outside init_data")
  else .error (.crash "unreachable: read_buf size")

/-- `write_buf(buf + off, val, sz)` -/
def writeBuf (buf : List Nat) (off : Nat) (val : Nat) (sz : Nat) : Except Fail (List Nat) :=
  if sz = 1 ∨ sz = 2 ∨ sz = 4 ∨ sz = 8 then
    if off + sz ≤ buf.length then .ok (writeAt buf off (leBytes val sz))
    else .error (.crash "write_buf outside init_data")
  else .error (.crash "unreachable: write_buf size")

def writeBytes (buf : List Nat) (off : Nat) (bs : List Nat) : Except Fail (List Nat) :=
  if off + bs.length ≤ buf.length then .ok (writeAt buf off bs)
  else .error (.crash "store outside init_data")

/-! ## Static storage: `write_gvar_data` -/

/-- the scalar tail of `write_gvar_data` (from `if (!init->expr) return cur;` on) -/
def writeGvarLeaf (e : Expr) (sz : Nat) (kind : SKind) (im : Image) (off : Nat) : Except Fail Image :=
  match kind with
  | .flt =>
    if e.label.isSome then .error (.diag "not a compile-time constant")
    else if sz = 4 then do pure { im with bytes := ← writeBytes im.bytes off (leBytes e.f32 4) }
    else if sz = 8 then do pure { im with bytes := ← writeBytes im.bytes off (leBytes e.f64 8) }
    else if sz = 16 then do pure { im with bytes := ← writeBytes im.bytes off (leBytes e.f80 10) }
    else .error (.crash "floating type of unknown size")
  | _ =>
    match e.label with
    | none =>
      let val := if kind = .bool then (if e.nz then 1 else 0) else u64 e.ival
      do pure { im with bytes := ← writeBuf im.bytes off val sz }
    | some l => .ok { im with relocs := im.relocs ++ [{ offset := off, label := l, addend := e.ival }] }

mutual
  /-- `write_gvar_data(cur, init, ty, buf, offset)` -/
  def writeGvar : Init → Ty → Image → Nat → Except Fail Image
    | .arr cs, .array elem _, im, off => writeGvarArr cs elem im off
    | .flex, .array _ _, im, _ => .ok im                           -- unresolved flexible member: array_len 0
    | .struct _ cs, .struct ms _ _, im, off => writeGvarMs cs ms im off
    | .union _ none _, .union _ _ _, im, _ => .ok im
    | .union _ (some k) cs, .union ms _ _, im, off => writeGvarNth cs ms k im off
    | .leaf none, .scalar _ _, im, _ => .ok im
    | .leaf (some e), .scalar sz kind, im, off => writeGvarLeaf e sz kind im off
    | _, _, _, _ => .error (.crash "initializer tree does not have the shape of the type")
  /-- `for (i = 0; i < ty->array_len; i++) cur = write_gvar_data(cur, init->children[i], ty->base, buf, offset + sz * i)` -/
  def writeGvarArr : List Init → Ty → Image → Nat → Except Fail Image
    | [], _, im, _ => .ok im
    | c :: cs, elem, im, off => do
      let im ← writeGvar c elem im off
      writeGvarArr cs elem im (off + elem.size.toNat)
  /-- the member loop of the TY_STRUCT arm -/
  def writeGvarMs : List Init → Members → Image → Nat → Except Fail Image
    | _, [], im, _ => .ok im
    | [], _ :: _, _, _ => .error (.crash "children[mem->idx] outside the allocated block")
    | c :: cs, (mi, t) :: ms, im, off =>
      match mi.bf with
      | some (bo, bw) =>
        match c.expr? with
        | none => writeGvarMs cs ms im off
        | some e =>
          if e.label.isSome then .error (.diag "not a compile-time constant")
          else do
            let loc := off + mi.offset
            let sz := t.size.toNat
            let oldval ← readBuf im.bytes loc sz
            -- `if (mem->ty->kind == TY_BOOL) newval = … != 0`
            let newval := match t with
              | .scalar _ .bool => if e.nz then 1 else 0
              | _ => u64 e.ival
            let mask := (2 ^ bw - 1) % 18446744073709551616
            let combined := oldval ||| (((newval &&& mask) <<< bo) % 18446744073709551616)
            let bytes ← writeBuf im.bytes loc combined sz
            writeGvarMs cs ms { im with bytes := bytes } off
      | none => do
        let im ← writeGvar c t im (off + mi.offset)
        writeGvarMs cs ms im off
  /-- `write_gvar_data(cur, init->children[init->mem->idx], init->mem->ty, buf, offset)` -/
  def writeGvarNth : List Init → Members → Nat → Image → Nat → Except Fail Image
    | c :: _, (_, t) :: _, 0, im, off => writeGvar c t im off
    | _ :: cs, _ :: ms, k+1, im, off => writeGvarNth cs ms k im off
    | _, _, _, _, _ => .error (.crash "union member index outside the member list")
end

/-- `gvar_initializer` after parsing: `buf = calloc(1, var->ty->size)`, then write_gvar_data -/
def gvarInit (init : Init) (ty : Ty) : Except Fail Image :=
  writeGvar init ty { bytes := List.replicate ty.size.toNat 0, relocs := [] } 0

/-! ## Automatic storage: `create_lvar_init`, executed as codegen.c does -/

/-- what `store()` / the bit-field arm of ND_ASSIGN writes -/
inductive StoreKind where
  | scalar (size : Nat) (kind : SKind)
  | bitfield (unit : Nat) (kind : SKind) (bitOff bitWidth : Nat)
  | copy (size : Nat)                                   -- struct assignment
  deriving DecidableEq, Repr, Inhabited

/-- one link of the `InitDesg` chain -/
inductive Desg where
  | idx (i : Nat) (elemSize : Nat)        -- `*(lhs + i)`: new_add scales by the element size
  | mem (offset : Nat)                    -- ND_MEMBER
  deriving DecidableEq, Repr, Inhabited

/-- `lhs = rhs` with `lhs = init_desg_expr(desg)` -/
structure Assign where
  path : List Desg            -- outermost first, relative to the variable
  kind : StoreKind
  e : Expr
  deriving DecidableEq, Repr, Inhabited

def Desg.disp : Desg → Nat
  | .idx i sz => i * sz
  | .mem o => o

/-- the address `gen_addr` computes for `init_desg_expr(desg)`, relative to the variable -/
def Assign.addr (a : Assign) : Nat := (a.path.map Desg.disp).foldl (· + ·) 0

mutual
  /-- `create_lvar_init(init, ty, desg, tok)`; the ND_COMMA chain is the list, ND_NULL_EXPR contributes nothing;
      `bf` = the designated member is a bit-field (read by codegen from `lhs->member`) -/
  def createLvarInit : Init → Ty → List Desg → Option (Nat × Nat) → Except Fail (List Assign)
    | .arr cs, .array elem _, path, _ => createLvarArr cs elem path 0
    | .flex, .array _ _, _, _ => .ok []
    | .struct none cs, .struct ms _ _, path, _ => createLvarMs cs ms path
    | .struct (some e) _, .struct _ sz _, path, _ => .ok [{ path := path, kind := .copy sz, e := e }]
    | .union none mem cs, .union ms _ _, path, _ =>
      -- `Member *mem = init->mem ? init->mem : ty->members; if (!mem) return ND_NULL_EXPR` (GNU empty union)
      if ms.isEmpty then .ok [] else createLvarNth cs ms (mem.getD 0) path
    | .union (some e) _ _, .union _ sz _, path, _ => .ok [{ path := path, kind := .copy sz, e := e }]
    | .leaf none, .scalar _ _, _, _ => .ok []
    | .leaf (some e), .scalar sz kind, path, bf =>
      match bf with
      | some (bo, bw) => .ok [{ path := path, kind := .bitfield sz kind bo bw, e := e }]
      | none => .ok [{ path := path, kind := .scalar sz kind, e := e }]
    | _, _, _, _ => .error (.crash "initializer tree does not have the shape of the type")
  def createLvarArr : List Init → Ty → List Desg → Nat → Except Fail (List Assign)
    | [], _, _, _ => .ok []
    | c :: cs, elem, path, i => do
      let a ← createLvarInit c elem (path ++ [.idx i elem.size.toNat]) none
      let r ← createLvarArr cs elem path (i + 1)
      pure (a ++ r)
  def createLvarMs : List Init → Members → List Desg → Except Fail (List Assign)
    | _, [], _ => .ok []
    | [], _ :: _, _ => .error (.crash "children[mem->idx] outside the allocated block")
    | c :: cs, (mi, t) :: ms, path => do
      let a ← createLvarInit c t (path ++ [.mem mi.offset]) mi.bf
      let r ← createLvarMs cs ms path
      pure (a ++ r)
  def createLvarNth : List Init → Members → Nat → List Desg → Except Fail (List Assign)
    | c :: _, (mi, t) :: _, 0, path => createLvarInit c t (path ++ [.mem mi.offset]) mi.bf
    | _ :: cs, _ :: ms, k+1, path => createLvarNth cs ms k path
    | _, _, _, _ => .error (.crash "union member index outside the member list")
end

/-- `lvar_initializer` after parsing: the assignment chain (ND_MEMZERO is `runAssigns`' start state) -/
def lvarInit (init : Init) (ty : Ty) : Except Fail (List Assign) := createLvarInit init ty [] none

/-- the bytes `%rax`/`%xmm0`/`st0` hold after `gen_expr(rhs)` + the cast to the type of the lhs, cut to the store width -/
def valueCells (e : Expr) (sz : Nat) (kind : SKind) : List Cell :=
  match kind with
  | .flt =>
    if sz = 4 then (leBytes e.f32 4).map .byte
    else if sz = 8 then (leBytes e.f64 8).map .byte
    else (leBytes e.f80 10).map .byte                              -- fstpt
  | .bool => [.byte (if e.nz then 1 else 0)]
  | _ =>
    let w := if sz = 1 ∨ sz = 2 ∨ sz = 4 then sz else 8         -- store(): mov %al / %ax / %eax / else %rax
    match e.label with
    | none => (leBytes (u64 e.ival) w).map .byte
    | some l => (List.range w).map (fun k => Cell.sym l e.ival k)

def cellByte? : Cell → Option Nat
  | .byte b => some b
  | _ => none

/-- the bit-field arm of ND_ASSIGN: `rdi = (rax & mask) << bit_offset; rax = load(unit); rax &= ~(mask << bit_offset);
    rax |= rdi; store(unit)` — byte `k` of the unit -/
def rmwCell (old : Cell) (maskByte valByte : Nat) : Cell :=
  match old with
  | .byte b => .byte (((b &&& (255 - maskByte)) ||| valByte) % 256)
  | c => if maskByte = 0 then c else .junk       -- a byte of an address: kept if untouched, else no longer an address

def runAssign (mem : List Cell) (a : Assign) : Except Fail (List Cell) :=
  let off := a.addr
  match a.kind with
  | .scalar sz kind =>
    let cells := valueCells a.e sz kind
    if off + cells.length ≤ mem.length then .ok (writeAt mem off cells)
    else .error (.crash "store outside the variable")
  | .copy sz =>
    if off + sz ≤ mem.length then .ok (writeAt mem off ((List.range sz).map (fun k => Cell.sym "$struct" a.e.ival k)))
    else .error (.crash "store outside the variable")
  | .bitfield unit kind bo bw =>
    if ¬ (unit = 1 ∨ unit = 2 ∨ unit = 4 ∨ unit = 8) then .error (.crash "bit-field unit size")
    else if off + unit > mem.length then .error (.crash "store outside the variable")
    else if a.e.label.isSome then .error (.crash "address constant stored into a bit-field")
    else
      let v := if kind = .bool then (if a.e.nz then 1 else 0) else u64 a.e.ival
      let mask := (2 ^ bw - 1) % 18446744073709551616
      let fld := ((v &&& mask) <<< bo) % 18446744073709551616
      let msk := (mask <<< bo) % 18446744073709551616
      let old := (mem.drop off).take unit
      let new := (List.range unit).map (fun k =>
        rmwCell (old.getD k .junk) ((msk >>> (8 * k)) % 256) ((fld >>> (8 * k)) % 256))
      .ok (writeAt mem off new)

def runAssigns (mem : List Cell) : List Assign → Except Fail (List Cell)
  | [] => .ok mem
  | a :: r => do
    let m ← runAssign mem a
    runAssigns m r

/-- ND_MEMZERO: `rep stosb` over `var->ty->size` bytes -/
def zeroCells (n : Nat) : List Cell := List.replicate n (.byte 0)

/-- the automatic object after its declaration has been executed -/
def autoObject (init : Init) (ty : Ty) : Except Fail (List Cell) := do
  let as ← lvarInit init ty
  runAssigns (zeroCells ty.size.toNat) as

/-! ## `emit_data` and what the assembler/linker make of it -/

inductive Directive where
  | quad (label : String) (addend : Int)     -- `.quad label+addend` (printf %+ld)
  | byte (b : Nat)                           -- `.byte b`
  | zero (n : Nat)                           -- `.zero n` (.bss arm)
  deriving DecidableEq, Repr, Inhabited

/-- the `while (pos < var->ty->size)` loop; fuel = bytes left -/
def emitLoop (bytes : List Nat) (size : Nat) : Nat → Nat → List Reloc → List Directive
  | 0, _, _ => []
  | f+1, pos, rels =>
    if pos < size then
      match rels with
      | r :: rs =>
        if r.offset = pos then .quad r.label r.addend :: emitLoop bytes size f (pos + 8) rs
        else .byte (bytes.getD pos 0) :: emitLoop bytes size f (pos + 1) rels
      | [] => .byte (bytes.getD pos 0) :: emitLoop bytes size f (pos + 1) []
    else []

/-- `emit_data` for one object with `init_data` -/
def emitData (im : Image) (size : Nat) : List Directive := emitLoop im.bytes size size 0 im.relocs

/-- the bytes the assembler lays down for a directive list -/
def assemble : List Directive → List Cell
  | [] => []
  | .quad l a :: r => (List.range 8).map (fun k => Cell.sym l a k) ++ assemble r
  | .byte b :: r => .byte b :: assemble r
  | .zero n :: r => List.replicate n (.byte 0) ++ assemble r

/-- what an image means: each relocation covers 8 bytes at its offset, every other byte is `init_data[pos]` -/
def overlay (cells : List Cell) : List Reloc → List Cell
  | [] => cells
  | r :: rs => overlay (writeAt cells r.offset ((List.range 8).map (fun k => Cell.sym r.label r.addend k))) rs

def Image.cells (im : Image) : List Cell := overlay (im.bytes.map .byte) im.relocs

/-- the static object as loaded -/
def staticObject (init : Init) (ty : Ty) : Except Fail (List Cell) := do
  let im ← gvarInit init ty
  pure im.cells

/-! ## The flexible array member after `initializer` (added for C05_flex_size) -/

/-- the number of elements of the flexible member's node (`.flex`: no initializer reached it) -/
def flexLen : Init → Nat
  | .arr xs => xs.length
  | _ => 0

/-- element type of the flexible member (the last member) and the number of elements its node has after the initializer -/
def flexResolved : Members → List Init → Option (Ty × Nat)
  | [(_, t)], [c] => t.elem?.map (fun el => (el, flexLen c))
  | _ :: m :: ms, _ :: cs => flexResolved (m :: ms) cs
  | _, _ => none

end ChibiVerif.Init
