/-
Glue between the functions translated from tokenize.c into Gen/PpNumGen.lean — `convert_pp_int` as a whole (prefix ladder,
the `strtoul` call, suffix ladder, whole-token test, type ladder), the pp-number arm of `tokenize()` (start test and scan
loop) and the body of `tokenize_file` (BOM test and phase order, from clang's AST) — and the vocabulary of the hand model
(Model/Literals.lean, Model/Text.lean).

libc `strtoul` is a *parameter* of the translated `convert_pp_int`.  This file states what the theorems need of it
(`StrtoulSpec`) and gives a Lean model of glibc's `strtoul` (`strtoulC`) that the in-process harness runs against the real
libc (`stl` operation of the line protocol) and that Lemmas/C11PpInt.lean proves to satisfy the contract.
Core Lean only.
-/
import ChibiVerif.Gen.PpNumGen
import ChibiVerif.Model.Literals
import ChibiVerif.Model.Text

namespace ChibiVerif.PpNumber
open ChibiVerif.Gen.Literals
open ChibiVerif.Literals
open ChibiVerif.Spec.Literals

-- ------------------------------------------------------------------ libc strtoul

/-- `strtoul` returns `ULONG_MAX` when the value does not fit (and sets `errno`, which chibicc does not look at) -/
def saturate (v : Nat) : BitVec 64 := if v < 2 ^ 64 then BitVec.ofNat 64 v else BitVec.ofNat 64 (2 ^ 64 - 1)

/-- glibc `strtoul(p + i, &end, base)` for `2 ≤ base ≤ 36` on a text whose byte at `i` is neither white space nor a sign
    (in `convert_pp_int` it is a digit, or the `.` of a pp-number such as `.5`): value and `end - p`.
    * base 16 accepts a `0x` / `0X` prefix of its own (so `convert_pp_int`, which has already skipped one, reads `0x0x1f` as 31);
    * then the longest run of digits of the base (`strtoulDigits`, letters in either case);
    * no digit: value 0, `end` = the start — or, after a `0x` prefix, the `x` (the `0` was a number);
    * a value that does not fit 64 bits: `ULONG_MAX`, `end` still after the last digit. -/
def strtoulC (p : List Byte) (i base : Nat) : BitVec 64 × Nat :=
  let j := if base = 16 ∧ byteAt p i = 48#8 ∧ (byteAt p (i + 1) = 120#8 ∨ byteAt p (i + 1) = 88#8) then i + 2 else i
  let r := strtoulDigits p base (p.length + 1) j 0
  if r.2 = j then (0#64, if j = i then i else i + 1) else (saturate r.1, r.2)

/-- What the integer-constant theorems assume of libc `strtoul` (C11 7.22.1.4 for a subject sequence without white space and
    sign): if the text at `i` is a non-empty run `ds` of digits of the base (2 ≤ base ≤ 16) followed by a byte that is not
    a digit of the base, and it does not start with a `0x`/`0X` prefix in base 16, then the value is that of the digit
    sequence, saturated to `ULONG_MAX`, and the end pointer is after the last digit. -/
structure StrtoulSpec (f : List Byte → Nat → Nat → BitVec 64 × Nat) : Prop where
  digits : ∀ (p : List Byte) (i base : Nat) (ds : List Byte), 2 ≤ base → base ≤ 16 → ds ≠ [] →
    (∀ k, k < ds.length → byteAt p (i + k) = ds.getD k 0#8) →
    (∀ d ∈ ds, isXDigit d = true ∧ hexDigitValue d.toNat < base) →
    (∀ x, digitVal (byteAt p (i + ds.length)) = some x → ¬ x < base) →
    ¬ (base = 16 ∧ byteAt p i = 48#8 ∧ (byteAt p (i + 1) = 120#8 ∨ byteAt p (i + 1) = 88#8)) →
    f p i base = (saturate (digitsValue base (ds.map (fun d => hexDigitValue d.toNat))), i + ds.length)

/-- the digit loop alone (Model/Literals.lean `strtoul`, the function the hand model of `convert_pp_int` calls) in the
    argument order of the translated code -/
def strtoulH (p : List Byte) (i base : Nat) : BitVec 64 × Nat := ChibiVerif.Literals.strtoul p i base

-- ------------------------------------------------------------------ convert_pp_int on the whole function

/-- `convert_pp_int` as translated, with the libc model: the token is `p[loc, loc + len)` -/
def convertPpIntC (p : List Byte) (loc len : Nat) : Option (BitVec 64 × Ty) :=
  ChibiVerif.Gen.PpNum.convertPpInt strtoulC p loc len

-- ------------------------------------------------------------------ tokenize(): literal at the start of a text, translated parts

/-- `lexLiteral` (Model/Literals.lean) with the translated pp-number arm and the translated `convert_pp_int`, called as the
    C code calls it: on the token inside its text (not on a copy of the token) and with the libc model of `strtoul` -/
def lexLiteralC (p : List Byte) : Except LitErr LitTok :=
  if ChibiVerif.Gen.PpNum.ppNumberStart p 0 then
    let n := ChibiVerif.Gen.PpNum.ppNumberEnd p 0
    match convertPpIntC p 0 n with
    | some (v, ty) => .ok (.int v ty n)
    | none => .ok (.flt n)
  else lexLiteral p

/-- the text `tokenize()` gets for the bytes of a file: `read_file`'s final newline (hand model, libc stream functions), then
    `tokenize_file` as translated -/
def fileText (bytes : List Byte) : Option (List Byte) :=
  ChibiVerif.Gen.PpNum.tokenizeFileText (ChibiVerif.Text.ensureFinalNewline bytes)

/-- the one shape of text on which the libc model of `strtoul` and the digit loop of the hand model differ inside
    `convert_pp_int`: a hexadecimal prefix followed by a second `0x` / `0X` (libc skips it; `0x0x1f` is read as 31) -/
def SecondPrefix (p : List Byte) : Prop :=
  (ChibiVerif.Gen.PpNum.convertPpInt_sel1 p 0).2 = 16 ∧ byteAt p 2 = 48#8 ∧ (byteAt p 3 = 120#8 ∨ byteAt p 3 = 88#8)

instance (p : List Byte) : Decidable (SecondPrefix p) := by unfold SecondPrefix; infer_instance

-- ------------------------------------------------------------------ vocabulary of the pp-number theorem

/-- the part `p[i, j)` of a text -/
def slice (p : List Byte) (i j : Nat) : List Byte := (p.drop i).take (j - i)

end ChibiVerif.PpNumber
