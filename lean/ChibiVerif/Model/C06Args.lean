/-
Model of the argument conversions of a call (property C06), parse.c `funcall()` + `func_params()` + `new_cast()` and the
code `gen_expr` emits for the resulting `ND_CAST` chain, joined to the calling-convention model (Model/CallConv.lean):

* `Gen.Funcall.argStep` / `afterLoop`   — one trip through the argument loop of `funcall()` / the statements after it,
                                           **translated from parse.c on every run** (tools/extract/funcall.py)
* `funcallLoop`, `funcall`              — the loop itself (cursor `param_ty` over the parameter list, one `argStep` per
                                           argument, the diagnostics "too many arguments" / "too few arguments")
* `fnTyOf`                              — `func_params()`: `(void)`, `()` (treated as variadic), `(T, ..)`, `(T, .., ...)`,
                                           array / function parameters adjusted to pointers
* `castChain`, `argLoad`, `argCode`     — the lines `gen_expr` prints for an argument that is a variable converted by the
                                           inserted `ND_CAST`s (codegen.c `load`, `cast`: Model/FpCodegen.lean over the cast
                                           table regenerated from codegen.c)
* `callSig`, `callText`                 — the signature the back end sees (`arg->ty` after conversion) and the complete text
                                           of the call: every argument evaluated, converted, pushed (`push_args`), popped into
                                           its register, `call`; compared line by line with `chibicc -S` by checklib/C06.py
* `passRegSeq`, `passStackSeq`, `storeGpSeq`, `slotLoadSeq` — the instruction sequences the value theorems of
                                           Props/C06.lean are about (integer-class arguments)

Core Lean only.
-/
import ChibiVerif.Gen.FuncallGen
import ChibiVerif.Gen.TemplatesGen
import ChibiVerif.Model.FpCodegen
import ChibiVerif.Model.C01Expr
import ChibiVerif.Model.CallConv
import ChibiVerif.Spec.FpC11Spec

namespace ChibiVerif.C06Args
open ChibiVerif.Asm ChibiVerif.Gen.CommonType ChibiVerif.Gen.Funcall
open ChibiVerif.CallConv (ATy Sig)
open ChibiVerif.Spec.IntSpec (ITy)

/-! ## function types and the argument loop -/

/-- what `funcall()` looks at in the callee's type: `ty->params` (each a `Type` descriptor) and `ty->is_variadic` -/
structure FnTy where
  params : List TyD
  variadic : Bool
  deriving DecidableEq, Repr

/-- the three spellings of a parameter list -/
inductive ParamDecl where
  | void                                      -- `f(void)`
  | empty                                     -- `f()`
  | list (ps : List TyD) (ellipsis : Bool)    -- `f(T1, .., Tn)` / `f(T1, .., Tn, ...)`, n ≥ 1
  deriving DecidableEq, Repr

/-- `func_params()`: "array of T" / "function" parameters become pointers -/
def adjustParam (t : TyD) : TyD :=
  if t.kind == .TY_ARRAY && arrayParamDecays then ty_ptr
  else if t.kind == .TY_FUNC && funcParamDecays then ty_ptr
  else t

/-- `func_params()` -/
def fnTyOf : ParamDecl → FnTy
  | .void => ⟨[], false⟩
  | .empty => ⟨[], emptyParamListIsVariadic⟩
  | .list ps e => ⟨ps.map adjustParam, e⟩

/-- the argument loop of `funcall()`: `ps` = the list `param_ty` points into, `args` = `arg->ty` of the remaining
    arguments.  Result: the diagnostic, or for every argument the types of the `ND_CAST` nodes wrapped around it. -/
def funcallLoop (variadic : Bool) : List TyD → List TyD → Except String (List (List TyD))
  | ps, [] =>
    match afterLoop variadic ps.head? with
    | .diag m => .error m
    | .ok _ _ => .ok []
  | ps, a :: as =>
    match argStep variadic ps.head? a with
    | .diag m => .error m
    | .ok casts adv => (funcallLoop variadic (if adv then ps.tail else ps) as).map (casts :: ·)

def funcall (f : FnTy) (args : List TyD) : Except String (List (List TyD)) :=
  funcallLoop f.variadic f.params args

/-- `arg->ty` after the inserted casts (`new_cast`: `node->ty = copy_type(ty)`) -/
def tyAfter (a : TyD) (casts : List TyD) : TyD := casts.getLast?.getD a

/-! ## code of one argument -/

/-- kinds for which `load()` prints nothing (the value of the expression is the address) -/
def noLoad (t : TyD) : Bool :=
  t.kind == .TY_ARRAY || t.kind == .TY_STRUCT || t.kind == .TY_UNION || t.kind == .TY_FUNC || t.kind == .TY_VLA

/-- `load(ty)` -/
def argLoad (t : TyD) : List Line := if noLoad t then [] else FpCodegen.load t

/-- the `ND_CAST` arm of `gen_expr` for a chain of casts: `cast(node->lhs->ty, node->ty)` innermost first -/
def castChain (a : TyD) : List TyD → List Line
  | [] => []
  | t :: ts => FpCodegen.cast a t ++ castChain t ts

/-- the lines between `lea`/`mov` of the variable's address and the push of the argument -/
def argCode (a : TyD) (casts : List TyD) : List Line := argLoad a ++ castChain a casts

/-- the instructions one trip through the loop adds after the argument's own code, `none` when a diagnostic is issued -/
def argSeq (variadic : Bool) (p : Option TyD) (a : TyD) : Option (List Ins) :=
  match argStep variadic p a with
  | .ok casts _ => some ((castChain a casts).flatMap Line.instrs)
  | .diag _ => none

/-! ## from parse-level types to the types the back end classifies -/

/-- a C type at a call: a scalar / pointer / array descriptor, or a struct/union with its member tree -/
inductive CTy where
  | scalar (d : TyD)
  | agg (t : ATy)

/-- the descriptor `funcall()` sees -/
def CTy.descr : CTy → TyD
  | .scalar d => d
  | .agg (.agg isUnion size _ _) => ⟨if isUnion then .TY_UNION else .TY_STRUCT, size, false, false⟩
  | .agg t => ⟨.TY_STRUCT, t.size, false, false⟩

/-- the back end's view (`default:` arm of `push_args` for everything that is not struct/union/float/double/long double) -/
def atyOfDescr (d : TyD) : ATy :=
  match d.kind with
  | .TY_FLOAT => .flt
  | .TY_DOUBLE => .dbl
  | .TY_LDOUBLE => .ldbl
  | .TY_BOOL => .int d.size true true
  | .TY_ARRAY | .TY_FUNC | .TY_VLA => .int 8 true false      -- the value is an address
  | _ => .int d.size d.isUnsigned false

/-- `arg->ty` of an argument after the casts, as the back end sees it -/
def CTy.after (c : CTy) (casts : List TyD) : ATy :=
  match casts.getLast? with
  | some t => atyOfDescr t
  | none => match c with
    | .scalar d => atyOfDescr d
    | .agg t => t

/-- one call site: callee type with the member trees of its struct/union parameters, return type, argument types -/
structure Call where
  ret : Option ATy
  params : List CTy
  variadic : Bool
  args : List CTy

def Call.fnTy (c : Call) : FnTy := ⟨c.params.map CTy.descr, c.variadic⟩

/-- the casts `funcall()` inserts -/
def Call.casts (c : Call) : Except String (List (List TyD)) := funcall c.fnTy (c.args.map CTy.descr)

/-- the signature `push_args` / the pop phase work on: the converted argument types -/
def callSig (c : Call) : Except String Sig :=
  (c.casts).map fun cs =>
    { ret := c.ret, params := (c.args.zip cs).map (fun (a, k) => a.after k), nNamed := c.params.length, variadic := c.variadic }

/-! ## the complete text of a call whose arguments are variables -/

def renderLines (ls : List Line) : List String := ls.map Line.render

/-- `selectRev` of Model/CallConv with the argument's index kept: the order in which `push_args2` evaluates -/
def evalOrder : List Bool → Nat → Bool → List Nat
  | f :: fs, i, want => evalOrder fs (i + 1) want ++ (if f == want then [i] else [])
  | [], _, _ => []

/-- the lines of one `ND_FUNCALL` between the prologue of the calling function and `.L.return`: per argument
    `@i` (stands for the line that puts the address of variable i into %rax), `load`, the casts, the push; then the callee's
    address, the pops, `call`, the clean-up and the return-value handling (Model/CallConv `callLines`).
    `@f` stands for the line that puts the function's address into %rax. -/
def callText (depth : Nat) (c : Call) (retOff : Int) : Except String (List String) := do
  let cs ← c.casts
  let s ← callSig c
  let large := CallConv.retLarge s.ret
  let (st, flags) := CallConv.classifyArgs large s.params
  let pad := CallConv.padSlots depth st
  let one (i : Nat) : List String :=
    match c.args[i]?, cs[i]?, s.params[i]? with
    | some a, some k, some t => s!"@{i}" :: renderLines (argCode a.descr k) ++ CallConv.pushLines t
    | _, _, _ => ["?"]
  let full := CallConv.callLines depth s retOff
  -- `callLines` = padding ++ pushes ++ (hidden pointer, pops, call, ...): replace its push part by evaluation + push
  let pushPart := ((CallConv.selectRev s.params flags true).flatMap CallConv.pushLines
                   ++ (CallConv.selectRev s.params flags false).flatMap CallConv.pushLines).length
  let padPart := if pad = 1 then 1 else 0
  let tail := full.drop (padPart + pushPart)
  let hidden := if large then 2 else 0
  pure (full.take padPart
        ++ (evalOrder flags 0 true).flatMap one ++ (evalOrder flags 0 false).flatMap one
        ++ tail.take hidden ++ ["@f"] ++ tail.drop hidden)

/-! ## instruction sequences of the value theorems (integer-class arguments) -/

open ChibiVerif.Gen.Templates (argreg8 argreg16 argreg32 argreg64)

def regName (tbl : List String) (r : Nat) : String := tbl.getD r "?"

/-- a register argument: the conversion, `push %rax` (`push_args2`), `pop argreg64[r]` (pop phase of `ND_FUNCALL`) -/
def passRegSeq (code : List Ins) (r : Nat) : List Ins :=
  code ++ [⟨"push", [.r "%rax"]⟩, ⟨"pop", [.r (regName argreg64 r)]⟩]

/-- a stack argument: the conversion and `push %rax`; the slot stays where it is until the callee reads it -/
def passStackSeq (code : List Ins) : List Ins := code ++ [⟨"push", [.r "%rax"]⟩]

/-- `store_gp(r, off, sz)` for sz ∈ {1, 2, 4, 8}: the prologue writes the parameter object at `off(%rbp)` -/
def storeGpSeq (r : Nat) (off : Int) (sz : Nat) : List Ins :=
  if sz = 1 then [⟨"mov", [.r (regName argreg8 r), .m off "%rbp"]⟩]
  else if sz = 2 then [⟨"mov", [.r (regName argreg16 r), .m off "%rbp"]⟩]
  else if sz = 4 then [⟨"mov", [.r (regName argreg32 r), .m off "%rbp"]⟩]
  else [⟨"mov", [.r (regName argreg64 r), .m off "%rbp"]⟩]

/-- what the callee does to read a parameter of integer type `t` at `off(%rbp)`: `lea off(%rbp), %rax` + `load` -/
def paramReadSeq (t : ITy) (off : Int) : List Ins :=
  ⟨"lea", [.m off "%rbp", .r "%rax"]⟩ :: (C01Codegen.load (C01.descr t)).flatMap Line.instrs

/-- the descriptor of each of the twelve arithmetic types (C02's `descr`, restated core-only) -/
def descrA : ChibiVerif.Spec.FpC11.ATy → TyD
  | .int t => C01.descr t
  | .f32 => ty_float | .f64 => ty_double | .f80 => ty_ldouble

/-- `pushf()` -/
def pushfSeq : List Ins := [⟨"sub", [.i 8, .r "%rsp"]⟩, ⟨"movsd", [.r "%xmm0", .m0 "%rsp"]⟩]
/-- `push_args2` for a long double -/
def pushLdSeq : List Ins := [⟨"sub", [.i 16, .r "%rsp"]⟩, ⟨"fstpt", [.m0 "%rsp"]⟩]

end ChibiVerif.C06Args
