/-
Model of the parts of chibicc that decide sizes, alignments and layouts (property C08):

* `declspecDecode`   — parse.c `declspec`: the counter arithmetic over built-in type keywords with the
                       `switch (counter)` evaluated after every keyword (`default: error_tok "invalid type"`);
                       constants, keyword ladder and switch table come from `Gen/DeclspecGen.lean`.
* `structLayout`     — parse.c `struct_decl` (offset assignment loop, final `align_to`).
* `unionLayout`      — parse.c `union_decl`.
* `Ty.sizeAlign`     — type.c `array_of` / `pointer_to` / `enum_type` / primitive literals, `attribute_list`'s
                       `aligned(n)` (`alignAttr`: guard and assignment regenerated from parse.c) and
                       `struct_members` (member alignment from the `_Alignas` specifiers as `declspec` accumulates them,
                       the integer-type requirement on bit-fields, flexible array member → `array_of(base, 0)`).
* `varAlign`         — alignment of a declared object: new_var's `var->align = ty->align`, overridden by
                       `if (attr->align) var->align = attr->align` (automatic, block-scope static, file scope).

C `int` is modelled by unbounded `Int` (`/` and `%` are C's truncating `Int.tdiv` / `Int.tmod`); the theorems state
the no-overflow bound where it matters.  Every C division is guarded: a zero divisor is the explicit outcome
`Fail.divByZero` (SIGFPE in cc1), never Lean's `x / 0 = 0`.  The two located diagnostics on the way to a layout
(`aligned(n)` outside 0 / the powers of two up to 2^28; a bit-field whose declared type is not an integer type) are the
outcomes `TyFail.badAlign` / `TyFail.bitfieldType` of the type-level functions.

Core Lean only.
-/
import ChibiVerif.Gen.DeclspecGen

namespace ChibiVerif.Layout
open ChibiVerif.Gen.Declspec

/-! ## declspec -/

inductive Diag where
  | invalidType        -- error_tok(tok, "invalid type")
  deriving DecidableEq, Repr

/-- `counter += K` or `counter |= K` for one keyword -/
def kwApply (c : Nat) (k : Kw) : Nat :=
  match kwIncr k with
  | (v, false) => c + v
  | (v, true) => c ||| v

/-- `switch (counter)`: `none` is the `default:` arm -/
def switchLookup (c : Nat) : Option TyName := switchTable.lookup c

/-- one trip through the loop body for a built-in type keyword -/
def declspecStep (c : Nat) (k : Kw) : Except Diag (Nat × TyName) :=
  match switchLookup (kwApply c k) with
  | some t => .ok (kwApply c k, t)
  | none => .error .invalidType

/-- the loop: state = (counter, ty) -/
def declspecRun : Nat × TyName → List Kw → Except Diag (Nat × TyName)
  | s, [] => .ok s
  | s, k :: ks =>
    match declspecStep s.1 k with
    | .ok s' => declspecRun s' ks
    | .error d => .error d

/-- `declspec` on a sequence of built-in type-specifier keywords (qualifiers and storage classes are skipped by the
    loop without touching `counter`; struct/union/enum/typedef names are not part of this model) -/
def declspecDecode (ks : List Kw) : Except Diag TyName :=
  match declspecRun (initCounter, initTy) ks with
  | .ok s => .ok s.2
  | .error d => .error d

/-! ## struct / union layout -/

inductive Fail where
  | divByZero          -- integer division by zero in cc1 (SIGFPE)
  deriving DecidableEq, Repr

/-- what `struct_decl`/`union_decl` read of a `Member` -/
structure Mem where
  size : Int                   -- mem->ty->size
  align : Int                  -- mem->align  (= attr.align ? attr.align : mem->ty->align, see `Ty.toMem`)
  bitWidth : Option Int        -- is_bitfield / bit_width
  named : Bool                 -- mem->name != NULL
  deriving DecidableEq, Repr

/-- what they write into a `Member` (calloc leaves both 0) -/
structure Placed where
  offset : Int
  bitOffset : Int
  deriving DecidableEq, Repr

structure Layout where
  size : Int
  align : Int
  placed : List Placed
  deriving DecidableEq, Repr

/-- `align_to` with the division made explicit -/
def alignToE (n a : Int) : Except Fail Int :=
  if a = 0 then .error .divByZero else .ok (alignTo n a)

/-- unnamed bit-field: `mem->is_bitfield && !mem->name` -/
def Mem.unnamedBitfield (m : Mem) : Bool := m.bitWidth.isSome && !m.named

/-- first half of the body of the `for` loop of `struct_decl`: bits ↦ (bits, placement of this member) -/
def placeMember (packed : Bool) (bits : Int) (m : Mem) : Except Fail (Int × Placed) :=
  match m.bitWidth with
  | some w =>
    if w = 0 then
      -- bits = align_to(bits, mem->ty->size * 8);
      match alignToE bits (m.size * 8) with
      | .ok b => .ok (b, { offset := 0, bitOffset := 0 })
      | .error e => .error e
    else if m.size * 8 = 0 then .error .divByZero
    else
      -- int sz = mem->ty->size;
      -- if (bits / (sz * 8) != (bits + mem->bit_width - 1) / (sz * 8)) bits = align_to(bits, sz * 8);
      let b := if Int.tdiv bits (m.size * 8) ≠ Int.tdiv (bits + w - 1) (m.size * 8) then alignTo bits (m.size * 8) else bits
      -- mem->offset = align_down(bits / 8, sz); mem->bit_offset = bits % (sz * 8); bits += mem->bit_width;
      .ok (b + w, { offset := alignDown (Int.tdiv b 8) m.size, bitOffset := Int.tmod b (m.size * 8) })
  | none =>
    -- bits = align_to(bits, ty->is_packed ? 8 : mem->align * 8);      ("even in a packed struct a member starts at a byte boundary")
    -- mem->offset = bits / 8; bits += mem->ty->size * 8;
    match alignToE bits (if packed then 8 else m.align * 8) with
    | .ok b => .ok (b + m.size * 8, { offset := Int.tdiv b 8, bitOffset := 0 })
    | .error e => .error e

/-- second half: `if (mem->is_bitfield && !mem->name) continue;`
    `if (!ty->is_packed && ty->align < mem->align) ty->align = mem->align;` -/
def stepAlign (packed : Bool) (align : Int) (m : Mem) : Int :=
  if m.unnamedBitfield then align else if !packed && align < m.align then m.align else align

/-- body of the `for` loop of `struct_decl`: (bits, ty->align) ↦ (bits, ty->align), placement of this member -/
def structStep (packed : Bool) (bits align : Int) (m : Mem) : Except Fail (Int × Int × Placed) :=
  match placeMember packed bits m with
  | .ok (b, p) => .ok (b, stepAlign packed align m, p)
  | .error e => .error e

def structLoop (packed : Bool) : Int → Int → List Mem → Except Fail (Int × Int × List Placed)
  | bits, align, [] => .ok (bits, align, [])
  | bits, align, m :: ms =>
    match structStep packed bits align m with
    | .error e => .error e
    | .ok (b, a, p) =>
      match structLoop packed b a ms with
      | .error e => .error e
      | .ok (b', a', ps) => .ok (b', a', p :: ps)

/-- `struct_decl` after `struct_union_decl`: `align0` is `ty->align` as left by `struct_type()` and
    `attribute_list` (1, or `n` of the last `aligned(n)`) -/
def structLayout (packed : Bool) (align0 : Int) (ms : List Mem) : Except Fail Layout :=
  match structLoop packed 0 align0 ms with
  | .error e => .error e
  | .ok (bits, align, ps) =>
    -- ty->size = align_to(bits, ty->align * 8) / 8;
    match alignToE bits (align * 8) with
    | .error e => .error e
    | .ok s => .ok { size := Int.tdiv s 8, align := align, placed := ps }

/-- body of the loop of `union_decl`: (ty->size, ty->align) -/
def unionStep (packed : Bool) (size align : Int) (m : Mem) : Int × Int :=
  match m.bitWidth, m.named with
  | some w, false =>
    -- if (ty->size < (mem->bit_width + 7) / 8) ty->size = (mem->bit_width + 7) / 8; continue;
    (if size < Int.tdiv (w + 7) 8 then Int.tdiv (w + 7) 8 else size, align)
  | _, _ =>
    (if size < m.size then m.size else size, if !packed && align < m.align then m.align else align)

def unionLoop (packed : Bool) : Int → Int → List Mem → Int × Int
  | size, align, [] => (size, align)
  | size, align, m :: ms => unionLoop packed (unionStep packed size align m).1 (unionStep packed size align m).2 ms

def unionLayout (packed : Bool) (align0 : Int) (ms : List Mem) : Except Fail Layout :=
  let r := unionLoop packed (STRUCT_INIT_SIZE : Nat) align0 ms
  -- ty->size = align_to(ty->size, ty->align);
  match alignToE r.1 r.2 with
  | .error e => .error e
  | .ok s => .ok { size := s, align := r.2, placed := ms.map fun _ => { offset := 0, bitOffset := 0 } }

/-! ## types (declarators, struct_members) -/

/-- per-member declaration data that is not part of the member's type or its alignment specifiers -/
structure MemDecl where
  bitWidth : Option Int
  named : Bool
  deriving DecidableEq, Repr

mutual
  inductive Ty where
    | prim (t : TyName)
    | enum                                   -- enum_type()
    | ptr                                    -- pointer_to(_)
    | arr (elem : Ty) (len : Int)            -- array_of(elem, len)
    | flex (elem : Ty)                       -- `T x[];` as the last member: array_of(elem, 0)
    | struct (packed : Bool) (aligned : Option Int) (ms : Members)
    | union (packed : Bool) (aligned : Option Int) (ms : Members)
  /-- the `_Alignas` specifiers of one declaration, in source order -/
  inductive Aligns where
    | nil
    | const (n : Int) (rest : Aligns)        -- `_Alignas(constant-expression)`
    | type (t : Ty) (rest : Aligns)          -- `_Alignas(type-name)`
  inductive Members where
    | nil
    | cons (d : MemDecl) (as : Aligns) (ty : Ty) (rest : Members)
end

def primSize (t : TyName) : Int := ((primInfo t).1 : Nat)
def primAlign (t : TyName) : Int := ((primInfo t).2.1 : Nat)

/-- outcomes of the type-level functions (`declspec`/`declarator`/`struct_members`/`attribute_list` around
    `struct_decl`/`union_decl`) other than a type: the SIGFPE of the loops above, or one of the two located diagnostics -/
inductive TyFail where
  | divByZero          -- `Fail.divByZero` of struct_decl / union_decl
  | badAlign           -- attribute_list `aligned(n)` / declspec `_Alignas(n)`: error_tok(start, "alignment must be a power of two no larger than 2^28")
  | bitfieldType       -- struct_members: error_tok(tok, "bit-field has non-integer type")
  deriving DecidableEq, Repr

def Fail.toTy : Fail → TyFail
  | .divByZero => .divByZero

/-- run `struct_decl` / `union_decl` inside the type-level functions -/
def liftFail {α : Type} : Except Fail α → Except TyFail α
  | .ok a => .ok a
  | .error e => .error e.toTy

/-- `attribute_list`, one `aligned(n)` (`none`: no such attribute): `cur` is `ty->align` before (struct_type() leaves
    STRUCT_INIT_ALIGN).  `int64_t n = const_expr(..)`; the guard and the assignment are regenerated from parse.c:
    `if (n < 0 || n > (1 << 28) || (n & (n - 1))) error_tok(..); if (n) ty->align = n;` -/
def alignAttr (cur : Int) : Option Int → Except TyFail Int
  | none => .ok cur
  | some n => if alignedAttrBad n then .error .badAlign else .ok (alignedAttrApply cur n)

/-- `ty->kind` of a type description (type.c: the literals, pointer_to, enum_type, array_of, struct_decl/union_decl) -/
def Ty.kind : Ty → String
  | .prim t => primKind t
  | .enum => "TY_ENUM"
  | .ptr => "TY_PTR"
  | .arr _ _ => "TY_ARRAY"
  | .flex _ => "TY_ARRAY"
  | .struct _ _ _ => "TY_STRUCT"
  | .union _ _ _ => "TY_UNION"

/-- type.c `is_integer(ty)` (list of kinds regenerated from type.c) -/
def Ty.isInteger (t : Ty) : Bool := integerKinds.contains t.kind

mutual
  /-- (ty->size, ty->align).  An aggregate is `struct_union_decl` followed by the loop of `struct_decl`/`union_decl`:
      struct_type(), then the `aligned(n)` attribute (modelled in the position before the tag/member list, so that of two
      diagnostics the one that comes first in the source is the one reported), then `struct_members`, then the loop. -/
  def Ty.sizeAlign : Ty → Except TyFail (Int × Int)
    | .prim t => .ok (primSize t, primAlign t)
    | .enum => .ok ((ENUM_SIZE : Nat), (ENUM_ALIGN : Nat))
    | .ptr => .ok ((PTR_SIZE : Nat), (PTR_ALIGN : Nat))
    | .arr e n => do let (s, a) ← e.sizeAlign; pure (s * n, a)
    | .flex e => do let (s, a) ← e.sizeAlign; pure (s * 0, a)
    | .struct p al ms => do
      let a0 ← alignAttr (STRUCT_INIT_ALIGN : Nat) al
      let mems ← ms.toMems
      let l ← liftFail (structLayout p a0 mems)
      pure (l.size, l.align)
    | .union p al ms => do
      let a0 ← alignAttr (STRUCT_INIT_ALIGN : Nat) al
      let mems ← ms.toMems
      let l ← liftFail (unionLayout p a0 mems)
      pure (l.size, l.align)
  /-- `declspec`, the `_Alignas` arm, run over the specifiers of one declaration: `acc` is attr->align so far (starts 0);
      each specifier does attr->align = MAX(attr->align, align) with align = typename(..)->align, or
      `int64_t n = const_expr(..); if (n < 0 || n > (1 << 28) || (n & (n - 1))) error_tok(..); align = n;`
      (guard regenerated from parse.c; the same message as for `aligned(n)`) -/
  def Aligns.eval : Aligns → Int → Except TyFail Int
    | .nil, acc => .ok acc
    | .const n rest, acc =>
      if alignasConstBad n then .error .badAlign else rest.eval (alignasCombine acc (alignasOfConst n))
    | .type t rest, acc => do
      let (s, a) ← t.sizeAlign
      rest.eval (alignasCombine acc (alignasOfType s a))
  /-- `struct_members`: declspec (with its `_Alignas` specifiers), declarator, mem->align = attr.align ? attr.align :
      mem->ty->align, and for a bit-field `if (!is_integer(mem->ty)) error_tok(tok, "bit-field has non-integer type")`.
      (The second guard of that arm, `if (mem->ty->is_atomic) error_tok(tok, "bit-field has atomic type")`, is pinned by
      the translator (`bitfieldAtomicMsg`); type descriptions have no `_Atomic` qualifier, so it never fires here.) -/
  def Members.toMems : Members → Except TyFail (List Mem)
    | .nil => .ok []
    | .cons d as ty rest => do
      let attrAlign ← as.eval 0
      let (s, a) ← ty.sizeAlign
      if d.bitWidth.isSome && !ty.isInteger then .error .bitfieldType
      else do
        let tl ← rest.toMems
        pure ({ size := s, align := memberAlign attrAlign a, bitWidth := d.bitWidth, named := d.named } :: tl)
end

/-- alignment of an object declared with the specifiers `as` and type `ty` (all three storage classes use the same two
    assignments): var->align = ty->align; if (attr->align) var->align = attr->align; -/
def varAlign (as : Aligns) (ty : Ty) : Except TyFail Int := do
  let attrAlign ← as.eval 0
  let (_, a) ← ty.sizeAlign
  pure (if attrAlign ≠ 0 then attrAlign else a)

/-- full layout of an aggregate (size, align, member placements); other types have no members -/
def Ty.layout : Ty → Except TyFail Layout
  | .struct p al ms => do
    let a0 ← alignAttr (STRUCT_INIT_ALIGN : Nat) al
    let mems ← ms.toMems
    liftFail (structLayout p a0 mems)
  | .union p al ms => do
    let a0 ← alignAttr (STRUCT_INIT_ALIGN : Nat) al
    let mems ← ms.toMems
    liftFail (unionLayout p a0 mems)
  | t => do let (s, a) ← t.sizeAlign; pure { size := s, align := a, placed := [] }

end ChibiVerif.Layout
