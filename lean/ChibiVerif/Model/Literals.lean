/-
Hand model of the literal readers of tokenize.c and of preprocess.c
`join_adjacent_string_literals`, written after the source text that
tools/extract/literals.py pins (any change of that text is reported as a broken tie).
Tables, ladders and codecs come from Gen/LiteralsGen.lean (translated).

Conventions
* a text is a `List Byte` without its NUL terminator; `byteAt p i` reads the terminator at
  `i = p.length` (and zeros after it: the C code never reads there on inputs that end in
  "\n\0", see the comments at each function);
* C `int` values are `BitVec 32`, `tok->val` (int64_t) is `BitVec 64`;
* every `error_at`/`error_tok` site is an `Except` outcome.
Core Lean only.
-/
import ChibiVerif.Gen.LiteralsGen
import ChibiVerif.Spec.LiteralsSpec

namespace ChibiVerif.Literals
open ChibiVerif.Gen.Literals

abbrev Byte := BitVec 8

deriving instance DecidableEq for Except

inductive LitErr
  | invalidUtf8          -- unicode.c decode_utf8: "invalid UTF-8 sequence"
  | invalidHexEscape     -- read_escaped_char: "invalid hex escape sequence"
  | unclosedString       -- string_literal_end: "unclosed string literal"
  | unclosedChar         -- read_char_literal: "unclosed char literal"
  | invalidNumber        -- convert_pp_number: "invalid numeric constant"
  | nonStandardConcat    -- join_adjacent_string_literals: "unsupported non-standard concatenation of string literals"
  | unreachable          -- getStringKind: unreachable()
  | notALiteral          -- (model only) the text does not start with a literal
  | fuel                 -- (model only) loop bound exhausted; never happens, see `*_fuel` remarks
  deriving DecidableEq, Repr

def decodeAt (p : List Byte) (i : Nat) : Except LitErr (BitVec 32 × Nat) :=
  match decodeUtf8 (p.drop i) with
  | .ok r => .ok r
  | .error _ => .error .invalidUtf8

-- ------------------------------------------------------------------ chibicc's types for the C11 types

/-- How chibicc represents the standard integer types: type.c has no `long long` distinct from
    `long` (`declspec` maps both to `ty_long` / `ty_ulong`; same size, signedness and rank
    behaviour, indistinguishable except by `_Generic` and pointer compatibility).  This
    identification is part of every C11 statement about integer-constant types. -/
def collapse : ChibiVerif.Spec.Literals.IntType → Ty
  | .int => .ty_int
  | .uint => .ty_uint
  | .long | .llong => .ty_long
  | .ulong | .ullong => .ty_ulong

/-- chibicc's type for each floating type -/
def floatTy : ChibiVerif.Spec.Literals.FloatType → Ty
  | .float => .ty_float
  | .double => .ty_double
  | .ldouble => .ty_ldouble

-- ------------------------------------------------------------------ <ctype.h> in the C locale

def isDigit (b : Byte) : Bool := 48 ≤ b.toNat && b.toNat ≤ 57
def isOctDigit (b : Byte) : Bool := 48 ≤ b.toNat && b.toNat ≤ 55
def isXDigit (b : Byte) : Bool :=
  isDigit b || (97 ≤ b.toNat && b.toNat ≤ 102) || (65 ≤ b.toNat && b.toNat ≤ 70)
def isAlpha (b : Byte) : Bool := (97 ≤ b.toNat && b.toNat ≤ 122) || (65 ≤ b.toNat && b.toNat ≤ 90)
def isAlnum (b : Byte) : Bool := isDigit b || isAlpha b
def toLower (b : Byte) : Byte := if 65 ≤ b.toNat && b.toNat ≤ 90 then b + 32 else b

/-- tokenize.c `from_hex` (`char c`, `int` arithmetic) -/
def fromHex (b : Byte) : BitVec 32 :=
  let c := b.signExtend 32
  if isDigit b then c - 48
  else if 97 ≤ b.toNat && b.toNat ≤ 102 then c - 97 + 10
  else c - 65 + 10

-- ------------------------------------------------------------------ read_escaped_char

/-- the `switch (*p)` of `read_escaped_char`: table entry, or the byte itself (`default: return *p;`, a `char`) -/
def escapeValue (b : Byte) : BitVec 32 :=
  match simpleEscapes.lookup b.toNat with
  | some v => BitVec.ofNat 32 v
  | none => b.signExtend 32

/-- `for (; isxdigit(*p); p++) c = ((unsigned)c << 4) + from_hex(*p);` (`int c`; the shift is done in `unsigned`,
    the sum is converted back to `int`: arithmetic modulo 2^32) -/
def hexLoop (p : List Byte) : Nat → Nat → BitVec 32 → BitVec 32 × Nat
  | 0, i, c => (c, i)
  | fuel + 1, i, c =>
    if isXDigit (byteAt p i) then hexLoop p fuel (i + 1) ((c <<< 4) + fromHex (byteAt p i)) else (c, i)

/-- `read_escaped_char(&new_pos, p)`: `p` is the text after the backslash; returns the value and
    `new_pos - p` -/
def readEscapedChar (p : List Byte) : Except LitErr (BitVec 32 × Nat) :=
  let b0 := byteAt p 0
  if isOctDigit b0 then
    let c : BitVec 32 := b0.signExtend 32 - 48
    if isOctDigit (byteAt p 1) then
      let c := (c <<< 3) + ((byteAt p 1).signExtend 32 - 48)
      if isOctDigit (byteAt p 2) then
        .ok ((c <<< 3) + ((byteAt p 2).signExtend 32 - 48), 3)
      else .ok (c, 2)
    else .ok (c, 1)
  else if b0 = 120#8 then
    if !isXDigit (byteAt p 1) then .error .invalidHexEscape
    else .ok (hexLoop p (p.length + 1) 1 0)
  else .ok (escapeValue b0, 1)

-- ------------------------------------------------------------------ string literals

/-- `string_literal_end(p)`: index of the closing quote, scanning from `i`.  fuel: `p.length + 1 - i` suffices. -/
def strEnd (p : List Byte) : Nat → Nat → Except LitErr Nat
  | 0, _ => .error .unclosedString
  | fuel + 1, i =>
    let b := byteAt p i
    if b = 34#8 then .ok i
    else if b = 10#8 ∨ b = 0#8 then .error .unclosedString
    else if b = 92#8 ∧ byteAt p (i + 1) ≠ 0#8 then strEnd p fuel (i + 2)     -- `if (*p == '\\\\' && p[1]) p++;`
    else strEnd p fuel (i + 1)

def stringLiteralEnd (p : List Byte) (i : Nat) : Except LitErr Nat := strEnd p (p.length + 2) i

/-- the loop of `read_string_literal`: `buf[len++]` is a `char` -/
def narrowLoop (p : List Byte) (endp : Nat) : Nat → Nat → List Nat → Except LitErr (List Nat)
  | 0, _, _ => .error .fuel
  | fuel + 1, i, acc =>
    if i < endp then
      if byteAt p i = 92#8 then do
        let (c, n) ← readEscapedChar (p.drop (i + 1))
        narrowLoop p endp fuel (i + 1 + n) ((c.setWidth 8).toNat :: acc)
      else narrowLoop p endp fuel (i + 1) ((byteAt p i).toNat :: acc)
    else .ok acc.reverse

/-- the loop of `read_utf16_string_literal`: `buf[len++]` is a `uint16_t` -/
def utf16Loop (p : List Byte) (endp : Nat) : Nat → Nat → List Nat → Except LitErr (List Nat)
  | 0, _, _ => .error .fuel
  | fuel + 1, i, acc =>
    if i < endp then
      if byteAt p i = 92#8 then do
        let (c, n) ← readEscapedChar (p.drop (i + 1))
        utf16Loop p endp fuel (i + 1 + n) ((c.setWidth 16).toNat :: acc)
      else do
        let (c, n) ← decodeAt p i
        utf16Loop p endp fuel (i + n) (((utf16Units c).map BitVec.toNat).reverse ++ acc)
    else .ok acc.reverse

/-- the loop of `read_utf32_string_literal`: `buf[len++]` is a `uint32_t` -/
def utf32Loop (p : List Byte) (endp : Nat) : Nat → Nat → List Nat → Except LitErr (List Nat)
  | 0, _, _ => .error .fuel
  | fuel + 1, i, acc =>
    if i < endp then
      if byteAt p i = 92#8 then do
        let (c, n) ← readEscapedChar (p.drop (i + 1))
        utf32Loop p endp fuel (i + 1 + n) (c.toNat :: acc)
      else do
        let (c, n) ← decodeAt p i
        utf32Loop p endp fuel (i + n) (c.toNat :: acc)
    else .ok acc.reverse

/-- a string-literal token: element type, code units without the terminator (`ty->array_len` is
    `units.length + 1`), token length in bytes, and the token text (needed when
    `join_adjacent_string_literals` re-reads a narrow literal as a wide one) -/
structure StrTok where
  elem : Ty
  units : List Nat
  len : Nat
  src : List Byte
  deriving DecidableEq, Repr

/-- `read_string_literal` / `read_utf16_string_literal` / `read_utf32_string_literal (start, quote, ty)`
    with `start = p`, `quote = p + q`.  Every loop iteration advances by at least one byte, so
    `endp + 1` iterations suffice. -/
def readString (r : StrReader) (ty : Ty) (p : List Byte) (q : Nat) : Except LitErr StrTok := do
  let endp ← stringLiteralEnd p (q + 1)
  let units ← match r with
    | .narrow => narrowLoop p endp (endp + 1) (q + 1) []
    | .utf16 => utf16Loop p endp (endp + 1) (q + 1) []
    | .utf32 => utf32Loop p endp (endp + 1) (q + 1) []
  pure ⟨ty, units, endp + 1, p.take (endp + 1)⟩

-- ------------------------------------------------------------------ character constants

/-- `strchr(p, '\'')` from index `i` -/
def findQuote (p : List Byte) : Nat → Nat → Option Nat
  | 0, _ => none
  | fuel + 1, i => if i ≥ p.length then none else if byteAt p i = 39#8 then some i else findQuote p fuel (i + 1)

/-- `read_char_literal(start, quote, ty)` with `quote = p + q`: the `int c` and the index of the closing quote -/
def readCharLiteral (p : List Byte) (q : Nat) : Except LitErr (BitVec 32 × Nat) := do
  let i := q + 1
  if byteAt p i = 0#8 then throw .unclosedChar
  if byteAt p i = 92#8 ∧ byteAt p (i + 1) = 0#8 then throw .unclosedChar
  let (c, j) ←
    if byteAt p i = 92#8 then do
      let (c, n) ← readEscapedChar (p.drop (i + 1))
      pure (c, i + 1 + n)
    else do
      let (c, n) ← decodeAt p i
      pure (c, i + n)
  match findQuote p (p.length + 1) j with
  | none => throw .unclosedChar
  | some e => pure (c, e)

/-- tokenize(): `tok->val = c` (int -> int64_t) followed by the per-prefix post-processing -/
def charPost (post : CharPost) (c : BitVec 32) : BitVec 64 :=
  let v : BitVec 64 := c.signExtend 64
  match post with
  | .none => v
  | .castChar => (v.setWidth 8).signExtend 64
  | .mask m => v &&& BitVec.ofNat 64 m

-- ------------------------------------------------------------------ numbers

/-- `startswith(p + i, s)` (`strncmp`) or `!strncasecmp(p + i, s, strlen(s))` -/
def matchText (p : List Byte) (i : Nat) : List Nat → Bool → Bool
  | [], _ => true
  | c :: cs, ci =>
    let a := byteAt p i
    let b : Byte := BitVec.ofNat 8 c
    a ≠ 0#8 && (if ci then toLower a == toLower b else a == b) && matchText p (i + 1) cs ci

def nextOk (p : List Byte) (i : Nat) : NextByte → Bool
  | .any => true
  | .xdigit => isXDigit (byteAt p i)
  | .oneOf cs => cs.contains (byteAt p i).toNat

/-- the base-prefix ladder of `convert_pp_int`: (base, bytes skipped) -/
def detectBase (p : List Byte) : Nat × Nat :=
  match basePrefixes.find? (fun bp => matchText p 0 bp.text bp.caseInsensitive && nextOk p bp.text.length bp.next) with
  | some bp => (bp.base, bp.skip)
  | none => (defaultBase, 0)

def digitVal (b : Byte) : Option Nat :=
  if isDigit b then some (b.toNat - 48)
  else if 97 ≤ b.toNat && b.toNat ≤ 122 then some (b.toNat - 97 + 10)
  else if 65 ≤ b.toNat && b.toNat ≤ 90 then some (b.toNat - 65 + 10)
  else none

/-- the digit loop of libc `strtoul(p + i, &end, base)` for a text that starts with a digit (no white space, no sign; a
    second "0x" after the one `convert_pp_int` skipped is not modelled): (exact value, end index) -/
def strtoulDigits (p : List Byte) (base : Nat) : Nat → Nat → Nat → Nat × Nat
  | 0, i, v => (v, i)
  | fuel + 1, i, v =>
    match digitVal (byteAt p i) with
    | some d => if d < base then strtoulDigits p base fuel (i + 1) (v * base + d) else (v, i)
    | none => (v, i)

/-- `strtoul` returns `ULONG_MAX` when the value does not fit -/
def strtoul (p : List Byte) (i base : Nat) : BitVec 64 × Nat :=
  let (v, j) := strtoulDigits p base (p.length + 1) i 0
  (if v < 2 ^ 64 then BitVec.ofNat 64 v else BitVec.ofNat 64 (2 ^ 64 - 1), j)

/-- the suffix ladder of `convert_pp_int`: (bytes skipped, l, u) -/
def matchSuffix (p : List Byte) (i : Nat) : Nat × Bool × Bool :=
  match suffixArms.find? (fun a => a.pats.any (fun pt => matchText p i pt.1 pt.2)) with
  | some a => (a.skip, a.l, a.u)
  | none => (0, false, false)

/-- `convert_pp_int(tok)`: `tok` is the exact token text; `none` = returns false -/
def convertPpInt (tok : List Byte) : Option (BitVec 64 × Ty) :=
  let (base, sk) := detectBase tok
  let (v, i) := strtoul tok sk base
  let (n, l, u) := matchSuffix tok i
  if i + n ≠ tok.length then none else some (v, intLitType base l u v)

/-- `convert_pp_number`, type of a floating constant whose number part ends at `e` (`strtold`'s end pointer; the value is
    libc's and is not modelled) -/
def floatTypeAt (tok : List Byte) (e : Nat) : Except LitErr Ty :=
  match floatSuffixTable.lookup (byteAt tok e).toNat with
  | some ty => if e + 1 = tok.length then .ok ty else .error .invalidNumber
  | none => if e = tok.length then .ok floatDefaultTy else .error .invalidNumber

/-- the pp-number scan of tokenize(): length of the token that starts at `p` -/
def ppNumberLoop (p : List Byte) : Nat → Nat → Nat
  | 0, i => i
  | fuel + 1, i =>
    let a := byteAt p i
    let b := byteAt p (i + 1)
    if a ≠ 0#8 ∧ b ≠ 0#8 ∧ (a = 101#8 ∨ a = 69#8 ∨ a = 112#8 ∨ a = 80#8) ∧ (b = 43#8 ∨ b = 45#8) then ppNumberLoop p fuel (i + 2)
    else if isAlnum a ∨ a = 46#8 then ppNumberLoop p fuel (i + 1)
    else i

def ppNumberLen (p : List Byte) : Nat := ppNumberLoop p (p.length + 1) 1

-- ------------------------------------------------------------------ tokenize(): literal at the start of a text

inductive LitTok
  | int (val : BitVec 64) (ty : Ty) (len : Nat)
  | flt (len : Nat)                                   -- pp-number that is not an integer constant (value: libc strtold)
  | chr (val : BitVec 64) (ty : Ty) (len : Nat)
  | str (t : StrTok)
  deriving DecidableEq, Repr

def startsWithStr (p : List Byte) (s : List Nat) : Bool := matchText p 0 s false

/-- the arms of tokenize() for numeric, string and character literals, in source order -/
def lexLiteral (p : List Byte) : Except LitErr LitTok :=
  if isDigit (byteAt p 0) || (byteAt p 0 = 46#8 && isDigit (byteAt p 1)) then
    let n := ppNumberLen p
    match convertPpInt (p.take n) with
    | some (v, ty) => .ok (.int v ty n)
    | none => .ok (.flt n)
  else
    match stringPrefixes.find? (fun e => startsWithStr p (e.1 ++ [34])) with
    | some (pre, r, ty) => (readString r ty p pre.length).map .str
    | none =>
      match charPrefixes.find? (fun e => startsWithStr p (e.1 ++ [39])) with
      | some (pre, ty, post) => do
        let (c, e) ← readCharLiteral p pre.length
        pure (.chr (charPost post c) ty (e + 1))
      | none => .error .notALiteral

-- ------------------------------------------------------------------ join_adjacent_string_literals

inductive StrKind | none | utf8 | utf16 | utf32 | wide
  deriving DecidableEq, Repr

/-- preprocess.c `getStringKind` -/
def getStringKind (t : StrTok) : Except LitErr StrKind :=
  if byteAt t.src 0 = 117#8 ∧ byteAt t.src 1 = 56#8 then .ok .utf8
  else if byteAt t.src 0 = 34#8 then .ok .none
  else if byteAt t.src 0 = 117#8 then .ok .utf16
  else if byteAt t.src 0 = 85#8 then .ok .utf32
  else if byteAt t.src 0 = 76#8 then .ok .wide
  else .error .unreachable

/-- first pass, inner loop: resolve the kind and the element type of a run of adjacent literals -/
def resolveKind : StrKind → Ty → List StrTok → Except LitErr (StrKind × Ty)
  | kind, basety, [] => .ok (kind, basety)
  | kind, basety, t :: ts => do
    let k ← getStringKind t
    if kind = .none then resolveKind k t.elem ts
    else if k ≠ .none ∧ kind ≠ k then .error .nonStandardConcat
    else resolveKind kind basety ts

/-- `tokenize_string_literal(tok, basety)`: re-read the token text from its first byte -/
def retokenize (t : StrTok) (basety : Ty) : Except LitErr StrTok :=
  if basety.size = 2 then readString .utf16 .ty_ushort t.src 0 else readString .utf32 basety t.src 0

/-- `join_adjacent_string_literals` on one maximal run of adjacent string-literal tokens (at least one) -/
def joinStrings : List StrTok → Except LitErr StrTok
  | [] => .error .notALiteral
  | [t] => .ok t
  | t1 :: rest => do
    let k1 ← getStringKind t1
    let (_, basety) ← resolveKind k1 t1.elem rest
    let toks ← (t1 :: rest).mapM (fun t => if basety.size > 1 ∧ t.elem.size = 1 then retokenize t basety else pure t)
    match toks with
    | [] => .error .notALiteral
    | f :: _ =>
      -- second pass: len = array_len(tok1) + Σ (array_len(t) - 1); memcpy of every token's bytes, each
      -- later token overwriting the terminator of the previous one
      pure ⟨f.elem, (toks.map (·.units)).flatten, t1.len, t1.src⟩

-- ------------------------------------------------------------------ vocabulary of the concatenation theorems

/-- pointwise relation between two lists of the same length -/
inductive AllPairs {α β : Type} (R : α → β → Prop) : List α → List β → Prop
  | nil : AllPairs R [] []
  | cons {a b as bs} : R a b → AllPairs R as bs → AllPairs R (a :: as) (b :: bs)

/-- chibicc's `StringKind` of a prefix -/
def kindOf : ChibiVerif.Spec.Literals.StrPrefix → StrKind
  | .none => .none | .u8 => .utf8 | .u => .utf16 | .U => .utf32 | .L => .wide

/-- token `t` is a string literal with prefix `p` as far as `join_adjacent_string_literals` can see -/
def TokHasPrefix (t : StrTok) (p : ChibiVerif.Spec.Literals.StrPrefix) : Prop := getStringKind t = .ok (kindOf p) ∧ t.elem.size = p.elemSize


-- ------------------------------------------------------------------ vocabulary of the whole-literal theorem

/-- what a string-literal body is made of: source characters (written in UTF-8) and escape sequences
    (`body` = the bytes after the backslash, `v` = the `int` that `read_escaped_char` returns for them) -/
inductive SrcItem
  | char (c : BitVec 32)
  | esc (body : List Byte) (v : BitVec 32)

def renderItem : SrcItem → List Byte
  | .char c => encodeUtf8 c
  | .esc body _ => 92#8 :: body

def renderItems : List SrcItem → List Byte
  | [] => []
  | it :: its => renderItem it ++ renderItems its

/-- code units a reader stores for one item -/
def itemUnits (r : StrReader) : SrcItem → List Nat
  | .char c =>
    match r with
    | .narrow => (encodeUtf8 c).map BitVec.toNat
    | .utf16 => (utf16Units c).map BitVec.toNat
    | .utf32 => [c.toNat]
  | .esc _ v =>
    match r with
    | .narrow => [(v.setWidth 8).toNat]
    | .utf16 => [(v.setWidth 16).toNat]
    | .utf32 => [v.toNat]

/-- a source character that can stand in a string literal: a code point up to U+10FFFF other than NUL, new-line,
    `"` and `\` -/
def CharOK (c : BitVec 32) : Prop := c.toNat < 0x110000 ∧ c.toNat ≠ 0 ∧ c.toNat ≠ 10 ∧ c.toNat ≠ 34 ∧ c.toNat ≠ 92

/-- shape of an escape sequence body: one byte (not NUL / new-line) followed only by hexadecimal digits -/
def EscShape (body : List Byte) : Prop :=
  ∃ b tl, body = b :: tl ∧ b ≠ 0#8 ∧ b ≠ 10#8 ∧ ∀ x ∈ tl, isXDigit x = true

/-- every item is well formed *in its context*: an escape is read back completely by `read_escaped_char` when followed by
    the rest of the literal (this is where "an octal escape ends after three digits or at a non-octal digit" and "a
    hexadecimal escape takes every following hexadecimal digit" enter) -/
def ItemsOK (post : List Byte) : List SrcItem → Prop
  | [] => True
  | .char c :: its => CharOK c ∧ ItemsOK post its
  | .esc body v :: its =>
    EscShape body ∧ readEscapedChar (body ++ (renderItems its ++ 34#8 :: post)) = .ok (v, body.length) ∧ ItemsOK post its

-- ------------------------------------------------------------------ vocabulary of the integer-constant theorem

/-- the bytes of an ASCII spelling -/
def sfxBytes (s : String) : List Byte := s.toList.map (fun ch => BitVec.ofNat 8 ch.toNat)

/-- spellings of integer constants: base, the prefix `convert_pp_int` skips, the digits `strtoul` reads -/
inductive IntSpelling : Nat → List Byte → List Byte → Prop
  | hex (x d : Byte) (ds : List Byte) : (x = 120#8 ∨ x = 88#8) → (∀ y ∈ d :: ds, isXDigit y = true) →
      IntSpelling 16 [48#8, x] (d :: ds)
  | bin (x d : Byte) (ds : List Byte) : (x = 98#8 ∨ x = 66#8) → (∀ y ∈ d :: ds, y = 48#8 ∨ y = 49#8) →
      IntSpelling 2 [48#8, x] (d :: ds)
  | oct (ds : List Byte) : (∀ y ∈ ds, isOctDigit y = true) → IntSpelling 8 [] (48#8 :: ds)
  | dec (d : Byte) (ds : List Byte) : (49 ≤ d.toNat ∧ d.toNat ≤ 57) → (∀ y ∈ ds, ChibiVerif.Literals.isDigit y = true) →
      IntSpelling 10 [] (d :: ds)


end ChibiVerif.Literals
