/-
Model of #include processing WITH the nesting limit (C10; /repo commit b453bf4):

  static Token *include_file(Token *tok, char *path, Token *filename_tok) {
    if (hashmap_get(&pragma_once, path)) return tok;                                   -- shortcut 1
    … if (guard_name && hashmap_get(&macros, guard_name)) return tok;                  -- shortcut 2
    if (filename_tok->file->incl_depth >= 200) error_tok(filename_tok, "#include nested too deeply");
    Token *tok2 = tokenize_file(path); if (!tok2) error_tok(… "cannot open file" …);
    tok2->file->incl_depth = filename_tok->file->incl_depth + 1;
    guard_name = detect_include_guard(tok2); if (guard_name) hashmap_put(&include_guards, path, guard_name);
    return append(tok2, tok);
  }

Every `File` carries `incl_depth` (0 for the main file and the -include files: `new_file` callocs);
the test looks at the File of the directive's operand token, i.e. the file the directive stands in.

Lines are those of Model/IncludeSearch.lean (`ILine`) plus the third operand form of
`read_include_filename`: `#include MACRO` / `#include_next MACRO` – an operand that starts with an
identifier is macro-expanded and read again (Model/IncludeOperand.lean; the expander `xp` is a
parameter of the machine).

Two machines over the definitions of Model/IncludeSearch.lean (search functions, tables, `IState`):

* `runIncD` – the transcription of the C code: ONE stream of lines, each tagged with its File (name,
  `incl_depth`) and line number; an #include splices the tagged lines of the opened file in front of
  the rest (`append(tok2, tok)`).  Like every loop whose bound is not syntactic it runs on a step
  budget (`outOfFuel`).
* `runAt` / `includeRun` – the same process as a TOTAL function without any budget: structural
  recursion on the number of nesting levels still allowed (`limit − incl_depth`) and, inside one
  level, on the lines of one file; the state (macro table, output, `cond_incl` stack, mode, tables)
  is threaded through, so an included file shares the conditional stack with its includer exactly
  as in the spliced stream.  Lemmas/IncludeDepthLemmas.lean proves that for every file system
  (cyclic include graphs included) some budget suffices for `runIncD` and that with any such budget
  it computes `runAt`: the include process terminates.

The machine of Model/IncludeSearch.lean (`runInc`, no nesting limit) is the code before b453bf4; it is
kept because Findings and property C13 state the pre-fix behaviour on it.

Core Lean only.
-/
import ChibiVerif.Model.IncludeSearch
import ChibiVerif.Model.IncludeOperand

namespace ChibiVerif.IncludeDepth
open ChibiVerif.CondIncl ChibiVerif.IncludeSearch ChibiVerif.IncludeOperand

variable {ε β : Type}

-- ------------------------------------------------------------------ lines, files

/-- a line of a file: everything Model/IncludeSearch.lean knows, or an #include / #include_next whose
    operand starts with an identifier (tokens of the operand up to the end of the line) -/
inductive XLine (ε β : Type) where
  | base (l : ILine ε β)
  | inclMacro (next : Bool) (toks : List OTok)      -- next = true: #include_next
  deriving DecidableEq, Repr

/-- how the skip functions and detect_include_guard see a line -/
def XLine.toLine : XLine ε β → Line ε β
  | .base l => l.toLine
  | .inclMacro _ _ => .plain .other

/-- the file system: path ↦ lines of the file (`none`: no such file) -/
abbrev XFS (ε β : Type) := String → Option (List (XLine ε β))

def XFS.get (fs : XFS ε β) (p : String) : Option (List (XLine ε β)) := fs p
/-- `file_exists` -/
def XFS.has (fs : XFS ε β) (p : String) : Bool := (fs p).isSome

/-- a file system given as a finite table, paths compared literally -/
def XFS.ofTable (t : List (String × List (XLine ε β))) : XFS ε β :=
  fun p => (t.find? (·.1 == p)).map (·.2)

/-- a file system given as a table of normalised paths; lookups normalise the path first (driver) -/
def XFS.ofTableNorm (t : List (String × List (XLine ε β))) : XFS ε β :=
  fun p => XFS.ofTable t (normPath p)

/-- the macro expander applied to the operand of `#include MACRO`: macro table, name of the current
    file (`__FILE__`), tokens of the line -/
abbrev Xp (β : Type) := Defs β → String → List OTok → Except Diag (List OTok)

/-- outcomes of the include machine that are not a result -/
inductive IDiag where
  | diag (d : Diag)                               -- every class Model/CondIncl.lean and Model/IncludeSearch.lean know
  | nestedTooDeeply (file : String) (line : Nat)  -- include_file: "#include nested too deeply", located at the directive
  deriving DecidableEq, Repr

/-- the File a line of the stream belongs to (`name`, `incl_depth`) and its line number in that file -/
structure Src where
  file : String
  depth : Nat
  line : Nat
  deriving DecidableEq, Repr

/-- `hashmap_get(&pragma_once, path)`, or (`useGuards`) `guard_name && hashmap_get(&macros, guard_name)` -/
def shortcutFires (useGuards : Bool) (path : String) (s : IState β) : Bool :=
  s.once.contains path ||
    (useGuards && (match guardOf s.guards path with
                   | some g => s.st.obs.defs.isDef g
                   | none => false))

/-- `include_file(tok, path, …)` up to its two shortcuts: `some path` – the file is to be opened – or `none` -/
def mkTarget (useGuards : Bool) (path : String) (s : IState β) : Option String × IState β × Mode :=
  (if shortcutFires useGuards path s then none else some path, s, .proc)

/-- the `#include` arm up to `include_file`'s shortcuts -/
def inclTarget (fs : XFS ε β) (paths : List String) (useGuards : Bool) (file : String) (dq : Bool) (name : String)
    (s : IState β) : Option String × IState β × Mode :=
  mkTarget useGuards (resolveInclude fs.has paths s.cache file dq name).1
    { s with cache := (resolveInclude fs.has paths s.cache file dq name).2 }

/-- the `#include_next` arm up to `include_file`'s shortcuts -/
def nextTarget (fs : XFS ε β) (paths : List String) (useGuards : Bool) (file : String) (name : String)
    (s : IState β) : Option String × IState β × Mode :=
  mkTarget useGuards (resolveIncludeNext fs.has paths file name) s

/-- One iteration of `preprocess2`'s loop (or of the skip functions) up to the point where
    `include_file` has passed its two shortcuts: the new state and mode, and `some path` when a file
    is now to be opened (subject to the nesting test). -/
def preStep (ev : ε → Defs β → Except Diag Bool) (xp : Xp β) (fs : XFS ε β) (paths : List String) (useGuards : Bool)
    (file : String) (l : XLine ε β) (m : Mode) (s : IState β) : Except Diag (Option String × IState β × Mode) :=
  match m, l with
  | .proc, .base (.incl dq name) => .ok (inclTarget fs paths useGuards file dq name s)
  | .proc, .base (.includeNext name) => .ok (nextTarget fs paths useGuards file name s)
  | .proc, .inclMacro next toks =>
    match readOperand (xp s.st.obs.defs file) toks with        -- read_include_filename, pattern 3
    | .error e => .error e
    | .ok (name, dq) =>
      .ok (if next then nextTarget fs paths useGuards file name s else inclTarget fs paths useGuards file dq name s)
  | .proc, .base .pragmaOnce => .ok (none, { s with once := file :: s.once }, .proc)
  | m, l =>
    match stepLine ev l.toLine m s.st with
    | .error e => .error e
    | .ok (st', m') => .ok (none, { s with st := st' }, m')

/-- the rest of `include_file` after the nesting test: `tokenize_file`, `detect_include_guard`,
    `hashmap_put(&include_guards, …)` -/
def openFile (fs : XFS ε β) (path : String) (s : IState β) : Except Diag (List (XLine ε β) × IState β) :=
  match fs.get path with
  | none => .error .cannotOpen
  | some ls =>
    .ok (ls, match detectGuard (ls.map XLine.toLine) with
             | some g => { s with guards := putGuard s.guards path g }
             | none => s)

-- ------------------------------------------------------------------ the spliced stream (as in C)

/-- the lines of one File as they stand in the stream: tagged with name, `incl_depth`, line number -/
def tagLines (file : String) (depth : Nat) : Nat → List (XLine ε β) → List (Src × XLine ε β)
  | _, [] => []
  | i, l :: ls => (⟨file, depth, i⟩, l) :: tagLines file depth (i + 1) ls

/-- `preprocess2` over the spliced stream, with `include_file`'s nesting test (`limit` = 200 in the
    code, regenerated as `Gen.C10Incl.includeDepthLimit`) -/
def runIncD (ev : ε → Defs β → Except Diag Bool) (xp : Xp β) (fs : XFS ε β) (paths : List String) (useGuards : Bool) (limit : Nat) :
    Nat → List (Src × XLine ε β) → Mode → IState β → Except IDiag (IState β × Mode)
  | _, [], m, s => .ok (s, m)
  | 0, _ :: _, _, _ => .error (.diag .outOfFuel)
  | fuel+1, (src, l) :: rest, m, s =>
    match preStep ev xp fs paths useGuards src.file l m s with
    | .error e => .error (.diag e)
    | .ok (none, s', m') => runIncD ev xp fs paths useGuards limit fuel rest m' s'
    | .ok (some path, s', m') =>
      if limit ≤ src.depth then .error (.nestedTooDeeply src.file src.line)       -- incl_depth >= 200
      else match openFile fs path s' with
        | .error e => .error (.diag e)
        | .ok (ls, s'') =>                                                      -- incl_depth + 1; append(tok2, tok)
          runIncD ev xp fs paths useGuards limit fuel (tagLines path (src.depth + 1) 1 ls ++ rest) m' s''

-- ------------------------------------------------------------------ the same process, total

/-- what happens to a file that is to be opened: `none` – the nesting limit is reached – or the
    function that processes the lines of an opened file -/
abbrev Sub (ε β : Type) := Option (String → List (XLine ε β) → Mode → IState β → Except IDiag (IState β × Mode))

/-- the lines of ONE file from line number `i` on; files to be opened are handed to `sub` -/
def runLines (ev : ε → Defs β → Except Diag Bool) (xp : Xp β) (fs : XFS ε β) (paths : List String) (useGuards : Bool)
    (sub : Sub ε β) (file : String) :
    Nat → List (XLine ε β) → Mode → IState β → Except IDiag (IState β × Mode)
  | _, [], m, s => .ok (s, m)
  | i, l :: rest, m, s =>
    match preStep ev xp fs paths useGuards file l m s with
    | .error e => .error (.diag e)
    | .ok (none, s', m') => runLines ev xp fs paths useGuards sub file (i + 1) rest m' s'
    | .ok (some path, s', m') =>
      match sub with
      | none => .error (.nestedTooDeeply file i)
      | some f =>
        match openFile fs path s' with
        | .error e => .error (.diag e)
        | .ok (ls, s'') =>
          match f path ls m' s'' with
          | .error e => .error e
          | .ok (s3, m3) => runLines ev xp fs paths useGuards sub file (i + 1) rest m3 s3

/-- a whole file that may still nest `r` levels of #include below itself (`r = limit − incl_depth`) -/
def runAt (ev : ε → Defs β → Except Diag Bool) (xp : Xp β) (fs : XFS ε β) (paths : List String) (useGuards : Bool) :
    Nat → String → List (XLine ε β) → Mode → IState β → Except IDiag (IState β × Mode)
  | 0 => fun file ls => runLines ev xp fs paths useGuards none file 1 ls
  | r+1 => fun file ls => runLines ev xp fs paths useGuards (some (runAt ev xp fs paths useGuards r)) file 1 ls

/-- the `sub` of a file that may nest `r` levels -/
def subOf (ev : ε → Defs β → Except Diag Bool) (xp : Xp β) (fs : XFS ε β) (paths : List String) (useGuards : Bool) : Nat → Sub ε β
  | 0 => none
  | r+1 => some (runAt ev xp fs paths useGuards r)

/-- the files `cc1` hands to `preprocess`, in order (-include files, then the main file; all of
    `incl_depth` 0), one after the other through the same state -/
def runTop (ev : ε → Defs β → Except Diag Bool) (xp : Xp β) (fs : XFS ε β) (paths : List String) (useGuards : Bool) (limit : Nat) :
    List (String × List (XLine ε β)) → Mode → IState β → Except IDiag (IState β × Mode)
  | [], m, s => .ok (s, m)
  | (file, ls) :: more, m, s =>
    match runAt ev xp fs paths useGuards limit file ls m s with
    | .error e => .error e
    | .ok (s', m') => runTop ev xp fs paths useGuards limit more m' s'

/-- the same files as one tagged stream (what `append_tokens` builds in `cc1`) -/
def tagFiles : List (String × List (XLine ε β)) → List (Src × XLine ε β)
  | [] => []
  | (file, ls) :: more => tagLines file 0 1 ls ++ tagFiles more

-- ------------------------------------------------------------------ command line

/-- `cc1`: the -include files in command-line order, then the main file, each with its own path
    (the file-by-file form of `IncludeSearch.cmdStream`) -/
def cmdFiles (fs : XFS ε β) (paths : List String) :
    List String → Cache → String → Except Diag (List (String × List (XLine ε β)) × Cache)
  | [], cache, main =>
    match fs.get main with
    | none => .error .cannotOpen
    | some ls => .ok ([(main, ls)], cache)
  | f :: fsn, cache, main =>
    match resolveCmdInclude fs.has paths cache f with
    | .error e => .error e
    | .ok (p, cache') =>
      match fs.get p with
      | none => .error .cannotOpen
      | some ls =>
        match cmdFiles fs paths fsn cache' main with
        | .error e => .error e
        | .ok (rest, c) => .ok ((p, ls) :: rest, c)

/-- `preprocess`'s final test, on the outcome type of this machine -/
def finishD (r : Except IDiag (IState β × Mode)) : Except IDiag (Obs β) :=
  match r with
  | .error e => .error e
  | .ok (s, _) => if s.st.stack.isEmpty then .ok s.st.obs else .error (.diag .unterminated)

/-- **one whole run of `chibicc -E <options> main`**, total: emitted text lines and final macro
    table, or the diagnostic.  No step budget. -/
def includeRun (ev : ε → Defs β → Except Diag Bool) (xp : Xp β) (fs : XFS ε β) (sysDirs : List String) (builtin : Defs β)
    (os : List (Opt β)) (main : String) (useGuards : Bool) (limit : Nat) : Except IDiag (Obs β) :=
  let paths := includePaths (optConfig sysDirs os)
  match cmdFiles fs paths (optIncludes os) [] main with
  | .error e => .error (.diag e)
  | .ok (files, cache) =>
    finishD (runTop ev xp fs paths useGuards limit files .proc ⟨⟨⟨applyDU builtin os, []⟩, []⟩, [], [], cache⟩)

/-- the same run on the spliced stream with a step budget -/
def includeRunFuel (ev : ε → Defs β → Except Diag Bool) (xp : Xp β) (fs : XFS ε β) (sysDirs : List String) (builtin : Defs β)
    (os : List (Opt β)) (main : String) (useGuards : Bool) (limit fuel : Nat) : Except IDiag (Obs β) :=
  let paths := includePaths (optConfig sysDirs os)
  match cmdFiles fs paths (optIncludes os) [] main with
  | .error e => .error (.diag e)
  | .ok (files, cache) =>
    finishD (runIncD ev xp fs paths useGuards limit fuel (tagFiles files) .proc ⟨⟨⟨applyDU builtin os, []⟩, []⟩, [], [], cache⟩)

end ChibiVerif.IncludeDepth
