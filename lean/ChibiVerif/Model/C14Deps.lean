/-
C14: the dependency output (`-M`, `-MD`, `-MMD`, `-MF`) of the cc1 children, as an overlay on the driver model.

main.c `cc1` (after the repair b04aa01): the dependency list is collected in memory right after `preprocess()` and written
  * under `-M` at once (nothing else is written, cc1 returns),
  * under `-E -MD` after `print_tokens` has written and closed the preprocessed output,
  * otherwise at the very end, after the assembly has been written and closed,
each time through `write_file` = `open_file` + `fwrite` + `close_file` (errors are `error()`, exit status 1).  So a cc1
that ends with status 0 has written its dependency file completely, and a cc1 whose front end fails has written nothing;
the one remaining half-way outcome — output written, dependency write failed — is `Leaves.complete` of the driver model
(Model/DriverProc.lean `childEffect`).  That order is not assumed here: Gen/C14ArgsGen.lean `cc1Plan` is regenerated from
main.c and `C14_deps_written_last` (Props/C14Args.lean) decides it for every combination of `-M`, `-MD`, `-E`.

Where the list goes is decided by the CHILD (`dependency_path()`), from the same option words as the driver's
(`C14_cc1_reparse`): `DepEnv.depOf` gives, for the input a child compiles, the path it writes (`none`: no dependency
output, or standard output).  The driver itself never touches these paths, which is why the overlay is sound: `stepD`
is a step of the driver model followed by the dependency write of the child that was just waited for.
Core Lean only.
-/
import ChibiVerif.Model.DriverProc

namespace ChibiVerif.DriverProc

variable {P : Type} [DecidableEq P]

/-- for every input: the path the cc1 child that compiles it writes its dependency list to -/
structure DepEnv (P : Type) where
  depOf : P → Option P

/-- the dependency write of the child the driver waits for in state `s` (file system `fs0` when the wait returns,
    `fs` after the child's other effects) -/
def depEffect (denv : DepEnv P) (env : Env P) (s : DState P) (fs0 fs : FS P) : FS P :=
  match s.phase with
  | .waiting .cc1 [i] _ =>
    if (env.sched .cc1 s.nCc1).status.wait = 0 then
      match denv.depOf i with
      | some d => fs.set d ⟨.deps, fs0.origins i⟩
      | none => fs
    else fs
  | _ => fs

/-- one step of the driver, with the dependency output of its children -/
def stepD (denv : DepEnv P) (env : Env P) (s : DState P) (fs : FS P) : DState P × FS P :=
  ((step env s fs).1, depEffect denv env s fs (step env s fs).2)

def iterD (denv : DepEnv P) (env : Env P) : Nat → DState P × FS P → DState P × FS P
  | 0, x => x
  | n + 1, x => iterD denv env n (stepD denv env x.1 x.2)

/-- run a command to completion, dependency files included -/
def runCmdD (denv : DepEnv P) (env : Env P) (cmd : Cmd P) (fs : FS P) : DState P × FS P :=
  iterD denv env (fuel (init cmd)) (init cmd, fs)

/-- scanning a log for front-end runs: the pairs found so far, and the input of a cc1 child that was spawned by the
    last event -/
def scanEv (acc : List (P × Status) × Option P) : Event P → List (P × Status) × Option P
  | .spawn .cc1 [i] _ => (acc.1, some i)
  | .wait .cc1 st =>
    (match acc.2 with
     | some i => acc.1 ++ [(i, st)]
     | none => acc.1, none)
  | _ => (acc.1, none)

/-- the front-end runs recorded in a log: input and wait status of every cc1 child, in order -/
def cc1Runs (log : List (Event P)) : List (P × Status) := (log.foldl scanEv ([], none)).1

/-- the dependency writes a log implies: `(d, i)` = the child compiling `i` ended with status 0 and wrote `d` -/
def depWrites (denv : DepEnv P) (log : List (Event P)) : List (P × P) :=
  (cc1Runs log).filterMap (fun r => if r.2.wait = 0 then (denv.depOf r.1).map (fun d => (d, r.1)) else none)

/-- the input whose dependency list is the LAST one written to `d` -/
def lastWriter (w : List (P × P)) (d : P) : Option P :=
  (w.reverse.find? (fun e => decide (e.1 = d))).map (·.2)

end ChibiVerif.DriverProc
