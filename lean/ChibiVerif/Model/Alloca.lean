/-
codegen.c `builtin_alloca` and the temporaries it has to move (property C04: alloca blocks and VLAs).

Layout of a running chibicc frame (addresses grow upwards):

      rbp                      saved rbp, return address, stack-passed parameters above
      [frameLow, rbp)          locals (assign_lvar_offsets), frameLow = rbp - stack_size
      [bottom, frameLow)       alloca blocks / VLAs, newest lowest;  `bottom` is the local `__alloca_size__`
      [rsp, bottom)            temporaries: values pushed while an expression is being evaluated
                               (operands, arguments already evaluated, struct copies, alignment padding)

`alloca(n)` (n in %rdi) as emitted:

      add $15, %rdi ; and $0xfffffff0, %edi          -- size rounded up to 16, computed in 32 bits
      mov bottom(%rbp), %rcx ; sub %rsp, %rcx        -- rcx = number of bytes of temporaries
      mov %rsp, %rax ; sub %rdi, %rsp ; mov %rsp, %rdx
    1: cmp $0, %rcx ; je 2f
      mov (%rax), %r8b ; mov %r8b, (%rdx) ; inc %rdx ; inc %rax ; dec %rcx ; jmp 1b     -- ascending byte copy
    2: mov bottom(%rbp), %rax ; sub %rdi, %rax ; mov %rax, bottom(%rbp)                 -- result = new bottom

The instruction list is regenerated from the source (`Gen.C04.allocaLines`) and pinned below (`allocaLines_shape`), the
constants 15 / 0xfffffff0 / the 32-bit `and` are regenerated (`ALLOCA_ROUND`, `ALLOCA_MASK`, `ALLOCA_MASK_32BIT`).
Intesses are `Int` (no wrap-around: the stack neither underflows the address space nor is its exhaustion modelled).
Core Lean only.
-/
import ChibiVerif.Gen.C04Gen

namespace ChibiVerif.Alloca
open ChibiVerif.Gen.C04 ChibiVerif.Asm

abbrev Mem := Int → BitVec 8

/-- `add $15, %rdi; and $0xfffffff0, %edi` on a 64-bit argument: the size actually reserved -/
def allocaSize (n : BitVec 64) : Nat :=
  let r := n + BitVec.ofNat 64 ALLOCA_ROUND
  if ALLOCA_MASK_32BIT then ((r.setWidth 32) &&& BitVec.ofNat 32 ALLOCA_MASK).toNat
  else (r &&& BitVec.ofNat 64 ALLOCA_MASK).toNat

/-- the loop `1: … jmp 1b`: `cnt` bytes from `src` to `dst`, lowest address first -/
def copyUp (m : Mem) (src dst : Int) : Nat → Mem
  | 0 => m
  | cnt + 1 => copyUp (fun a => if a = dst then m src else m a) (src + 1) (dst + 1) cnt

structure Block where
  addr : Int
  size : Nat
  deriving DecidableEq, Repr

structure State where
  rsp : Int
  /-- the value of the local `__alloca_size__` (`current_fn->alloca_bottom`) -/
  bottom : Int
  /-- lowest address of the locals: rbp - stack_size (the prologue sets rsp = bottom = frameLow) -/
  frameLow : Int
  mem : Mem
  /-- blocks handed out so far, newest first -/
  blocks : List Block

inductive Op where
  | push (v : BitVec 64)      -- `push %rax` and every other 8-byte growth of the temporaries
  | pop                       -- `pop %reg` / `add $8, %rsp`
  | alloca (n : BitVec 64)    -- the sequence above with n in %rdi
  | write (a : Int) (b : BitVec 8)   -- a store of the program through a pointer (into a block, a local, …)
  deriving Repr

inductive Fail where
  | underflow                 -- pop with no temporary on the stack (code generation is balanced: C20)
  deriving DecidableEq, Repr

/-- little-endian 8-byte store -/
def write64 (m : Mem) (a : Int) (v : BitVec 64) : Mem :=
  fun x => if a ≤ x ∧ x < a + 8 then (v >>> (8 * (x - a).toNat)).setWidth 8 else m x

/-- one step; `alloca` also yields the block it returns (pointer in %rax = new bottom) -/
def step (s : State) : Op → Except Fail (State × Option Block)
  | .push v => .ok ({ s with rsp := s.rsp - 8, mem := write64 s.mem (s.rsp - 8) v }, none)
  | .pop => if s.rsp + 8 ≤ s.bottom then .ok ({ s with rsp := s.rsp + 8 }, none) else .error .underflow
  | .write a b => .ok ({ s with mem := fun x => if x = a then b else s.mem x }, none)
  | .alloca n =>
    let sz := allocaSize n
    let cnt := (s.bottom - s.rsp).toNat
    let rsp' := s.rsp - sz
    let blk : Block := { addr := s.bottom - sz, size := sz }
    .ok ({ s with rsp := rsp', bottom := s.bottom - sz, mem := copyUp s.mem s.rsp rsp' cnt, blocks := blk :: s.blocks }, some blk)

/-- run a sequence; returns the final state and the blocks returned, oldest first -/
def run : State → List Op → Except Fail (State × List Block)
  | s, [] => .ok (s, [])
  | s, op :: ops =>
    match step s op with
    | .error e => .error e
    | .ok (s', b) =>
      match run s' ops with
      | .error e => .error e
      | .ok (s'', bs) => .ok (s'', b.toList ++ bs)

/-- state right after the prologue (`sub $stack_size, %rsp; mov %rsp, bottom(%rbp)`) -/
def init (frameLow : Int) (m : Mem) : State :=
  { rsp := frameLow, bottom := frameLow, frameLow := frameLow, mem := m, blocks := [] }

/-- the emitted instruction list, pinned: a change of builtin_alloca in codegen.c changes `allocaLines` and breaks this
    theorem, so the hand-written `step`/`copyUp` above cannot silently drift from the code -/
theorem allocaLines_shape (off : Int) : allocaLines off =
    [.ins ⟨"add", [.i 15, .r "%rdi"]⟩, .ins ⟨"and", [.s "$0xfffffff0", .r "%edi"]⟩,
     .ins ⟨"mov", [.m off "%rbp", .r "%rcx"]⟩, .ins ⟨"sub", [.r "%rsp", .r "%rcx"]⟩,
     .ins ⟨"mov", [.r "%rsp", .r "%rax"]⟩, .ins ⟨"sub", [.r "%rdi", .r "%rsp"]⟩, .ins ⟨"mov", [.r "%rsp", .r "%rdx"]⟩,
     .label "1", .ins ⟨"cmp", [.i 0, .r "%rcx"]⟩, .ins ⟨"je", [.s "2f"]⟩,
     .ins ⟨"mov", [.m0 "%rax", .r "%r8b"]⟩, .ins ⟨"mov", [.r "%r8b", .m0 "%rdx"]⟩,
     .ins ⟨"inc", [.r "%rdx"]⟩, .ins ⟨"inc", [.r "%rax"]⟩, .ins ⟨"dec", [.r "%rcx"]⟩, .ins ⟨"jmp", [.s "1b"]⟩,
     .label "2", .ins ⟨"mov", [.m off "%rbp", .r "%rax"]⟩, .ins ⟨"sub", [.r "%rdi", .r "%rax"]⟩,
     .ins ⟨"mov", [.r "%rax", .m off "%rbp"]⟩] := rfl

end ChibiVerif.Alloca
