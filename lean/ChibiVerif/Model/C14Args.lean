/-
Model of main.c `parse_args` (C14): a total function from the argument words `argv[1..]` to an `Outcome`.

The option ladder, `take_arg`'s list, the option variables and `parse_opt_x`'s table are NOT written here: they are the
definitions of Gen/C14ArgsGen.lean, regenerated from main.c on every run (tools/extract/c14args.py).  This file gives
them their meaning, for ANY ladder / list (so that Findings/C14.lean can run the pre-fix tables through the same
semantics):

* pass 1 (`guardPass`): `for (i = 1; i < argc; i++) if (take_arg(argv[i])) if (!argv[++i]) usage(1);`
* pass 2 (`optRun`): for every `argv[i]` the FIRST arm one of whose tests holds is executed (`stepOpt`); `argv[++i]` is the
  next word, or NULL (`none`) when `argv[i]` was the last one — the NULL that terminates argv.  Statements that only store
  the operand store the NULL; statements that read through it (`define`, `undef_macro`, `parse_opt_x`, `quote_makefile`,
  `format("%s")`) are `Outcome.nullDeref` — the crash `C14_args_total` excludes.  No arm matches: a word `-x…` of two or
  more characters is `error("unknown argument")`, anything else an input file;
* after the loop (`finish`): `error("no input files")`; `-E` implies `-x c`.

Strings are taken apart through `String.toList` only (kernel-reducible, so whole-table facts are `decide`).
Core Lean only.
-/
import ChibiVerif.Model.C14ArgsSyntax

namespace ChibiVerif.C14Args

/-! ### strings -/

/-- `!strncmp(s, p, strlen(p))` -/
def hasPrefix (p s : String) : Bool := p.toList.isPrefixOf s.toList

/-- main.c `endswith(s, q)` -/
def hasSuffix (q s : String) : Bool := q.toList.reverse.isPrefixOf s.toList.reverse

/-- `s + n` for a string known to have at least `n` characters -/
def dropChars (n : Nat) (s : String) : String := String.ofList (s.toList.drop n)

/-- `argv[i][0] == '-' && argv[i][1] != '\0'` -/
def isDashWord (s : String) : Bool :=
  match s.toList with
  | '-' :: _ :: _ => true
  | _ => false

/-- main.c `quote_makefile` on characters; `bs` = number of backslashes immediately before the current position -/
def quoteChars : Nat → List Char → List Char
  | _, [] => []
  | bs, c :: r =>
    if c = '$' then '$' :: '$' :: quoteChars 0 r
    else if c = '#' then '\\' :: '#' :: quoteChars 0 r
    else if c = ' ' ∨ c = '\t' then List.replicate bs '\\' ++ ('\\' :: c :: quoteChars 0 r)
    else if c = '\\' then '\\' :: quoteChars (bs + 1) r
    else c :: quoteChars 0 r

def quoteMakefile (s : String) : String := String.ofList (quoteChars 0 s.toList)

/-- POSIX `basename` (libgen.h, which chibicc.h includes) -/
def basenameChars (s : List Char) : List Char :=
  if s = [] then ['.']
  else
    let t := (s.reverse.dropWhile (· = '/'))        -- reversed, trailing slashes removed
    if t = [] then ['/'] else (t.takeWhile (· ≠ '/')).reverse

/-- main.c `replace_extn`: basename, cut at the last `.`, append the extension -/
def replaceExtn (s ext : String) : String :=
  let b := basenameChars s.toList
  let stem := if b.contains '.' then (b.reverse.dropWhile (· ≠ '.')).tail.reverse else b
  String.ofList (stem ++ ext.toList)

/-! ### the option variables -/

def setAssoc {α : Type} (k : String) (v : α) : List (String × α) → List (String × α)
  | [] => [(k, v)]
  | (k', v') :: r => if k' = k then (k', v) :: r else (k', v') :: setAssoc k v r

def getAssoc {α : Type} (k : String) : List (String × α) → Option α
  | [] => none
  | (k', v') :: r => if k' = k then some v' else getAssoc k r

/-- the values of main.c's option variables; a `char *` is `none` when NULL -/
structure St where
  flags : List (String × Bool)
  strs : List (String × Option String)
  arrs : List (String × List (Option String))
  x : FileType                                      -- `opt_x`
  deriving DecidableEq, Repr

def St.init (fv : List (String × Bool)) (sv av : List String) : St :=
  { flags := fv, strs := sv.map (fun v => (v, none)), arrs := av.map (fun v => (v, [])), x := .none }

def St.flag (st : St) (v : String) : Bool := (getAssoc v st.flags).getD false
def St.str (st : St) (v : String) : Option String := (getAssoc v st.strs).getD none
def St.arr (st : St) (v : String) : List (Option String) := (getAssoc v st.arrs).getD []
def St.setFlag (st : St) (v : String) (b : Bool) : St := { st with flags := setAssoc v b st.flags }
def St.setStr (st : St) (v : String) (s : Option String) : St := { st with strs := setAssoc v s st.strs }
def St.push (st : St) (a : String) (s : Option String) : St := { st with arrs := setAssoc a (st.arr a ++ [s]) st.arrs }

/-! ### outcomes -/

inductive Diag where
  | unknownArg (s : String)     -- `error("unknown argument: %s")`
  | unknownX (s : String)       -- `error("<command line>: unknown argument for -x: %s")`
  | noInput                     -- `error("no input files")`
  deriving DecidableEq, Repr

inductive Outcome where
  | ok (st : St)                -- parse_args returns
  | usage (status : Nat)        -- `usage(status)`: message, `exit(status)`
  | exit0                       -- `-hashmap-test`: `exit(0)`
  | diag (d : Diag)             -- `error(…)`: message, `exit(1)`
  | nullDeref (site : String)   -- the NULL that terminates argv is read through: undefined behaviour (SIGSEGV)
  deriving DecidableEq, Repr

def Outcome.isNullDeref : Outcome → Bool
  | .nullDeref _ => true
  | _ => false

/-! ### one arm -/

def Src.isNext : Src → Bool
  | .next => true
  | _ => false

def Stmt.src : Stmt → Option Src
  | .setFlag _ _ => none
  | .setStr _ s => some s
  | .push _ s => some s
  | .call _ s => some s
  | .setX s => some s
  | .appendMT _ s => some s
  | .usage _ => none
  | .exit0 => none

/-- does the statement evaluate `argv[++i]`? -/
def Stmt.readsNext (s : Stmt) : Bool :=
  match s.src with
  | some x => x.isNext
  | none => false

def Arm.readsNext (a : Arm) : Bool := a.body.any Stmt.readsNext

def Test.holds (s : String) : Test → Bool
  | .eq t => decide (s = t)
  | .pre t => hasPrefix t s

def Arm.matches (a : Arm) (s : String) : Bool := a.tests.any (Test.holds s)

/-- the if-ladder: the first arm one of whose tests holds -/
def firstArm (tbl : List Arm) (s : String) : Option Arm := tbl.find? (fun a => a.matches s)

/-- value of an operand; `next` = the word after `argv[i]` (`none`: there is none, `argv[++i]` is NULL) -/
def evalSrc (cur : String) (next : Option String) : Src → Option String
  | .next => next
  | .rest n => some (dropChars n cur)
  | .cur => some cur
  | .lit s => some s

def lookupX (xt : List (String × FileType)) (w : String) : Option FileType :=
  match xt with
  | [] => none
  | (k, t) :: r => if w = k then some t else lookupX r w

def execStmt (xt : List (String × FileType)) (cur : String) (next : Option String) (st : St) :
    Stmt → Except Outcome St
  | .setFlag v b => .ok (st.setFlag v b)
  | .setStr v s => .ok (st.setStr v (evalSrc cur next s))
  | .push a s => .ok (st.push a (evalSrc cur next s))
  | .call f s =>
    match evalSrc cur next s with
    | none => .error (.nullDeref f)
    | some w => .ok (st.push f (some w))
  | .setX s =>
    match evalSrc cur next s with
    | none => .error (.nullDeref "parse_opt_x")
    | some w =>
      match lookupX xt w with
      | some t => .ok { st with x := t }
      | none => .error (.diag (.unknownX w))
  | .appendMT q s =>
    match evalSrc cur next s with
    | none =>
      if q then .error (.nullDeref "quote_makefile")
      else match st.str "opt_MT" with
        | none => .ok (st.setStr "opt_MT" none)
        | some _ => .error (.nullDeref "format")
    | some w =>
      let w' := if q then quoteMakefile w else w
      .ok (st.setStr "opt_MT" (some (match st.str "opt_MT" with
                                     | none => w'
                                     | some old => String.ofList (old.toList ++ ' ' :: w'.toList))))
  | .usage n => .error (.usage n)
  | .exit0 => .error .exit0

def execBody (xt : List (String × FileType)) (cur : String) (next : Option String) :
    St → List Stmt → Except Outcome St
  | st, [] => .ok st
  | st, s :: r =>
    match execStmt xt cur next st s with
    | .ok st' => execBody xt cur next st' r
    | .error o => .error o

/-- the loop body for the word `cur`; the `Bool` says whether `argv[++i]` was evaluated (the next word is consumed) -/
def stepOpt (tbl : List Arm) (xt : List (String × FileType)) (cur : String) (next : Option String) (st : St) :
    Except Outcome (St × Bool) :=
  match firstArm tbl cur with
  | some arm =>
    match execBody xt cur next st arm.body with
    | .ok st' => .ok (st', arm.readsNext)
    | .error o => .error o
  | none =>
    if isDashWord cur then .error (.diag (.unknownArg cur))
    else .ok (st.push "input_paths" (some cur), false)

/-! ### the two passes -/

/-- pass 1: `true` = every option that takes an argument has one; `false` = `usage(1)` -/
def guardPass (ta : List String) : List String → Bool
  | [] => true
  | [a] => !ta.contains a
  | a :: b :: r => if ta.contains a then guardPass ta r else guardPass ta (b :: r)

/-- pass 2 without the statements after the loop -/
def optRun (tbl : List Arm) (xt : List (String × FileType)) : List String → St → Except Outcome St
  | [], st => .ok st
  | [a], st =>
    match stepOpt tbl xt a none st with
    | .ok (st', _) => .ok st'
    | .error o => .error o
  | a :: b :: r, st =>
    match stepOpt tbl xt a (some b) st with
    | .ok (st', true) => optRun tbl xt r st'
    | .ok (st', false) => optRun tbl xt (b :: r) st'
    | .error o => .error o

/-- the statements after the loop -/
def finish (st : St) : Outcome :=
  if (st.arr "input_paths").isEmpty then .diag .noInput
  else .ok (if st.flag "opt_E" then { st with x := .c } else st)

/-- main.c `parse_args` for a given `take_arg` list, ladder, `parse_opt_x` table and initial variables -/
def parseWith (ta : List String) (tbl : List Arm) (xt : List (String × FileType)) (st0 : St) (args : List String) :
    Outcome :=
  if guardPass ta args then
    match optRun tbl xt args st0 with
    | .ok st => finish st
    | .error o => o
  else .usage 1

/-! ### the condition under which the two passes walk argv in step -/

/-- an arm that evaluates `argv[++i]` is entered only by exact options that `take_arg` lists -/
def armGuarded (ta : List String) (a : Arm) : Bool :=
  !a.readsNext || a.tests.all (fun t => match t with | .eq s => ta.contains s | .pre _ => false)

/-- the arm that `s` selects evaluates `argv[++i]` -/
def consumes (tbl : List Arm) (s : String) : Bool :=
  match firstArm tbl s with
  | some a => a.readsNext
  | none => false

/-- `take_arg(s)` ⇔ the arm selected by `s` reads `argv[++i]`, as a check over the two tables -/
def inSync (ta : List String) (tbl : List Arm) : Bool :=
  tbl.all (armGuarded ta) && ta.all (consumes tbl)

/-- arms whose `argv[++i]` is not protected by pass 1 (first test shown) -/
def unguardedArms (ta : List String) (tbl : List Arm) : List (List Test) :=
  (tbl.filter (fun a => !armGuarded ta a)).map (·.tests)

/-- no test of an earlier arm hides an exact option: `s` selects the arm that lists it -/
def exactLive (tbl : List Arm) : Bool :=
  tbl.all (fun a => a.tests.all (fun t => match t with
    | .eq s => firstArm tbl s == some a
    | .pre s => firstArm tbl (String.ofList (s.toList ++ [Char.ofNat 1])) == some a))

end ChibiVerif.C14Args
