/-
Concrete instances of the two parameters of Model/IfParse.lean `ifTree`, used by the driver (`drv_c10 ifline`):

* `cvTok`: convert_pp_tokens + the retyping loop of eval_const_expr on one token.  Integer constants go through the
  translated `convert_pp_int` (Gen/PpNumGen.lean, with the libc model of `strtoul`, Model/PpNumber.lean), character
  constants through the literal reader of Model/Literals.lean (both belong to property C11 and are tied to tokenize.c there);
  the retyping rule is eval_const_expr's: unsigned long iff the type is unsigned and (its size is 8 or the spelling
  contains `u` / `U`), else long.
* `xpObj`: macro expansion with object-like macros only – `IncludeOperand.expandObjT` (the transcription of
  expand_macro's object-like arm with hide sets, total by `C10_operand_expander_total`) on an encoding of the tokens.

Core Lean only.
-/
import ChibiVerif.Model.IfParse
import ChibiVerif.Model.PpNumber
import ChibiVerif.Model.IncludeOperand

namespace ChibiVerif.IfParse
open ChibiVerif.PPExpr ChibiVerif.CondIncl ChibiVerif.IncludeOperand
open ChibiVerif.Gen.Literals (Ty)

def bytesOf (s : String) : List (BitVec 8) := s.toUTF8.toList.map (fun b => BitVec.ofNat 8 b.toNat)

/-- eval_const_expr: `t->ty->is_unsigned && (t->ty->size == 8 || memchr(t->loc, 'u', t->len) || memchr(t->loc, 'U', t->len))` -/
def retypeUnsigned (ty : Ty) (spelling : String) : Bool :=
  ty.isUnsigned && (ty.size == 8 || spelling.contains 'u' || spelling.contains 'U')

def cvTok (t : Tok) : Option PTok :=
  match t with
  | .punct s => some (.punct s)
  | .ident _ => some (.num 0 false)
  | .num s =>
    let b := bytesOf s
    match ChibiVerif.PpNumber.convertPpIntC b 0 b.length with
    | some (v, ty) => some (.num v.toNat (retypeUnsigned ty s))
    | none => none
  | .other s =>
    let b := bytesOf s
    match ChibiVerif.PpNumber.lexLiteralC b with
    | .ok (.chr v ty len) => if len == b.length then some (.num v.toNat (retypeUnsigned ty s)) else some .other
    | _ => some .other

def encTok : Tok → OTok
  | .ident s => { kind := .ident, text := s }
  | .num s => { kind := .other, text := "N" ++ s }
  | .punct s => { kind := .other, text := "P" ++ s }
  | .other s => { kind := .other, text := "O" ++ s }

def decTok (t : OTok) : Tok :=
  match t.kind with
  | .ident => .ident t.text
  | _ =>
    match t.text.toList with
    | 'N' :: r => .num (String.ofList r)
    | 'P' :: r => .punct (String.ofList r)
    | _ :: r => .other (String.ofList r)
    | [] => .other ""

/-- object-like macro expansion of a line (hide sets as in expand_macro); bodies are token lists -/
def xpObj (d : Defs (List Tok)) (ts : List Tok) : Except Diag (List Tok) :=
  let od : ODefs := d.map (fun p => (p.1, p.2.map encTok))
  match expandObjT od (ts.map encTok) with
  | .error e => .error e
  | .ok r => .ok (r.map decTok)

end ChibiVerif.IfParse
