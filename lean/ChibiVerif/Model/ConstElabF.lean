/- The typed tree chibicc builds for an arithmetic constant expression with floating operands (property C07): parse.c
   (`new_binary`, `new_unary`, `new_cast`, `primary` for floating constants, `unary` "+", `relational` swapping `>`/`>=`)
   followed by type.c `add_type` (`usual_arith_conv` / `get_common_type` with the floating ranks).  The integer fragment is
   Model/ConstElab.lean (`elabA (ofC e) = elabE e`, Lemmas/C07FloatLemmas.lean).  Hand-written; tied to the code on every
   run by the floating leg of checklib/C07.py (the bits the real compiler emits for an expression are compared with
   `Gen.evalDouble (elabA e)` over the software FPU).  Core Lean only. -/
import ChibiVerif.Model.ConstElab
import ChibiVerif.Spec.ConstFSpec

namespace ChibiVerif.ConstElab
open ChibiVerif.Gen.ConstEval ChibiVerif.Spec.Const ChibiVerif.Spec.ConstF

/-- the `Type` object of each floating type (type.c `ty_float`, `ty_double`, `ty_ldouble`) -/
def descrF : FTy → CTy
  | .f32 => ⟨.TY_FLOAT, 4, false⟩
  | .f64 => ⟨.TY_DOUBLE, 8, false⟩
  | .f80 => ⟨.TY_LDOUBLE, 16, false⟩

def descrA : ATy → CTy
  | .int t => descr t
  | .flt t => descrF t

/-- type.c `get_common_type` on arithmetic types -/
def getCommonTypeA (ty1 ty2 : CTy) : CTy :=
  if ty1.kind == .TY_LDOUBLE || ty2.kind == .TY_LDOUBLE then descrF .f80
  else if ty1.kind == .TY_DOUBLE || ty2.kind == .TY_DOUBLE then descrF .f64
  else if ty1.kind == .TY_FLOAT || ty2.kind == .TY_FLOAT then descrF .f32
  else getCommonType ty1 ty2

def mkArithA (k : NodeKind) (a b : CNode) : CNode :=
  let t := getCommonTypeA (nodeTy a) (nodeTy b)
  bin k t (mkCast a t) (mkCast b t)
def mkCompareA (k : NodeKind) (a b : CNode) : CNode :=
  let t := getCommonTypeA (nodeTy a) (nodeTy b)
  bin k tyInt (mkCast a t) (mkCast b t)
def mkPromotedA (k : NodeKind) (a b : CNode) : CNode :=
  let t := getCommonTypeA tyInt (nodeTy a)
  .mk k t 0 0 (mkCast a t) b .null .null .null

def elabA : AExpr → CNode
  | .ilit t v => .mk .ND_NUM (descr t) (BitVec.ofInt 64 v) 0 .null .null .null .null .null
  | .flit t fval => .mk .ND_NUM (descrF t) 0 fval .null .null .null .null .null
  | .un .neg e => mkPromotedA .ND_NEG (elabA e) .null
  | .un .bitnot e => mkPromotedA .ND_BITNOT (elabA e) .null
  | .un .lognot e => un .ND_NOT tyInt (elabA e)
  | .un .plus e =>
    let n := elabA e
    if isInteger (nodeTy n) && (nodeTy n).size.toNat < 4 then mkCast n tyInt else n
  | .bin op a b =>
    let x := elabA a
    let y := elabA b
    match op with
    | .add => mkArithA .ND_ADD x y
    | .sub => mkArithA .ND_SUB x y
    | .mul => mkArithA .ND_MUL x y
    | .div => mkArithA .ND_DIV x y
    | .mod => mkArithA .ND_MOD x y
    | .band => mkArithA .ND_BITAND x y
    | .bor => mkArithA .ND_BITOR x y
    | .bxor => mkArithA .ND_BITXOR x y
    | .shl => mkPromotedA .ND_SHL x y
    | .shr => mkPromotedA .ND_SHR x y
    | .eq => mkCompareA .ND_EQ x y
    | .ne => mkCompareA .ND_NE x y
    | .lt => mkCompareA .ND_LT x y
    | .le => mkCompareA .ND_LE x y
    | .gt => mkCompareA .ND_LT y x
    | .ge => mkCompareA .ND_LE y x
  | .land a b => bin .ND_LOGAND tyInt (elabA a) (elabA b)
  | .lor a b => bin .ND_LOGOR tyInt (elabA a) (elabA b)
  | .cond c a b =>
    let x := elabA a
    let y := elabA b
    let t := getCommonTypeA (nodeTy x) (nodeTy y)
    .mk .ND_COND t 0 0 .null .null (elabA c) (mkCast x t) (mkCast y t)
  | .cast t e => mkCast (elabA e) (descrA t)

end ChibiVerif.ConstElab
