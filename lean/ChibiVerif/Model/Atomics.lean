/-
Model for C16: n threads executing the instruction sequences chibicc emits for operations on one
`_Atomic` object (a shared cell of 8, 16, 32 or 64 bits), under arbitrary interleaving.

What is mirrored (code as it is now)
* parse.c `to_assign`, `_Atomic` branch (also reached for atomic struct/union members):
    `({ T *addr = &A; T2 val = (B); T old = *addr; T new;
        do { new = old op val; } while (!atomic_compare_exchange_strong(addr, &old, new)); new; })`
* include/stdatomic.h `__atomic_fetch_op` (all `atomic_fetch_*`): the same retry loop written with
    `__builtin_compare_and_swap`, yielding `__old` (the value before the operation) instead of `new`
* codegen.c `ND_CAS`:   gen(addr); push; gen(new); [`movd %xmm0, %eax` | `movq %xmm0, %rax`]; push; gen(old);
    `mov %rax, %r8`; load(*old) [floating: `mov (%rax), %eax|%rax`];
    `pop %rdx`; `pop %rdi`; `lock cmpxchg reg_dx(sz), (%rdi)`; `sete %cl`; `je 1f`;
    `mov reg_ax(sz), (%r8)`; `1:`; `movzbl %cl, %eax`
* codegen.c `ND_EXCH`:  gen(addr); push; gen(val); `pop %rdi`; [`movd %xmm0, %eax` | `movq %xmm0, %rax`];
    `xchg reg_ax(sz), (%rdi)`; [`movd %eax, %xmm0` | `movq %rax, %xmm0`]; for 1- and 2-byte
    objects `movsbl/movzbl %al, %eax` / `movswl/movzwl %ax, %eax`
* type.c `add_type`: the value argument of ND_CAS / ND_EXCH is converted to the object type (a private
    conversion before the push; the model takes the register value after it)
* codegen.c `ND_NOT` and the `ND_DO` test: `cmp $0, %eax`; `sete %al`; `movzx %al, %rax`; `cmp $0, %eax`; `jne .L.begin.N`
* codegen.c `load`/`store` (register extension by size and signedness), `reg_ax`/`reg_dx` (register by `sizeof *addr`)
* include/stdatomic.h: `atomic_load` = `*addr` (one load), `atomic_store` = `*addr = val` (one store)

Granularity: one step = one emitted instruction of one thread, except that the instructions which only
form an address (`lea`, the load of the hidden pointer `addr`), and the body `new = old op val` (expression
evaluation: properties C01/C02), are folded into the neighbouring step; they touch private registers and
private stack slots only.  For floating objects the value travels in `%xmm0` until `movd/movq`; the model
keeps it in the `rax` field (the bits are what matters: the compare-and-swap is on the representation).

Trusted (Intel SDM vol. 3A §8.1.1, §8.1.2.2, §8.2.3.8-9): `lock cmpxchg`, `xchg` with a memory operand and naturally
aligned loads/stores of 1, 2, 4, 8 bytes are single indivisible steps, totally ordered with one another.

Only the low `w` bits of `%rax`/`%rdx` take part in `lock cmpxchg`/`xchg`; the upper register bits are
whatever the extending loads left there and are part of the state (theorems are for all of them).
-/
import ChibiVerif.Model.Asm

namespace ChibiVerif.Atomics
open ChibiVerif.Asm

/-! ### widths and registers -/

inductive Width where
  | w8 | w16 | w32 | w64
  deriving DecidableEq, Repr, Inhabited

@[reducible, simp] def Width.bits : Width → Nat
  | .w8 => 8 | .w16 => 16 | .w32 => 32 | .w64 => 64

def Width.bytes : Width → Nat
  | .w8 => 1 | .w16 => 2 | .w32 => 4 | .w64 => 8

def Width.ofBytes? : Nat → Option Width
  | 1 => some .w8 | 2 => some .w16 | 4 => some .w32 | 8 => some .w64 | _ => none

abbrev Word (w : Width) := BitVec w.bits

/-- how codegen.c treats the object type: `is_unsigned` false / true (integers, `_Bool`, enums, pointers),
    or `TY_FLOAT`/`TY_DOUBLE` -/
inductive Kind where
  | signed | unsigned | flo
  deriving DecidableEq, Repr, Inhabited

/-- codegen.c `reg_ax(sz)` -/
def regAx : Width → String
  | .w8 => "%al" | .w16 => "%ax" | .w32 => "%eax" | .w64 => "%rax"

/-- codegen.c `reg_dx(sz)` -/
def regDx : Width → String
  | .w8 => "%dl" | .w16 => "%dx" | .w32 => "%edx" | .w64 => "%rdx"

/-- the low `w` bits of a 64-bit register: what `%al/%ax/%eax/%rax` names -/
def readReg (w : Width) (r : BitVec 64) : Word w := r.setWidth w.bits

/-- bits of the full register that survive a write of its `w`-bit sub-register
    (8- and 16-bit writes keep the rest; a 32-bit write zeroes bits 32..63) -/
def keepMask : Width → BitVec 64
  | .w8 => 0xFFFFFFFFFFFFFF00#64
  | .w16 => 0xFFFFFFFFFFFF0000#64
  | .w32 => 0#64
  | .w64 => 0#64

/-- write the `w`-bit sub-register -/
def writeReg (w : Width) (r : BitVec 64) (v : Word w) : BitVec 64 :=
  (r &&& keepMask w) ||| v.setWidth 64

/-- the register content after loading a `w`-bit value of kind `k`.  Integers: codegen.c `load(ty)`
    (`movsbl/movzbl/movswl/movzwl (%rax), %eax`, zero-extended to 64 bits by the 32-bit write;
    `movsxd (%rax), %rax` for every 4-byte integer; `mov (%rax), %rax`).
    Floating: the bits, zero-extended (`movd %xmm0, %eax`, `mov (%rax), %eax`; `movq`, `mov (%rax), %rax`). -/
def loadExt (w : Width) (k : Kind) (v : Word w) : BitVec 64 :=
  match w, v with
  | .w8, v => if k = .signed then (v.signExtend 32).setWidth 64 else v.setWidth 64
  | .w16, v => if k = .signed then (v.signExtend 32).setWidth 64 else v.setWidth 64
  | .w32, v => if k = .flo then v.setWidth 64 else v.signExtend 64
  | .w64, v => v

/-! ### operations a thread performs on the object -/

/-- value an operation yields to the program -/
inductive Result (w : Width) where
  | val (v : Word w)                       -- `A op= B`: the new value; `atomic_fetch_*`, `atomic_exchange`, `atomic_load`: the value read
  | cas (ok : Bool) (expected : Word w)    -- `atomic_compare_exchange_*`: returned flag, content of the expected-value object afterwards
  | unit                                   -- `atomic_store`
  deriving DecidableEq, Repr

inductive Oper (w : Width) where
  /-- the retry loop.  `retOld = false`: `A op= B`, `++A`, `--A` (and, through a subtraction the loop does not see,
      `A++`, `A--`): yields the new value.  `retOld = true`: `atomic_fetch_*`: yields the previous value.
      `f old = (T)(old op val)`; `none` = the division instruction raises #DE (divisor 0, or INT_MIN / -1). -/
  | rmw (f : Word w → Option (Word w)) (retOld : Bool)
  /-- one `atomic_compare_exchange_strong/weak(p, &e, d)`; `d` is the register value of the third argument
      after its conversion to the object type (whatever the upper bits are, only the low `w` bits are used) -/
  | cas (expected : Word w) (desired : BitVec 64)
  /-- `atomic_exchange(p, v)`; `v` raw register value of the second argument -/
  | xchg (v : BitVec 64)
  /-- `atomic_load(p)` -/
  | load
  /-- `atomic_store(p, v)` -/
  | store (v : BitVec 64)

/-- sequential specification: effect on the object and result, `none` = trap -/
def Oper.spec {w : Width} : Oper w → Word w → Option (Word w × Result w)
  | .rmw f retOld, c => (f c).map fun n => (n, .val (if retOld then c else n))
  | .cas e d, c => if c = e then some (readReg w d, .cas true e) else some (c, .cas false c)
  | .xchg v, c => some (readReg w v, .val c)
  | .load, c => some (c, .val c)
  | .store v, _ => some (readReg w v, .unit)

/-! ### thread state -/

inductive Pc where
  -- `T old = *addr;`
  | init0     -- load(*addr): the shared read
  | init1     -- store into `old`
  -- `.L.begin.N:`  `new = old op val;`
  | compute
  -- ND_CAS arm (shared by the retry loop and by a stand-alone compare-exchange)
  | casNew    -- gen(cas_new); push
  | casOld    -- gen(cas_old); mov %rax, %r8; load(*old)
  | popRdx    -- pop %rdx
  | popRdi    -- pop %rdi
  | cmpxchg   -- lock cmpxchg reg_dx, (%rdi)
  | sete      -- sete %cl
  | je        -- je 1f
  | wb        -- mov reg_ax, (%r8)
  | movzbl    -- 1: movzbl %cl, %eax
  -- `!cas` and the do-while test
  | cmp1      -- cmp $0, %eax
  | seteAl    -- sete %al
  | movzx     -- movzx %al, %rax
  | cmp2      -- cmp $0, %eax
  | jne       -- jne .L.begin.N
  | result    -- `new;` / `__old;` value of the statement expression
  -- ND_EXCH
  | xload     -- gen(rhs)
  | xpre      -- movd %xmm0, %eax | movq %xmm0, %rax                  (floating objects only)
  | xchg      -- xchg reg_ax, (%rdi)
  | xext      -- movsbl/movzbl %al, %eax | movswl/movzwl %ax, %eax   (1- and 2-byte objects)
              -- movd %eax, %xmm0 | movq %rax, %xmm0                  (floating objects)
  -- atomic_load
  | aload
  -- atomic_store
  | sload     -- gen(rhs)
  | sstore    -- pop %rdi; mov reg_ax, (%rdi)
  | trap      -- #DE raised in `compute` (the process is killed)
  | stuck     -- program counter that does not belong to the current operation (never reached, see `TInv`)
  deriving DecidableEq, Repr, Inhabited

structure Thread (w : Width) where
  pc : Pc
  /-- operations still to do; the head is the one in progress -/
  todo : List (Oper w)
  rax : BitVec 64 := 0
  rdx : BitVec 64 := 0
  /-- the pushed value of `cas_new` -/
  stk : BitVec 64 := 0
  zf : Bool := false
  cl : BitVec 8 := 0
  /-- the local `old` of the retry loop / the expected-value object of a compare-exchange -/
  old : Word w := 0
  /-- the local `new` of the retry loop -/
  new : Word w := 0
  /-- results of the completed operations, oldest first -/
  results : List (Result w) := []

def startPc {w : Width} : Oper w → Pc
  | .rmw _ _ => .init0
  | .cas _ _ => .casNew
  | .xchg _ => .xload
  | .load => .aload
  | .store _ => .sload

/-- make the head of `todo` the operation in progress (for a compare-exchange the expected-value
    object holds `e`) -/
def enter {w : Width} (th : Thread w) : Thread w :=
  match th.todo with
  | [] => th
  | .cas e _ :: _ => { th with pc := .casNew, old := e }
  | o :: _ => { th with pc := startPc o }

/-- the current operation is complete with result `r` -/
def finish {w : Width} (th : Thread w) (r : Result w) : Thread w :=
  enter { th with todo := th.todo.tail, results := th.results ++ [r] }

def mkThread {w : Width} (ops : List (Oper w)) : Thread w :=
  enter { pc := .stuck, todo := ops }

inductive EvKind (w : Width) where
  /-- a shared read that is not a linearization point: the initial `old = *addr` of a retry loop, a
      failed `lock cmpxchg` inside a retry loop -/
  | read
  /-- linearization point of operation `o`, which will yield `r` -/
  | commit (o : Oper w) (r : Result w)

structure Event (w : Width) where
  tid : Nat
  kind : EvKind w

def EvKind.isCommit {w : Width} : EvKind w → Bool
  | .commit _ _ => true
  | .read => false

structure StepOut (w : Width) where
  th : Thread w
  cell : Word w
  ev : Option (EvKind w) := none

def bit8 (b : Bool) : BitVec 8 := if b then 1#8 else 0#8

/-- `lock cmpxchg reg_dx(w), (%rdi)` on a cell holding `c`: compares the low `w` bits of `%rax` with the cell;
    equal → ZF := 1, cell := low `w` bits of `%rdx`; different → ZF := 0, `reg_ax(w)` := cell.
    Returns (cell, rax, zf). -/
def lockCmpxchg (w : Width) (c : Word w) (rax rdx : BitVec 64) : Word w × BitVec 64 × Bool :=
  if c = readReg w rax then (readReg w rdx, rax, true) else (c, writeReg w rax c, false)

def Width.narrow : Width → Bool
  | .w8 | .w16 => true
  | _ => false

/-- does ND_EXCH emit an instruction after the `xchg`? (extension of a 1- or 2-byte value, move back to %xmm0) -/
def xchgHasPost (w : Width) (k : Kind) : Bool := w.narrow || k == .flo

/-- one instruction of a thread whose object currently holds `c`; `k` = kind of the object type -/
def stepThread {w : Width} (k : Kind) (c : Word w) (th : Thread w) : StepOut w :=
  match th.todo with
  | [] => ⟨th, c, none⟩
  | o :: _ =>
    match th.pc, o with
    -- retry loop prologue
    | .init0, .rmw _ _ => ⟨{ th with pc := .init1, rax := loadExt w k c }, c, some .read⟩
    | .init1, .rmw _ _ => ⟨{ th with pc := .compute, old := readReg w th.rax }, c, none⟩
    | .compute, .rmw f _ =>
      match f th.old with
      | some n => ⟨{ th with pc := .casNew, new := n }, c, none⟩
      | none => ⟨{ th with pc := .trap }, c, none⟩
    -- ND_CAS
    | .casNew, .rmw _ _ => ⟨{ th with pc := .casOld, stk := loadExt w k th.new, rax := loadExt w k th.new }, c, none⟩
    | .casNew, .cas _ d => ⟨{ th with pc := .casOld, stk := d, rax := d }, c, none⟩
    | .casOld, .rmw _ _ => ⟨{ th with pc := .popRdx, rax := loadExt w k th.old }, c, none⟩
    | .casOld, .cas _ _ => ⟨{ th with pc := .popRdx, rax := loadExt w k th.old }, c, none⟩
    | .popRdx, .rmw _ _ => ⟨{ th with pc := .popRdi, rdx := th.stk }, c, none⟩
    | .popRdx, .cas _ _ => ⟨{ th with pc := .popRdi, rdx := th.stk }, c, none⟩
    | .popRdi, .rmw _ _ => ⟨{ th with pc := .cmpxchg }, c, none⟩
    | .popRdi, .cas _ _ => ⟨{ th with pc := .cmpxchg }, c, none⟩
    | .cmpxchg, .rmw f ro =>
      let r := lockCmpxchg w c th.rax th.rdx
      ⟨{ th with pc := .sete, rax := r.2.1, zf := r.2.2 }, r.1,
        some (if r.2.2 then .commit (.rmw f ro) (.val (if ro then c else r.1)) else .read)⟩
    | .cmpxchg, .cas e d =>
      let r := lockCmpxchg w c th.rax th.rdx
      ⟨{ th with pc := .sete, rax := r.2.1, zf := r.2.2 }, r.1,
        some (.commit (.cas e d) (.cas r.2.2 (if r.2.2 then th.old else c)))⟩
    | .sete, .rmw _ _ => ⟨{ th with pc := .je, cl := bit8 th.zf }, c, none⟩
    | .sete, .cas _ _ => ⟨{ th with pc := .je, cl := bit8 th.zf }, c, none⟩
    | .je, .rmw _ _ => ⟨{ th with pc := if th.zf then .movzbl else .wb }, c, none⟩
    | .je, .cas _ _ => ⟨{ th with pc := if th.zf then .movzbl else .wb }, c, none⟩
    | .wb, .rmw _ _ => ⟨{ th with pc := .movzbl, old := readReg w th.rax }, c, none⟩
    | .wb, .cas _ _ => ⟨{ th with pc := .movzbl, old := readReg w th.rax }, c, none⟩
    | .movzbl, .rmw _ _ => ⟨{ th with pc := .cmp1, rax := th.cl.setWidth 64 }, c, none⟩
    | .movzbl, .cas _ _ =>
      ⟨finish { th with rax := th.cl.setWidth 64 } (.cas (th.cl != 0#8) th.old), c, none⟩
    -- `!cas`, do-while test
    | .cmp1, .rmw _ _ => ⟨{ th with pc := .seteAl, zf := (th.rax.setWidth 32 == 0#32) }, c, none⟩
    | .seteAl, .rmw _ _ => ⟨{ th with pc := .movzx, rax := writeReg .w8 th.rax (bit8 th.zf) }, c, none⟩
    | .movzx, .rmw _ _ => ⟨{ th with pc := .cmp2, rax := (th.rax.setWidth 8).setWidth 64 }, c, none⟩
    | .cmp2, .rmw _ _ => ⟨{ th with pc := .jne, zf := (th.rax.setWidth 32 == 0#32) }, c, none⟩
    | .jne, .rmw _ _ => ⟨{ th with pc := if th.zf then .result else .compute }, c, none⟩
    | .result, .rmw _ ro =>
      let v := if ro then th.old else th.new
      ⟨finish { th with rax := loadExt w k v } (.val v), c, none⟩
    -- ND_EXCH
    | .xload, .xchg v => ⟨{ th with pc := if k == .flo then .xpre else .xchg, rax := v }, c, none⟩
    | .xpre, .xchg _ => ⟨{ th with pc := .xchg, rax := loadExt w .flo (readReg w th.rax) }, c, none⟩
    | .xchg, .xchg v =>
      let rax' := writeReg w th.rax c
      if xchgHasPost w k then
        ⟨{ th with pc := .xext, rax := rax' }, readReg w th.rax, some (.commit (.xchg v) (.val c))⟩
      else
        ⟨finish { th with rax := rax' } (.val (readReg w rax')), readReg w th.rax,
          some (.commit (.xchg v) (.val c))⟩
    | .xext, .xchg _ =>
      let rax' := loadExt w k (readReg w th.rax)
      ⟨finish { th with rax := rax' } (.val (readReg w rax')), c, none⟩
    -- atomic_load
    | .aload, .load =>
      let rax' := loadExt w k c
      ⟨finish { th with rax := rax' } (.val (readReg w rax')), c, some (.commit .load (.val c))⟩
    -- atomic_store
    | .sload, .store v => ⟨{ th with pc := .sstore, rax := v }, c, none⟩
    | .sstore, .store v => ⟨finish th .unit, readReg w th.rax, some (.commit (.store v) .unit)⟩
    | .trap, _ => ⟨th, c, none⟩
    | _, _ => ⟨{ th with pc := .stuck }, c, none⟩

/-! ### the system -/

structure Sys (w : Width) where
  kind : Kind
  cell : Word w
  threads : List (Thread w)
  /-- ghost: the shared accesses in the order in which they happened, oldest first -/
  log : List (Event w) := []

def initSys (w : Width) (k : Kind) (init : Word w) (progs : List (List (Oper w))) : Sys w :=
  { kind := k, cell := init, threads := progs.map mkThread }

/-- thread `t` executes one instruction (no such thread: nothing happens) -/
def step {w : Width} (t : Nat) (s : Sys w) : Sys w :=
  match s.threads[t]? with
  | none => s
  | some th =>
    let out := stepThread s.kind s.cell th
    { s with cell := out.cell, threads := s.threads.set t out.th,
             log := s.log ++ (out.ev.map (Event.mk t)).toList }

/-- a schedule is a finite list of thread ids -/
def exec {w : Width} (sched : List Nat) (s : Sys w) : Sys w :=
  sched.foldl (fun s t => step t s) s

def Thread.done {w : Width} (th : Thread w) : Bool := th.todo.isEmpty

def Sys.terminated {w : Width} (s : Sys w) : Bool := s.threads.all Thread.done

/-! ### reading the log -/

/-- replay one event on the sequential specification (`none` = the log is not a sequential history) -/
def applyEv {w : Width} (acc : Option (Word w)) (e : Event w) : Option (Word w) :=
  match e.kind with
  | .read => acc
  | .commit o r =>
    match acc with
    | none => none
    | some c =>
      match o.spec c with
      | some (c', r') => if r' = r then some c' else none
      | none => none

/-- value of the object after the committed operations of `log` have been applied one after the
    other, in log order, to `init` - provided every logged result is the one the sequential
    specification yields at that point -/
def replay {w : Width} (init : Word w) (log : List (Event w)) : Option (Word w) :=
  log.foldl applyEv (some init)

def Event.commitOf {w : Width} (t : Nat) (e : Event w) : Option (Oper w × Result w) :=
  match e.kind with
  | .commit o r => if e.tid = t then some (o, r) else none
  | .read => none

/-- the operations thread `t` has committed, with their results, oldest first -/
def commitsOf {w : Width} (t : Nat) (log : List (Event w)) : List (Oper w × Result w) :=
  log.filterMap (Event.commitOf t)

/-- all committed operations in commit order -/
def commits {w : Width} (log : List (Event w)) : List (Nat × Oper w × Result w) :=
  log.filterMap fun e => match e.kind with
    | .commit o r => some (e.tid, o, r)
    | .read => none

/-- newest-first scan: no other thread committed since thread `t`'s latest logged access -/
def noCommitSinceRev {w : Width} (t : Nat) : List (Event w) → Bool
  | [] => true
  | e :: l => if e.tid = t then true else (!e.kind.isCommit && noCommitSinceRev t l)

def noCommitSince {w : Width} (t : Nat) (log : List (Event w)) : Bool :=
  noCommitSinceRev t log.reverse

/-- effect of an operation on the object alone (a trapping operation has none) -/
def applyOp {w : Width} (c : Word w) (o : Oper w) : Word w :=
  match o.spec c with
  | some (c', _) => c'
  | none => c

/-- the thread after one of its instructions, executed while the object holds `c` -/
def stepT {w : Width} (k : Kind) (th : Thread w) (c : Word w) : Thread w := (stepThread k c th).th

/-- several instructions of one thread; the object holds `cs[i]` when the i-th executes (other
    threads may have changed it in between) -/
def stepsT {w : Width} (k : Kind) (th : Thread w) (cs : List (Word w)) : Thread w := cs.foldl (stepT k) th

/-! ### thread-local bookkeeping used by the statements -/

/-- inside a retry loop, after `lock cmpxchg`: has the attempt succeeded?  Read off the place where
    the flag currently lives (ZF, %cl, %eax, negated in ZF/%al/%eax, ZF again). -/
def Thread.succeeded {w : Width} (th : Thread w) : Bool :=
  match th.pc with
  | .sete | .je => th.zf
  | .wb => false
  | .movzbl => th.cl != 0#8
  | .cmp1 => !(th.rax.setWidth 32 == 0#32)
  | .seteAl => !th.zf
  | .movzx => th.rax.setWidth 8 == 0#8
  | .cmp2 => th.rax.setWidth 32 == 0#32
  | .jne => th.zf
  | .result => true
  | _ => false

/-- the result the thread is going to report for an operation that has passed its linearization
    point but is not complete yet -/
def Thread.pendingRes {w : Width} (th : Thread w) : Option (Result w) :=
  match th.todo with
  | .rmw _ ro :: _ => if th.succeeded then some (.val (if ro then th.old else th.new)) else none
  | .cas _ _ :: _ =>
    match th.pc with
    | .sete | .je => some (.cas th.zf (if th.zf then th.old else readReg w th.rax))
    | .wb => some (.cas false (readReg w th.rax))
    | .movzbl => some (.cas (th.cl != 0#8) th.old)
    | _ => none
  | .xchg _ :: _ =>
    match th.pc with
    | .xext => some (.val (readReg w th.rax))
    | _ => none
  | _ => none

/-- operations of the thread that are not committed yet -/
def Thread.pendingOps {w : Width} (th : Thread w) : List (Oper w) :=
  if th.pendingRes.isSome then th.todo.tail else th.todo

/-- inside a retry loop, before the next `lock cmpxchg`: the value the thread believes the object
    has (what the `lock cmpxchg` is going to compare with) -/
def Thread.believes {w : Width} (th : Thread w) : Option (Word w) :=
  match th.todo with
  | .rmw _ _ :: _ =>
    match th.pc with
    | .init1 => some (readReg w th.rax)
    | .compute | .casNew | .casOld => some th.old
    | .popRdx | .popRdi | .cmpxchg => some (readReg w th.rax)
    | .sete | .je => if th.zf then none else some (readReg w th.rax)
    | .wb => some (readReg w th.rax)
    | .movzbl | .cmp1 | .seteAl | .movzx | .cmp2 | .jne => if th.succeeded then none else some th.old
    | _ => none
  | _ => none

/-! ### progress bookkeeping -/

/-- inside a retry loop whose current attempt has not succeeded: the number of further instructions of the thread
    up to and including its next successful `lock cmpxchg`, provided nobody else commits meanwhile
    (`c` = current value of the object); 15 more if what the thread believes is already stale (one failing
    round: 9 instructions from `sete` back to the loop head, 6 from there to the `lock cmpxchg`) -/
def Thread.distance {w : Width} (th : Thread w) (c : Word w) : Nat :=
  let stale := if th.believes = some c then 0 else 15
  match th.pc with
  | .init0 => 8
  | .init1 => 7 + stale
  | .compute => 6 + stale
  | .casNew => 5 + stale
  | .casOld => 4 + stale
  | .popRdx => 3 + stale
  | .popRdi => 2 + stale
  | .cmpxchg => 1 + stale
  | .sete => 15 + stale
  | .je => 14 + stale
  | .wb => 13 + stale
  | .movzbl => 12 + stale
  | .cmp1 => 11 + stale
  | .seteAl => 10 + stale
  | .movzx => 9 + stale
  | .cmp2 => 8 + stale
  | .jne => 7 + stale
  | _ => 0

/-- number of operations committed so far -/
def ncommits {w : Width} (s : Sys w) : Nat := (commits s.log).length

/-- the thread-`t` part of the progress argument: what holds of thread `t` as long as nobody commits -/
def Waiting {w : Width} (s : Sys w) (t : Nat) (f : Word w → Option (Word w)) (ro : Bool) (rest : List (Oper w)) : Prop :=
  ∃ th, s.threads[t]? = some th ∧ th.todo = .rmw f ro :: rest ∧ th.pendingRes = none ∧ th.pc ≠ .trap

def distanceOf {w : Width} (s : Sys w) (t : Nat) : Nat :=
  match s.threads[t]? with
  | some th => th.distance s.cell
  | none => 0

def trapped {w : Width} (s : Sys w) (t : Nat) : Prop := ∃ th, s.threads[t]? = some th ∧ th.pc = .trap

/-! ### the operators of `op=` as functions on the object value

The right operand has the object's type `T` (the generated programs declare it so); both operands
are promoted to `int` when `T` is narrower, the operation is carried out at 32 or 64 bits with the
instruction chibicc selects (`idiv`/`div`, `sar`/`shr`, shift counts taken modulo the operand
size as the CPU does) and the result is converted back to `T`.  Division traps are `none`. -/

inductive Op where
  | add | sub | mul | div | mod | band | bor | bxor | shl | shr
  deriving DecidableEq, Repr, Inhabited

def Op.all : List Op := [.add, .sub, .mul, .div, .mod, .band, .bor, .bxor, .shl, .shr]

def Op.ofString? : String → Option Op
  | "add" => some .add | "sub" => some .sub | "mul" => some .mul | "div" => some .div
  | "mod" => some .mod | "and" => some .band | "or" => some .bor | "xor" => some .bxor
  | "shl" => some .shl | "shr" => some .shr | _ => none

/-- the operation at `n` bits (n = 32 or 64) on already promoted operands; `sg` = the promoted type is signed -/
def opAt (n : Nat) (sg : Bool) (op : Op) (a b : BitVec n) : Option (BitVec n) :=
  match op with
  | .add => some (a + b)
  | .sub => some (a - b)
  | .mul => some (a * b)
  | .band => some (a &&& b)
  | .bor => some (a ||| b)
  | .bxor => some (a ^^^ b)
  | .shl => some (a <<< (b.toNat % n))
  | .shr => some (if sg then a.sshiftRight (b.toNat % n) else a >>> (b.toNat % n))
  | .div =>
    if b = 0 then none
    else if sg then (if a = BitVec.intMin n ∧ b = -1 then none else some (a.sdiv b))
    else some (a / b)
  | .mod =>
    if b = 0 then none
    else if sg then (if a = BitVec.intMin n ∧ b = -1 then none else some (a.srem b))
    else some (a % b)

/-- `(T)(old op val)` for an integer `T` of width `w`; `sg` = `T` is signed -/
def Op.fn (w : Width) (sg : Bool) (op : Op) (val : Word w) (old : Word w) : Option (Word w) :=
  match w, val, old with
  | .w8, val, old =>
    let a : BitVec 32 := if sg then old.signExtend 32 else old.setWidth 32
    let b : BitVec 32 := if sg then val.signExtend 32 else val.setWidth 32
    -- after promotion both operands are `int`: the operation is signed
    (opAt 32 true op a b).map (·.setWidth 8)
  | .w16, val, old =>
    let a : BitVec 32 := if sg then old.signExtend 32 else old.setWidth 32
    let b : BitVec 32 := if sg then val.signExtend 32 else val.setWidth 32
    (opAt 32 true op a b).map (·.setWidth 16)
  | .w32, val, old => opAt 32 sg op old val
  | .w64, val, old => opAt 64 sg op old val

/-- the operators whose update functions never trap and commute with one another inside a class:
    `+=`/`-=` (hence `++`/`--`), `*=`, `&=`, `|=`, `^=` -/
def Op.commClass : Op → Option Nat
  | .add | .sub => some 0
  | .mul => some 1
  | .band => some 2
  | .bor => some 3
  | .bxor => some 4
  | _ => none

/-- their value at the object's own width (what `(T)(old op val)` comes to after the promotions) -/
def Op.pure {n : Nat} (op : Op) (c v : BitVec n) : BitVec n :=
  match op with
  | .add => c + v
  | .sub => c - v
  | .mul => c * v
  | .band => c &&& v
  | .bor => c ||| v
  | .bxor => c ^^^ v
  | _ => c

/-! ### emitted text of each step (compared with `chibicc -S` by checklib/C16.py)

`@addr`, `@old`, `@new` stand for the frame offsets of the three hidden locals, `@begin`/`@cont`/`@brk`
for the labels of the do-while, `@body` for the lines of `new = old op val`. -/

/-- codegen.c `load(ty)`: the line that reads `(%rax)` -/
def loadLine (w : Width) (k : Kind) : Line :=
  match w, k with
  | .w32, .flo => ins2 "movss" (.m0 "%rax") (.r "%xmm0")
  | .w64, .flo => ins2 "movsd" (.m0 "%rax") (.r "%xmm0")
  | .w8, k => ins2 (if k = .signed then "movsbl" else "movzbl") (.m0 "%rax") (.r "%eax")
  | .w16, k => ins2 (if k = .signed then "movswl" else "movzwl") (.m0 "%rax") (.r "%eax")
  | .w32, _ => ins2 "movsxd" (.m0 "%rax") (.r "%rax")
  | .w64, _ => ins2 "mov" (.m0 "%rax") (.r "%rax")

/-- codegen.c `store(ty)`: `mov reg_ax, (%rdi)` / `movss|movsd %xmm0, (%rdi)` -/
def storeLine (w : Width) (k : Kind) : Line :=
  match w, k with
  | .w32, .flo => ins2 "movss" (.r "%xmm0") (.m0 "%rdi")
  | .w64, .flo => ins2 "movsd" (.r "%xmm0") (.m0 "%rdi")
  | w, _ => ins2 "mov" (.r (regAx w)) (.m0 "%rdi")

/-- ND_CAS: the bits of a floating `cas_new` go to %rax -/
def flonumToRax (w : Width) (k : Kind) : List Line :=
  match w, k with
  | .w32, .flo => [ins2 "movd" (.r "%xmm0") (.r "%eax")]
  | .w64, .flo => [ins2 "movq" (.r "%xmm0") (.r "%rax")]
  | _, _ => []

/-- ND_CAS: load of the expected value (`mov (%rax), reg_ax` for a floating type) -/
def casOldLoadLine (w : Width) (k : Kind) : Line :=
  match k with
  | .flo => ins2 "mov" (.m0 "%rax") (.r (regAx w))
  | _ => loadLine w k

def lea (what : String) : Line := ins2 "lea" (.s (what ++ "(%rbp)")) (.r "%rax")
def pushRax : Line := ins1 "push" (.r "%rax")
def pop (r : String) : Line := ins1 "pop" (.r r)
def movPtr : Line := ins2 "mov" (.m0 "%rax") (.r "%rax")

/-- lines of one step of the retry loop; `ro` = the loop yields `old` -/
def rmwLines (w : Width) (k : Kind) (ro : Bool) : Pc → List Line
  | .init0 => [lea "@old", pushRax, lea "@addr", movPtr, loadLine w k]
  | .init1 => [pop "%rdi", storeLine w k]
  | .compute => [.label "@begin", lea "@new", pushRax, .raw "@body", pop "%rdi", storeLine w k]
  | .casNew => [.label "@cont", lea "@addr", movPtr, pushRax, lea "@new", loadLine w k] ++ flonumToRax w k ++ [pushRax]
  | .casOld => [lea "@old", ins2 "mov" (.r "%rax") (.r "%r8"), casOldLoadLine w k]
  | .popRdx => [pop "%rdx"]
  | .popRdi => [pop "%rdi"]
  | .cmpxchg => [ins2 "lock cmpxchg" (.r (regDx w)) (.m0 "%rdi")]
  | .sete => [ins1 "sete" (.r "%cl")]
  | .je => [ins1 "je" (.s "1f")]
  | .wb => [ins2 "mov" (.r (regAx w)) (.m0 "%r8")]
  | .movzbl => [.label "1", ins2 "movzbl" (.r "%cl") (.r "%eax")]
  | .cmp1 => [ins2 "cmp" (.i 0) (.r "%eax")]
  | .seteAl => [ins1 "sete" (.r "%al")]
  | .movzx => [ins2 "movzx" (.r "%al") (.r "%rax")]
  | .cmp2 => [ins2 "cmp" (.i 0) (.r "%eax")]
  | .jne => [ins1 "jne" (.s "@begin")]
  | .result => [.label "@brk", lea (if ro then "@old" else "@new"), loadLine w k]
  | _ => []

def rmwPcs : List Pc :=
  [.init0, .init1, .compute, .casNew, .casOld, .popRdx, .popRdi, .cmpxchg, .sete, .je, .wb, .movzbl,
   .cmp1, .seteAl, .movzx, .cmp2, .jne, .result]

/-- the ND_CAS arm from `mov %rax, %r8` on (what precedes it evaluates the three argument expressions) -/
def casArmLines (w : Width) (k : Kind) : List Line :=
  [ins2 "mov" (.r "%rax") (.r "%r8"), casOldLoadLine w k] ++
  ([Pc.popRdx, .popRdi, .cmpxchg, .sete, .je, .wb, .movzbl].flatMap (rmwLines w k false))

/-- ND_EXCH from `pop %rdi` on -/
def xchgLines (w : Width) (k : Kind) : List Line :=
  [pop "%rdi"] ++ flonumToRax w k ++ [ins2 "xchg" (.r (regAx w)) (.m0 "%rdi")] ++
  (match w, k with
   | .w32, .flo => [ins2 "movd" (.r "%eax") (.r "%xmm0")]
   | .w64, .flo => [ins2 "movq" (.r "%rax") (.r "%xmm0")]
   | .w8, k => [ins2 (if k = .signed then "movsbl" else "movzbl") (.r "%al") (.r "%eax")]
   | .w16, k => [ins2 (if k = .signed then "movswl" else "movzwl") (.r "%ax") (.r "%eax")]
   | _, _ => [])

def aloadLines (w : Width) (k : Kind) : List Line := [loadLine w k]

def astoreLines (w : Width) (k : Kind) : List Line := [pop "%rdi", storeLine w k]

end ChibiVerif.Atomics
