/-
<ctype.h> classes in the "C" locale over code points (Nat).  chibicc never calls
setlocale, so `isdigit/isalnum/isxdigit/isspace/ispunct` are the C-locale tables; for
bytes >= 0x80 (passed as negative `char`) glibc's tables answer false, and so do these
functions for every code point >= 128.  Trusted (libc), not generated.
-/
namespace ChibiVerif.LexChar

def isDigit (c : Nat) : Bool := decide (48 ≤ c) && decide (c ≤ 57)
def isUpper (c : Nat) : Bool := decide (65 ≤ c) && decide (c ≤ 90)
def isLower (c : Nat) : Bool := decide (97 ≤ c) && decide (c ≤ 122)
def isAlnum (c : Nat) : Bool := isDigit c || isUpper c || isLower c
def isXDigit (c : Nat) : Bool :=
  isDigit c || (decide (65 ≤ c) && decide (c ≤ 70)) || (decide (97 ≤ c) && decide (c ≤ 102))
/-- space, \t \n \v \f \r -/
def isSpace (c : Nat) : Bool := c == 32 || (decide (9 ≤ c) && decide (c ≤ 13))
/-- printable, not alphanumeric, not space -/
def isPunct (c : Nat) : Bool :=
  (decide (33 ≤ c) && decide (c ≤ 47)) || (decide (58 ≤ c) && decide (c ≤ 64)) ||
  (decide (91 ≤ c) && decide (c ≤ 96)) || (decide (123 ≤ c) && decide (c ≤ 126))

end ChibiVerif.LexChar
