/- Host C floating arithmetic for translated leaf functions of chibicc (property C07).

   chibicc's floating constant folder (parse.c `eval_double`/`eval_double2`, the floating arms of `eval3`) is itself a C
   program over `float`, `double` and `long double`; the value it computes is whatever the *host* gives to those operations.
   The translator (tools/extract/consteval.py) emits one application of a field of `HostFp` for every floating node of the
   clang-14 typed AST, at the width clang computed: `(float)lhs + (float)rhs` is `A.add32 (A.f80to32 lhs) (A.f80to32 rhs)`,
   the implicit conversion of that `float` to the `long double` the function returns is `A.f32to80`.

   A datum of a floating type is its object representation (`BitVec 32` / `BitVec 64` / `BitVec 80`; x86-64: IEEE binary32,
   binary64, x87 double extended), as in Spec/FpuSpec.lean.  Nothing is assumed here about what the operations compute: the
   structure only names them.  What the theorems need is stated as hypotheses where it is needed (`FoldContracts` in
   Lemmas/C07FloatLemmas.lean); the driver runs the model over `HostFp.soft` (Model/SoftFp.lean), a software IEEE-754
   implementation, and the check compares it with the real compiler bit for bit.

   Conversions of a floating value to an integer type are undefined in the host when the integral part does not fit
   (C11 6.3.1.4p1): `fitsI64` / `fitsU64` say whether it fits, `f80toI64` / `f80toU64` are what the host's instruction
   sequence delivers in either case (`HostMode.strict` reports the undefined case as `Fail.hostUB`, as for signed overflow).

   Core Lean only. -/
import ChibiVerif.Model.HostInt

namespace ChibiVerif.Host

structure HostFp where
  /- conversions between floating types (clang: FloatingCast) -/
  f80to32 : BitVec 80 → BitVec 32
  f80to64 : BitVec 80 → BitVec 64
  f32to80 : BitVec 32 → BitVec 80
  f64to80 : BitVec 64 → BitVec 80
  f32to64 : BitVec 32 → BitVec 64
  f64to32 : BitVec 64 → BitVec 32
  /- arithmetic in each format -/
  add32 : BitVec 32 → BitVec 32 → BitVec 32
  sub32 : BitVec 32 → BitVec 32 → BitVec 32
  mul32 : BitVec 32 → BitVec 32 → BitVec 32
  div32 : BitVec 32 → BitVec 32 → BitVec 32
  add64 : BitVec 64 → BitVec 64 → BitVec 64
  sub64 : BitVec 64 → BitVec 64 → BitVec 64
  mul64 : BitVec 64 → BitVec 64 → BitVec 64
  div64 : BitVec 64 → BitVec 64 → BitVec 64
  add80 : BitVec 80 → BitVec 80 → BitVec 80
  sub80 : BitVec 80 → BitVec 80 → BitVec 80
  mul80 : BitVec 80 → BitVec 80 → BitVec 80
  div80 : BitVec 80 → BitVec 80 → BitVec 80
  neg32 : BitVec 32 → BitVec 32
  neg64 : BitVec 64 → BitVec 64
  neg80 : BitVec 80 → BitVec 80
  /- integer → long double (clang: IntegralToFloating); every 64-bit integer is a long double exactly -/
  i32to80 : BitVec 32 → BitVec 80
  i64to80 : BitVec 64 → BitVec 80
  u64to80 : BitVec 64 → BitVec 80
  /- long double → integer (clang: FloatingToIntegral) -/
  f80toI64 : BitVec 80 → BitVec 64
  f80toU64 : BitVec 80 → BitVec 64
  fitsI64 : BitVec 80 → Bool
  fitsU64 : BitVec 80 → Bool
  /- comparisons of long doubles (`==`, `<`, `<=`; `!=` is `!(==)`, `>`/`>=` exchange the operands) -/
  eq80 : BitVec 80 → BitVec 80 → Bool
  lt80 : BitVec 80 → BitVec 80 → Bool
  le80 : BitVec 80 → BitVec 80 → Bool

/-- `(int64_t)x`, `x` a long double -/
def cvtI64 (m : HostMode) (A : HostFp) (x : BitVec 80) : R 64 :=
  ovf m (!A.fitsI64 x) "floating value out of the range of int64_t" (A.f80toI64 x)

/-- `(uint64_t)x`, `x` a long double -/
def cvtU64 (m : HostMode) (A : HostFp) (x : BitVec 80) : R 64 :=
  ovf m (!A.fitsU64 x) "floating value out of the range of uint64_t" (A.f80toU64 x)

/-- a host without floating arithmetic (used where no floating operand occurs): an integer converted to `long double` is
    kept as its own (zero-extended) bits, data are compared as bits, every other operation returns zero bits -/
def HostFp.none : HostFp where
  f80to32 := fun _ => 0
  f80to64 := fun _ => 0
  f32to80 := fun _ => 0
  f64to80 := fun _ => 0
  f32to64 := fun _ => 0
  f64to32 := fun _ => 0
  add32 := fun _ _ => 0
  sub32 := fun _ _ => 0
  mul32 := fun _ _ => 0
  div32 := fun _ _ => 0
  add64 := fun _ _ => 0
  sub64 := fun _ _ => 0
  mul64 := fun _ _ => 0
  div64 := fun _ _ => 0
  add80 := fun _ _ => 0
  sub80 := fun _ _ => 0
  mul80 := fun _ _ => 0
  div80 := fun _ _ => 0
  neg32 := fun _ => 0
  neg64 := fun _ => 0
  neg80 := fun _ => 0
  i32to80 := fun v => v.setWidth 80
  i64to80 := fun v => v.setWidth 80
  u64to80 := fun v => v.setWidth 80
  f80toI64 := fun _ => 0
  f80toU64 := fun _ => 0
  fitsI64 := fun _ => true
  fitsU64 := fun _ => true
  eq80 := fun a b => a == b
  lt80 := fun _ _ => false
  le80 := fun a b => a == b

end ChibiVerif.Host
