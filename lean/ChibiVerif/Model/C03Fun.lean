/-
C03 × C01 — whole functions of an integer fragment of C: statements (C03) whose expression holes are C01's expressions.

* `FStmt`: expression statement, compound statement (`seq` / `skip`), `if` / `else`, `while`, `for (init; c; inc)`, `do … while`,
  `switch` / `case` / `default`, `break`, `continue`, `return e` — over the expressions `E` of Spec/IntSpec (literals, local integer variables, casts,
  unary / binary operators, `&&` `||` `?:` `,`, `=`, the ten `op=`, `++` `--`).
* `execF`: the C11 abstract machine for them — the big-step machine `exec` of Spec/ControlSpec.lean (outcomes normal / break /
  continue / return, one unit of fuel per recursive call, a loop iteration re-executes the loop statement) with `evalE`
  (Spec/IntSpec) in the place of the oracle: a controlling expression is true iff its value is not 0 (6.8.4.1p2, 6.8.5p4), an
  expression statement is the store transformer of `evalE` (6.8.3), `return e` converts the value to the return type
  (6.8.6.4p3).  Undefined behaviour inside an expression (`evalE = none`) is the outcome `undef`.  Written from the
  standard: no labels, no counters.
* `compileF`: what chibicc emits for the statement — `gen_stmt` (codegen.c) arm by arm, every expression hole filled with
  C01's `compileJ` (Model/C01ExprJ.lean = `gen_expr`), the truth test `cmp_zero; je / jne` as C01 models it
  (`cmpZeroSeq`).  Three counters are threaded exactly as the compiler threads them:
    - `k`: hidden temporaries of `op=` / `++` / `--`, in the order parse.c creates them (source order: the `inc` of a `for`
      before its body);
    - `c`: `count()` of codegen.c, ONE counter shared by statements (`.L.else.c`, `.L.end.c`, `.L.begin.c`) and expressions
      (`.L.false.c` …), in the order of emission (a statement draws its number before its parts; the `inc` of a `for` after
      its body);
    - `u`: `new_unique_name()` of parse.c (`.L..u`): break label, then continue label of every loop, in source order.
* `FI`: the instruction type of Model/X86Jump with the label type enlarged by the statement-level labels `.L.begin.N`,
  `.L..N`, `.L.return.<fn>` (`FL`); `stepF` / `runF`: the machine of Model/X86Jump on it, word for word.  Lemmas/C03FunMachine
  proves that it IS the X86Jump machine under an injective renaming of labels, so C01's theorems apply.

Core Lean only (`drv_c03 funtext|funrun` runs it).  Tie: checklib/C03.py leg `fun`: the rendered lines — instructions, label
definitions, jump targets with the numbers the three counters really hand out — against `chibicc -S`; `runF` on the code
against the compiled program, gcc and `execF`.
-/
import ChibiVerif.Model.C01ExprJ

namespace ChibiVerif.C03Fun
open ChibiVerif.Asm ChibiVerif.Spec.IntSpec ChibiVerif.C01 ChibiVerif.X86 ChibiVerif.X86J

/-! ### syntax -/

/-- statements of the fragment.  `{ a b c }` = `seq a (seq b (seq c skip))`; `if (c) t` = `ifte c t skip`;
    `while (c) b` = `for_ none c none b` (parse.c builds the same ND_FOR node); `for (init; c; inc) b` = `for_ (some init) c (some inc) b`
    (first and third clause optional; a declaration as first clause is not in the fragment); `do b while (c);`;
    `switch (e) body`, `case v: s`, `case lo ... hi: s` (GNU), `default: s` -/
inductive FStmt where
  | skip
  | expr (e : E)
  | seq (a b : FStmt)
  | ifte (c : E) (t f : FStmt)
  | for_ (init : Option E) (c : E) (inc : Option E) (body : FStmt)
  | doWhile (body : FStmt) (c : E)
  | switch_ (e : E) (body : FStmt)
  | case_ (lo hi : Int) (s : FStmt)      -- `case lo ... hi: s` (GNU; `case v: s` = `case_ v v s`), the constants as parse.c reads them into a C `long`
  | default_ (s : FStmt)
  | brk
  | cont
  | ret (e : E)
  deriving Repr, Inhabited

/-! ### the abstract machine -/

inductive Out where
  | normal | brk | cont
  | ret (v : Int)
  deriving Repr, DecidableEq, Inhabited

inductive FRes where
  | done (o : Out) (σ : Env)
  | timeout                 -- fuel exhausted
  | undef                   -- an expression with undefined behaviour was evaluated
  | unsupported             -- a `switch` outside the shape this machine gives meaning to (`switchOK`)
  deriving Repr, Inhabited

/-- the optional third clause of a `for`: evaluated for its side effects -/
def evalOpt (σ : Env) : Option E → Option Env
  | none => some σ
  | some e => (evalE σ e).map (·.2)

/-! #### `switch` (6.8.4.2): bodies that are a list of labelled statements

`switch (e) { s1 s2 … }` where each `si` carries at most one label `case v:` / `default:` of this switch, at its head, and none
inside (several labels on one statement are written with empty statements between them: `case 1: ; case 2: s`).  Control jumps to
the statement whose `case` constant, converted to the promoted type of the controlling expression, equals its value, else to
`default`, else past the body (6.8.4.2p5); from there on the labels are transparent. -/

/-- no `case` / `default` outside a nested `switch` -/
def noFreeCase : FStmt → Bool
  | .seq a b => noFreeCase a && noFreeCase b
  | .ifte _ t f => noFreeCase t && noFreeCase f
  | .for_ _ _ _ b => noFreeCase b
  | .doWhile b _ => noFreeCase b
  | .case_ _ _ _ => false
  | .default_ _ => false
  | _ => true

/-- a statement of the list: labelled by one `case` / `default` or not at all, no label of this switch inside -/
def isItem : FStmt → Bool
  | .case_ _ _ s => noFreeCase s
  | .default_ s => noFreeCase s
  | s => noFreeCase s

/-- `{ item item … }` -/
def isChain : FStmt → Bool
  | .skip => true
  | .seq it rest => isItem it && isChain rest
  | _ => false

/-- `case lo ... hi` selects `v`: the constants are converted to the promoted controlling type `P` (6.8.4.2p5) -/
def caseSel (P : ITy) (lo hi v : Int) : Bool := decide (convert P lo ≤ v ∧ v ≤ convert P hi)

/-- the `case` ranges of a chain, as written -/
def chainRanges : FStmt → List (Int × Int)
  | .seq (.case_ lo hi _) rest => (lo, hi) :: chainRanges rest
  | .seq _ rest => chainRanges rest
  | _ => []

def chainDefaults : FStmt → Nat
  | .seq (.default_ _) rest => chainDefaults rest + 1
  | .seq _ rest => chainDefaults rest
  | _ => 0

/-- two ranges have no value in common, in the controlling type -/
def rangesDisjoint (P : ITy) (a b : Int × Int) : Bool :=
  decide (convert P a.2 < convert P b.1) || decide (convert P b.2 < convert P a.1)

def pairwiseDisjoint (P : ITy) : List (Int × Int) → Bool
  | [] => true
  | a :: r => r.all (rangesDisjoint P a) && pairwiseDisjoint P r

/-- what this machine requires of a `switch` body: a chain of labelled statements; every range non-empty in the controlling
    type; no two `case`s with a value in common (6.8.4.2p3); at most one `default` -/
def switchOK (P : ITy) (body : FStmt) : Bool :=
  isChain body && (chainRanges body).all (fun r => decide (convert P r.1 ≤ convert P r.2)) &&
    pairwiseDisjoint P (chainRanges body) && decide (chainDefaults body ≤ 1)

/-- the chain from the `case` selecting `v` on (`switchOK`: there is at most one; were there several, the last) -/
def selectCase (P : ITy) (v : Int) : FStmt → Option FStmt
  | .seq (.case_ lo hi s) rest =>
      (selectCase P v rest).orElse fun _ => if caseSel P lo hi v then some (.seq (.case_ lo hi s) rest) else none
  | .seq _ rest => selectCase P v rest
  | _ => none

/-- the chain from `default` on (`switchOK`: there is at most one; were there several, the last) -/
def selectDefault : FStmt → Option FStmt
  | .seq (.default_ s) rest => (selectDefault rest).orElse fun _ => some (.seq (.default_ s) rest)
  | .seq _ rest => selectDefault rest
  | _ => none

/-- big-step execution with fuel (`R` = the return type of the function) -/
def execF (R : ITy) : Nat → FStmt → Env → FRes
  | 0, _, _ => .timeout
  | n + 1, s, σ =>
    match s with
    | .skip => .done .normal σ
    | .expr e =>
      match evalE σ e with
      | some (_, σ1) => .done .normal σ1
      | none => .undef
    | .seq a b =>
      match execF R n a σ with
      | .done .normal σ1 => execF R n b σ1
      | r => r
    | .ifte c t f =>
      match evalE σ c with
      | some (v, σ1) => if v ≠ 0 then execF R n t σ1 else execF R n f σ1
      | none => .undef
    | .for_ (some i) c inc body =>
      -- 6.8.5.3: the first clause is evaluated once, before the first evaluation of the controlling expression
      match evalE σ i with
      | some (_, σ0) => execF R n (.for_ none c inc body) σ0
      | none => .undef
    | .for_ none c inc body =>
      match evalE σ c with
      | none => .undef
      | some (v, σ1) =>
        if v = 0 then .done .normal σ1 else
        let next (σ2 : Env) : FRes :=
          match evalOpt σ2 inc with
          | some σ3 => execF R n (.for_ none c inc body) σ3
          | none => .undef
        match execF R n body σ1 with
        | .done .normal σ2 => next σ2
        | .done .cont σ2 => next σ2
        | .done .brk σ2 => .done .normal σ2
        | r => r
    | .doWhile body c =>
      let test (σ2 : Env) : FRes :=
        match evalE σ2 c with
        | some (v, σ3) => if v ≠ 0 then execF R n (.doWhile body c) σ3 else .done .normal σ3
        | none => .undef
      match execF R n body σ with
      | .done .normal σ2 => test σ2
      | .done .cont σ2 => test σ2
      | .done .brk σ2 => .done .normal σ2
      | r => r
    | .switch_ e body =>
      match typeOf σ e, evalE σ e with
      | some t, some (v, σ1) =>
        if switchOK (promote t) body then
          let run (rest : FStmt) : FRes :=
            match execF R n rest σ1 with
            | .done .brk σ2 => .done .normal σ2
            | r => r
          match selectCase (promote t) v body with
          | some rest => run rest
          | none =>
            match selectDefault body with
            | some rest => run rest
            | none => .done .normal σ1
        else .unsupported
      | _, _ => .undef
    | .case_ _ _ s => execF R n s σ
    | .default_ s => execF R n s σ
    | .brk => .done .brk σ
    | .cont => .done .cont σ
    | .ret e =>
      match evalE σ (.cast R e) with
      | some (v, σ1) => .done (.ret v) σ1
      | none => .undef

/-! ### instructions with statement-level labels -/

/-- the labels `gen_stmt` / parse.c make up besides those of Model/X86Jump -/
inductive SL where
  | begin_ (n : Nat)        -- `.L.begin.N`, `N` from `count()`
  | uniq (n : Nat)          -- `.L..N`, `N` from `new_unique_name()`: break / continue labels
  | ret                     -- `.L.return.<function>`
  deriving DecidableEq, Repr, Inhabited

inductive FL where
  | x (l : Lbl)             -- a label of Model/X86Jump: `.L.else.N`, `.L.end.N`, `.L.false.N`, `.L.true.N`
  | s (l : SL)
  deriving DecidableEq, Repr, Inhabited

def FL.render (fn : String) : FL → String
  | .x l => l.render
  | .s (.begin_ n) => ".L.begin." ++ toString n
  | .s (.uniq n) => ".L.." ++ toString n
  | .s .ret => ".L.return." ++ fn

inductive FI where
  | ins (i : Ins)
  | lbl (l : FL)
  | jmp (l : FL)
  | jcc (c : CC) (l : FL)
  deriving DecidableEq, Repr, Inhabited

/-- a line of Model/X86Jump as a line of the function -/
def emb : JI → FI
  | .ins i => .ins i
  | .lbl l => .lbl (.x l)
  | .jmp l => .jmp (.x l)
  | .jcc c l => .jcc c (.x l)

def embs (c : List JI) : List FI := c.map emb

/-- the text of one line as chibicc prints it (without indentation) -/
def FI.text (fn : String) : FI → String
  | .ins i => i.render
  | .lbl l => l.render fn ++ ":"
  | .jmp l => "jmp " ++ l.render fn
  | .jcc c l => "j" ++ ccSuffix c ++ " " ++ l.render fn

def defsF : List FI → List FL
  | [] => []
  | .lbl l :: r => l :: defsF r
  | _ :: r => defsF r

/-- position of the first definition of `l` (Model/X86Jump `findLbl`) -/
def findLblF : List FI → FL → Option Nat
  | [], _ => none
  | .lbl l' :: r, l => if l' = l then some 0 else (findLblF r l).map (· + 1)
  | _ :: r, l => (findLblF r l).map (· + 1)

/-- Model/X86Jump `stepJ` -/
def stepF (p : List FI) (pc : Nat) (s : State) : Option (Nat × State) :=
  match p[pc]? with
  | none => none
  | some (.ins i) => (X86.step i s).map fun s' => (pc + 1, s')
  | some (.lbl _) => some (pc + 1, s)
  | some (.jmp l) => (findLblF p l).map fun t => (t, s)
  | some (.jcc c l) =>
      if s.flagsValid then
        (if s.cond c then (findLblF p l).map fun t => (t, s) else some (pc + 1, s))
      else none

/-- Model/X86Jump `runJ`: run until the position is past the last line; `none` on a fault or when the fuel runs out first -/
def runF : Nat → List FI → Nat → State → Option State
  | 0, p, pc, s => if p.length ≤ pc then some s else none
  | fuel + 1, p, pc, s =>
      if p.length ≤ pc then some s else
      match stepF p pc s with
      | none => none
      | some x => runF fuel p x.1 x.2

/-! ### `gen_stmt` -/

/-- parse.c's context while parsing a statement: `brk_label`, `cont_label` (numbers of `.L..N`), `current_switch != NULL` -/
structure JCtx where
  brk : Option Nat
  cont : Option Nat
  sw : Bool
  deriving Repr, DecidableEq

/-- how many names the statement draws from `new_unique_name()`: break + continue label of a loop, break label of a `switch`,
    the label of a `case` / `default` -/
def nuniq : FStmt → Nat
  | .seq a b => nuniq a + nuniq b
  | .ifte _ t f => nuniq t + nuniq f
  | .for_ _ _ _ b => 2 + nuniq b
  | .doWhile b _ => 2 + nuniq b
  | .switch_ _ b => 1 + nuniq b
  | .case_ _ _ s => 1 + nuniq s
  | .default_ s => 1 + nuniq s
  | _ => 0

/-- the `case` (`some v`) and `default` (`none`) labels of the innermost enclosing `switch` inside a statement that is parsed
    when `new_unique_name()` stands at `u`, in source order, with the number of their label `.L..N`
    (parse.c `current_switch->case_next`, `default_case`; a nested `switch` owns its own labels) -/
def collect : Nat → FStmt → List (Option (Int × Int) × Nat)
  | u, .seq a b => collect u a ++ collect (u + nuniq a) b
  | u, .ifte _ t f => collect u t ++ collect (u + nuniq t) f
  | u, .for_ _ _ _ b => collect (u + 2) b
  | u, .doWhile b _ => collect (u + 2) b
  | u, .case_ lo hi s => (some (lo, hi), u) :: collect (u + 1) s
  | u, .default_ s => (none, u) :: collect (u + 1) s
  | _, _ => []

def fits32 (v : Int) : Bool := decide (-2147483648 ≤ v ∧ v ≤ 2147483647)

/-- `(int)begin` -/
def toI32 (v : Int) : Int := Int.bmod v 4294967296

/-- the wrapped C `long` of a difference computed in `long` -/
def toI64 (v : Int) : Int := Int.bmod v 18446744073709551616

/-- one rung of the compare ladder of ND_SWITCH for `case lo ... hi:` with label `.L..l`, controlling expression of type `t`.
    `lo = hi`: `cmp $lo, %eax|%rax; je .L..l`, a 64-bit constant that is not a sign-extended imm32 through `%rdi`.
    A range: `mov %eax|%rax, %edi|%rdi; sub $lo, ·; cmp $(hi - lo), ·; jbe .L..l` (unsigned comparison of the distance), 64-bit
    constants that do not fit through `%rdx`. -/
def caseTest (t : ITy) (lo hi : Int) (l : Nat) : List FI :=
  if lo = hi then
    (if t.size = 8 then
      (if fits32 lo then [FI.ins ⟨"cmp", [.i lo, .r "%rax"]⟩]
       else [FI.ins ⟨"mov", [.i lo, .r "%rdi"]⟩, FI.ins ⟨"cmp", [.r "%rdi", .r "%rax"]⟩])
     else [FI.ins ⟨"cmp", [.i (toI32 lo), .r "%eax"]⟩]) ++ [FI.jcc .e (.s (.uniq l))]
  else
    (if t.size = 8 then
      FI.ins ⟨"mov", [.r "%rax", .r "%rdi"]⟩ ::
        ((if fits32 lo then [FI.ins ⟨"sub", [.i lo, .r "%rdi"]⟩]
          else [FI.ins ⟨"mov", [.i lo, .r "%rdx"]⟩, FI.ins ⟨"sub", [.r "%rdx", .r "%rdi"]⟩]) ++
         (if fits32 (toI64 (hi - lo)) then [FI.ins ⟨"cmp", [.i (toI64 (hi - lo)), .r "%rdi"]⟩]
          else [FI.ins ⟨"mov", [.i (toI64 (hi - lo)), .r "%rdx"]⟩, FI.ins ⟨"cmp", [.r "%rdx", .r "%rdi"]⟩]))
     else [FI.ins ⟨"mov", [.r "%eax", .r "%edi"]⟩, FI.ins ⟨"sub", [.i (toI32 lo), .r "%edi"]⟩,
           FI.ins ⟨"cmp", [.i (toI32 (hi - lo)), .r "%edi"]⟩]) ++ [FI.jcc .be (.s (.uniq l))]

/-- the rungs in `case_next` order (the most recently parsed `case` first) -/
def rungs (t : ITy) : List (Option (Int × Int) × Nat) → List FI
  | [] => []
  | (some (lo, hi), l) :: r => rungs t r ++ caseTest t lo hi l
  | (none, _) :: r => rungs t r

/-- the label the ladder jumps to for the value `v` of the controlling expression (promoted type `P`): the rungs are tried in
    `case_next` order, i.e. the last `case` in source order whose constant converts to `v` -/
def pickCase (P : ITy) (v : Int) : List (Option (Int × Int) × Nat) → Option Nat
  | [] => none
  | (some (lo, hi), l) :: r => (pickCase P v r).orElse fun _ => if caseSel P lo hi v then some l else none
  | (none, _) :: r => pickCase P v r

/-- `current_switch->default_case`: the `default` parsed last -/
def lastDefault : List (Option (Int × Int) × Nat) → Option Nat
  | [] => none
  | (none, l) :: r => (lastDefault r).orElse fun _ => some l
  | (some _, _) :: r => lastDefault r

/-- the compare ladder: rungs, `jmp default` if there is one, `jmp brk` -/
def ladder (t : ITy) (ents : List (Option (Int × Int) × Nat)) (brk : Nat) : List FI :=
  rungs t ents ++ ((match lastDefault ents with
    | some d => [FI.jmp (.s (.uniq d))]
    | none => []) ++ [FI.jmp (.s (.uniq brk))])

/-- `cmp_zero(ty); jCC l` -/
def condJump (cc : CC) (t : ITy) (l : FL) : List FI := embs (J (cmpZeroSeq t)) ++ [FI.jcc cc l]

def nlblO : Option E → Nat
  | none => 0
  | some e => nlbl e

/-- `if (node->inc) gen_expr(node->inc)`, `if (node->init) gen_stmt(node->init)` (an expression statement) -/
def compileOpt (tys : List ITy) (off toff : Nat → Int) (k c : Nat) : Option E → Option (List JI × Nat × Nat)
  | none => some ([], k, c)
  | some e => (compileJ tys off toff k c e).map fun (_, cd, k1, c1) => (cd, k1, c1)

/-- how many times `gen_stmt` / `gen_expr` call `count()` for the statement -/
def nlblF : FStmt → Nat
  | .skip | .brk | .cont => 0
  | .expr e | .ret e => nlbl e
  | .seq a b => nlblF a + nlblF b
  | .ifte c t f => 1 + (nlbl c + (nlblF t + nlblF f))
  | .for_ init c inc b => 1 + (nlblO init + (nlbl c + (nlblF b + nlblO inc)))
  | .doWhile b c => 1 + (nlblF b + nlbl c)
  | .switch_ e b => nlbl e + nlblF b
  | .case_ _ _ s => nlblF s
  | .default_ s => nlblF s

/-- `compileF tys off toff R ctx k c u s = some (code, k', c', u')`.  `ctx`: parse.c's `brk_label`, `cont_label`,
    `current_switch` (`none` / `false`: "stray break / continue / case"); `R`: the function's return type (parse.c casts the
    operand of `return` to it). -/
def compileF (tys : List ITy) (off toff : Nat → Int) (R : ITy) :
    JCtx → Nat → Nat → Nat → FStmt → Option (List FI × Nat × Nat × Nat)
  | _, k, c, u, .skip => some ([], k, c, u)
  | _, k, c, u, .expr e => (compileJ tys off toff k c e).map fun (_, cd, k1, c1) => (embs cd, k1, c1, u)
  | ctx, k, c, u, .seq a b =>
      match compileF tys off toff R ctx k c u a with
      | some (ca, k1, c1, u1) =>
        (compileF tys off toff R ctx k1 c1 u1 b).map fun (cb, k2, c2, u2) => (ca ++ cb, k2, c2, u2)
      | none => none
  | ctx, k, c, u, .ifte e t f =>
      -- ND_IF: `c = count(); cond; cmp_zero; je .L.else.c; then; jmp .L.end.c; .L.else.c: els; .L.end.c:`
      match compileJ tys off toff k (c + 1) e with
      | some (te, ce, k1, c1) =>
        match compileF tys off toff R ctx k1 c1 u t with
        | some (ct, k2, c2, u2) =>
          (compileF tys off toff R ctx k2 c2 u2 f).map fun (cf, k3, c3, u3) =>
            (embs ce ++ (condJump .e te (.x ⟨.else_, c⟩) ++ (ct ++ (FI.jmp (.x ⟨.end_, c⟩) :: FI.lbl (.x ⟨.else_, c⟩) ::
              (cf ++ [FI.lbl (.x ⟨.end_, c⟩)])))), k3, c3, u3)
        | none => none
      | none => none
  | ctx, k, c, u, .for_ init e inc body =>
      -- ND_FOR (`while`: no init, no inc):
      -- `c = count(); init; .L.begin.c: cond; cmp_zero; je brk; body; cont: inc; jmp .L.begin.c; brk:`
      -- parse.c reads `inc` before the body (temporaries), codegen.c emits it after the body (labels)
      match compileOpt tys off toff k (c + 1) init with
      | some (c0i, ka, ca) =>
        match compileJ tys off toff ka ca e with
        | some (te, ce, k1, c1) =>
          match compileOpt tys off toff k1 (c1 + nlblF body) inc with
          | some (ci, k2, c3) =>
            (compileF tys off toff R ⟨some u, some (u + 1), ctx.sw⟩ k2 c1 (u + 2) body).map fun (cb, k3, _, u2) =>
              (embs c0i ++ (FI.lbl (.s (.begin_ c)) :: (embs ce ++ (condJump .e te (.s (.uniq u)) ++ (cb ++
                (FI.lbl (.s (.uniq (u + 1))) :: (embs ci ++ [FI.jmp (.s (.begin_ c)), FI.lbl (.s (.uniq u))])))))), k3, c3, u2)
          | none => none
        | none => none
      | none => none
  | ctx, k, c, u, .doWhile body e =>
      -- ND_DO: `c = count(); .L.begin.c: body; cont: cond; cmp_zero; jne .L.begin.c; brk:`
      match compileF tys off toff R ⟨some u, some (u + 1), ctx.sw⟩ k (c + 1) (u + 2) body with
      | some (cb, k1, c1, u1) =>
        (compileJ tys off toff k1 c1 e).map fun (te, ce, k2, c2) =>
          (FI.lbl (.s (.begin_ c)) :: (cb ++ (FI.lbl (.s (.uniq (u + 1))) :: (embs ce ++ (condJump .ne te (.s (.begin_ c)) ++
            [FI.lbl (.s (.uniq u))])))), k2, c2, u1)
      | none => none
  | ctx, k, c, u, .switch_ e body =>
      -- ND_SWITCH: `cond; ladder; body; brk:` (no `count()`; parse.c: condition, `brk_label = new_unique_name()`, body)
      match compileJ tys off toff k c e with
      | some (te, ce, k1, c1) =>
        (compileF tys off toff R ⟨some u, ctx.cont, true⟩ k1 c1 (u + 1) body).map fun (cb, k2, c2, u2) =>
          (embs ce ++ (ladder te (collect (u + 1) body) u ++ (cb ++ [FI.lbl (.s (.uniq u))])), k2, c2, u2)
      | none => none
  | ctx, k, c, u, .case_ _ _ s =>
      -- ND_CASE: `label: stmt`
      if ctx.sw then (compileF tys off toff R ctx k c (u + 1) s).map fun (cs, k1, c1, u1) => (FI.lbl (.s (.uniq u)) :: cs, k1, c1, u1)
      else none
  | ctx, k, c, u, .default_ s =>
      if ctx.sw then (compileF tys off toff R ctx k c (u + 1) s).map fun (cs, k1, c1, u1) => (FI.lbl (.s (.uniq u)) :: cs, k1, c1, u1)
      else none
  | ctx, k, c, u, .brk => ctx.brk.map fun b => ([FI.jmp (.s (.uniq b))], k, c, u)
  | ctx, k, c, u, .cont => ctx.cont.map fun ct => ([FI.jmp (.s (.uniq ct))], k, c, u)
  | _, k, c, u, .ret e =>
      (compileJ tys off toff k c (.cast R e)).map fun (_, cd, k1, c1) => (embs cd ++ [FI.jmp (.s .ret)], k1, c1, u)

/-- the body of a function as `emit_text` prints it between the prologue and the epilogue: `gen_stmt(fn->body)`, then
    `.L.return.<fn>:` -/
def compileFn (tys : List ITy) (off toff : Nat → Int) (R : ITy) (c0 u0 : Nat) (body : FStmt) :
    Option (List FI × Nat × Nat × Nat) :=
  (compileF tys off toff R ⟨none, none, false⟩ 0 c0 u0 body).map fun (cd, k, c, u) => (cd ++ [FI.lbl (.s .ret)], k, c, u)

/-! ### side conditions of the theorem -/

def noConflictO : Option E → Bool
  | none => true
  | some e => noConflict e

def depthO : Option E → Nat
  | none => 0
  | some e => depthJ e

/-- every full expression is free of unsequenced conflicting accesses (C11 6.5p2) -/
def noConflictF : FStmt → Bool
  | .skip | .brk | .cont => true
  | .expr e | .ret e => noConflict e
  | .seq a b => noConflictF a && noConflictF b
  | .ifte c t f => noConflict c && (noConflictF t && noConflictF f)
  | .for_ init c inc b => noConflictO init && (noConflict c && (noConflictO inc && noConflictF b))
  | .doWhile b c => noConflictF b && noConflict c
  | .switch_ e b => noConflict e && noConflictF b
  | .case_ _ _ s => noConflictF s
  | .default_ s => noConflictF s

/-- stack slots the function needs below `%rsp`: the deepest push nesting of any of its expressions -/
def depthF : FStmt → Nat
  | .skip | .brk | .cont => 0
  | .expr e | .ret e => depthJ e
  | .seq a b => max (depthF a) (depthF b)
  | .ifte c t f => max (depthJ c) (max (depthF t) (depthF f))
  | .for_ init c inc b => max (depthO init) (max (depthJ c) (max (depthO inc) (depthF b)))
  | .doWhile b c => max (depthF b) (depthJ c)
  | .switch_ e b => max (depthJ e) (depthF b)
  | .case_ _ _ s => depthF s
  | .default_ s => depthF s

end ChibiVerif.C03Fun
