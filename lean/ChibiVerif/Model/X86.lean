/-
Executable semantics of the integer instruction forms chibicc emits (DESIGN §3.4).

Machine state: 16 general-purpose registers (`BitVec 64`), the flags ZF SF CF OF PF, byte-addressed memory
(a function `BitVec 64 → BitVec 8`).  `decode` maps the structured assembly syntax (`Asm.Ins`: mnemonic string +
operands) to a structured instruction; it only compares whole strings with literals, so the kernel can evaluate
it (`decide`/`rfl`).  Anything outside the supported forms decodes to `none` (never guessed).

Partiality: `idiv`/`div` by zero or with a quotient that does not fit (`#DE`) are `none`.
Flags that the Intel SDM leaves undefined after an instruction (shifts by a variable count, `imul`, `div`) are
not given a value: the state records `flagsValid = false` and a later `setcc` is `none`.

Trusted, and validated against the host CPU by checklib/C01.py (leg c): every sequence the theorems talk about is
assembled between a register-load prologue and a register-dump epilogue and run on boundary + random register files;
the result must equal `drv_c01 x86exec`.
-/
import ChibiVerif.Model.Asm

namespace ChibiVerif.X86
open ChibiVerif.Asm

inductive Reg where
  | rax | rcx | rdx | rbx | rsp | rbp | rsi | rdi | r8 | r9 | r10 | r11 | r12 | r13 | r14 | r15
  deriving DecidableEq, Repr, Inhabited

def Reg.all : List Reg := [.rax, .rcx, .rdx, .rbx, .rsp, .rbp, .rsi, .rdi, .r8, .r9, .r10, .r11, .r12, .r13, .r14, .r15]

/-- operand width -/
inductive W where
  | w8 | w16 | w32 | w64
  deriving DecidableEq, Repr, Inhabited

@[simp, reducible] def W.bits : W → Nat
  | .w8 => 8 | .w16 => 16 | .w32 => 32 | .w64 => 64

structure State where
  regs : Reg → BitVec 64
  zf : Bool := false
  sf : Bool := false
  cf : Bool := false
  of : Bool := false
  pf : Bool := false
  /-- false after an instruction that leaves some of ZF SF CF OF PF architecturally undefined -/
  flagsValid : Bool := true
  mem : BitVec 64 → BitVec 8

def State.get (s : State) (r : Reg) : BitVec 64 := s.regs r

def State.set (s : State) (r : Reg) (v : BitVec 64) : State :=
  { s with regs := fun r' => if r' = r then v else s.regs r' }

@[simp] theorem State.get_set_same (s : State) (r : Reg) (v : BitVec 64) : (s.set r v).get r = v := by
  simp [State.get, State.set]

@[simp] theorem State.get_set_ne (s : State) (r r' : Reg) (v : BitVec 64) (h : r' ≠ r) :
    (s.set r v).get r' = s.get r' := by
  simp [State.get, State.set, h]

/-- read the low `w` bits of a register (`%rax`, `%eax`, `%ax`, `%al`) -/
def State.getW (s : State) (r : Reg) (w : W) : BitVec w.bits := (s.get r).setWidth w.bits

/-- write a register at width `w`: 64 → whole register; 32 → zero-extended into the whole register;
    16 / 8 → the other bits are preserved (old / 2^w * 2^w + v) -/
def State.setW (s : State) (r : Reg) (w : W) (v : BitVec w.bits) : State :=
  match w with
  | .w64 => s.set r v
  | .w32 => s.set r (v.setWidth 64)
  | .w16 => s.set r (BitVec.ofNat 64 ((s.get r).toNat / 65536 * 65536 + v.toNat))
  | .w8 => s.set r (BitVec.ofNat 64 ((s.get r).toNat / 256 * 256 + v.toNat))

/-! ### memory (little endian) -/

def State.read8 (s : State) (a : BitVec 64) : BitVec 8 := s.mem a
def State.read16 (s : State) (a : BitVec 64) : BitVec 16 := s.mem (a + 1) ++ s.mem a
def State.read32 (s : State) (a : BitVec 64) : BitVec 32 := s.read16 (a + 2) ++ s.read16 a
def State.read64 (s : State) (a : BitVec 64) : BitVec 64 := s.read32 (a + 4) ++ s.read32 a

def State.readW (s : State) (a : BitVec 64) : (w : W) → BitVec w.bits
  | .w8 => s.read8 a | .w16 => s.read16 a | .w32 => s.read32 a | .w64 => s.read64 a

def State.write8 (s : State) (a : BitVec 64) (v : BitVec 8) : State :=
  { s with mem := fun x => if x = a then v else s.mem x }
def State.write16 (s : State) (a : BitVec 64) (v : BitVec 16) : State :=
  (s.write8 a (v.setWidth 8)).write8 (a + 1) ((v >>> 8).setWidth 8)
def State.write32 (s : State) (a : BitVec 64) (v : BitVec 32) : State :=
  (s.write16 a (v.setWidth 16)).write16 (a + 2) ((v >>> 16).setWidth 16)
def State.write64 (s : State) (a : BitVec 64) (v : BitVec 64) : State :=
  (s.write32 a (v.setWidth 32)).write32 (a + 4) ((v >>> 32).setWidth 32)

def State.writeW (s : State) (a : BitVec 64) : (w : W) → BitVec w.bits → State
  | .w8, v => s.write8 a v | .w16, v => s.write16 a v | .w32, v => s.write32 a v | .w64, v => s.write64 a v

/-! ### structured instructions -/

/-- register or register-relative memory or immediate -/
inductive Operand where
  | reg (r : Reg)
  | imm (n : Int)
  | mem (disp : Int) (base : Reg)
  deriving DecidableEq, Repr, Inhabited

inductive Alu where
  | add | sub | and | or | xor | cmp | test
  deriving DecidableEq, Repr

inductive Sh where
  | shl | shr | sar
  deriving DecidableEq, Repr

inductive CC where
  | e | ne | l | le | g | ge | b | be | a | ae | p | np | s | ns
  deriving DecidableEq, Repr

inductive Instr where
  | mov (w : W) (src dst : Operand)
  | movsx (ws wd : W) (src : Operand) (dst : Reg)
  | movzx (ws wd : W) (src : Operand) (dst : Reg)
  | alu (op : Alu) (w : W) (src dst : Operand)
  | imul (w : W) (src : Operand) (dst : Reg)
  | neg (w : W) (dst : Reg)
  | not (w : W) (dst : Reg)
  | inc (w : W) (dst : Reg)
  | dec (w : W) (dst : Reg)
  | cdq | cqo
  | idiv (w : W) (src : Reg)
  | div (w : W) (src : Reg)
  | shiftCl (op : Sh) (w : W) (dst : Reg)
  | shiftImm (op : Sh) (w : W) (n : Nat) (dst : Reg)
  | setcc (cc : CC) (dst : Reg)
  | push (src : Reg)
  | pop (dst : Reg)
  | lea (disp : Int) (base : Reg) (dst : Reg)
  deriving DecidableEq, Repr

/-! ### decoding of the assembly text -/

/-- register name (with `%`) → register and width -/
def regOf : String → Option (Reg × W)
  | "%rax" => some (.rax, .w64) | "%eax" => some (.rax, .w32) | "%ax" => some (.rax, .w16) | "%al" => some (.rax, .w8)
  | "%rcx" => some (.rcx, .w64) | "%ecx" => some (.rcx, .w32) | "%cx" => some (.rcx, .w16) | "%cl" => some (.rcx, .w8)
  | "%rdx" => some (.rdx, .w64) | "%edx" => some (.rdx, .w32) | "%dx" => some (.rdx, .w16) | "%dl" => some (.rdx, .w8)
  | "%rbx" => some (.rbx, .w64) | "%ebx" => some (.rbx, .w32) | "%bx" => some (.rbx, .w16) | "%bl" => some (.rbx, .w8)
  | "%rsp" => some (.rsp, .w64) | "%esp" => some (.rsp, .w32) | "%sp" => some (.rsp, .w16) | "%spl" => some (.rsp, .w8)
  | "%rbp" => some (.rbp, .w64) | "%ebp" => some (.rbp, .w32) | "%bp" => some (.rbp, .w16) | "%bpl" => some (.rbp, .w8)
  | "%rsi" => some (.rsi, .w64) | "%esi" => some (.rsi, .w32) | "%si" => some (.rsi, .w16) | "%sil" => some (.rsi, .w8)
  | "%rdi" => some (.rdi, .w64) | "%edi" => some (.rdi, .w32) | "%di" => some (.rdi, .w16) | "%dil" => some (.rdi, .w8)
  | "%r8" => some (.r8, .w64) | "%r8d" => some (.r8, .w32) | "%r8w" => some (.r8, .w16) | "%r8b" => some (.r8, .w8)
  | "%r9" => some (.r9, .w64) | "%r9d" => some (.r9, .w32) | "%r9w" => some (.r9, .w16) | "%r9b" => some (.r9, .w8)
  | "%r10" => some (.r10, .w64) | "%r10d" => some (.r10, .w32) | "%r10w" => some (.r10, .w16) | "%r10b" => some (.r10, .w8)
  | "%r11" => some (.r11, .w64) | "%r11d" => some (.r11, .w32) | "%r11w" => some (.r11, .w16) | "%r11b" => some (.r11, .w8)
  | "%r12" => some (.r12, .w64) | "%r12d" => some (.r12, .w32) | "%r12w" => some (.r12, .w16) | "%r12b" => some (.r12, .w8)
  | "%r13" => some (.r13, .w64) | "%r13d" => some (.r13, .w32) | "%r13w" => some (.r13, .w16) | "%r13b" => some (.r13, .w8)
  | "%r14" => some (.r14, .w64) | "%r14d" => some (.r14, .w32) | "%r14w" => some (.r14, .w16) | "%r14b" => some (.r14, .w8)
  | "%r15" => some (.r15, .w64) | "%r15d" => some (.r15, .w32) | "%r15w" => some (.r15, .w16) | "%r15b" => some (.r15, .w8)
  | _ => none

/-- a memory operand's base must be a 64-bit register -/
def baseOf (b : String) : Option Reg :=
  match regOf b with
  | some (r, .w64) => some r
  | _ => none

/-- operand → (structured operand, width if it is a register) -/
def opdOf : Opd → Option (Operand × Option W)
  | .r n => (regOf n).map fun (r, w) => (.reg r, some w)
  | .i n => some (.imm n, none)
  | .m d b => (baseOf b).map fun r => (.mem d r, none)
  | .m0 b => (baseOf b).map fun r => (.mem 0 r, none)
  | .s _ => none

def aluOf : String → Option (Alu × Option W)
  | "add" => some (.add, none) | "sub" => some (.sub, none) | "and" => some (.and, none) | "or" => some (.or, none)
  | "xor" => some (.xor, none) | "cmp" => some (.cmp, none) | "test" => some (.test, none)
  | "addq" => some (.add, some .w64) | "subq" => some (.sub, some .w64) | "addl" => some (.add, some .w32)
  | "subl" => some (.sub, some .w32) | "cmpq" => some (.cmp, some .w64) | "cmpl" => some (.cmp, some .w32)
  | _ => none

def shOf : String → Option Sh
  | "shl" => some .shl | "shr" => some .shr | "sar" => some .sar | _ => none

def ccOf : String → Option CC
  | "sete" => some .e | "setne" => some .ne | "setl" => some .l | "setle" => some .le | "setg" => some .g
  | "setge" => some .ge | "setb" => some .b | "setbe" => some .be | "seta" => some .a | "setae" => some .ae
  | "setp" => some .p | "setnp" => some .np | "sets" => some .s | "setns" => some .ns
  | _ => none

/-- sign- or zero-extending moves with explicit widths in the mnemonic -/
def extOf : String → Option (Bool × W × W)      -- (signed, source width, destination width)
  | "movsbl" => some (true, .w8, .w32) | "movswl" => some (true, .w16, .w32) | "movsbq" => some (true, .w8, .w64)
  | "movswq" => some (true, .w16, .w64) | "movslq" => some (true, .w32, .w64) | "movsxd" => some (true, .w32, .w64)
  | "movsbw" => some (true, .w8, .w16)
  | "movzbl" => some (false, .w8, .w32) | "movzwl" => some (false, .w16, .w32) | "movzbq" => some (false, .w8, .w64)
  | "movzwq" => some (false, .w16, .w64) | "movzbw" => some (false, .w8, .w16)
  | _ => none

def decode (i : Ins) : Option Instr :=
  match i.op, i.a with
  | "cdq", [] | "cltd", [] => some .cdq
  | "cqo", [] | "cqto", [] => some .cqo
  | "push", [.r n] => match regOf n with | some (r, .w64) => some (.push r) | _ => none
  | "pop", [.r n] => match regOf n with | some (r, .w64) => some (.pop r) | _ => none
  | "lea", [src, .r n] =>
      match opdOf src, regOf n with
      | some (.mem d b, _), some (r, .w64) => some (.lea d b r)
      | _, _ => none
  | "neg", [.r n] => (regOf n).map fun (r, w) => .neg w r
  | "not", [.r n] => (regOf n).map fun (r, w) => .not w r
  | "inc", [.r n] => (regOf n).map fun (r, w) => .inc w r
  | "dec", [.r n] => (regOf n).map fun (r, w) => .dec w r
  | "idiv", [.r n] => match regOf n with
      | some (r, .w32) => some (.idiv .w32 r) | some (r, .w64) => some (.idiv .w64 r) | _ => none
  | "div", [.r n] => match regOf n with
      | some (r, .w32) => some (.div .w32 r) | some (r, .w64) => some (.div .w64 r) | _ => none
  | "imul", [src, .r n] =>
      match opdOf src, regOf n with
      | some (.reg s, some ws), some (r, w) => if ws = w ∧ w ≠ .w8 then some (.imul w (.reg s) r) else none
      | some (.mem d b, none), some (r, w) => if w ≠ .w8 then some (.imul w (.mem d b) r) else none
      | _, _ => none
  | op, [a] =>
      match ccOf op, a with
      | some cc, .r n => (match regOf n with | some (r, .w8) => some (.setcc cc r) | _ => none)
      | _, _ => none
  | op, [a, b] =>
      -- mov family
      if op = "mov" ∨ op = "movq" ∨ op = "movl" ∨ op = "movw" ∨ op = "movb" then
        let wm : Option W := if op = "movq" then some .w64 else if op = "movl" then some .w32
                             else if op = "movw" then some .w16 else if op = "movb" then some .w8 else none
        match opdOf a, opdOf b with
        | some (src, ws), some (dst, wd) =>
            let w? : Option W := match wm, ws, wd with
              | some w, none, none => some w
              | some w, some w1, none => if w = w1 then some w else none
              | some w, none, some w2 => if w = w2 then some w else none
              | some w, some w1, some w2 => if w = w1 ∧ w = w2 then some w else none
              | none, some w1, none => some w1
              | none, none, some w2 => some w2
              | none, some w1, some w2 => if w1 = w2 then some w1 else none
              | none, none, none => none
            match w?, src, dst with
            | some _, .mem _ _, .mem _ _ => none
            | some _, _, .imm _ => none
            | some w, src, dst => some (.mov w src dst)
            | none, _, _ => none
        | _, _ => none
      else
      match extOf op with
      | some (sgn, ws, wd) =>
          (match opdOf a, b with
           | some (src, wsrc), .r n =>
               (match regOf n, src with
                | some (r, w), .reg _ => if w = wd ∧ wsrc = some ws then some (if sgn then .movsx ws wd src r else .movzx ws wd src r) else none
                | some (r, w), .mem _ _ => if w = wd then some (if sgn then .movsx ws wd src r else .movzx ws wd src r) else none
                | _, _ => none)
           | _, _ => none)
      | none =>
      if op = "movzx" ∨ op = "movzb" ∨ op = "movzw" ∨ op = "movsx" then
        -- widths from the register operands
        match a, b with
        | .r n1, .r n2 =>
            (match regOf n1, regOf n2 with
             | some (r1, w1), some (r2, w2) =>
                 if w1.bits < w2.bits ∧ (op = "movzb" → w1 = .w8) ∧ (op = "movzw" → w1 = .w16) then
                   some (if op = "movsx" then .movsx w1 w2 (.reg r1) r2 else .movzx w1 w2 (.reg r1) r2)
                 else none
             | _, _ => none)
        | _, _ => none
      else
      match shOf op with
      | some sh =>
          (match a, b with
           | .r "%cl", .r n => (regOf n).map fun (r, w) => .shiftCl sh w r
           | .i k, .r n => if 0 ≤ k ∧ k < 64 then (regOf n).map fun (r, w) => .shiftImm sh w k.toNat r else none
           | _, _ => none)
      | none =>
      match aluOf op with
      | some (alu, wm) =>
          (match opdOf a, opdOf b with
           | some (src, ws), some (dst, wd) =>
               let w? : Option W := match wm, ws, wd with
                 | some w, none, none => some w
                 | some w, some w1, none => if w = w1 then some w else none
                 | some w, none, some w2 => if w = w2 then some w else none
                 | some w, some w1, some w2 => if w = w1 ∧ w = w2 then some w else none
                 | none, some w1, none => some w1
                 | none, none, some w2 => some w2
                 | none, some w1, some w2 => if w1 = w2 then some w1 else none
                 | none, none, none => none
               (match w?, src, dst with
                | some _, .mem _ _, .mem _ _ => none
                | some _, _, .imm _ => none
                | some w, src, dst => some (.alu alu w src dst)
                | none, _, _ => none)
           | _, _ => none)
      | none => none
  | _, _ => none

/-! ### execution -/

/-- effective address of `disp(base)` -/
def State.ea (s : State) (d : Int) (b : Reg) : BitVec 64 := s.get b + BitVec.ofInt 64 d

/-- value of a source operand at width `w`; an immediate is the sign-extended 32-bit immediate of the encoding
    (for `mov $imm, %r64` the assembler picks `movabs` when needed, so the full 64-bit value is used) -/
def State.src (s : State) (w : W) : Operand → BitVec w.bits
  | .reg r => s.getW r w
  | .imm n => BitVec.ofInt w.bits n
  | .mem d b => s.readW (s.ea d b) w

def State.dst (s : State) (w : W) (o : Operand) (v : BitVec w.bits) : Option State :=
  match o with
  | .reg r => some (s.setW r w v)
  | .mem d b => some (s.writeW (s.ea d b) w v)
  | .imm _ => none

/-- PF: set iff the low byte of the result has an even number of 1 bits -/
def parity {n : Nat} (r : BitVec n) : Bool :=
  let b := r.setWidth 8
  !(b.getLsbD 0 ^^ b.getLsbD 1 ^^ b.getLsbD 2 ^^ b.getLsbD 3 ^^ b.getLsbD 4 ^^ b.getLsbD 5 ^^ b.getLsbD 6 ^^ b.getLsbD 7)

/-- set ZF SF PF from a result and CF OF as given -/
def State.flags {n : Nat} (s : State) (r : BitVec n) (cf of : Bool) : State :=
  { s with zf := r == 0, sf := r.msb, pf := parity r, cf := cf, of := of, flagsValid := true }

def State.cond (s : State) : CC → Bool
  | .e => s.zf | .ne => !s.zf
  | .l => s.sf != s.of | .ge => s.sf == s.of
  | .le => s.zf || (s.sf != s.of) | .g => !s.zf && (s.sf == s.of)
  | .b => s.cf | .ae => !s.cf
  | .be => s.cf || s.zf | .a => !s.cf && !s.zf
  | .p => s.pf | .np => !s.pf
  | .s => s.sf | .ns => !s.sf

def aluExec (op : Alu) (w : W) (s : State) (a b : BitVec w.bits) : BitVec w.bits × State :=
  -- `b` is the destination operand's old value, `a` the source:  dst := dst op src
  match op with
  | .add => let r := b + a; (r, s.flags r (BitVec.uaddOverflow b a) (BitVec.saddOverflow b a))
  | .sub | .cmp => let r := b - a; (r, s.flags r (BitVec.usubOverflow b a) (BitVec.ssubOverflow b a))
  | .and | .test => let r := b &&& a; (r, s.flags r false false)
  | .or => let r := b ||| a; (r, s.flags r false false)
  | .xor => let r := b ^^^ a; (r, s.flags r false false)

def Alu.writes : Alu → Bool
  | .cmp | .test => false
  | _ => true

def exec (i : Instr) (s : State) : Option State :=
  match i with
  | .mov w src dst => s.dst w dst (s.src w src)
  | .movsx ws wd src dst =>
      some (s.setW dst wd ((s.src ws src).signExtend wd.bits))
  | .movzx ws wd src dst =>
      some (s.setW dst wd ((s.src ws src).setWidth wd.bits))
  | .alu op w src dst =>
      match dst with
      | .imm _ => none
      | _ =>
        let a := s.src w src
        let b := s.src w dst
        let (r, s') := aluExec op w s a b
        if op.writes then s'.dst w dst r else some s'
  | .imul w src dst =>
      let a := s.src w src
      let b := s.getW dst w
      some { (s.setW dst w (b * a)) with flagsValid := false }
  | .neg w dst =>
      let b := s.getW dst w
      let r := -b
      some ((s.setW dst w r).flags r (b != 0) (BitVec.negOverflow b))
  | .not w dst => some (s.setW dst w (~~~ (s.getW dst w)))
  | .inc w dst =>
      let b := s.getW dst w
      let r := b + 1
      some { (s.setW dst w r) with zf := r == 0, sf := r.msb, pf := parity r, of := BitVec.saddOverflow b 1 }
  | .dec w dst =>
      let b := s.getW dst w
      let r := b - 1
      some { (s.setW dst w r) with zf := r == 0, sf := r.msb, pf := parity r, of := BitVec.ssubOverflow b 1 }
  | .cdq => some (s.setW .rdx .w32 ((s.getW .rax .w32).sshiftRight 31))
  | .cqo => some (s.set .rdx ((s.get .rax).sshiftRight 63))
  | .idiv .w32 src =>
      -- edx:eax (as the signed number edx * 2^32 + eax) / src, truncating; #DE if src = 0 or the quotient does not fit
      let dividend : Int := (s.getW .rdx .w32).toInt * 2 ^ 32 + (s.getW .rax .w32).toNat
      let d : Int := (s.getW src .w32).toInt
      if d = 0 then none else
      let q := Int.tdiv dividend d
      let r := Int.tmod dividend d
      if q < -(2 ^ 31) ∨ q ≥ 2 ^ 31 then none else
      some { ((s.setW .rax .w32 (BitVec.ofInt 32 q)).setW .rdx .w32 (BitVec.ofInt 32 r)) with flagsValid := false }
  | .idiv .w64 src =>
      let dividend : Int := (s.get .rdx).toInt * 2 ^ 64 + (s.get .rax).toNat
      let d : Int := (s.get src).toInt
      if d = 0 then none else
      let q := Int.tdiv dividend d
      let r := Int.tmod dividend d
      if q < -(2 ^ 63) ∨ q ≥ 2 ^ 63 then none else
      some { ((s.set .rax (BitVec.ofInt 64 q)).set .rdx (BitVec.ofInt 64 r)) with flagsValid := false }
  | .idiv _ _ => none
  | .div .w32 src =>
      let dividend : Nat := (s.getW .rdx .w32).toNat * 2 ^ 32 + (s.getW .rax .w32).toNat
      let d : Nat := (s.getW src .w32).toNat
      if d = 0 then none else
      let q := dividend / d
      let r := dividend % d
      if q ≥ 2 ^ 32 then none else
      some { ((s.setW .rax .w32 (BitVec.ofNat 32 q)).setW .rdx .w32 (BitVec.ofNat 32 r)) with flagsValid := false }
  | .div .w64 src =>
      let dividend : Nat := (s.get .rdx).toNat * 2 ^ 64 + (s.get .rax).toNat
      let d : Nat := (s.get src).toNat
      if d = 0 then none else
      let q := dividend / d
      let r := dividend % d
      if q ≥ 2 ^ 64 then none else
      some { ((s.set .rax (BitVec.ofNat 64 q)).set .rdx (BitVec.ofNat 64 r)) with flagsValid := false }
  | .div _ _ => none
  | .shiftCl op w dst =>
      -- count = %cl masked to 6 bits for 64-bit operands, 5 bits otherwise
      let c : Nat := (s.getW .rcx .w8).toNat % (if w = .w64 then 64 else 32)
      let b := s.getW dst w
      let r := match op with
        | .shl => b <<< c
        | .shr => b >>> c
        | .sar => b.sshiftRight c
      some { (s.setW dst w r) with flagsValid := false }
  | .shiftImm op w n dst =>
      let c : Nat := n % (if w = .w64 then 64 else 32)
      let b := s.getW dst w
      let r := match op with
        | .shl => b <<< c
        | .shr => b >>> c
        | .sar => b.sshiftRight c
      some { (s.setW dst w r) with flagsValid := false }
  | .setcc cc dst =>
      if s.flagsValid then some (s.setW dst .w8 (if s.cond cc then 1#8 else 0#8)) else none
  | .push src =>
      let sp := s.get .rsp - 8
      some ((s.set .rsp sp).write64 sp (s.get src))
  | .pop dst =>
      let sp := s.get .rsp
      let v := s.read64 sp
      -- `pop %rsp` is not emitted; order: increment, then write the destination
      some ((s.set .rsp (sp + 8)).set dst v)
  | .lea d b dst => some (s.set dst (s.ea d b))

/-- decode and execute one instruction -/
def step (i : Ins) (s : State) : Option State :=
  match decode i with
  | some ins => exec ins s
  | none => none

/-- execute a straight-line sequence -/
def run : List Ins → State → Option State
  | [], s => some s
  | i :: is, s => match step i s with
    | some s' => run is s'
    | none => none

/-- execute an already decoded sequence -/
def execs : List Instr → State → Option State
  | [], s => some s
  | i :: is, s => match exec i s with
    | some s' => execs is s'
    | none => none

def decodeAll : List Ins → Option (List Instr)
  | [] => some []
  | i :: is => match decode i, decodeAll is with
    | some x, some xs => some (x :: xs)
    | _, _ => none

theorem run_eq_execs (is : List Ins) (ds : List Instr) (h : decodeAll is = some ds) (s : State) :
    run is s = execs ds s := by
  induction is generalizing ds s with
  | nil => simp [decodeAll] at h; subst h; rfl
  | cons i is ih =>
    simp only [decodeAll] at h
    cases hd : decode i with
    | none => simp [hd] at h
    | some x =>
      cases hr : decodeAll is with
      | none => simp [hd, hr] at h
      | some xs =>
        simp [hd, hr] at h; subst h
        simp only [run, step, hd, execs]
        cases exec x s with
        | none => rfl
        | some s' => exact ih xs hr s'

end ChibiVerif.X86
