/-
Glue between the functions translated from preprocess.c / tokenize.c into Gen/StrJoinGen.lean — `getStringKind`,
`tokenize_string_literal`, the two passes of `join_adjacent_string_literals` on one run of adjacent string literals, the
tail of `read_file` — and the vocabulary of the hand model (Model/Literals.lean, Model/Text.lean).

Hand-written here (and tied by the differential run on whole token lists, `joinb` operation): the iteration of the two outer
loops of `join_adjacent_string_literals` over the maximal runs of at least two adjacent TK_STR tokens, whose C shape
tools/extract/strjoin.py requires literally.
Core Lean only.
-/
import ChibiVerif.Gen.StrJoinGen
import ChibiVerif.Gen.PpNumGen
import ChibiVerif.Model.Literals
import ChibiVerif.Model.LitReaders

namespace ChibiVerif.StrJoin
open ChibiVerif.Gen.Literals
open ChibiVerif.Gen.StrJoin
open ChibiVerif.Literals

-- ------------------------------------------------------------------ vocabulary

/-- the token the translated functions see for a string-literal token of the hand model (what a reader of tokenize.c builds
    for the units it stored) -/
def toTok (t : StrTok) : Tok := readerTok t.src t.elem t.units

/-- chibicc's `StringKind` enumerators (translated) for the kinds of the hand model -/
def kindToGen : StrKind → StringKind
  | .none => .STR_NONE | .utf8 => .STR_UTF8 | .utf16 => .STR_UTF16 | .utf32 => .STR_UTF32 | .wide => .STR_WIDE

/-- the outcomes of the translated functions in the error vocabulary of the hand model (the constructor names are the messages
    in the C source).  `store_outside` has no counterpart: `C11_join_bytes` proves that it does not happen. -/
def ofJoinErr : JoinErr → LitErr
  | .unsupported_non_standard_concatenation_of_string_literals => .nonStandardConcat
  | .unreachable => .unreachable
  | .read e => ChibiVerif.LitReaders.ofReadErr e
  | .store_outside => .fuel

/-- a translated token stands for a string-literal token of the hand model: same element type, `array_len` = units + 1, and
    `str` holds the units in memory order followed by one zero unit (`loc` is not compared: pass 2 does not read it) -/
def Rep (t : Tok) (h : StrTok) : Prop :=
  t.isStr = true ∧ t.base = h.elem ∧ t.arrayLen = (h.units.length : Int) + 1 ∧ t.str = strBytes h.elem.size h.units

/-- outcome of a translated function against the outcome of the hand model: both return and the results are related, or both
    end in the same diagnostic -/
def RelE {α β : Type} (R : α → β → Prop) : Except JoinErr α → Except LitErr β → Prop
  | .ok a, .ok b => R a b
  | .error e, .error e' => ofJoinErr e = e'
  | _, _ => False

-- ------------------------------------------------------------------ vocabulary of the concatenation theorem (6.4.5p5-6 as a whole)

/-- the bytes of an encoding prefix -/
def prefixBytes : ChibiVerif.Spec.Literals.StrPrefix → List Byte
  | .none => [] | .u8 => [117#8, 56#8] | .u => [117#8] | .U => [85#8] | .L => [76#8]

/-- the reader `tokenize()` uses for a prefix, and the element type it gives the token (`C11_concat_spec` ties both to the translated
    table `stringPrefixes`) -/
def readerOf : ChibiVerif.Spec.Literals.StrPrefix → StrReader
  | .none | .u8 => .narrow | .u => .utf16 | .U | .L => .utf32

def tyOf : ChibiVerif.Spec.Literals.StrPrefix → Ty
  | .none | .u8 => .ty_char | .u => .ty_ushort | .U => .ty_uint | .L => .ty_int

/-- the token `tokenize()` makes of the string literal `prefix " items "` (`C11_strings`; first part of `C11_concat_spec`) -/
def pieceTok (p : ChibiVerif.Spec.Literals.StrPrefix) (its : List SrcItem) : StrTok :=
  ⟨tyOf p, its.flatMap (itemUnits (readerOf p)), (prefixBytes p).length + 1 + (renderItems its).length + 1,
   prefixBytes p ++ 34#8 :: (renderItems its ++ [34#8])⟩

-- ------------------------------------------------------------------ one run, all runs

/-- `join_adjacent_string_literals` on one maximal run `tok1 :: rest` of adjacent string literals: first pass, then second pass,
    both as translated -/
def joinRun (tok1 : Tok) (rest : List Tok) : Except JoinErr Tok :=
  match joinPass1 tok1 rest with
  | .error e => .error e
  | .ok [] => .error .unreachable          -- (the first pass keeps the number of tokens: `C11_translated_join`)
  | .ok (a :: as) => joinPass2 a as

/-- the outer loop shared by both passes (hand-written; shape pinned by strjoin.py): `f` is applied to every maximal run of at
    least two adjacent TK_STR tokens, every other token is kept.  `toks` = the tokens before TK_EOF.  fuel: one unit per token. -/
def overRuns (f : Tok → List Tok → Except JoinErr (List Tok)) : Nat → List Tok → Except JoinErr (List Tok)
  | 0, ts => .ok ts
  | _ + 1, [] => .ok []
  | fuel + 1, t :: ts =>
    if t.isStr = true ∧ (ts.head?.map (·.isStr)) = some true then
      match f t (ts.takeWhile (·.isStr)) with
      | .error e => .error e
      | .ok r =>
        match overRuns f fuel (ts.dropWhile (·.isStr)) with
        | .error e => .error e
        | .ok r' => .ok (r ++ r')
    else
      match overRuns f fuel ts with
      | .error e => .error e
      | .ok r' => .ok (t :: r')

/-- the second pass on one run, as a step of `overRuns`: the run is replaced by one token -/
def pass2Step (t : Tok) (r : List Tok) : Except JoinErr (List Tok) := (joinPass2 t r).map (fun x => [x])

/-- both passes on one run, as a step of `overRuns` -/
def runStep (t : Tok) (r : List Tok) : Except JoinErr (List Tok) := (joinRun t r).map (fun x => [x])

/-- `join_adjacent_string_literals(tok)` on a whole token list: the first pass over every run, then the second pass over every run -/
def joinTokens (toks : List Tok) : Except JoinErr (List Tok) :=
  match overRuns joinPass1 (toks.length + 1) toks with
  | .error e => .error e
  | .ok toks1 => overRuns pass2Step (toks1.length + 1) toks1

/-- run by run: both passes on the first run, then both passes on the next one, … (`C11_join_tokens`: the same result as `joinTokens`
    whenever either returns) -/
def joinTokensPerRun (toks : List Tok) : Except JoinErr (List Tok) := overRuns runStep (toks.length + 1) toks

/-- the list is empty or its first token is not a string literal (what follows a maximal run) -/
def NoStrHead (l : List Tok) : Prop := ∀ t ∈ l.head?, t.isStr = false

-- ------------------------------------------------------------------ read_file + tokenize_file

/-- the complete function from the bytes of a source file to the text `tokenize()` is given: `read_file` (translated tail:
    final newline, terminator), the C string in the returned array, then `tokenize_file` as translated (BOM test, the three
    in-place phase loops); `none` = a store outside the text -/
def sourceText (file : List Byte) : Option (List Byte) :=
  ChibiVerif.Gen.PpNum.tokenizeFileText (cString (readFileBuf file))

end ChibiVerif.StrJoin
