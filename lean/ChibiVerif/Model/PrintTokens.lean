/-
Model of main.c `print_tokens` (the -E printer), as it is after the `fix:` commits:

    int line = 1; Token *prev = NULL;
    for (; tok->kind != TK_EOF; tok = tok->next) {
      if (line > 1 && tok->at_bol)                              fprintf(out, "\n");
      else if (tok->has_space && !tok->at_bol)                  fprintf(out, " ");
      else if (prev && !tok->at_bol && need_space(prev, tok))   fprintf(out, " ");
      fprintf(out, "%.*s", tok->len, tok->loc);
      line++; prev = tok;
    }
    fprintf(out, "\n");

`line > 1` holds exactly when `prev` is set.  `need_space` is generated (Gen/LexGen.lean).
The text shape is pinned by tools/extract/lexgen.py (ExtractError if print_tokens changes).
-/
import ChibiVerif.Model.Lex

namespace ChibiVerif.Lex
open ChibiVerif.Gen.Lex

/-- what is printed before the spelling of `t`; `prev = none` for the first token -/
def sepBefore (prev : Option Tok) (t : Tok) : List Nat :=
  if prev.isSome && t.atBol then [10]
  else if t.hasSpace && !t.atBol then [32]
  else match prev with
    | some p => if !t.atBol && needSpace p.text t.text then [32] else []
    | none => []

def printFrom (prev : Option Tok) : List Tok → List Nat
  | [] => [10]
  | t :: ts => sepBefore prev t ++ t.text ++ printFrom (some t) ts

/-- the text `chibicc -E` writes for the token list `ts` -/
def printTokens (ts : List Tok) : List Nat := printFrom none ts

end ChibiVerif.Lex
