/- How an x86-64 host executes the C floating operations of chibicc's constant folder (property C07), and the software
   FPU the driver runs.

   `HostFp.ofOps O` is the assumption "the compiler was compiled for x86-64 with FLT_EVAL_METHOD 0 and runs under the
   control word the compiled program runs under": `float` / `double` arithmetic is one SSE scalar instruction, `long double`
   arithmetic one x87 instruction, a conversion between floating types one `cvtss2sd` / `cvtsd2ss` / `fld` / `fst`, unary
   minus complements the sign bit (`xorps` / `fchs`), a 64-bit integer becomes a `long double` exactly (`fild`, and for
   `uint64_t` the compiler's correction by 2^64), comparisons are `fcomi`/`fucomi` read as C reads them, and the conversion
   of a `long double` to `int64_t` / `uint64_t` delivers the integral part whenever C11 defines it (6.3.1.4p1: it is
   representable) — the x86 integer indefinite otherwise.  Core Lean only. -/
import ChibiVerif.Model.HostFp
import ChibiVerif.Model.SoftFp
import ChibiVerif.Spec.FpOps

namespace ChibiVerif.Host
open ChibiVerif.Spec.Fpu

/-- does the integral part of `v` fit `lo ≤ · < hi`? -/
def fitsRange (v : Val) (lo hi : Int) : Bool :=
  match v.trunc? with
  | some t => decide (lo ≤ t ∧ t < hi)
  | none => false

def HostFp.ofOps (O : FpOps) : HostFp where
  f80to32 := O.fst32
  f80to64 := O.fst64
  f32to80 := O.fld32
  f64to80 := O.fld64
  f32to64 := O.cvtss2sd
  f64to32 := O.cvtsd2ss
  add32 := O.addss
  sub32 := O.subss
  mul32 := O.mulss
  div32 := O.divss
  add64 := O.addsd
  sub64 := O.subsd
  mul64 := O.mulsd
  div64 := O.divsd
  add80 := O.fadd
  sub80 := O.fsub
  mul80 := O.fmul
  div80 := O.fdiv
  neg32 := fun x => x ^^^ (1#32 <<< 31)
  neg64 := fun x => x ^^^ (1#64 <<< 63)
  neg80 := O.fchs
  i32to80 := fun v => O.ofInt80 v.toInt
  i64to80 := fun v => O.ofInt80 v.toInt
  u64to80 := fun v => O.ofInt80 v.toNat
  f80toI64 := fun x => truncTo 64 (O.val80 x)
  f80toU64 := fun x =>
    match (O.val80 x).trunc? with
    | some t => if 0 ≤ t ∧ t < 2 ^ 64 then BitVec.ofInt 64 t else indefinite 64
    | none => indefinite 64
  fitsI64 := fun x => fitsRange (O.val80 x) (-(2 ^ 63)) (2 ^ 63)
  fitsU64 := fun x => fitsRange (O.val80 x) 0 (2 ^ 64)
  eq80 := fun a b => Val.cmp (O.val80 a) (O.val80 b) == .eq
  lt80 := fun a b => Val.cmp (O.val80 a) (O.val80 b) == .lt
  le80 := fun a b => Val.cmp (O.val80 a) (O.val80 b) == .lt || Val.cmp (O.val80 a) (O.val80 b) == .eq

end ChibiVerif.Host

namespace ChibiVerif.SoftFp
open ChibiVerif.Spec.Fpu

def op2 (n : Nat) (f : Fmt) (op : Op) (a b : BitVec n) : BitVec n := BitVec.ofNat n (arith f op a.toNat b.toNat)

/-- the software FPU as an `FpOps` (round to nearest, x87 precision control = extended) -/
def ops : FpOps where
  val32 := Ieee.decode32
  val64 := Ieee.decode64
  val80 := Ieee.decode80
  addss := op2 32 f32 .add
  subss := op2 32 f32 .sub
  mulss := op2 32 f32 .mul
  divss := op2 32 f32 .div
  addsd := op2 64 f64 .add
  subsd := op2 64 f64 .sub
  mulsd := op2 64 f64 .mul
  divsd := op2 64 f64 .div
  fadd := op2 80 f80 .add
  fsub := op2 80 f80 .sub
  fmul := op2 80 f80 .mul
  fdiv := op2 80 f80 .div
  fchs := fun x => x ^^^ (1#80 <<< 79)
  ofInt32 := fun v => BitVec.ofNat 32 (ofInt f32 v)
  ofInt64 := fun v => BitVec.ofNat 64 (ofInt f64 v)
  ofInt80 := fun v => BitVec.ofNat 80 (ofInt f80 v)
  cvtss2sd := fun x => BitVec.ofNat 64 (convert f32 f64 x.toNat)
  cvtsd2ss := fun x => BitVec.ofNat 32 (convert f64 f32 x.toNat)
  fld32 := fun x => BitVec.ofNat 80 (convert f32 f80 x.toNat)
  fld64 := fun x => BitVec.ofNat 80 (convert f64 f80 x.toNat)
  fst32 := fun x => BitVec.ofNat 32 (convert f80 f32 x.toNat)
  fst64 := fun x => BitVec.ofNat 64 (convert f80 f64 x.toNat)

/-- the host floating arithmetic the driver runs the folder over: an x86-64 host on the software FPU -/
def softHost : ChibiVerif.Host.HostFp := ChibiVerif.Host.HostFp.ofOps ops

end ChibiVerif.SoftFp
