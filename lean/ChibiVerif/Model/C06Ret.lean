/-
Model of the transfer of a return value (property C06): parse.c `stmt()` (`return expr;`), codegen.c `case ND_RETURN`, the
epilogue of `emit_text`, and what the `ND_FUNCALL` arm does with the value after `call`.

* `Gen.ReturnStmt.retStep`   — the `return` arm of parse.c `stmt()`: which `ND_CAST`s wrap the expression,
* `Gen.ReturnStmt.retCopy`   — `case ND_RETURN` of `gen_stmt`: copy_struct_reg / copy_struct_mem / nothing,
* `Gen.ReturnStmt.retNorm`   — the `switch (node->ty->kind)` after `call` in `case ND_FUNCALL`,
* `Gen.ReturnStmt.epilogue`  — the lines after `.L.return.<fn>:`,
  all four **translated from the source on every run** (tools/extract/retstmt.py);
* `retSeq`, `calleeRetSeq`, `callerRetSeq` — the instruction sequences the value theorems of Props/C06Ret.lean are about:
  what the callee executes between the end of `gen_expr(expr)` and `ret`, and what the caller executes after `call`;
* `returnText`, `returnCallText` — the complete text of the body of `T f(void) { return g; }` / `T f(void) { return h(); }`,
  compared line by line with `chibicc -S` by checklib/c06_ret.py.

Core Lean only.
-/
import ChibiVerif.Gen.ReturnGen
import ChibiVerif.Model.C06Args

namespace ChibiVerif.C06Ret
open ChibiVerif.Asm ChibiVerif.Gen.CommonType ChibiVerif.Gen.ReturnStmt ChibiVerif.C06Args
open ChibiVerif.CallConv (ATy Sig)

/-! ## instruction sequences -/

/-- the instructions `return e;` adds after `gen_expr(e)`: the casts parse.c wrapped around `e` (`rt` = the function's return
    type, `e` = the type of the expression) -/
def retSeq (rt e : TyD) : List Ins := (castChain e (retStep rt e)).flatMap Line.instrs

/-- the epilogue without its final `ret` (control transfer is not an instruction of Model/X86) -/
def epilogueSeq : List Ins := epilogue.dropLast

/-- the callee, from the end of `gen_expr(e)` to `ret`: conversion, (`jmp .L.return.f`,) `mov %rbp, %rsp; pop %rbp` -/
def calleeRetSeq (rt e : TyD) : List Ins := retSeq rt e ++ epilogueSeq

/-- the caller, after `call *%r10; add $N, %rsp`: the normalisation of a narrow return value -/
def callerRetSeq (t : TyD) : List Ins := (retNorm t).toList

/-! ## text -/

/-- the lines `case ND_RETURN` adds for a struct / union value (`copy_struct_reg` / `copy_struct_mem`), in a function without
    parameters (the hidden pointer is the only one) -/
def structReturnLines (rt : ATy) : RetCopy → List String
  | .none => []
  | _ => CallConv.returnLines { ret := some rt, params := [], nNamed := 0, variadic := false }

/-- `arg->ty` / `node->lhs->ty` as the back end sees it -/
def atyOf (c : CTy) : ATy := c.after []

def jumpLine (fname : String) : String := returnJump.replace "%s" fname

/-- the lines of `T fname(void) { return g; }` between the prologue and `.L.return.fname:`; `@g` stands for the line that puts
    the address of the variable `g` (of type `e`) into %rax -/
def returnText (fname : String) (rt e : CTy) : List String :=
  let casts := retStep rt.descr e.descr
  ["@g"] ++ renderLines (argCode e.descr casts)
    ++ structReturnLines (atyOf rt) (retCopy (tyAfter e.descr casts))
    ++ [jumpLine fname]

/-- the lines of `T fname(void) { return h(); }` where `h` is declared `E h(void)` (`E` scalar or at most 16 bytes): the call (Model/C06Args `callText`, with
    the caller's handling of the value), the casts, the struct copy, the jump.  `retOff` = offset of the return buffer. -/
def returnCallText (fname : String) (rt e : CTy) (retOff : Int) : Except String (List String) := do
  let casts := retStep rt.descr e.descr
  -- with a return buffer among the locals the hidden pointer of `fname` itself is not where `structReturnLines` assumes
  if retCopy (tyAfter e.descr casts) == .mem then throw "unsupported: call expression of more than 16 bytes"
  let call ← callText 0 { ret := some (atyOf e), params := [], variadic := false, args := [] } retOff
  pure (call ++ renderLines (castChain e.descr casts)
    ++ structReturnLines (atyOf rt) (retCopy (tyAfter e.descr casts))
    ++ [jumpLine fname])

end ChibiVerif.C06Ret
