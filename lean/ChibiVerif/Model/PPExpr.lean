/-
Controlling expressions of #if / #elif (C10), two layers.

1. Token layer – `read_const_expr` and the identifier→0 pass of `eval_const_expr` in
   /repo/preprocess.c, transcribed over a token list: `defined X` / `defined ( X )` are replaced by
   `1`/`0` *before* macro expansion, every identifier that survives macro expansion becomes `0`.

2. Value layer – the value C11 6.10.1p4 gives a controlling expression: 6.6 integer constant
   expression, "all signed integer types and all unsigned integer types act as if they have the same
   representation as, respectively, intmax_t and uintmax_t" (64 bits here).  `eval` is that
   semantics on an expression tree; it reports division by zero in an *evaluated* operand
   (a constraint violation, both compilers diagnose it) and behaviour that C11 leaves undefined
   (signed overflow, out-of-range shift) as explicit errors, so that the check can drop such inputs.
   This is what `eval_const_expr` → `const_expr` (parse.c, property C07) is required to compute; it is
   tied to the code by running `chibicc -E` and validated against gcc (checklib/C10.py).

Core Lean only.
-/
import ChibiVerif.Model.CondIncl

namespace ChibiVerif.PPExpr
open ChibiVerif.CondIncl

-- ------------------------------------------------------------------ token layer

inductive Tok where
  | ident (s : String)
  | num (s : String)          -- pp-number
  | punct (s : String)
  | other (s : String)        -- string / character constants …
  deriving DecidableEq, Repr

/-- `read_const_expr`'s loop: `defined X` and `defined ( X )` become `1` or `0` according to
    `find_macro`.  `error_tok` sites: "macro name must be an identifier", `skip(tok, ")")`. -/
def readDefined (isDef : String → Bool) : List Tok → Except Diag (List Tok)
  | [] => .ok []
  | .ident "defined" :: .punct "(" :: .ident x :: .punct ")" :: rest =>
    match readDefined isDef rest with
    | .error e => .error e
    | .ok r => .ok (.num (if isDef x then "1" else "0") :: r)
  | .ident "defined" :: .punct "(" :: _ => .error .badExpr
  | .ident "defined" :: .ident x :: rest =>
    match readDefined isDef rest with
    | .error e => .error e
    | .ok r => .ok (.num (if isDef x then "1" else "0") :: r)
  | .ident "defined" :: _ => .error .badExpr
  | t :: rest =>
    match readDefined isDef rest with
    | .error e => .error e
    | .ok r => .ok (t :: r)

/-- `eval_const_expr`: "replace remaining non-macro identifiers with 0" (after macro expansion) -/
def identToZero (ts : List Tok) : List Tok :=
  ts.map (fun t => match t with | .ident _ => .num "0" | t => t)

-- ------------------------------------------------------------------ value layer

inductive UnOp where
  | neg | plus | bnot | lnot
  deriving DecidableEq, Repr

inductive BinOp where
  | mul | div | mod | add | sub | shl | shr | lt | le | gt | ge | eq | ne | band | bxor | bor | land | lor
  deriving DecidableEq, Repr

inductive Expr where
  | num (v : Nat) (uns : Bool)       -- integer constant: value, and whether its type is unsigned
  | ident (n : String)               -- identifier: macro (replaced by its body) or 0
  | defined (n : String)             -- defined n / defined(n)
  | un (op : UnOp) (e : Expr)
  | bin (op : BinOp) (a b : Expr)
  | cond (c a b : Expr)
  deriving DecidableEq, Repr

/-- why a controlling expression has no value -/
inductive PPErr where
  | divZero        -- division or remainder by zero in an evaluated operand
  | undefinedBeh   -- signed overflow, shift count out of range, … (C11 leaves it undefined)
  | notExpr        -- a macro whose body is not an expression was used
  | fuel
  deriving DecidableEq, Repr

/-- a value of type intmax_t (`uns = false`) or uintmax_t (`uns = true`) -/
structure Val where
  bits : BitVec 64
  uns : Bool
  deriving DecidableEq, Repr

def Val.ofBool (b : Bool) : Val := ⟨if b then 1 else 0, false⟩
def Val.truth (v : Val) : Bool := v.bits != 0
def Val.int (v : Val) : Int := if v.uns then (v.bits.toNat : Int) else v.bits.toInt

def inRange (u : Bool) (r : Int) : Bool :=
  if u then true else decide (-(2:Int)^63 ≤ r) && decide (r < (2:Int)^63)

/-- macro bodies as far as #if can use them: `none` = defined, but the body is not an expression -/
abbrev Body := Option Expr

/-- the three types chibicc's parser can give a node of a #if expression: literals (and `0`/`1`
    put in for identifiers and `defined`) are retyped to long / unsigned long by `eval_const_expr`;
    `add_type` gives the result of `< <= > >= == != ! && ||` the type `int`. -/
inductive CTy where
  | int | long | ulong
  deriving DecidableEq, Repr

/-- `get_common_type` restricted to these three types (usual arithmetic conversions) -/
def CTy.common (a b : CTy) : CTy :=
  if a = .ulong ∨ b = .ulong then .ulong else if a = .long ∨ b = .long then .long else .int

/-- chibicc's static type of a #if expression.  C11 6.10.1p4 knows only intmax_t and uintmax_t:
    `int` and `long` are both "signed".  `fuel` bounds the nesting of the expression plus macro
    bodies. -/
def ctyOf (defs : Defs Body) : Nat → List String → Expr → CTy
  | 0, _, _ => .long
  | _+1, _, .num _ u => if u then .ulong else .long
  | f+1, hide, .ident n =>
    if hide.contains n then .long else
    match defs.lookup n with
    | some (some e) => ctyOf defs f (n :: hide) e
    | _ => .long
  | _+1, _, .defined _ => .long
  | _+1, _, .un .lnot _ => .int
  | f+1, h, .un _ e => ctyOf defs f h e                 -- - ~ : promoted operand type; + : the operand's type
  | f+1, h, .bin op a b =>
    match op with
    | .lt | .le | .gt | .ge | .eq | .ne | .land | .lor => .int
    | .shl | .shr => ctyOf defs f h a                    -- the promoted left operand
    | _ => (ctyOf defs f h a).common (ctyOf defs f h b)
  | f+1, h, .cond _ a b => (ctyOf defs f h a).common (ctyOf defs f h b)

/-- the C11 view of the same: is the type of the expression unsigned (needed for the unevaluated
    arm of `?:`) -/
def unsOf (defs : Defs Body) (f : Nat) (h : List String) (e : Expr) : Bool := ctyOf defs f h e == .ulong

/-- binary operators other than `&&`, `||`.  `strict = true`: behaviour C11 leaves undefined is
    the outcome `undefinedBeh` (specification); `strict = false`: two's-complement wrap-around, as
    the compiled `eval` of parse.c computes (chibicc).  Division by zero and shift counts outside
    [0, 64) are errors in both. -/
def arith (strict : Bool) (op : BinOp) (a b : Val) : Except PPErr Val :=
  let u := a.uns || b.uns
  let ai := (⟨a.bits, u⟩ : Val).int
  let bi := (⟨b.bits, u⟩ : Val).int
  let chk (r : Int) (bits : BitVec 64) : Except PPErr Val :=
    if !strict || inRange u r then .ok ⟨bits, u⟩ else .error .undefinedBeh
  match op with
  | .mul => chk (ai * bi) (a.bits * b.bits)
  | .add => chk (ai + bi) (a.bits + b.bits)
  | .sub => chk (ai - bi) (a.bits - b.bits)
  | .div =>
    if b.bits == 0 then .error .divZero
    else if u then .ok ⟨a.bits / b.bits, u⟩
    else chk (Int.tdiv ai bi) (BitVec.sdiv a.bits b.bits)
  | .mod =>
    if b.bits == 0 then .error .divZero
    else if u then .ok ⟨a.bits % b.bits, u⟩
    else chk (Int.tdiv ai bi) (BitVec.srem a.bits b.bits)
  | .band => .ok ⟨a.bits &&& b.bits, u⟩
  | .bxor => .ok ⟨a.bits ^^^ b.bits, u⟩
  | .bor => .ok ⟨a.bits ||| b.bits, u⟩
  | .lt => .ok (.ofBool (decide (ai < bi)))
  | .le => .ok (.ofBool (decide (ai ≤ bi)))
  | .gt => .ok (.ofBool (decide (ai > bi)))
  | .ge => .ok (.ofBool (decide (ai ≥ bi)))
  | .eq => .ok (.ofBool (a.bits == b.bits))
  | .ne => .ok (.ofBool (a.bits != b.bits))
  | .shl =>
    -- the result has the type of the left operand; the count must be in [0, 64)
    let n := b.int
    if n < 0 || n ≥ 64 then .error .undefinedBeh
    else if a.uns then .ok ⟨a.bits <<< n.toNat, true⟩
    else if strict && (a.int < 0 || !inRange false (a.int * 2 ^ n.toNat)) then .error .undefinedBeh
    else .ok ⟨a.bits <<< n.toNat, false⟩
  | .shr =>
    let n := b.int
    if n < 0 || n ≥ 64 then .error .undefinedBeh
    else if a.uns then .ok ⟨a.bits >>> n.toNat, true⟩
    else .ok ⟨a.bits.sshiftRight n.toNat, false⟩     -- implementation-defined for negative values: arithmetic (gcc, psABI)
  | .land | .lor => .error .fuel                      -- handled by `evalN` (short-circuit)

def unop (strict : Bool) (op : UnOp) (v : Val) : Except PPErr Val :=
  match op with
  | .plus => .ok v
  | .neg => if !strict || v.uns || inRange false (-v.int) then .ok ⟨-v.bits, v.uns⟩ else .error .undefinedBeh
  | .bnot => .ok ⟨~~~v.bits, v.uns⟩
  | .lnot => .ok (.ofBool (!v.truth))

/-- result of an evaluation, and the flag "some `int`-typed intermediate result that was
    evaluated does not fit in 32 bits" -/
abbrev R := Except PPErr Val × Bool

/-- what storing a value in a node of type `ty` does: chibicc's `eval` reduces every result to
    the node's type (`narrow = true`); 6.10.1p4 has no 32-bit type (`narrow = false`).  The flag
    reports whether the two differ. -/
def narrowAt (narrow : Bool) (ty : CTy) (v : Val) : Val × Bool :=
  if ty = .int then
    let b := (v.bits.setWidth 32).signExtend 64
    (if narrow then ⟨b, v.uns⟩ else v, b != v.bits)
  else (v, false)

def fin (narrow : Bool) (ty : CTy) (r : Except PPErr Val) (flag : Bool) : R :=
  match r with
  | .error x => (.error x, flag)
  | .ok v => let p := narrowAt narrow ty v; (.ok p.1, flag || p.2)

/-- Evaluation of a controlling expression.
    `narrow = false`: C11 6.10.1p4 (all arithmetic in intmax_t / uintmax_t).
    `narrow = true`:  chibicc (`const_expr` → `eval` in parse.c): the same, except that results of
    nodes typed `int` are reduced to 32 bits and that signed arithmetic wraps around instead of
    being undefined.
    `fuel` bounds the nesting of the expression plus macro bodies (running out is the explicit
    outcome `fuel`), `hide` = names being replaced (6.10.3.4p2). -/
def evalN (narrow : Bool) (defs : Defs Body) : Nat → List String → Expr → R
  | 0, _, _ => (.error .fuel, false)
  | _+1, _, .num v u => (.ok ⟨BitVec.ofNat 64 v, u⟩, false)
  | f+1, hide, .ident n =>
    if hide.contains n then (.ok ⟨0, false⟩, false) else
    match defs.lookup n with
    | none => (.ok ⟨0, false⟩, false)                 -- "remaining identifiers … are replaced with 0"
    | some none => (.error .notExpr, false)
    | some (some e) => evalN narrow defs f (n :: hide) e
  | _+1, _, .defined n => (.ok (.ofBool (defs.isDef n)), false)
  | f+1, h, .un op e =>
    match evalN narrow defs f h e with
    | (.error x, fl) => (.error x, fl)
    | (.ok v, fl) => fin narrow (ctyOf defs (f+1) h (.un op e)) (unop (!narrow) op v) fl
  | f+1, h, .bin .land a b =>
    match evalN narrow defs f h a with
    | (.error x, fl) => (.error x, fl)
    | (.ok va, fl) =>
      if !va.truth then (.ok (.ofBool false), fl)      -- right operand not evaluated
      else match evalN narrow defs f h b with
        | (.error x, fl2) => (.error x, fl || fl2)
        | (.ok vb, fl2) => (.ok (.ofBool vb.truth), fl || fl2)
  | f+1, h, .bin .lor a b =>
    match evalN narrow defs f h a with
    | (.error x, fl) => (.error x, fl)
    | (.ok va, fl) =>
      if va.truth then (.ok (.ofBool true), fl)
      else match evalN narrow defs f h b with
        | (.error x, fl2) => (.error x, fl || fl2)
        | (.ok vb, fl2) => (.ok (.ofBool vb.truth), fl || fl2)
  | f+1, h, .bin op a b =>
    match evalN narrow defs f h a with
    | (.error x, fl) => (.error x, fl)
    | (.ok va, fl) =>
      match evalN narrow defs f h b with
      | (.error x, fl2) => (.error x, fl || fl2)
      | (.ok vb, fl2) => fin narrow (ctyOf defs (f+1) h (.bin op a b)) (arith (!narrow) op va vb) (fl || fl2)
  | f+1, h, .cond c a b =>
    match evalN narrow defs f h c with
    | (.error x, fl) => (.error x, fl)
    | (.ok vc, fl) =>
      let ty := ctyOf defs (f+1) h (.cond c a b)        -- usual arithmetic conversions of both arms
      match (if vc.truth then evalN narrow defs f h a else evalN narrow defs f h b) with
      | (.error x, fl2) => (.error x, fl || fl2)
      | (.ok v, fl2) => fin narrow ty (.ok ⟨v.bits, ty == .ulong⟩) (fl || fl2)

/-- fuel used for whole controlling expressions (nesting depth of expression + macro bodies) -/
def FUEL : Nat := 2000

/-- the expression, after macro replacement, is not an expression at all: it mentions (in an
    evaluated or unevaluated operand alike) a macro whose body is not an expression -/
def hasNonExpr (defs : Defs Body) : Nat → List String → Expr → Bool
  | 0, _, _ => false
  | _+1, _, .num _ _ => false
  | f+1, hide, .ident n =>
    if hide.contains n then false else
    match defs.lookup n with
    | some none => true
    | some (some e) => hasNonExpr defs f (n :: hide) e
    | none => false
  | _+1, _, .defined _ => false
  | f+1, h, .un _ e => hasNonExpr defs f h e
  | f+1, h, .bin _ a b => hasNonExpr defs f h a || hasNonExpr defs f h b
  | f+1, h, .cond c a b => hasNonExpr defs f h c || hasNonExpr defs f h a || hasNonExpr defs f h b

/-- C11 6.10.1p4: the value of a controlling expression under macro table `defs` -/
def evalTop (defs : Defs Body) (e : Expr) : Except PPErr Val :=
  if hasNonExpr defs FUEL [] e then .error .notExpr else (evalN false defs FUEL [] e).1

/-- chibicc: the value `eval_const_expr` computes -/
def evalTopC (defs : Defs Body) (e : Expr) : Except PPErr Val :=
  if hasNonExpr defs FUEL [] e then .error .notExpr else (evalN true defs FUEL [] e).1

/-- region of the known finding `C10-ppif-int-result-shift`: evaluating `e` by the rules of C11, some
    intermediate result that chibicc types `int` (a comparison / `!` / `&&` / `||` result, or
    arithmetic on such results – in practice a `<<` applied to one) does not fit in 32 bits -/
def intResultOverflows (defs : Defs Body) (e : Expr) : Bool := (evalN false defs FUEL [] e).2

def toDiag (r : Except PPErr Val) : Except Diag Bool :=
  match r with
  | .ok v => .ok v.truth
  | .error _ => .error .badExpr

/-- the evaluator required by C11 6.10.1 (specification side) -/
def ev (e : Expr) (defs : Defs Body) : Except Diag Bool := toDiag (evalTop defs e)

/-- the evaluator of the code as it is: `eval_const_expr(...) != 0`, or a diagnostic -/
def evC (e : Expr) (defs : Defs Body) : Except Diag Bool := toDiag (evalTopC defs e)

end ChibiVerif.PPExpr
