/-
Model of the block-scope machinery of /repo/parse.c (C03):

  struct Scope { Scope *next; HashMap vars; HashMap tags; }      l.31-39
  enter_scope / leave_scope / find_var / find_tag               l.165-192
  push_scope (hashmap_put into scope->vars)                      l.257
  push_tag_scope (hashmap_put2 into scope->tags)                 l.359
  find_typedef (find_var(tok)->type_def)                         l.350

Two levels.

* `Stack` — the abstract level: a scope is a pair of last-write-wins dictionaries
  (`HashMap.AMap`, the specification side of C17).  Ordinary identifiers (objects,
  functions, typedef names, enumeration constants) live in `vars`, struct/union/enum tags
  in `tags`.
* `CStack` — the concrete level: the same chain, each table being the open-addressing
  table of `Model/HashMap.lean` (the model of hashmap.c), every operation an
  `Except Crash`.  `Lemmas/ScopeLemmas.lean` proves that the concrete level refines the
  abstract one for every hash function, using C17's `Inv.put_spec` / `Inv.get_eq`; this
  is what justifies reasoning about association lists.

`scope = scope->next` in `leave_scope` at file scope leaves `scope == NULL`; the next
`push_scope` would dereference it.  That is the outcome `Err.nullScope`.
-/
import ChibiVerif.Model.HashMap

namespace ChibiVerif.Scope
open ChibiVerif.HashMap (AMap HM Crash)

/-- what an entry of the ordinary name space is (the three fields of `VarScope` that are
    mutually exclusive in use: `var`, `type_def`, `enum_ty/enum_val`), tagged with the
    identity `id` of the declaration that created it -/
inductive Ent where
  | obj (id : Nat)        -- object or function
  | tdef (id : Nat)       -- typedef name
  | enumc (id : Nat)      -- enumeration constant
  deriving Repr, DecidableEq, Inhabited

def Ent.id : Ent → Nat
  | .obj i => i | .tdef i => i | .enumc i => i

structure Frame (V T : Type) where
  vars : AMap String V
  tags : AMap String T

/-- head = innermost scope; the last element is the file scope -/
abbrev Stack (V T : Type) := List (Frame V T)

inductive Err where
  | nullScope             -- `scope` is NULL (leave_scope was called at file scope)
  | crash (c : Crash)     -- hashmap.c reached an abort site (concrete level only)
  deriving Repr, DecidableEq

inductive Op (V T : Type) where
  | enter
  | leave
  | declVar (n : String) (v : V)
  | declTag (n : String) (t : T)
  deriving Repr, DecidableEq

variable {V T : Type}

def Frame.empty : Frame V T := ⟨AMap.empty, AMap.empty⟩

/-- `static Scope *scope = &(Scope){};` -/
def Stack.init : Stack V T := [Frame.empty]

def enter (s : Stack V T) : Stack V T := Frame.empty :: s

def leave : Stack V T → Except Err (Stack V T)
  | [] => .error .nullScope
  | _ :: rest => .ok rest

def declareVar (s : Stack V T) (n : String) (v : V) : Except Err (Stack V T) :=
  match s with
  | [] => .error .nullScope
  | f :: rest => .ok ({ f with vars := f.vars.put n v } :: rest)

def declareTag (s : Stack V T) (n : String) (t : T) : Except Err (Stack V T) :=
  match s with
  | [] => .error .nullScope
  | f :: rest => .ok ({ f with tags := f.tags.put n t } :: rest)

/-- `find_var`: walk the chain from the innermost scope outwards -/
def findVar : Stack V T → String → Option V
  | [], _ => none
  | f :: rest, n => match f.vars.get n with
    | some v => some v
    | none => findVar rest n

def findTag : Stack V T → String → Option T
  | [], _ => none
  | f :: rest, n => match f.tags.get n with
    | some v => some v
    | none => findTag rest n

/-- `find_typedef`: the innermost *ordinary* entry decides; if it is not a typedef the
    identifier is not a type name even when an outer scope has a typedef of that name -/
def findTypedef (s : Stack Ent T) (n : String) : Option Nat :=
  match findVar s n with
  | some (.tdef i) => some i
  | _ => none

def step (s : Stack V T) : Op V T → Except Err (Stack V T)
  | .enter => .ok (enter s)
  | .leave => leave s
  | .declVar n v => declareVar s n v
  | .declTag n t => declareTag s n t

def run : Stack V T → List (Op V T) → Except Err (Stack V T)
  | s, [] => .ok s
  | s, op :: ops => match step s op with
    | .ok s' => run s' ops
    | .error e => .error e

/-! ### Specification: the innermost visible declaration, read off the history

The history is walked **backwards** from the point of use.  `skip` counts the scopes
that were closed again before the point of use and whose opening has not been passed
yet: everything inside them is invisible.  At `skip = 0` an `enter` is the opening of a
scope that is still open at the point of use, so the walk continues in the enclosing
scope.  The first declaration of the name met at `skip = 0` is therefore the most recent
declaration in the innermost open scope that declares it. -/

def specVar (name : String) : List (Op V T) → Nat → Option V
  | [], _ => none
  | .leave :: r, k => specVar name r (k + 1)
  | .enter :: r, 0 => specVar name r 0
  | .enter :: r, k + 1 => specVar name r k
  | .declVar n v :: r, 0 => if n = name then some v else specVar name r 0
  | .declVar _ _ :: r, k + 1 => specVar name r (k + 1)
  | .declTag _ _ :: r, k => specVar name r k

def specTag (name : String) : List (Op V T) → Nat → Option T
  | [], _ => none
  | .leave :: r, k => specTag name r (k + 1)
  | .enter :: r, 0 => specTag name r 0
  | .enter :: r, k + 1 => specTag name r k
  | .declTag n t :: r, 0 => if n = name then some t else specTag name r 0
  | .declTag _ _ :: r, k + 1 => specTag name r (k + 1)
  | .declVar _ _ :: r, k => specTag name r k

/-- the declaration an ordinary identifier used after history `ops` binds to -/
def visibleVar (ops : List (Op V T)) (name : String) : Option V := specVar name ops.reverse 0
def visibleTag (ops : List (Op V T)) (name : String) : Option T := specTag name ops.reverse 0

/-- a history is balanced when every `enter` is closed and no `leave` is unmatched -/
def balancedFrom : Nat → List (Op V T) → Bool
  | d, [] => d == 0
  | d, .enter :: r => balancedFrom (d + 1) r
  | 0, .leave :: _ => false
  | d + 1, .leave :: r => balancedFrom d r
  | d, _ :: r => balancedFrom d r

def balanced (ops : List (Op V T)) : Bool := balancedFrom 0 ops

/-! ### Concrete level: chains of hashmap.c tables -/

structure CFrame (V T : Type) where
  vars : HM String V
  tags : HM String T

abbrev CStack (V T : Type) := List (CFrame V T)

def CFrame.empty : CFrame V T := ⟨HM.empty, HM.empty⟩   -- calloc'ed Scope
def CStack.init : CStack V T := [CFrame.empty]

def liftC {α : Type} : Except Crash α → Except Err α
  | .ok a => .ok a
  | .error c => .error (.crash c)

def cstep (h : String → Nat) (s : CStack V T) : Op V T → Except Err (CStack V T)
  | .enter => .ok (CFrame.empty :: s)
  | .leave => match s with
    | [] => .error .nullScope
    | _ :: rest => .ok rest
  | .declVar n v => match s with
    | [] => .error .nullScope
    | f :: rest => do
      let m ← liftC (f.vars.put h n v)
      pure ({ f with vars := m } :: rest)
  | .declTag n t => match s with
    | [] => .error .nullScope
    | f :: rest => do
      let m ← liftC (f.tags.put h n t)
      pure ({ f with tags := m } :: rest)

def crun (h : String → Nat) : CStack V T → List (Op V T) → Except Err (CStack V T)
  | s, [] => .ok s
  | s, op :: ops => match cstep h s op with
    | .ok s' => crun h s' ops
    | .error e => .error e

def cfindVar (h : String → Nat) : CStack V T → String → Except Err (Option V)
  | [], _ => .ok none
  | f :: rest, n => match f.vars.get h n with
    | .error c => .error (.crash c)
    | .ok (some v) => .ok (some v)
    | .ok none => cfindVar h rest n

def cfindTag (h : String → Nat) : CStack V T → String → Except Err (Option T)
  | [], _ => .ok none
  | f :: rest, n => match f.tags.get h n with
    | .error c => .error (.crash c)
    | .ok (some v) => .ok (some v)
    | .ok none => cfindTag h rest n

end ChibiVerif.Scope
