/-
C16, token level of parse.c `declarator` (named declarators): the recursive-descent functions `pointers`,
`declarator`, `type_suffix`, `array_dimensions`, `func_params` on a token list, as they are written -
in particular the parenthesised case, which parses the inner declarator twice (once with a dummy type to find the
closing parenthesis, then again with the type completed by the suffixes that FOLLOW the parenthesis) and the array
case, which recurses into the following suffixes BEFORE it wraps the element type.

  static Type *pointers(rest, tok, ty) {                                       // /repo 1c76c1e
    while (consume(&tok, tok, "*")) {
      ty = pointer_to(ty);
      for (;;) {
        if (equal(tok, "const") || equal(tok, "volatile") || equal(tok, "restrict") || equal(tok, "__restrict") ||
            equal(tok, "__restrict__")) tok = tok->next;
        else if (equal(tok, "_Atomic")) { ty->is_atomic = true; tok = tok->next; }
        else break;
      }
    }
    *rest = tok; return ty;
  }
  static Type *declarator(rest, tok, ty) {
    ty = pointers(&tok, tok, ty);
    if (equal(tok, "(")) {
      Token *start = tok; Type dummy = {};
      declarator(&tok, start->next, &dummy);
      tok = skip(tok, ")");
      ty = type_suffix(rest, tok, ty);
      return declarator(&tok, start->next, ty);
    }
    if (tok->kind == TK_IDENT) { name = tok; tok = tok->next; }
    ty = type_suffix(rest, tok, ty);  ...  return ty;
  }
  static Type *type_suffix(rest, tok, ty) {
    if (equal(tok, "(")) return func_params(rest, tok->next, ty);
    if (equal(tok, "[")) return array_dimensions(rest, tok->next, ty);
    *rest = tok; return ty;
  }
  static Type *array_dimensions(rest, tok, ty) {       // constant length
    ... expr = conditional(&tok, tok); tok = skip(tok, "]"); ty = type_suffix(rest, tok, ty); ... return array_of(ty, eval(expr));
  }
  static Type *func_params(rest, tok, ty) { if (equal(tok, "void") && equal(tok->next, ")")) { *rest = tok->next->next; return func_type(ty); } ... }

The fuel bounds the recursion DEPTH (every nested call gets `fuel - 1`), which is at most the number of tokens; the
number of steps is exponential in the nesting of parentheses (known finding of property C13), the depth is not.
Not modelled: `static`/`restrict` in brackets, non-constant lengths (VLA), parameter lists other
than `(void)`, abstract declarators (no identifier).
-/
import ChibiVerif.Model.C16Qual

namespace ChibiVerif.C16Declr
open ChibiVerif.C16Qual

inductive DTok where
  | star | lp | rp | ident | lb | num (n : Nat) | rb | void_
  | qual (q : PQual)          -- `const` `volatile` `restrict` `__restrict` `__restrict__` `_Atomic`
  deriving DecidableEq, Repr, Inhabited

/-- `Type dummy = {};` -/
def dummy : Ty := .void false

/-- `pointers`, inside the `for (;;)` that follows a `*` (`ty` is the pointer type made for that `*`): a qualifier is
    consumed (`_Atomic` marks `ty`), anything else leaves the `for`; the enclosing `while` then either consumes the next
    `*` - a new pointer type, and the `for` is entered again - or stops -/
def qualsT : List DTok → Ty → Ty × List DTok
  | .qual q :: ts, ty => qualsT ts (q.applyTo ty)
  | .star :: ts, ty => qualsT ts (pointerTo ty)
  | ts, ty => (ty, ts)

/-- `pointers`: a qualifier that is not preceded by a `*` is not consumed -/
def pointersT : List DTok → Ty → Ty × List DTok
  | .star :: ts, ty => qualsT ts (pointerTo ty)
  | ts, ty => (ty, ts)

/-- `func_params`, the `(void)` form -/
def funcParamsT : List DTok → Ty → Option (Ty × List DTok)
  | .void_ :: .rp :: ts, ty => some (funcType ty, ts)
  | _, _ => none

/-- `type_suffix`; the `[` arm is `array_dimensions` with a constant length -/
def typeSuffixT : Nat → List DTok → Ty → Option (Ty × List DTok)
  | 0, _, _ => none
  | _ + 1, .lp :: ts, ty => funcParamsT ts ty
  | f + 1, .lb :: .num n :: .rb :: ts, ty =>
    match typeSuffixT f ts ty with
    | some (t, rest) => some (arrayOf t n, rest)
    | none => none
  | _ + 1, .lb :: _, _ => none
  | _ + 1, ts, ty => some (ty, ts)

/-- `declarator` -/
def declaratorT : Nat → List DTok → Ty → Option (Ty × List DTok)
  | 0, _, _ => none
  | f + 1, ts, ty =>
    match pointersT ts ty with
    | (ty1, .lp :: inner) =>
      match declaratorT f inner dummy with
      | some (_, .rp :: after) =>
        match typeSuffixT f after ty1 with
        | some (ty2, rest) =>
          match declaratorT f inner ty2 with
          | some (ty3, _) => some (ty3, rest)
          | none => none
        | none => none
      | _ => none
    | (ty1, .ident :: after) => typeSuffixT f after ty1
    | (ty1, after) => typeSuffixT f after ty1

/-- the tokens of a declarator tree (C11 6.7.6 grammar: a direct declarator that is a pointer declarator needs
    parentheses) -/
def toks : Declr → List DTok
  | .name => [.ident]
  | .ptr d qs => .star :: (qs.map .qual ++ toks d)
  | .arr d n =>
    (match d with | .ptr _ _ => .lp :: toks d ++ [.rp] | _ => toks d) ++ [.lb, .num n, .rb]
  | .fn d =>
    (match d with | .ptr _ _ => .lp :: toks d ++ [.rp] | _ => toks d) ++ [.lp, .void_, .rp]
  | .paren d => .lp :: toks d ++ [.rp]

end ChibiVerif.C16Declr
