/-
C12, determinism half: what the compiler can observe besides its input files and options.

`Gen/EnvReadsGen.lean` (regenerated from the object files and sources on every run) lists the libc
symbols the compiler imports and the call sites of the environment-reading ones.  This file classifies
libc functions by what their result depends on; Props/C12.lean decides, over the whole generated
lists, that everything imported is classified and that clock / file-metadata / temp-name readers occur
only at the sites that implement __DATE__, __TIME__, __TIMESTAMP__, include-file lookup and driver
temporaries.
-/
namespace ChibiVerif.EnvDep

inductive Dep where
  | pure      -- result is a function of the arguments and of memory the program itself wrote
  | fileio    -- reads/writes files and streams named by the command line (input, output, includes)
  | process   -- fork/exec/wait/exit/atexit: driver plumbing; results are exit statuses of the children
  | clock     -- wall-clock time and its conversions
  | fsmeta    -- file-system metadata (existence, mtime)
  | tmpname   -- generates a fresh temporary file name
  | ambient   -- process identity, environment variables, random numbers, cwd, host, tty: never admissible
  deriving Repr, DecidableEq

def classify (f : String) : Option Dep :=
  if f ∈ ["memcmp", "memcpy", "memset", "memmove", "strchr", "strcmp", "strdup", "strlen", "strncasecmp", "strncmp",
          "strncpy", "strndup", "strrchr", "strstr", "strtok", "strtold", "strtoul", "strtol", "strtod", "calloc",
          "malloc", "realloc", "free", "__ctype_b_loc", "__errno_location", "__assert_fail", "strerror", "dirname",
          "__xpg_basename", "basename", "open_memstream", "vfprintf", "fprintf", "snprintf", "vsnprintf", "sprintf",
          "fputc", "fputs", "puts", "printf", "putchar", "abort", "isalnum", "isdigit", "ispunct", "isspace", "isxdigit",
          "tolower", "toupper", "strcat", "strcpy", "strncat", "qsort", "abs", "labs", "memchr", "memrchr", "strnlen",
          "strpbrk", "strspn", "strcspn", "strcasecmp", "strtoull", "strtoll", "strtof", "atoi", "atol", "bsearch", "isalpha",
          "isupper", "islower", "isprint", "iscntrl", "__ctype_tolower_loc", "__ctype_toupper_loc", "__stack_chk_fail",
          "__memcpy_chk", "__strcpy_chk", "__sprintf_chk", "__snprintf_chk", "__vfprintf_chk", "__fprintf_chk", "__printf_chk",
          "__isoc99_sscanf", "sscanf", "asprintf", "vasprintf", "putc", "fputc_unlocked", "ceil", "floor", "fabs", "ldexp"] then some .pure
  else if f ∈ ["fopen", "fclose", "fflush", "fread", "fwrite", "fgetc", "getc", "stdin", "stdout", "stderr", "close",
               "open", "read", "write", "unlink", "glob", "globfree", "ferror", "feof"] then some .fileio
  else if f ∈ ["fork", "execvp", "wait", "waitpid", "exit", "_exit", "atexit"] then some .process
  else if f ∈ ["time", "localtime", "localtime_r", "gmtime", "ctime", "ctime_r", "asctime", "strftime", "clock",
               "gettimeofday", "clock_gettime"] then some .clock
  else if f ∈ ["stat", "fstat", "lstat", "access"] then some .fsmeta
  else if f ∈ ["mkstemp", "tmpnam", "tempnam", "mktemp", "tmpfile"] then some .tmpname
  else if f ∈ ["getenv", "secure_getenv", "getpid", "getppid", "getuid", "geteuid", "rand", "random", "srand", "srandom",
               "drand48", "lrand48", "getcwd", "isatty", "ttyname", "uname", "gethostname", "getrandom", "getauxval",
               "sched_getcpu", "pthread_self", "gettid"] then some .ambient
  else none

/-- the only places where the result of a non-input-determined call may be used -/
def admissibleSite (callee file fn : String) : Bool :=
  match classify callee with
  | some .clock => file == "preprocess.c" && (fn == "init_macros" || fn == "timestamp_macro")   -- __DATE__, __TIME__, __TIMESTAMP__
  | some .fsmeta => (file == "main.c" && fn == "file_exists")                                   -- include lookup: the input file system
                    || (file == "preprocess.c" && fn == "timestamp_macro")                       -- __TIMESTAMP__
  | some .tmpname => file == "main.c" && fn == "create_tmpfile"                                  -- driver temporaries, never part of an output
  | some .ambient => false
  | _ => true

end ChibiVerif.EnvDep
