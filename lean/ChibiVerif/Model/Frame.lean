/-
codegen.c `assign_lvar_offsets` (property C04: simultaneously live objects never overlap and satisfy their alignment).

    int top = 16; int bottom = 0;
    for (var = fn->params; var; var = var->next) {          // pass-by-stack parameters, in declaration order
      <classification: `continue` for a parameter that arrives in registers>
      top = align_to(top, 8); var->offset = top; top += var->ty->size;
    }
    for (var = fn->locals; var; var = var->next) {          // every local, most recently created first;
      if (var->offset) continue;                            // the parameters are the tail of this list
      int align = (var->ty->kind == TY_ARRAY && var->ty->size >= 16) ? MAX(16, var->align) : var->align;
      bottom += var->ty->size; bottom = align_to(bottom, align); var->offset = -bottom;
    }
    fn->stack_size = align_to(bottom, 16);

The arithmetic (`FRAME_TOP0`, `stackParamOffset`, `localAlign`, `localBottom`, `stackSize`, `alignTo`) is regenerated
from the source (Gen/C04Gen.lean, Gen/DeclspecGen.lean).  Which parameters are passed on the stack is decided by the
classification loop that belongs to the calling convention (C06); here it is an input (`byStack`).
C `int` is modelled by `Int`; the theorems assume sizes ≥ 0 and alignments > 0 (no overflow: frames < 2 GiB).

The offsets are tied to the real compiler on every run: checklib/C04.py compares every `N(%rbp)` operand and the
`sub $N, %rsp` of generated functions with `drv_c04 frame`.
Core Lean only.
-/
import ChibiVerif.Gen.C04Gen

namespace ChibiVerif.Frame
open ChibiVerif.Gen.C04
open ChibiVerif.Gen.Declspec (alignTo)

/-- what assign_lvar_offsets reads of an `Obj` -/
structure Var where
  size : Int            -- var->ty->size
  align : Int           -- var->align
  isArray : Bool        -- var->ty->kind == TY_ARRAY
  byStack : Bool        -- (parameters only) the classification loop does not `continue`: passed on the stack
  deriving DecidableEq, Repr, Inhabited

/-- first loop: `var->offset` of every parameter (0 = untouched, as `calloc` left it) and the final `top` -/
def assignParams : Int → List Var → List Int × Int
  | top, [] => ([], top)
  | top, v :: vs =>
    if v.byStack then
      let off := stackParamOffset top
      let r := assignParams (off + v.size) vs
      (off :: r.1, r.2)
    else
      let r := assignParams top vs
      (0 :: r.1, r.2)

/-- second loop over `(var, var->offset)`: new offsets and the final `bottom` -/
def assignLocals : Int → List (Var × Int) → List Int × Int
  | bottom, [] => ([], bottom)
  | bottom, (v, off) :: vs =>
    if off ≠ 0 then
      let r := assignLocals bottom vs
      (off :: r.1, r.2)
    else
      let b := localBottom bottom v.size (localAlign v.isArray v.size v.align)
      let r := assignLocals b vs
      (-b :: r.1, r.2)

/-- the list the second loop walks: `fn->locals = body ++ params` with the `var->offset` the first loop left -/
def loopInput (body params : List Var) : List (Var × Int) :=
  (body.map fun v => (v, (0 : Int))) ++ params.zip (assignParams FRAME_TOP0 params).1

structure FrameLayout where
  /-- `var->offset` for `body ++ params` (the order of `fn->locals`) -/
  offsets : List Int
  stackSize : Int
  deriving DecidableEq, Repr

/-- `assign_lvar_offsets` for one function: `params` = `fn->params` in declaration order (with the hidden
    return-buffer pointer first if there is one), `body` = the other locals, most recently created first, so that
    `fn->locals = body ++ params` -/
def assignLvarOffsets (body params : List Var) : FrameLayout :=
  let l := assignLocals FRAME_BOTTOM0 (loopInput body params)
  { offsets := l.1, stackSize := stackSize l.2 }

/-- the alignment the second loop gives a local -/
def Var.frameAlign (v : Var) : Int := localAlign v.isArray v.size v.align

/-! ### the result as a list of objects (what the theorems talk about) -/

/-- one object of the frame: `[rbp + off, rbp + off + size)` -/
structure Slot where
  off : Int
  size : Int
  /-- alignment the object is entitled to: `frameAlign` for an object of the frame, 8 for a stack-passed parameter -/
  align : Int
  /-- passed on the stack by the caller (lives above the return address); `var->offset != 0` before the second loop -/
  stack : Bool
  deriving DecidableEq, Repr

/-- two objects do not overlap -/
def Slot.Disjoint (a b : Slot) : Prop := a.off + a.size ≤ b.off ∨ b.off + b.size ≤ a.off

instance (a b : Slot) : Decidable (Slot.Disjoint a b) := by unfold Slot.Disjoint; infer_instance

/-- entries of the second loop paired with the offsets it produced -/
def slotsOf : List (Var × Int) → List Int → List Slot
  | (v, off) :: l, o :: os => ⟨o, v.size, if off ≠ 0 then 8 else v.frameAlign, off ≠ 0⟩ :: slotsOf l os
  | _, _ => []

/-- all objects of a function's frame, in the order of `fn->locals` -/
def frameSlots (body params : List Var) : List Slot :=
  slotsOf (loopInput body params) (assignLvarOffsets body params).offsets

end ChibiVerif.Frame
