/-
C01: `gen_expr` on the FULL expression type `E` of Spec/IntSpec — `compileX` (Model/C01Expr) extended by `&&`, `||`, `?:`
exactly as codegen.c prints them (ND_LOGAND, ND_LOGOR, ND_COND with `cmp_zero`, `je` / `jne` / `jmp` and the labels
`.L.false.N`, `.L.true.N`, `.L.else.N`, `.L.end.N`).  Core Lean only (`drv_c01 compilej` runs it).

* The code is a `List JI` (Model/X86Jump): straight-line instructions, label definitions, jumps.
* Label numbers come from a counter threaded through the compilation in the order `gen_expr` calls `count()`: a node draws
  its number *before* its operands are generated; a binary node generates its right-hand node first.  The hidden
  temporaries of `op=` / `++` / `--` are numbered in the order parse.c creates them (operands left to right) — the two
  orders differ, hence `nlbl` (how many numbers an expression draws).
* `c ? a : b`: `add_type` converts both arms to the common type (`usual_arith_conv`), so each arm is followed by its cast.

Tie: checklib/C01.py (leg b2) compares the rendered lines — instructions, label definitions, jump targets, with the
label numbers `count()` really hands out in the translation unit — with `chibicc -S`.
-/
import ChibiVerif.Model.C01Expr
import ChibiVerif.Model.X86Jump

namespace ChibiVerif.C01
open ChibiVerif.Asm ChibiVerif.Spec.IntSpec ChibiVerif.Gen.CommonType ChibiVerif.C01Codegen ChibiVerif.X86 ChibiVerif.X86J

/-- the instruction `cmp_zero(ty)` prints for an integer type -/
def cmpZeroSeq (t : ITy) : List Ins := (cmpZero (descr t)).flatMap Line.instrs

/-- how many times `gen_expr` calls `count()` for the expression -/
def nlbl : E → Nat
  | .lit _ _ | .var _ | .preinc _ | .predec _ | .postinc _ | .postdec _ => 0
  | .un _ e | .cast _ e | .assign _ e | .opassign _ _ e => nlbl e
  | .bin _ a b | .comma a b => nlbl a + nlbl b
  | .land a b | .lor a b => 1 + (nlbl a + nlbl b)
  | .cond c a b => 1 + (nlbl c + (nlbl a + nlbl b))

/-- `A op= B` with the code of `B` containing jumps: `opAssignCode` of Model/C01Expr around `cb` -/
def opAssignCodeJ (k : NK) (op : BinOp) (ti tb : ITy) (offA tmp : Int) (cb : List JI) : List JI :=
  let t := binopOperandType op ti tb
  J ([iLea tmp, iPush, iLea offA] ++ storeSeq .u64) ++ (J (iLea tmp :: loadSeq .u64) ++ (JI.ins iPush ::
    ((cb ++ J (if op.isShift then [] else castSeq tb t)) ++ (JI.ins iPush ::
      J ((iLea tmp :: loadSeq .u64) ++ (loadSeq ti ++ (castSeq ti t ++ (iPopRdi :: (opSeq k t ++
        (castSeq (binopType op ti tb) ti ++ storeSeq ti))))))))))

/-- ND_LOGAND: `c = count(); lhs; cmp_zero; je .L.false.c; rhs; cmp_zero; je .L.false.c; mov $1, %rax; jmp .L.end.c;
    .L.false.c: mov $0, %rax; .L.end.c:` -/
def landCode (c : Nat) (ta tb : ITy) (ca cb : List JI) : List JI :=
  ca ++ (J (cmpZeroSeq ta) ++ (JI.jcc .e ⟨.false_, c⟩ :: (cb ++ (J (cmpZeroSeq tb) ++
    [JI.jcc .e ⟨.false_, c⟩, JI.ins (iMovImm 1), JI.jmp ⟨.end_, c⟩, JI.lbl ⟨.false_, c⟩, JI.ins (iMovImm 0),
     JI.lbl ⟨.end_, c⟩]))))

/-- ND_LOGOR: the same with `jne .L.true.c`, `mov $0`, `jmp`, `.L.true.c: mov $1` -/
def lorCode (c : Nat) (ta tb : ITy) (ca cb : List JI) : List JI :=
  ca ++ (J (cmpZeroSeq ta) ++ (JI.jcc .ne ⟨.true_, c⟩ :: (cb ++ (J (cmpZeroSeq tb) ++
    [JI.jcc .ne ⟨.true_, c⟩, JI.ins (iMovImm 0), JI.jmp ⟨.end_, c⟩, JI.lbl ⟨.true_, c⟩, JI.ins (iMovImm 1),
     JI.lbl ⟨.end_, c⟩]))))

/-- ND_COND: `c = count(); cond; cmp_zero; je .L.else.c; then; jmp .L.end.c; .L.else.c: els; .L.end.c:`
    (`ca`, `cb` are the arms with their conversion to the common type) -/
def condCode (c : Nat) (tc : ITy) (cc ca cb : List JI) : List JI :=
  cc ++ (J (cmpZeroSeq tc) ++ (JI.jcc .e ⟨.else_, c⟩ :: (ca ++ (JI.jmp ⟨.end_, c⟩ :: JI.lbl ⟨.else_, c⟩ :: (cb ++
    [JI.lbl ⟨.end_, c⟩])))))

/-- `gen_expr` on the typed tree parse.c / `add_type` build for an expression of the full type `E`:
    `compileJ tys off toff k c e = some (type, code, k', c')` with hidden temporaries `k ≤ · < k'` and labels numbered
    `c ≤ · < c'`.  On expressions without `&&` `||` `?:` it is `compileX` (`compileJ_of_compileX`). -/
def compileJ (tys : List ITy) (off toff : Nat → Int) : Nat → Nat → E → Option (ITy × List JI × Nat × Nat)
  | k, c, .lit t v => some (t, J [iMovImm v], k, c)
  | k, c, .var i => (tys[i]?).map fun t => (t, J (iLea (off i) :: loadSeq t), k, c)
  | k, c, .cast t e => (compileJ tys off toff k c e).map fun (te, cd, k1, c1) => (t, cd ++ J (castSeq te t), k1, c1)
  | k, c, .un op e =>
      (compileJ tys off toff k c e).map fun (te, cd, k1, c1) =>
        match op with
        | .plus => (promote te, cd ++ J (castSeq te (promote te)), k1, c1)
        | .lognot => (.i32, cd ++ J (unSeq .ND_NOT te), k1, c1)
        | .neg => (promote te, cd ++ J (castSeq te (promote te) ++ unSeq .ND_NEG (promote te)), k1, c1)
        | .bitnot => (promote te, cd ++ J (castSeq te (promote te) ++ unSeq .ND_BITNOT (promote te)), k1, c1)
  | k, c, .bin op a b =>
      -- the node generated first (the right-hand node: `b`, or `a` when `a > b` was rewritten to `b < a`) draws its label
      -- numbers first; the temporaries are numbered `a` first
      let swap := (nodeOf op).2
      match compileJ tys off toff k (if swap then c else c + nlbl b) a with
      | some (ta, ca, k1, _) =>
        match compileJ tys off toff k1 (if swap then c + nlbl a else c) b with
        | some (tb, cb, k2, _) =>
          let nk := (nodeOf op).1
          let (tl, cl, tr, cr) := if swap then (tb, cb, ta, ca) else (ta, ca, tb, cb)
          let t := binopOperandType op tl tr
          let rhs := if op.isShift then cr else cr ++ J (castSeq tr t)
          some (binopType op ta tb,
                rhs ++ (JI.ins iPush :: ((cl ++ J (castSeq tl t)) ++ (JI.ins iPopRdi :: J (opSeq nk t)))),
                k2, c + (nlbl a + nlbl b))
        | none => none
      | none => none
  | k, c, .comma a b =>
      match compileJ tys off toff k c a with
      | some (_, ca, k1, c1) => (compileJ tys off toff k1 c1 b).map fun (tb, cb, k2, c2) => (tb, ca ++ cb, k2, c2)
      | none => none
  | k, c, .assign i e =>
      match tys[i]?, compileJ tys off toff k c e with
      | some ti, some (te, cd, k1, c1) =>
          some (ti, JI.ins (iLea (off i)) :: JI.ins iPush :: ((cd ++ J (castSeq te ti)) ++ J (storeSeq ti)), k1, c1)
      | _, _ => none
  | k, c, .opassign op i e =>
      match tys[i]?, compileJ tys off toff k c e with
      | some ti, some (te, cd, k1, c1) =>
          if compoundable op then some (ti, opAssignCodeJ (nodeOf op).1 op ti te (off i) (toff k1) cd, k1 + 1, c1) else none
      | _, _ => none
  | k, c, .preinc i => (compileX tys off toff k (.preinc i)).map fun (t, cd, k1) => (t, J cd, k1, c)
  | k, c, .predec i => (compileX tys off toff k (.predec i)).map fun (t, cd, k1) => (t, J cd, k1, c)
  | k, c, .postinc i => (compileX tys off toff k (.postinc i)).map fun (t, cd, k1) => (t, J cd, k1, c)
  | k, c, .postdec i => (compileX tys off toff k (.postdec i)).map fun (t, cd, k1) => (t, J cd, k1, c)
  | k, c, .land a b =>
      match compileJ tys off toff k (c + 1) a with
      | some (ta, ca, k1, c1) =>
        (compileJ tys off toff k1 c1 b).map fun (tb, cb, k2, c2) => (.i32, landCode c ta tb ca cb, k2, c2)
      | none => none
  | k, c, .lor a b =>
      match compileJ tys off toff k (c + 1) a with
      | some (ta, ca, k1, c1) =>
        (compileJ tys off toff k1 c1 b).map fun (tb, cb, k2, c2) => (.i32, lorCode c ta tb ca cb, k2, c2)
      | none => none
  | k, c, .cond cnd a b =>
      match compileJ tys off toff k (c + 1) cnd with
      | some (tc, cc, k1, c1) =>
        match compileJ tys off toff k1 c1 a with
        | some (ta, ca, k2, c2) =>
          (compileJ tys off toff k2 c2 b).map fun (tb, cb, k3, c3) =>
            (usualArith ta tb,
             condCode c tc cc (ca ++ J (castSeq ta (usualArith ta tb))) (cb ++ J (castSeq tb (usualArith ta tb))), k3, c3)
        | none => none
      | none => none

/-- stack slots `compileJ` needs below `%rsp` (`depthX` on the forms `compileX` handles) -/
def depthJ : E → Nat
  | .cast _ e | .un _ e => depthJ e
  | .bin op a b => if (nodeOf op).2 then max (depthJ a) (depthJ b + 1) else max (depthJ b) (depthJ a + 1)
  | .comma a b | .land a b | .lor a b => max (depthJ a) (depthJ b)
  | .cond c a b => max (depthJ c) (max (depthJ a) (depthJ b))
  | .assign _ e => depthJ e + 1
  | .opassign _ _ e => max (depthJ e + 1) 2
  | .preinc _ | .predec _ => 2
  | .postinc _ | .postdec _ => 3
  | _ => 0

end ChibiVerif.C01
