/-
The floating-point arms of codegen.c, arm by arm, as functions from the type descriptors the C code looks at to the
lines it prints (C02): `cmp_zero`, `cast` (all of it: `_Bool` target, the generated cast table), `load`, `pushf`/`popf`,
the TY_FLOAT/TY_DOUBLE and TY_LDOUBLE arms of `gen_expr` for the binary operators, `ND_NEG`, `ND_NUM` for floating
constants, and the places that test a floating value for truth (`!`, `?:`, `&&`, `||`, `if`, `for`/`while`, `do`).
The cast table and `getTypeId` come from `Gen/CastTableGen`, `get_common_type` from `Gen/CommonTypeGen`
(both regenerated from /repo on every run).

Tied to the code on every run by text: checklib/C02.py compiles one-operation functions over global operands
`a`, `b` with `chibicc -S`; the lines between the prologue and `jmp .L.return.f` must equal what `drv_c02 seq` renders
from the `fn*` functions below.
-/
import ChibiVerif.Model.Asm
import ChibiVerif.Gen.CommonTypeGen
import ChibiVerif.Gen.CastTableGen

namespace ChibiVerif.FpCodegen
open ChibiVerif.Asm ChibiVerif.Gen.CommonType

def kindToAst : Kind → ChibiVerif.Ast.TyKind
  | .TY_VOID => .void | .TY_BOOL => .bool | .TY_CHAR => .char | .TY_SHORT => .short | .TY_INT => .int
  | .TY_LONG => .long | .TY_FLOAT => .float | .TY_DOUBLE => .double | .TY_LDOUBLE => .ldouble | .TY_ENUM => .enum
  | .TY_PTR => .ptr | .TY_FUNC => .func | .TY_ARRAY => .array | .TY_VLA => .vla | .TY_STRUCT => .struct
  | .TY_UNION => .union

/-- `getTypeId(ty)` -/
def typeId (t : TyD) : Nat := ChibiVerif.Gen.CastTable.getTypeId (kindToAst t.kind) t.isUnsigned

/-- type.c `is_integer` -/
def isInteger (t : TyD) : Bool :=
  t.kind == .TY_BOOL || t.kind == .TY_CHAR || t.kind == .TY_SHORT || t.kind == .TY_INT || t.kind == .TY_LONG ||
  t.kind == .TY_ENUM

def isFlonum (t : TyD) : Bool := t.kind == .TY_FLOAT || t.kind == .TY_DOUBLE || t.kind == .TY_LDOUBLE

/-- the tail of `cmp_zero` for floating operands: ZF := ordered ∧ equal -/
def cmpZeroTail : List Line :=
  [ins1 "sete" (.r "%al"), ins1 "setnp" (.r "%dl"), ins2 "and" (.r "%dl") (.r "%al"), ins2 "xor" (.i 1) (.r "%al")]

/-- `cmp_zero(ty)` -/
def cmpZero (t : TyD) : List Line :=
  match t.kind with
  | .TY_FLOAT => [ins2 "xorps" (.r "%xmm1") (.r "%xmm1"), ins2 "ucomiss" (.r "%xmm1") (.r "%xmm0")] ++ cmpZeroTail
  | .TY_DOUBLE => [ins2 "xorpd" (.r "%xmm1") (.r "%xmm1"), ins2 "ucomisd" (.r "%xmm1") (.r "%xmm0")] ++ cmpZeroTail
  | .TY_LDOUBLE => [ins0 "fldz", ins0 "fucomip", ins1 "fstp" (.r "%st(0)")] ++ cmpZeroTail
  | _ => if isInteger t && decide (t.size ≤ 4) then [ins2 "cmp" (.i 0) (.r "%eax")] else [ins2 "cmp" (.i 0) (.r "%rax")]

/-- `cast(from, to)` (the `TY_VOID` target discards the value: not a conversion) -/
def cast (frm to : TyD) : List Line :=
  if to.kind == .TY_VOID then []
  else if to.kind == .TY_BOOL then cmpZero frm ++ [ins1 "setne" (.r "%al"), ins2 "movzx" (.r "%al") (.r "%eax")]
  else match ChibiVerif.Gen.CastTable.castCell (typeId frm) (typeId to) with
    | some l => [l]
    | none => []

/-- `load(ty)` for scalar types -/
def load (t : TyD) : List Line :=
  match t.kind with
  | .TY_FLOAT => [ins2 "movss" (.m0 "%rax") (.r "%xmm0")]
  | .TY_DOUBLE => [ins2 "movsd" (.m0 "%rax") (.r "%xmm0")]
  | .TY_LDOUBLE => [ins1 "fldt" (.m0 "%rax")]
  | _ =>
    let insn := if t.isUnsigned then "movz" else "movs"
    if t.size = 1 then [ins2 (insn ++ "bl") (.m0 "%rax") (.r "%eax")]
    else if t.size = 2 then [ins2 (insn ++ "wl") (.m0 "%rax") (.r "%eax")]
    else if t.size = 4 then [ins2 "movsxd" (.m0 "%rax") (.r "%rax")]
    else [ins2 "mov" (.m0 "%rax") (.r "%rax")]

def pushf : List Line := [ins2 "sub" (.i 8) (.r "%rsp"), ins2 "movsd" (.r "%xmm0") (.m0 "%rsp")]
def popf1 : List Line := [ins2 "movsd" (.m0 "%rsp") (.r "%xmm1"), ins2 "add" (.i 8) (.r "%rsp")]

/-- the operators of the floating arms of `gen_expr` (`>` and `>=` are `<`/`<=` with exchanged operands: parse.c `relational`) -/
inductive FOp where
  | add | sub | mul | div | eq | ne | lt | le
  deriving DecidableEq, Repr

def FOp.all : List FOp := [.add, .sub, .mul, .div, .eq, .ne, .lt, .le]

def FOp.isCmp : FOp → Bool
  | .eq | .ne | .lt | .le => true
  | _ => false

/-- the `setcc` lines of a comparison after `ucomis*` / `fcomip` -/
def setccLines : FOp → List Line
  | .eq => [ins1 "sete" (.r "%al"), ins1 "setnp" (.r "%dl"), ins2 "and" (.r "%dl") (.r "%al")]
  | .ne => [ins1 "setne" (.r "%al"), ins1 "setp" (.r "%dl"), ins2 "or" (.r "%dl") (.r "%al")]
  | .lt => [ins1 "seta" (.r "%al")]
  | .le => [ins1 "setae" (.r "%al")]
  | _ => []

/-- TY_FLOAT / TY_DOUBLE arm after `gen_expr(rhs); pushf(); gen_expr(lhs); popf(1)`: lhs in %xmm0, rhs in %xmm1 -/
def sseOp (isFloat : Bool) (op : FOp) : List Line :=
  let sz := if isFloat then "ss" else "sd"
  match op with
  | .add => [ins2 ("add" ++ sz) (.r "%xmm1") (.r "%xmm0")]
  | .sub => [ins2 ("sub" ++ sz) (.r "%xmm1") (.r "%xmm0")]
  | .mul => [ins2 ("mul" ++ sz) (.r "%xmm1") (.r "%xmm0")]
  | .div => [ins2 ("div" ++ sz) (.r "%xmm1") (.r "%xmm0")]
  | c => [ins2 ("ucomi" ++ sz) (.r "%xmm0") (.r "%xmm1")] ++ setccLines c ++
         [ins2 "and" (.i 1) (.r "%al"), ins2 "movzb" (.r "%al") (.r "%rax")]

/-- TY_LDOUBLE arm after `gen_expr(lhs); gen_expr(rhs)`: rhs in %st(0), lhs in %st(1) -/
def x87Op (op : FOp) : List Line :=
  match op with
  | .add => [ins0 "faddp"]
  | .sub => [ins0 "fsubrp"]
  | .mul => [ins0 "fmulp"]
  | .div => [ins0 "fdivrp"]
  | c => [ins0 "fcomip", ins1 "fstp" (.r "%st(0)")] ++ setccLines c ++ [ins2 "movzb" (.r "%al") (.r "%rax")]

/-- the operator lines for operands of floating type `t` -/
def fpOp (t : TyD) (op : FOp) : Option (List Line) :=
  match t.kind with
  | .TY_FLOAT => some (sseOp true op)
  | .TY_DOUBLE => some (sseOp false op)
  | .TY_LDOUBLE => some (x87Op op)
  | _ => none

/-- `ND_NEG` after the operand has been evaluated -/
def negLines (t : TyD) : List Line :=
  match t.kind with
  | .TY_FLOAT => [ins2 "mov" (.i 1) (.r "%rax"), ins2 "shl" (.i 31) (.r "%rax"), ins2 "movq" (.r "%rax") (.r "%xmm1"),
                  ins2 "xorps" (.r "%xmm1") (.r "%xmm0")]
  | .TY_DOUBLE => [ins2 "mov" (.i 1) (.r "%rax"), ins2 "shl" (.i 63) (.r "%rax"), ins2 "movq" (.r "%rax") (.r "%xmm1"),
                   ins2 "xorpd" (.r "%xmm1") (.r "%xmm0")]
  | .TY_LDOUBLE => [ins0 "fchs"]
  | _ => [ins1 "neg" (.r "%rax")]

/-! ### `ND_NUM` for floating constants: the union punning, on bit patterns.
    (The text `# float 1.500000` after the first instruction is a comment; the tie strips comments.) -/

/-- `union { float f32; uint32_t u32; } u = { node->fval }` : the argument is the binary32 pattern of `(float)fval` -/
def numF32 (bits : BitVec 32) : List Line :=
  [ins2 "mov" (.i bits.toNat) (.r "%eax"), ins2 "movq" (.r "%rax") (.r "%xmm0")]

def numF64 (bits : BitVec 64) : List Line :=
  [ins2 "mov" (.i bits.toNat) (.r "%rax"), ins2 "movq" (.r "%rax") (.r "%xmm0")]

/-- `union { long double f80; uint64_t u64[2]; } u; memset(&u, 0, sizeof(u)); u.f80 = node->fval` -/
def numF80 (bits : BitVec 80) : List Line :=
  [ins2 "mov" (.i (bits.setWidth 64).toNat) (.r "%rax"), ins2 "mov" (.r "%rax") (.m (-16) "%rsp"),
   ins2 "mov" (.i ((bits >>> 64).setWidth 64).toNat) (.r "%rax"), ins2 "mov" (.r "%rax") (.m (-8) "%rsp"),
   ins1 "fldt" (.m (-16) "%rsp")]

/-! ### typing -/

def resTy : Res → Option TyD
  | .ty t => some t
  | _ => none

def commonType (t1 t2 : TyD) : Option TyD := resTy (getCommonType t1 t2)

/-! ### whole function bodies over the global operands `a` and `b`, between the prologue and `jmp .L.return.f` -/

def varA : List Line := [ins2 "lea" (.s "a(%rip)") (.r "%rax")]
def varB : List Line := [ins2 "lea" (.s "b(%rip)") (.r "%rax")]

/-- `R f(void) { return (R)a; }`: the explicit cast followed by the conversion `return` applies -/
def fnCast (t ret : TyD) : List Line :=
  varA ++ load t ++ cast t ret ++ cast ret ret

/-- source-level binary operators -/
inductive SrcOp where
  | add | sub | mul | div | eq | ne | lt | le | gt | ge
  deriving DecidableEq, Repr

def SrcOp.all : List SrcOp := [.add, .sub, .mul, .div, .eq, .ne, .lt, .le, .gt, .ge]

/-- parse.c: (node operator, operands exchanged?) -/
def SrcOp.node : SrcOp → FOp × Bool
  | .add => (.add, false) | .sub => (.sub, false) | .mul => (.mul, false) | .div => (.div, false)
  | .eq => (.eq, false) | .ne => (.ne, false) | .lt => (.lt, false) | .le => (.le, false)
  | .gt => (.lt, true) | .ge => (.le, true)

/-- `R f(void) { return a OP b; }` with `a : t1`, `b : t2` and the usual arithmetic conversions yielding a floating
    common type; `R` is the type of the expression -/
def fnBinary (op : SrcOp) (t1 t2 : TyD) : Option (List Line) := do
  let c ← commonType t1 t2
  let (fop, swap) := op.node
  let opl ← fpOp c fop
  let evalA := varA ++ load t1 ++ cast t1 c
  let evalB := varB ++ load t2 ++ cast t2 c
  let (lhs, rhs) := if swap then (evalB, evalA) else (evalA, evalB)
  if c.kind == .TY_LDOUBLE then some (lhs ++ rhs ++ opl)
  else some (rhs ++ pushf ++ lhs ++ popf1 ++ opl)

/-- `T f(void) { return -a; }` (`T` = the promoted type) -/
def fnNeg (t : TyD) : Option (List Line) := do
  let c ← commonType ty_int t
  some (varA ++ load t ++ cast t c ++ negLines c)

/-- `int f(void) { return !a; }` -/
def fnNot (t : TyD) : List Line :=
  varA ++ load t ++ cmpZero t ++ [ins1 "sete" (.r "%al"), ins2 "movzx" (.r "%al") (.r "%rax")]

def retConst (n : Int) (f : String) : List Line := [ins2 "mov" (.i n) (.r "%rax"), .raw ("  jmp .L.return." ++ f)]

/-- `int f(void) { return a ? 1 : 2; }` (label counter `c`) -/
def fnCond (t : TyD) (c : Nat) : List Line :=
  varA ++ load t ++ cmpZero t ++
  [.raw s!"  je .L.else.{c}", ins2 "mov" (.i 1) (.r "%rax"), .raw s!"  jmp .L.end.{c}", .label s!".L.else.{c}",
   ins2 "mov" (.i 2) (.r "%rax"), .label s!".L.end.{c}"]

/-- `int f(void) { if (a) return 1; return 2; }` (up to the final `jmp .L.return.f`) -/
def fnIf (t : TyD) (c : Nat) : List Line :=
  varA ++ load t ++ cmpZero t ++
  [.raw s!"  je  .L.else.{c}"] ++ retConst 1 "f" ++ [.raw s!"  jmp .L.end.{c}", .label s!".L.else.{c}", .label s!".L.end.{c}",
   ins2 "mov" (.i 2) (.r "%rax")]

/-- `int f(void) { while (a) return 1; return 2; }` / `for (; a; ) return 1;` -/
def fnWhile (t : TyD) (c : Nat) : List Line :=
  [.label s!".L.begin.{c}"] ++ varA ++ load t ++ cmpZero t ++
  [.raw s!"  je .L..{c + 1}"] ++ retConst 1 "f" ++ [.label s!".L..{c + 2}", .raw s!"  jmp .L.begin.{c}", .label s!".L..{c + 1}",
   ins2 "mov" (.i 2) (.r "%rax")]

/-- `int f(void) { do { } while (a); return 2; }` -/
def fnDo (t : TyD) (c : Nat) : List Line :=
  [.label s!".L.begin.{c}", .label s!".L..{c + 2}"] ++ varA ++ load t ++ cmpZero t ++
  [.raw s!"  jne .L.begin.{c}", .label s!".L..{c + 1}", ins2 "mov" (.i 2) (.r "%rax")]

/-- `int f(void) { return a && b; }` -/
def fnLogAnd (t1 t2 : TyD) (c : Nat) : List Line :=
  varA ++ load t1 ++ cmpZero t1 ++ [.raw s!"  je .L.false.{c}"] ++
  varB ++ load t2 ++ cmpZero t2 ++ [.raw s!"  je .L.false.{c}", ins2 "mov" (.i 1) (.r "%rax"), .raw s!"  jmp .L.end.{c}",
   .label s!".L.false.{c}", ins2 "mov" (.i 0) (.r "%rax"), .label s!".L.end.{c}"]

/-- `int f(void) { return a || b; }` -/
def fnLogOr (t1 t2 : TyD) (c : Nat) : List Line :=
  varA ++ load t1 ++ cmpZero t1 ++ [.raw s!"  jne .L.true.{c}"] ++
  varB ++ load t2 ++ cmpZero t2 ++ [.raw s!"  jne .L.true.{c}", ins2 "mov" (.i 0) (.r "%rax"), .raw s!"  jmp .L.end.{c}",
   .label s!".L.true.{c}", ins2 "mov" (.i 1) (.r "%rax"), .label s!".L.end.{c}"]

end ChibiVerif.FpCodegen
