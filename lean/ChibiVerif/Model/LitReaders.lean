/-
Glue between the *translated* cursor functions of tokenize.c (Gen/LitReadersGen.lean: `from_hex`, `read_escaped_char`,
`read_universal_char`, `string_literal_end`, regenerated from the C source on every check run) and the vocabulary of the
hand model (Model/Literals.lean).  `Lemmas/C11Translated.lean` proves that the hand-written functions of the model are
equal to the translated ones on every input; the driver runs the translated ones against the real code.
Core Lean only.
-/
import ChibiVerif.Gen.LitReadersGen
import ChibiVerif.Model.Literals

namespace ChibiVerif.LitReaders
open ChibiVerif.Gen.LitReaders
open ChibiVerif.Literals (LitErr)

/-- the `error_at` sites of the translated functions in the error vocabulary of the model (the constructor names are the
    messages in the C source: a changed message breaks this definition, hence the proofs) -/
def ofReadErr : ReadErr → LitErr
  | .invalid_hex_escape_sequence => .invalidHexEscape
  | .unclosed_string_literal => .unclosedString
  | .invalid_UTF_8_sequence => .invalidUtf8
  | .unclosed_char_literal => .unclosedChar

end ChibiVerif.LitReaders
