/- Host C integer arithmetic for translated leaf functions of chibicc (property C07).

   chibicc's constant folder (parse.c `eval2`/`eval3`) is itself a C program; the value it computes is
   whatever the *host* C semantics give to its `int64_t` / `uint64_t` expressions.  The translator
   (tools/extract/consteval.py) emits one call of the functions below for every operator node of the
   clang-14 typed AST, with the width and signedness clang computed.  Nothing is silently totalised:

   * operations on unsigned host types are total (C11 6.2.5p9);
   * operations on signed host types whose mathematical result does not fit are *undefined in the host*
     (C11 6.5p5).  `HostMode.strict` reports them as `Fail.hostUB`; `HostMode.wrapping` gives them the
     two's-complement result that gcc -O0 / x86-64 produce (what the shipped binary does);
   * `/` and `%` by zero and `INT64_MIN / -1` trap on x86-64 (SIGFPE) in either mode: always `Fail.hostUB`;
   * shift counts outside `0 .. width-1` are `Fail.hostUB` in either mode (x86 masks the count, C does not say).

   Core Lean only. -/
namespace ChibiVerif.Host

inductive Fail where
  /-- `error_tok(...)`: a located diagnostic and exit(1) -/
  | diag (msg : String)
  /-- the host program's behaviour is undefined / it traps -/
  | hostUB (why : String)
  /-- NULL node dereferenced -/
  | crash (why : String)
  /-- an arm of the C function that this model does not cover (address constants) -/
  | unmodelled (why : String)
  deriving DecidableEq, Repr

inductive HostMode where
  | strict     -- C11 abstract machine of the host: signed overflow is undefined
  | wrapping   -- gcc -O0 on x86-64 (and -fwrapv): signed overflow wraps
  deriving DecidableEq, Repr

abbrev R (n : Nat) := Except Fail (BitVec n)

/-- results are compared by `decide` in the witnesses -/
instance instDecidableEqExcept {ε α : Type} [DecidableEq ε] [DecidableEq α] : DecidableEq (Except ε α)
  | .ok a, .ok b => if h : a = b then isTrue (by rw [h]) else isFalse (fun h' => h (by cases h'; rfl))
  | .error a, .error b => if h : a = b then isTrue (by rw [h]) else isFalse (fun h' => h (by cases h'; rfl))
  | .ok _, .error _ => isFalse (fun h => by cases h)
  | .error _, .ok _ => isFalse (fun h => by cases h)

/-- C truth value as `int` -/
def b2i (b : Bool) : BitVec 32 := if b then 1#32 else 0#32

/-- integral conversion from a signed source type (C11 6.3.1.3; gcc: modulo 2^m) -/
def castS {n : Nat} (m : Nat) (a : BitVec n) : BitVec m := a.signExtend m
/-- integral conversion from an unsigned source type -/
def castU {n : Nat} (m : Nat) (a : BitVec n) : BitVec m := a.setWidth m

def ovf (m : HostMode) (bad : Bool) (why : String) {n : Nat} (v : BitVec n) : R n :=
  match m with
  | .wrapping => .ok v
  | .strict => if bad then .error (.hostUB why) else .ok v

/-- signed `a + b` -/
def addS {n : Nat} (m : HostMode) (a b : BitVec n) : R n :=
  ovf m (decide (a.toInt + b.toInt ≠ (a + b).toInt)) "signed overflow in +" (a + b)
/-- signed `a - b` -/
def subS {n : Nat} (m : HostMode) (a b : BitVec n) : R n :=
  ovf m (decide (a.toInt - b.toInt ≠ (a - b).toInt)) "signed overflow in -" (a - b)
/-- signed `a * b` -/
def mulS {n : Nat} (m : HostMode) (a b : BitVec n) : R n :=
  ovf m (decide (a.toInt * b.toInt ≠ (a * b).toInt)) "signed overflow in *" (a * b)
/-- signed unary `-a` -/
def negS {n : Nat} (m : HostMode) (a : BitVec n) : R n :=
  ovf m (decide (- a.toInt ≠ (- a).toInt)) "signed overflow in unary -" (- a)

/-- signed `a / b`: traps on zero divisor and on MIN / -1 in every mode -/
def divS {n : Nat} (_m : HostMode) (a b : BitVec n) : R n :=
  if b = 0 then .error (.hostUB "signed division by zero (SIGFPE)")
  else if a = BitVec.intMin n ∧ b = -1 then .error (.hostUB "signed division overflow (SIGFPE)")
  else .ok (a.sdiv b)
/-- signed `a % b` -/
def modS {n : Nat} (_m : HostMode) (a b : BitVec n) : R n :=
  if b = 0 then .error (.hostUB "signed remainder by zero (SIGFPE)")
  else if a = BitVec.intMin n ∧ b = -1 then .error (.hostUB "signed remainder overflow (SIGFPE)")
  else .ok (a.srem b)
/-- unsigned `a / b` -/
def divU {n : Nat} (_m : HostMode) (a b : BitVec n) : R n :=
  if b = 0 then .error (.hostUB "unsigned division by zero (SIGFPE)") else .ok (a / b)
/-- unsigned `a % b` -/
def modU {n : Nat} (_m : HostMode) (a b : BitVec n) : R n :=
  if b = 0 then .error (.hostUB "unsigned remainder by zero (SIGFPE)") else .ok (a % b)

/-- `a << cnt`, `a` of a signed host type: C11 6.5.7p4 — undefined if `a < 0` or `a * 2^cnt` is not representable -/
def shlS {n : Nat} (m : HostMode) (a : BitVec n) (cnt : Int) : R n :=
  if cnt < 0 ∨ cnt ≥ n then .error (.hostUB "shift count out of range")
  else ovf m (decide (a.toInt < 0 ∨ a.toInt * 2 ^ cnt.toNat ≥ 2 ^ (n - 1))) "signed overflow in <<" (a <<< cnt.toNat)
/-- `a << cnt`, `a` of an unsigned host type -/
def shlU {n : Nat} (_m : HostMode) (a : BitVec n) (cnt : Int) : R n :=
  if cnt < 0 ∨ cnt ≥ n then .error (.hostUB "shift count out of range") else .ok (a <<< cnt.toNat)
/-- `a >> cnt`, signed `a`: implementation-defined for negative `a`; gcc: arithmetic shift -/
def shrS {n : Nat} (_m : HostMode) (a : BitVec n) (cnt : Int) : R n :=
  if cnt < 0 ∨ cnt ≥ n then .error (.hostUB "shift count out of range") else .ok (a.sshiftRight cnt.toNat)
/-- `a >> cnt`, unsigned `a` -/
def shrU {n : Nat} (_m : HostMode) (a : BitVec n) (cnt : Int) : R n :=
  if cnt < 0 ∨ cnt ≥ n then .error (.hostUB "shift count out of range") else .ok (a >>> cnt.toNat)

end ChibiVerif.Host
