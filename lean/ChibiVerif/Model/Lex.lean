/-
Model of tokenize.c `tokenize()` — the scanning loop — for property C19 (and C11/C13/C18).

Alphabet.  The input is the NUL-terminated buffer `file->contents` WITHOUT its terminator,
given as a list of CODE POINTS (`Nat`), i.e. after `decode_utf8`.  Restriction (stated, not
hidden): the text is well-formed UTF-8 and contains no NUL.  Under it every byte-level test
of tokenize.c (`*p == '/'`, `isdigit(*p)`, `strstr`, `strchr`, …) sees the same thing on
bytes as this model sees on code points, because no byte of a multi-byte sequence is ASCII
and the C-locale <ctype.h> tables are false for bytes >= 0x80.  `decode_utf8`'s own error
("invalid UTF-8 sequence") is therefore outside the model.

Abort sites are explicit `Err` outcomes:
  unclosedComment  error_at "unclosed block comment"
  unclosedString   error_at "unclosed string literal"
  unclosedChar     error_at "unclosed char literal"
  badHexEscape     error_at "invalid hex escape sequence"   (read_escaped_char, from a string or char literal)
  invalidToken     error_at "invalid token"
  (the code no longer walks past the terminating NUL: a `//` comment ends at the NUL, a backslash
   directly before the NUL inside a string / character literal is "unclosed … literal")
  fuel             never produced for `lex` (see `Lemmas/LexLemmas`: every step consumes input)

Not modelled: the values computed for literals (C11's model), line numbers (`add_line_numbers`, C18),
and the three passes `tokenize_file` runs before `tokenize` (canonicalize_newline,
remove_backslash_newline, convert_universal_chars: C11/C18's Model/Text).
-/
import ChibiVerif.Gen.LexGen

namespace ChibiVerif.Lex
open ChibiVerif.LexChar ChibiVerif.Gen.Lex

inductive Kind | ident | punct | str | chr | ppnum
  deriving DecidableEq, Repr

inductive Err
  | unclosedComment | unclosedString | unclosedChar | badHexEscape | invalidToken | fuel
  deriving DecidableEq, Repr

/-- what `new_token` records that C19 needs: kind (TK_IDENT, TK_PUNCT, TK_STR, TK_NUM for a character
    constant, TK_PP_NUM), the spelling `loc[0..len)`, and the two flags -/
structure Tok where
  kind : Kind
  text : List Nat
  atBol : Bool
  hasSpace : Bool
  deriving DecidableEq, Repr

/-- `while (*p && *p != '\n') p++;` — the rest starting AT the newline, or nothing at the end of the text -/
def skipLine : List Nat → List Nat
  | [] => []
  | c :: t => if c == 10 then c :: t else skipLine t

/-- `strstr(p, "*/")` — the rest after the two characters; `none`: not found -/
def findCommentEnd : List Nat → Option (List Nat)
  | [] => none
  | c :: t => if c == 42 && t.head? == some 47 then some t.tail else findCommentEnd t

def headIs (p : Nat → Bool) : List Nat → Bool
  | [] => false
  | c :: _ => p c

/-- the pp-number loop after the first character:
    `if (p[0] && p[1] && strchr("eEpP", p[0]) && strchr("+-", p[1])) p += 2;
     else if (isalnum(*p) || *p == '.') p++; else break;`  — (consumed, rest) -/
def ppTake : List Nat → List Nat × List Nat
  | [] => ([], [])
  | c :: t =>
    if ppExpChars.contains c && headIs (fun d => ppSignChars.contains d) t then
      match t with
      | d :: t' =>
        let r := ppTake t'
        (c :: d :: r.1, r.2)
      | [] => ([], [c])   -- not reachable: `headIs _ [] = false` (p[1] is the NUL)
    else if isAlnum c || c == 46 then
      let r := ppTake t
      (c :: r.1, r.2)
    else ([], c :: t)

/-- `string_literal_end` from the character after the opening quote:
    (characters up to and including the closing quote, rest) -/
def strEnd : List Nat → Except Err (List Nat × List Nat)
  | [] => .error .unclosedString
  | c :: t =>
    if c == 34 then .ok ([c], t)
    else if c == 10 then .error .unclosedString
    else if c == 92 then
      match t with
      | [] => .error .unclosedString      -- `if (*p == '\\' && p[1]) p++;` does not skip; the next character is the NUL
      | d :: t' =>
        match strEnd t' with
        | .ok r => .ok (c :: d :: r.1, r.2)
        | .error e => .error e
    else
      match strEnd t with
      | .ok r => .ok (c :: r.1, r.2)
      | .error e => .error e

/-- the loops of read_string_literal / read_utf16_… / read_utf32_… over the body call
    `read_escaped_char` after every backslash; its only error site is `\x` not followed by a
    hexadecimal digit.  (Octal and hexadecimal digits consumed by the escape are not backslashes,
    so resuming right after the escaped character visits the same backslashes.) -/
def escOk : List Nat → Bool
  | [] => true
  | c :: t =>
    if c == 92 then
      match t with
      | [] => true
      | d :: t' => (if d == 120 then headIs isXDigit t' else true) && escOk t'
    else escOk t

/-- `strchr(p, '\'')`: (characters up to and including the quote, rest) -/
def findQuote : List Nat → Option (List Nat × List Nat)
  | [] => none
  | c :: t =>
    if c == 39 then some ([c], t)
    else match findQuote t with
      | some r => some (c :: r.1, r.2)
      | none => none

/-- `read_char_literal` from the character after the opening quote.  After the first (possibly
    escaped) character the code takes everything up to the next `'` — whatever it is, across
    newlines.  (The digits an octal / hex escape consumes are not quotes, so searching from
    right after the escaped character finds the same quote.) -/
def charEnd : List Nat → Except Err (List Nat × List Nat)
  | [] => .error .unclosedChar
  | c :: t =>
    if c == 92 then
      match t with
      | [] => .error .unclosedChar        -- `if (*p == '\\' && p[1] == '\0') error_at(start, "unclosed char literal");`
      | d :: t' =>
        if d == 120 && !(headIs isXDigit t') then .error .badHexEscape
        else match findQuote t' with
          | none => .error .unclosedChar
          | some r => .ok (c :: d :: r.1, r.2)
    else
      match findQuote t with
      | none => .error .unclosedChar
      | some r => .ok (c :: r.1, r.2)

/-- the loop of `read_ident`: longest prefix of `is_ident2` characters — (consumed, rest) -/
def identTake : List Nat → List Nat × List Nat
  | [] => ([], [])
  | c :: t =>
    if isIdent2 c then
      let r := identTake t
      (c :: r.1, r.2)
    else ([], c :: t)

inductive Step
  | done
  | skip (rest : List Nat) (atBol hasSpace : Bool)
  | tok (t : Tok) (rest : List Nat)
  | err (e : Err)
  deriving DecidableEq, Repr

/-- string-literal branches: `pre` = prefix and opening quote, `after` = what follows it -/
def strTok (pre after : List Nat) (bol sp : Bool) : Step :=
  match strEnd after with
  | .error e => .err e
  | .ok r => if escOk r.1 then .tok ⟨.str, pre ++ r.1, bol, sp⟩ r.2 else .err .badHexEscape

/-- character-literal branches -/
def chrTok (pre after : List Nat) (bol sp : Bool) : Step :=
  match charEnd after with
  | .error e => .err e
  | .ok r => .tok ⟨.chr, pre ++ r.1, bol, sp⟩ r.2

/-- one iteration of `while (*p)` in `tokenize`, branches in source order.
    `bol`/`sp` are the static variables `at_bol`/`has_space`; `new_token` copies them into the
    token and resets both. -/
def lexStep (s : List Nat) (bol sp : Bool) : Step :=
  match s with
  | [] => .done
  | c :: t =>
    -- startswith(p, "//")
    if [47, 47].isPrefixOf (c :: t) then
      .skip (skipLine (t.drop 1)) bol true
    -- startswith(p, "/*")
    else if [47, 42].isPrefixOf (c :: t) then
      match findCommentEnd (t.drop 1) with
      | none => .err .unclosedComment
      | some r => .skip r bol true
    -- *p == '\n'
    else if c == 10 then .skip t true false
    -- isspace(*p)
    else if isSpace c then .skip t bol true
    -- isdigit(*p) || (*p == '.' && isdigit(p[1]))
    else if isDigit c || (c == 46 && headIs isDigit t) then
      let r := ppTake t
      .tok ⟨.ppnum, c :: r.1, bol, sp⟩ r.2
    -- *p == '"'
    else if c == 34 then strTok [34] t bol sp
    -- u8" u" L" U"
    else if [117, 56, 34].isPrefixOf (c :: t) then strTok [117, 56, 34] (t.drop 2) bol sp
    else if [117, 34].isPrefixOf (c :: t) then strTok [117, 34] (t.drop 1) bol sp
    else if [76, 34].isPrefixOf (c :: t) then strTok [76, 34] (t.drop 1) bol sp
    else if [85, 34].isPrefixOf (c :: t) then strTok [85, 34] (t.drop 1) bol sp
    -- *p == '\''
    else if c == 39 then chrTok [39] t bol sp
    -- u' L' U'
    else if [117, 39].isPrefixOf (c :: t) then chrTok [117, 39] (t.drop 1) bol sp
    else if [76, 39].isPrefixOf (c :: t) then chrTok [76, 39] (t.drop 1) bol sp
    else if [85, 39].isPrefixOf (c :: t) then chrTok [85, 39] (t.drop 1) bol sp
    -- read_ident
    else if isIdent1 c then
      let r := identTake t
      .tok ⟨.ident, c :: r.1, bol, sp⟩ r.2
    -- read_punct
    else
      let n := readPunct (c :: t)
      if n == 0 then .err .invalidToken
      else .tok ⟨.punct, (c :: t).take n, bol, sp⟩ ((c :: t).drop n)

/-- the loop; the result is the token list without the final TK_EOF -/
def lexLoop : Nat → List Nat → Bool → Bool → Except Err (List Tok)
  | 0, _, _, _ => .error .fuel
  | n + 1, s, bol, sp =>
    match lexStep s bol sp with
    | .done => .ok []
    | .skip r bol' sp' => lexLoop n r bol' sp'
    | .tok t r =>
      match lexLoop n r false false with
      | .ok ts => .ok (t :: ts)
      | .error e => .error e
    | .err e => .error e

/-- `tokenize`: `at_bol = true; has_space = false;` then the loop.  Every step consumes at least one
    character, so `length + 1` iterations suffice. -/
def lex (s : List Nat) : Except Err (List Tok) := lexLoop (s.length + 1) s true false

instance {α : Type} [DecidableEq α] : DecidableEq (Except Err α) := fun a b =>
  match a, b with
  | .ok x, .ok y => if h : x = y then isTrue (by rw [h]) else isFalse (fun e => by cases e; exact h rfl)
  | .error x, .error y => if h : x = y then isTrue (by rw [h]) else isFalse (fun e => by cases e; exact h rfl)
  | .ok _, .error _ => isFalse (fun e => by cases e)
  | .error _, .ok _ => isFalse (fun e => by cases e)

/-- the spellings of the tokens -/
def spellings (r : Except Err (List Tok)) : Except Err (List (List Nat)) :=
  match r with
  | .ok ts => .ok (ts.map (·.text))
  | .error e => .error e

/-- the spelling `a` is self-lexing: the first scanning step on `a` alone produces one token spelled `a` and consumes
    everything (so `lex a` is exactly that one token: `Lemmas/LexSeq.selfLexing_lex`) -/
def selfLexing (a : List Nat) : Bool :=
  match lexStep a true false with
  | .tok t [] => t.text == a
  | _ => false

end ChibiVerif.Lex
