/-
C20: the decidable scope and typing predicates over `Node` trees (definitions only, no proofs), used
by the theorems (Lemmas/C20*.lean, Props/C20.lean) and by the driver (`drv_c20 scope`), which must
keep building when a proof breaks.

* `isLD`/`xOf` — is the type long double / the x87 effect (+1 or 0) of a value of that type.
* `covE/covA/covS` — scope of the rsp/x87 `_partial` theorems: every expression kind whose code is
  straight-line (NULL_EXPR, NUM, VAR, MEMBER, DEREF, ADDR, NEG, BITNOT, NOT, CAST, COMMA, ASSIGN,
  MEMZERO, LABEL_VAL, EXCH, the fourteen binary operators, FUNCALL with any argument list; statements
  EXPR_STMT, BLOCK, ASM), together with the typing side condition.
* `typedE/typedA/typedS` — the typing side condition alone, for every node kind: the long-double-ness
  of every node's type agrees with that of its operands the way `add_type` (type.c) builds trees.
* `okN` — side condition of the `depth` theorems: the sizes of struct/union arguments of calls are not
  negative (well-formedness of the type table).
-/
import ChibiVerif.Model.Codegen

namespace ChibiVerif.C20Scope
open ChibiVerif ChibiVerif.Codegen ChibiVerif.Ast

def isLD (t : Option Ty) : Bool :=
  match t with
  | some t => t.kind == .ldouble
  | none => false

/-- +1 for a long double, 0 for every other type -/
def xOf (t : Option Ty) : Int := if isLD t then 1 else 0

/-- the comparison operators (their result is an `int`, whatever the operands are) -/
def isCmp : BinOp → Bool
  | .eq | .ne | .lt | .le => true
  | _ => false

/-- typing of a binary-operator node: both operands are long double or neither is, and the result
    is long double exactly for long double arithmetic -/
def binopTyped (i : NInfo) (op : BinOp) (lhs rhs : Node) : Bool :=
  (isLD lhs.ty? == isLD rhs.ty?) && (isLD i.ty == (isLD lhs.ty? && !isCmp op))

/-- the bit-field an assignment stores to (if any) is not a long double -/
def bfOK (env : Env) (lhs : Node) : Bool :=
  match bitfieldOf lhs with
  | some m => !isLD (env.ty? m.ty)
  | none => true

def notNull : Node → Bool
  | .null => false
  | _ => true

/-- the callee is not the builtin `alloca` (whose code lowers %rsp by design) -/
def notAlloca : Node → Bool
  | .var _ (some v) => v.name != some "alloca"
  | _ => true

/-- the sizes of struct/union arguments are not negative (well-formedness of the type table, true of
    every dump; an empty struct, size 0, is an ordinary argument since /repo b298aee) -/
def structArgsOKb : NodeList → Bool
  | .nil => true
  | .cons a rest =>
    (match a.ty? with
     | some t => !t.isStructOrUnion || decide (0 ≤ t.size)
     | none => true) && structArgsOKb rest

mutual
/-- value-producing expression in scope -/
def covE (env : Env) : Node → Bool
  | .nullExpr i => !isLD i.ty
  | .num _ _ _ _ _ _ => true
  | .neg i lhs => covE env lhs && (isLD i.ty == isLD lhs.ty?)
  | .var _ _ => true
  | .member _ lhs _ => covA env lhs
  | .deref _ lhs => covE env lhs && !isLD lhs.ty?
  | .addr i lhs => covA env lhs && !isLD i.ty
  | .assign i lhs rhs => covA env lhs && covE env rhs && (isLD i.ty == isLD rhs.ty?) && bfOK env lhs
  | .comma i lhs rhs => covE env lhs && covE env rhs && (isLD i.ty == isLD rhs.ty?)
  | .cast _ lhs => covE env lhs
  | .memzero i _ => !isLD i.ty
  | .not i lhs => covE env lhs && !isLD i.ty
  | .bitnot i lhs => covE env lhs && !isLD lhs.ty? && !isLD i.ty
  | .binop i op lhs rhs => covE env lhs && covE env rhs && notNull lhs && binopTyped i op lhs rhs
  | .exch i lhs rhs => covE env lhs && covE env rhs && !isLD lhs.ty? && !isLD rhs.ty? && !isLD i.ty
  | .labelVal i _ _ => !isLD i.ty
  | .funcall _ lhs _ _ args => covE env lhs && !isLD lhs.ty? && notAlloca lhs && covArgs env args
      && structArgsOKb args
  | _ => false
/-- lvalue in scope (`gen_addr`) -/
def covA (env : Env) : Node → Bool
  | .var _ _ => true
  | .deref _ lhs => covE env lhs && !isLD lhs.ty?
  | .comma _ lhs rhs => covE env lhs && covA env rhs
  | .member _ lhs _ => covA env lhs
  | .vlaPtr _ _ => true
  | .assign _ lhs rhs => covA env lhs && covE env rhs && !isLD rhs.ty? && bfOK env lhs
  | .funcall i lhs _ _ args => covE env lhs && !isLD lhs.ty? && notAlloca lhs && covArgs env args
      && structArgsOKb args && !isLD i.ty
  | _ => false
/-- argument list in scope -/
def covArgs (env : Env) : NodeList → Bool
  | .nil => true
  | .cons a rest => covE env a && covArgs env rest
end

mutual
/-- statement in scope -/
def covS (env : Env) : Node → Bool
  | .exprStmt _ lhs => covE env lhs
  | .block _ body => covSs env body
  | .asm_ _ _ => true
  | _ => false
def covSs (env : Env) : NodeList → Bool
  | .nil => true
  | .cons n rest => covS env n && covSs env rest
end

def isNull : Node → Bool
  | .null => true
  | _ => false

mutual
def typedE (env : Env) : Node → Bool
  | .nullExpr i => !isLD i.ty
  | .num _ _ _ _ _ _ => true
  | .neg i lhs => typedE env lhs && (isLD i.ty == isLD lhs.ty?)
  | .var _ _ => true
  | .member _ lhs _ => typedA env lhs
  | .deref _ lhs => typedE env lhs && !isLD lhs.ty?
  | .addr i lhs => typedA env lhs && !isLD i.ty
  | .assign i lhs rhs => typedA env lhs && typedE env rhs && (isLD i.ty == isLD rhs.ty?) && bfOK env lhs
  | .stmtExpr i body => typedBody env body (isLD i.ty)
  | .comma i lhs rhs => typedE env lhs && typedE env rhs && (isLD i.ty == isLD rhs.ty?)
  | .cast _ lhs => typedE env lhs
  | .memzero i _ => !isLD i.ty
  | .cond i c t e => typedE env c && typedE env t && typedE env e && (isLD i.ty == isLD t.ty?)
      && (isLD i.ty == isLD e.ty?)
  | .not i lhs => typedE env lhs && !isLD i.ty
  | .bitnot i lhs => typedE env lhs && !isLD lhs.ty? && !isLD i.ty
  | .logand i lhs rhs => typedE env lhs && typedE env rhs && !isLD i.ty
  | .logor i lhs rhs => typedE env lhs && typedE env rhs && !isLD i.ty
  | .funcall _ lhs _ _ args => typedE env lhs && !isLD lhs.ty? && typedArgs env args
  | .labelVal i _ _ => !isLD i.ty
  | .cas i addr old new => typedE env addr && typedE env old && typedE env new && !isLD addr.ty?
      && !isLD old.ty? && !isLD new.ty? && !isLD i.ty
  | .exch i lhs rhs => typedE env lhs && typedE env rhs && !isLD lhs.ty? && !isLD rhs.ty? && !isLD i.ty
  | .binop i op lhs rhs => typedE env lhs && typedE env rhs && notNull lhs && binopTyped i op lhs rhs
  | _ => false
def typedA (env : Env) : Node → Bool
  | .var _ _ => true
  | .deref _ lhs => typedE env lhs && !isLD lhs.ty?
  | .comma _ lhs rhs => typedE env lhs && typedA env rhs
  | .member _ lhs _ => typedA env lhs
  | .vlaPtr _ _ => true
  | .assign _ lhs rhs => typedA env lhs && typedE env rhs && !isLD rhs.ty? && bfOK env lhs
  | .cond i c t e => typedE env c && typedE env t && typedE env e && !isLD t.ty? && !isLD e.ty?
      && !isLD i.ty
  | .funcall _ lhs _ _ args => typedE env lhs && !isLD lhs.ty? && typedArgs env args
  | _ => false
def typedS (env : Env) : Node → Bool
  | .if_ _ c t e => typedE env c && typedS env t && (isNull e || typedS env e)
  | .for_ _ init c inc t _ _ => (isNull init || typedS env init) && (isNull c || typedE env c)
      && (isNull inc || typedE env inc) && typedS env t
  | .do_ _ t c _ _ => typedS env t && typedE env c
  | .switch_ _ c t _ _ _ => typedE env c && !isLD c.ty? && typedS env t
  | .case_ _ _ _ _ lhs => typedS env lhs
  | .block _ body => typedSs env body
  | .goto_ _ _ _ => true
  | .gotoExpr _ lhs => typedE env lhs && !isLD lhs.ty?
  | .label _ _ _ lhs => typedS env lhs
  | .ret _ lhs => isNull lhs || typedE env lhs
  | .exprStmt _ lhs => typedE env lhs
  | .asm_ _ _ => true
  | _ => false
def typedSs (env : Env) : NodeList → Bool
  | .nil => true
  | .cons n rest => typedS env n && typedSs env rest
/-- the body of a statement expression whose value is (`ld = true`) / is not a long double -/
def typedBody (env : Env) : NodeList → Bool → Bool
  | .nil, ld => !ld
  | .cons (.exprStmt _ lhs) .nil, ld => typedE env lhs && (ld == isLD lhs.ty?)
  | .cons n rest, ld => typedS env n && typedBody env rest ld
def typedArgs (env : Env) : NodeList → Bool
  | .nil => true
  | .cons a rest => typedE env a && typedArgs env rest
end

/-! counting, for the scope report of the driver -/

instance : Add (Nat × Nat) := ⟨fun a b => (a.1 + b.1, a.2 + b.2)⟩

mutual
/-- (expression statements in the tree, those in scope of the `_partial` theorems) -/
def countStmts (env : Env) : Node → Nat × Nat
  | .if_ _ _ t e => countStmts env t + countStmts env e + (1, 0)
  | .for_ _ init _ _ t _ _ => countStmts env init + countStmts env t + (1, 0)
  | .do_ _ t _ _ _ => countStmts env t + (1, 0)
  | .switch_ _ _ t _ _ _ => countStmts env t + (1, 0)
  | .case_ _ _ _ _ lhs => countStmts env lhs + (1, 0)
  | .block _ body => countStmtList env body
  | .label _ _ _ lhs => countStmts env lhs + (1, 0)
  | .exprStmt i lhs => (1, if covS env (.exprStmt i lhs) then 1 else 0)
  | .asm_ _ _ => (1, 1)
  | .null => (0, 0)
  | _ => (1, 0)
def countStmtList (env : Env) : NodeList → Nat × Nat
  | .nil => (0, 0)
  | .cons n rest => countStmts env n + countStmtList env rest
end

mutual
/-- the struct/union arguments of every call in the tree have a size that is not negative -/
def okN : Node → Bool
  | .null | .nullExpr _ | .num .. | .var .. | .vlaPtr .. | .memzero .. | .labelVal .. | .goto_ .. | .asm_ .. => true
  | .binop _ _ a b | .assign _ a b | .comma _ a b | .logand _ a b | .logor _ a b | .exch _ a b => okN a && okN b
  | .neg _ a | .addr _ a | .deref _ a | .not _ a | .bitnot _ a | .cast _ a | .ret _ a | .gotoExpr _ a
  | .exprStmt _ a | .member _ a _ | .case_ _ _ _ _ a | .label _ _ _ a => okN a
  | .cond _ a b c | .if_ _ a b c | .cas _ a b c => okN a && okN b && okN c
  | .for_ _ a b c d _ _ => okN a && okN b && okN c && okN d
  | .do_ _ a b _ _ => okN a && okN b
  | .switch_ _ a b _ _ _ => okN a && okN b
  | .block _ l | .stmtExpr _ l => okL l
  | .funcall _ f _ _ args => okN f && okL args && structArgsOKb args
def okL : NodeList → Bool
  | .nil => true
  | .cons n rest => okN n && okL rest
end


end ChibiVerif.C20Scope
