/-
The operand of #include / #include_next at the token level (C10): /repo/preprocess.c
`read_include_filename` (its three patterns) and `join_tokens`.

  Pattern 1  #include "foo.h"     a string token: the characters between the quotes, no escape processing;
                                  the rest of the line is dropped (`skip_line`)
  Pattern 2  #include <foo.h>     `<` … `>`: the spellings of the tokens in between, joined by `join_tokens`
                                  (one blank in front of every token but the first that had white space before it);
                                  no `>` on the line: "expected '>'"
  Pattern 3  #include FOO         first token an identifier: the whole line is macro-expanded
                                  (`preprocess2(copy_line(rest, tok))`); if the result still starts with an
                                  identifier: "expected a filename"; else it is read again by patterns 1/2
  anything else                   "expected a filename"

The macro expander is a parameter (`xp`); every theorem is for all expanders.  `expandObj` /
`expandObjT` is the expander the driver uses: object-like macros with per-token hide sets (C11
6.10.3.4p2), the first token of a replacement inheriting the white-space flag of the macro name –
what `expand_macro` does for object-like macros (property C09 owns the full expander).  `expandObjT`
needs no budget: the number of steps is bounded by a function of the macro table and the line.

Core Lean only.
-/
import ChibiVerif.Model.CondIncl

namespace ChibiVerif.IncludeOperand
open ChibiVerif.CondIncl

inductive OKind where
  | str          -- string literal (TK_STR); `text` = the characters between the quotes
  | ident        -- identifier (TK_IDENT)
  | other        -- punctuator, pp-number, …; `text` = the spelling
  deriving DecidableEq, Repr

/-- a preprocessing token of an #include operand -/
structure OTok where
  kind : OKind
  text : String
  hasSpace : Bool := false          -- `has_space`
  hide : List String := []          -- `hideset`
  deriving DecidableEq, Repr

/-- the spelling `join_tokens` copies (`t->loc`, `t->len`): a string token is spelled with its quotes -/
def OTok.spelling (t : OTok) : String :=
  match t.kind with
  | .str => "\"" ++ t.text ++ "\""
  | _ => t.text

/-- `join_tokens(tok, end)`: spellings, a blank in front of every token but the first that has `has_space` -/
def joinToks : List OTok → String
  | [] => ""
  | t :: ts => t.spelling ++ String.join (ts.map (fun u => (if u.hasSpace then " " else "") ++ u.spelling))

def isGt (t : OTok) : Bool := t.kind == .other && t.text == ">"
def isLt (t : OTok) : Bool := t.kind == .other && t.text == "<"

/-- patterns 1 and 2 (and the final "expected a filename"); the tokens are those of one line -/
def readDirect (ts : List OTok) : Except Diag (String × Bool) :=
  match ts with
  | [] => .error .badDirective                                   -- "expected a filename" (at the next line / EOF)
  | t :: rest =>
    if t.kind = .str then .ok (t.text, true)                      -- pattern 1; skip_line drops `rest`
    else if isLt t then
      if rest.any isGt then .ok (joinToks (rest.takeWhile (fun u => !isGt u)), false)   -- pattern 2
      else .error .badDirective                                  -- "expected '>'"
    else .error .badDirective                                    -- "expected a filename"

/-- `read_include_filename`: (file name, is_dquote) or the diagnostic -/
def readOperand (xp : List OTok → Except Diag (List OTok)) (ts : List OTok) : Except Diag (String × Bool) :=
  match ts with
  | t :: _ =>
    if t.kind = .ident then                                       -- pattern 3
      match xp ts with
      | .error e => .error e
      | .ok ts' =>
        match ts' with
        | t' :: _ => if t'.kind = .ident then .error .badDirective else readDirect ts'   -- "expected a filename"
        | [] => .error .badDirective
    else readDirect ts
  | [] => .error .badDirective

-- ------------------------------------------------------------------ the expander used by the driver

/-- object-like macro bodies -/
abbrev ODefs := List (String × List OTok)

def ODefs.lookup (d : ODefs) (n : String) : Option (List OTok) := (d.find? (·.1 == n)).map (·.2)

/-- the flag `expand_macro` copies onto the first token of a (non-empty) replacement -/
def setHeadSpace (ts : List OTok) (sp : Bool) : List OTok :=
  match ts with
  | [] => []
  | t :: r => { t with hasSpace := sp } :: r

/-- `preprocess2` on one line with object-like macros only: a token that names a macro and does not
    carry that name in its hide set is replaced by the body (hide set = the token's ∪ {name}), and
    scanning continues at the first token of the replacement.  `fuel` bounds the number of
    replacements; running out is the explicit outcome `outOfFuel`. -/
def expandObj (defs : ODefs) : Nat → List OTok → Except Diag (List OTok)
  | _, [] => .ok []
  | 0, _ :: _ => .error .outOfFuel
  | fuel+1, t :: rest =>
    match (if t.kind = .ident ∧ !t.hide.contains t.text then defs.lookup t.text else none) with
    | some body =>
      let body' := body.map (fun u => { u with hide := u.hide ++ t.hide ++ [t.text] })
      expandObj defs fuel (setHeadSpace body' t.hasSpace ++ rest)      -- flags copied only if the body is not empty
    | none =>
      match expandObj defs fuel rest with
      | .error e => .error e
      | .ok r => .ok (t :: r)

-- ------------------------------------------------------------------ … without a budget

/-- number of macro names (with multiplicity) a token with hide set `hide` may still be replaced by -/
def rank (defs : ODefs) (hide : List String) : Nat := (defs.map (·.1)).countP (fun n => !hide.contains n)

/-- length of the longest macro body -/
def maxBody : ODefs → Nat
  | [] => 0
  | d :: ds => max d.2.length (maxBody ds)

/-- number of replacement steps that suffice for one token of rank `k` when no body is longer than `b` -/
def cost (b k : Nat) : Nat := (b + 2) ^ k

/-- number of steps that suffice for a line (Lemmas/IncludeOperandLemmas.lean, `expandObj_total`) -/
def total (defs : ODefs) (ts : List OTok) : Nat := (ts.map (fun u => cost (maxBody defs) (rank defs u.hide))).sum

/-- **object-like expansion as a total function**: every replacement puts the macro's name into the hide sets of the
    tokens it produces, so a token of rank k (k names not yet hidden) costs at most (b+2)^k steps -/
def expandObjT (defs : ODefs) (ts : List OTok) : Except Diag (List OTok) := expandObj defs (total defs ts) ts

end ChibiVerif.IncludeOperand
