/-
C16, `_Atomic` qualifier propagation: how parse.c / type.c carry `Type.is_atomic` from a declaration to the lvalue an
update operator is applied to, and which path `to_assign` / `new_inc_dec` take.

What is mirrored (code as it is, /repo 1c76c1e)

Type constructors (type.c)
* `copy_type`                           copies every field, `is_atomic` included
* `pointer_to` / `array_of` / `func_type`   a NEW `Type` whose own `is_atomic` is false; `base` / `return_ty` is the
                                        argument itself (its flag is kept)
parse.c
* `declspec`       `_Atomic` (keyword) and `_Atomic(type-name)` both set the local `is_atomic`; at the end
                   `if (is_atomic) { ty = copy_type(ty); ty->is_atomic = true; }` - the flag lands on the top level of
                   whatever the specifiers designate: a primitive, a typedef's type (the typedef's `Type` is used as it
                   is, no copy), a struct/union/enum, `typeof(type-name)`, `typeof(expr)` (= `node->ty`)
* `declarator`/`abstract_declarator`/`pointers`/`type_suffix`/`array_dimensions`   build the derived type around it;
                   `pointers` (since /repo 1c76c1e): after every `*` a loop over the qualifier tokens - `const`, `volatile`,
                   `restrict`, `__restrict`, `__restrict__` are skipped, `_Atomic` sets `is_atomic` of the pointer `Type`
                   that `pointer_to` has just made (`int *_Atomic p`: the POINTER is atomic, the pointee is not)
* `declaration` (locals), `global_variable`, `parse_typedef`, `struct_members`   use the declarator's type as it is
* `func_params`    array → `pointer_to(base)`, function → `pointer_to(ty)`, then `copy_type`
* `struct_members` a bit-field whose type is atomic is a diagnostic ("bit-field has atomic type")
type.c `add_type` (the arms an lvalue expression can consist of)
* ND_VAR `var->ty`; ND_DEREF `lhs->ty->base` (diagnostics: no base, base void); ND_MEMBER `member->ty`;
  ND_ADDR `pointer_to(ty)`, for an array `pointer_to(ty->base)`; ND_CAST `copy_type(ty)` (parse.c `new_cast`);
  ND_FUNCALL `func_ty->return_ty`; ND_ADD of pointer/array and integer (parse.c `new_add`; `usual_arith_conv` →
  `get_common_type` → `pointer_to(ty1->base)`)
parse.c update operators
* `assign`: `A op= B` → `to_assign(new_add | new_sub | new_binary(kind, A, B))`; `unary`: `++A` / `--A` the same
  with `B = 1`; `postfix`: `A++` / `A--` → `new_inc_dec`
* `to_assign`:   `A` is an ND_MEMBER node and `!A->ty->is_atomic` → `tmp = &A.base, (*tmp).x = (*tmp).x op B`
                 `A->ty->is_atomic` → the compare-and-swap loop (then type.c ND_CAS: diagnostics for objects larger
                                      than 8 bytes and for aggregates)
                 otherwise → `tmp = &A, *tmp = *tmp op B`
* `new_inc_dec`: floating or `_Bool`, not atomic, not a bit-field → `tmp1 = &A, tmp2 = *tmp1, *tmp1 = tmp2 + 1, tmp2`
                 otherwise `(typeof A)((A += 1) - 1)` through `to_assign`
* these two functions are the ONLY readers of `is_atomic` in the compiler besides the bit-field diagnostic of
  `struct_members` (checklib/C16.py `atomic_sites` compares the list of all sites that mention the field, with their
  enclosing functions, on every run).  A plain assignment `A = B` (ND_ASSIGN) and a
  plain read never look at it: they are one store / one load of the object (single instructions for the scalar types
  of at most 8 bytes: Props/C16Width.lean `C16_plain_access_single`; a byte loop for struct/union, `fstpt`/`fldt` for
  `long double`: Findings/C16Types.lean).

Not modelled: tokens (the syntax below is the parse tree; the driver prints it as C text and the real parser reads
that text - the tie), scopes (property C03; typedef names, variables and tags are three flat tables here), VLAs,
initializers, numeric `+` (only pointer/array + integer constant), function parameters of calls.
Core Lean only.
-/
namespace ChibiVerif.C16Qual

/-! ### syntax (parse trees; shared with Spec/C16QualSpec.lean) -/

/-- the primitive `Type` literals of type.c an arithmetic declspec decodes to (property C08 proves the decoding) -/
inductive Prim where
  | bool | char | uchar | short | ushort | int | uint | long | ulong | float | double | ldouble
  deriving DecidableEq, Repr, Inhabited

/-- a type qualifier after the `*` of a pointer declarator, in the spellings parse.c `pointers` knows -/
inductive PQual where
  | const | volatile | restrict | restrict2 /- `__restrict` -/ | restrict3 /- `__restrict__` -/ | atomic
  deriving DecidableEq, Repr, Inhabited

/-- a declarator, C11 6.7.6: the identifier (or nothing, in a type name), `* type-qualifier-list D` (6.7.6.1; the list
    in any order and multiplicity), `D [n]`, `D (void)`, `( D )` -/
inductive Declr where
  | name
  | ptr (d : Declr) (quals : List PQual)
  | arr (d : Declr) (n : Nat)
  | fn (d : Declr)
  | paren (d : Declr)
  deriving DecidableEq, Repr, Inhabited

mutual
/-- the type-specifier alternatives of `declspec` -/
inductive TSpec where
  | prim (p : Prim)
  | void
  | enum                                              -- `enum E` (one enum type is enough: all have size 4)
  | tdef (name : String)                              -- typedef name
  | agg (isUnion : Bool) (tag : String)               -- `struct tag` / `union tag`
  | typeofT (s : TSpec) (kw : Bool) (d : Declr)       -- `typeof(type-name)`, type-name = [`_Atomic`] s d
  | typeofE (e : Expr)                                -- `typeof(expr)`
  | atomicOf (s : TSpec) (kw : Bool) (d : Declr)      -- `_Atomic(type-name)`
/-- the expressions an updated lvalue can consist of -/
inductive Expr where
  | var (x : String)
  | par (e : Expr)                                    -- `( e )`: no node
  | deref (e : Expr)                                  -- `*e`
  | addr (e : Expr)                                   -- `&e`
  | mem (e : Expr) (m : String)                       -- `e.m`
  | arrow (e : Expr) (m : String)                     -- `e->m`
  | idx (e : Expr) (i : Nat)                          -- `e[i]`
  | add (e : Expr) (i : Nat)                          -- `e + i`
  | cast (s : TSpec) (kw : Bool) (d : Declr) (e : Expr)   -- `(type-name)e`
  | call (e : Expr)                                   -- `e()`
end

instance : Inhabited TSpec := ⟨.void⟩
instance : Inhabited Expr := ⟨.var ""⟩

/-- the ten `op=` operators and the four increment/decrement forms -/
inductive UpdOp where
  | add | sub | mul | div | mod | band | bor | bxor | shl | shr
  | preInc | preDec | postInc | postDec
  deriving DecidableEq, Repr, Inhabited

def UpdOp.all : List UpdOp :=
  [.add, .sub, .mul, .div, .mod, .band, .bor, .bxor, .shl, .shr, .preInc, .preDec, .postInc, .postDec]

def UpdOp.isPostfix : UpdOp → Bool
  | .postInc | .postDec => true
  | _ => false

/-- one member declaration of a struct/union: `[_Atomic] s d name [: width];` -/
structure MemberDecl where
  name : String
  spec : TSpec
  kw : Bool
  d : Declr
  bitfield : Bool
  deriving Inhabited

/-- the declarations in front of the updated expression -/
inductive Decl where
  | typedef_ (name : String) (s : TSpec) (kw : Bool) (d : Declr)
  | var (name : String) (s : TSpec) (kw : Bool) (d : Declr)        -- file scope, block scope, `static`, `extern`, `_Thread_local`
  | param (name : String) (s : TSpec) (kw : Bool) (d : Declr)      -- parameter of the enclosing function
  | aggDef (isUnion : Bool) (tag : String) (members : List MemberDecl)
  deriving Inhabited

/-! ### chibicc's `Type` -/

/-- `struct Type`, the fields that matter here; `atomic` is `is_atomic` of this very object -/
inductive Ty where
  | num (p : Prim) (atomic : Bool)
  | enum (atomic : Bool)
  | void (atomic : Bool)
  | ptr (base : Ty) (atomic : Bool)
  | arr (base : Ty) (len : Nat) (atomic : Bool)
  | fn (ret : Ty) (atomic : Bool)
  | agg (isUnion : Bool) (tag : String) (atomic : Bool)
  deriving DecidableEq, Repr, Inhabited

def Ty.isAtomic : Ty → Bool
  | .num _ a | .enum a | .void a | .ptr _ a | .arr _ _ a | .fn _ a | .agg _ _ a => a

/-- `ty = copy_type(ty); ty->is_atomic = true;` -/
def Ty.setAtomic : Ty → Ty
  | .num p _ => .num p true
  | .enum _ => .enum true
  | .void _ => .void true
  | .ptr b _ => .ptr b true
  | .arr b n _ => .arr b n true
  | .fn r _ => .fn r true
  | .agg u t _ => .agg u t true

/-- type.c `pointer_to` -/
def pointerTo (base : Ty) : Ty := .ptr base false
/-- type.c `array_of` -/
def arrayOf (base : Ty) (n : Nat) : Ty := .arr base n false
/-- type.c `func_type` -/
def funcType (ret : Ty) : Ty := .fn ret false

def Prim.size : Prim → Nat
  | .bool | .char | .uchar => 1
  | .short | .ushort => 2
  | .int | .uint | .float => 4
  | .long | .ulong | .double => 8
  | .ldouble => 16

def Prim.isFlonum : Prim → Bool
  | .float | .double | .ldouble => true
  | _ => false

/-- `is_numeric(ty) || ty->kind == TY_PTR` (the object test of type.c ND_CAS) with the size, for the scalar kinds -/
def Ty.scalarSize? : Ty → Option Nat
  | .num p _ => some p.size
  | .enum _ => some 4
  | .ptr _ _ => some 8
  | _ => none

/-- `is_flonum(ty) || ty->kind == TY_BOOL` (the test of `new_inc_dec`) -/
def Ty.isFloOrBool : Ty → Bool
  | .num p _ => p.isFlonum || p == .bool
  | _ => false

/-! ### the tables the parser keeps -/

structure Member where
  name : String
  ty : Ty
  bitfield : Bool
  deriving DecidableEq, Repr, Inhabited

structure Env where
  typedefs : List (String × Ty) := []
  vars : List (String × Ty) := []
  tags : List (String × Bool × List Member) := []      -- tag ↦ (isUnion, members)
  deriving Inhabited

inductive Diag where
  | undefinedVariable | unknownTypedef | unknownTag | noSuchMember | notAStruct
  | invalidDeref            -- "invalid pointer dereference"
  | derefVoid               -- "dereferencing a void pointer"
  | addrOfBitfield          -- "cannot take address of bitfield"
  | invalidOperands         -- `new_add`: "invalid operands"
  | notAFunction            -- "not a function"
  | atomicBitfield          -- "bit-field has atomic type"
  | bitfieldNotInteger      -- "bit-field has non-integer type"
  | declaredVoid            -- "variable declared void"
  | rmwRejected             -- type.c ND_CAS: "... larger than 8 bytes ..." / "... aggregates ..." (or `new_add`: "invalid operands")
  | unmodelled              -- outside the model (numeric `+`)
  deriving DecidableEq, Repr, Inhabited

def Diag.tag : Diag → String
  | .undefinedVariable => "undefined-variable" | .unknownTypedef => "unknown-typedef" | .unknownTag => "unknown-tag"
  | .noSuchMember => "no-such-member" | .notAStruct => "not-a-struct" | .invalidDeref => "invalid-deref"
  | .derefVoid => "deref-void" | .addrOfBitfield => "addr-of-bitfield" | .invalidOperands => "invalid-operands"
  | .notAFunction => "not-a-function" | .atomicBitfield => "atomic-bitfield" | .bitfieldNotInteger => "bitfield-not-integer"
  | .declaredVoid => "declared-void" | .rmwRejected => "rmw-rejected" | .unmodelled => "unmodelled"

def lookupMember (ms : List Member) (m : String) : Option Member := ms.find? (·.name == m)

/-! ### declarators -/

/-- one round of the `for (;;)` of parse.c `pointers`: `_Atomic` → `ty->is_atomic = true`, the other qualifiers are skipped -/
def PQual.applyTo : PQual → Ty → Ty
  | .atomic, ty => ty.setAtomic
  | _, ty => ty

/-- the qualifier loop of `pointers` on the `Type` that `pointer_to` has just returned -/
def applyQuals : List PQual → Ty → Ty
  | [], ty => ty
  | q :: qs, ty => applyQuals qs (q.applyTo ty)

/-- `declarator(tok, ty)` / `abstract_declarator(tok, ty)` on the parse tree: pointers first (`pointers`), the suffixes
    of the direct declarator from the right (`type_suffix` → `array_dimensions` recurses before it wraps), the declarator
    between parentheses last (it is skipped with a dummy type and re-read with the completed one) -/
def Declr.apply : Declr → Ty → Ty
  | .name, ty => ty
  | .ptr d qs, ty => d.apply (applyQuals qs (pointerTo ty))
  | .arr d n, ty => d.apply (arrayOf ty n)
  | .fn d, ty => d.apply (funcType ty)
  | .paren d, ty => d.apply ty

/-! ### declspec, type names, expression types -/

/-- the top node of the expression is ND_MEMBER (parentheses leave no node) -/
def Expr.memberTop : Expr → Bool
  | .par e => e.memberTop
  | .mem _ _ | .arrow _ _ => true
  | _ => false

/-- `parse.c new_add(lhs, <integer constant>)` followed by `add_type`: the type of the sum -/
def addTy (t : Ty) : Except Diag Ty :=
  match t with
  | .ptr b _ | .arr b _ _ => .ok (pointerTo b)          -- get_common_type: `if (ty1->base) return pointer_to(ty1->base);`
  | .num _ _ | .enum _ => .error .unmodelled
  | _ => .error .invalidOperands

/-- `add_type`, ND_DEREF -/
def derefTy (t : Ty) : Except Diag Ty :=
  match t with
  | .ptr b _ | .arr b _ _ =>
    match b with
    | .void _ => .error .derefVoid
    | _ => .ok b
  | _ => .error .invalidDeref

/-- parse.c `struct_ref` + `add_type` ND_MEMBER: the member and its type -/
def memberOf (env : Env) (t : Ty) (m : String) : Except Diag Member :=
  match t with
  | .agg _ tag _ =>
    match env.tags.lookup tag with
    | some (_, ms) =>
      match lookupMember ms m with
      | some mem => .ok mem
      | none => .error .noSuchMember
    | none => .error .unknownTag
  | _ => .error .notAStruct

/-- what the parser knows about an expression node: `node->ty`, and whether the node is an ND_MEMBER of a bit-field
    member (`lhs->kind == ND_MEMBER && lhs->member->is_bitfield`, tested by unary `&` and by `new_inc_dec`) -/
structure ETy where
  ty : Ty
  bf : Bool := false
  deriving DecidableEq, Repr, Inhabited

mutual
/-- the `Type *` a type specifier designates (`declspec`, before the final `is_atomic` step) -/
def specTy (env : Env) : TSpec → Except Diag Ty
  | .prim p => .ok (.num p false)
  | .void => .ok (.void false)
  | .enum => .ok (.enum false)
  | .tdef n =>
    match env.typedefs.lookup n with
    | some t => .ok t
    | none => .error .unknownTypedef
  | .agg u tag =>
    match env.tags.lookup tag with
    | some _ => .ok (.agg u tag false)
    | none => .error .unknownTag
  | .typeofT s kw d => do
    let t ← specTy env s
    pure (d.apply (if kw then t.setAtomic else t))
  | .typeofE e => do
    let r ← exprTy env e
    pure r.ty
  | .atomicOf s kw d => do
    -- `ty = typename(&tok, tok->next); ... is_atomic = true;` and at the end of declspec the copy with the flag
    let t ← specTy env s
    pure ((d.apply (if kw then t.setAtomic else t)).setAtomic)

/-- `node->ty` after `add_type` of the node the parser builds for the expression -/
def exprTy (env : Env) : Expr → Except Diag ETy
  | .var x =>
    match env.vars.lookup x with
    | some t => .ok ⟨t, false⟩
    | none => .error .undefinedVariable
  | .par e => exprTy env e
  | .deref e => do
    let r ← exprTy env e
    match r.ty with
    | .fn _ _ => pure ⟨r.ty, false⟩            -- `if (node->ty->kind == TY_FUNC) return node;`
    | t => do
      let b ← derefTy t
      pure ⟨b, false⟩
  | .addr e => do
    let r ← exprTy env e
    if r.bf then throw .addrOfBitfield
    match r.ty with
    | .arr b _ _ => pure ⟨pointerTo b, false⟩
    | t => pure ⟨pointerTo t, false⟩
  | .mem e m => do
    let r ← exprTy env e
    let mem ← memberOf env r.ty m
    pure ⟨mem.ty, mem.bitfield⟩
  | .arrow e m => do
    let r ← exprTy env e
    let s ← derefTy r.ty
    let mem ← memberOf env s m
    pure ⟨mem.ty, mem.bitfield⟩
  | .idx e _ => do
    let r ← exprTy env e
    let p ← addTy r.ty
    let b ← derefTy p
    pure ⟨b, false⟩
  | .add e _ => do
    let r ← exprTy env e
    let p ← addTy r.ty
    pure ⟨p, false⟩
  | .cast s kw d e => do
    let t ← specTy env s
    let _ ← exprTy env e
    pure ⟨d.apply (if kw then t.setAtomic else t), false⟩      -- `new_cast`: `copy_type(ty)`
  | .call e => do
    let r ← exprTy env e
    match r.ty with
    | .fn ret _ => pure ⟨ret, false⟩
    | .ptr (.fn ret _) _ => pure ⟨ret, false⟩
    | _ => .error .notAFunction
end

/-- `declspec` (the specifier's type with the final `is_atomic` step) followed by the declarator -/
def declTy (env : Env) (s : TSpec) (kw : Bool) (d : Declr) : Except Diag Ty := do
  let t ← specTy env s
  pure (d.apply (if kw then t.setAtomic else t))

/-! ### declarations -/

def isIntegerTy : Ty → Bool
  | .num p _ => !p.isFlonum
  | .enum _ => true
  | _ => false

/-- `struct_members`, one member -/
def elabMember (env : Env) (md : MemberDecl) : Except Diag Member := do
  let t ← declTy env md.spec md.kw md.d
  if md.bitfield && !isIntegerTy t then throw .bitfieldNotInteger
  if md.bitfield && t.isAtomic then throw .atomicBitfield
  pure { name := md.name, ty := t, bitfield := md.bitfield }

def elabMembers (env : Env) : List MemberDecl → Except Diag (List Member)
  | [] => .ok []
  | md :: rest => do
    let m ← elabMember env md
    let ms ← elabMembers env rest
    pure (m :: ms)

/-- `func_params`: array → pointer to the element, function → pointer to the function, then `copy_type` -/
def paramTy (t : Ty) : Ty :=
  match t with
  | .arr b _ _ => pointerTo b
  | .fn _ _ => pointerTo t
  | _ => t

def elabDecl (env : Env) : Decl → Except Diag Env
  | .typedef_ n s kw d => do
    let t ← declTy env s kw d
    pure { env with typedefs := (n, t) :: env.typedefs }
  | .var n s kw d => do
    let t ← declTy env s kw d
    match t with
    | .void _ => throw .declaredVoid
    | _ => pure { env with vars := (n, t) :: env.vars }
  | .param n s kw d => do
    let t ← declTy env s kw d
    pure { env with vars := (n, paramTy t) :: env.vars }
  | .aggDef u tag mds => do
    -- the tag is visible inside its own member list (`struct N { struct N *next; }`) as an incomplete type
    let env' : Env := { env with tags := (tag, u, []) :: env.tags }
    let ms ← elabMembers env' mds
    pure { env with tags := (tag, u, ms) :: env.tags }

def elabDecls (env : Env) : List Decl → Except Diag Env
  | [] => .ok env
  | d :: rest => do
    let env' ← elabDecl env d
    elabDecls env' rest

/-! ### the update operators -/

/-- the shape `to_assign` / `new_inc_dec` give an update of the lvalue -/
inductive Path where
  /-- `({ T *addr = &A; T2 val = B; T old = *addr; T new; do new = old op val; while (!CAS(addr, &old, new)); new; })`,
      `bytes` = `sizeof(T)` = the operand size of the `lock cmpxchg` -/
  | casLoop (bytes : Nat)
  /-- `tmp = &A.base, (*tmp).x = (*tmp).x op B`: plain load, operation, plain store -/
  | plainMember
  /-- `tmp = &A, *tmp = *tmp op B`: plain load, operation, plain store -/
  | plainDeref
  /-- `tmp1 = &A, tmp2 = *tmp1, *tmp1 = tmp2 + 1, tmp2`: plain load, plain store -/
  | plainIncDec
  deriving DecidableEq, Repr, Inhabited

def Path.isCas : Path → Bool
  | .casLoop _ => true
  | _ => false

/-- parse.c `to_assign(binary)` with `binary->lhs` = the expression `e` of type `t` -/
def toAssign (e : Expr) (t : Ty) : Except Diag Path :=
  if e.memberTop && !t.isAtomic then .ok .plainMember
  else if t.isAtomic then
    -- the loop is built; type.c ND_CAS then looks at `*addr` (= `t`) and `*&old` (= `t`)
    match t.scalarSize? with
    | some n => if n ≤ 8 then .ok (.casLoop n) else .error .rmwRejected
    | none => .error .rmwRejected
  else .ok .plainDeref

/-- `A op= B`, `++A`, `--A`, `A++`, `A--` -/
def elabUpdate (env : Env) (op : UpdOp) (e : Expr) : Except Diag Path := do
  let r ← exprTy env e
  if op.isPostfix && r.ty.isFloOrBool && !r.ty.isAtomic && !r.bf then pure .plainIncDec
  else toAssign e r.ty

end ChibiVerif.C16Qual
