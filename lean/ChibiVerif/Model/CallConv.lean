/-
Model of chibicc's calling-convention code (property C06), written arm by arm after codegen.c:

* `hasFlonum`, `hasFlonum1/2`, `structInRegs`     — `has_flonum`, `has_flonum1/2`, `struct_in_regs`
* `classifyArgs`  — the classification loop of `push_args` (sets `pass_by_stack`, counts `stack`)
* `pushSlots`     — what `push_args2` pushes for one argument (`push_struct`, `pushf`, `push`, long double)
* `popPhase`      — the pop loop of the `ND_FUNCALL` arm of `gen_expr` (own gp/fp counters, `popf`/`pop`)
* `callerAssign`  — where each argument is when `call *%r10` executes (register pieces / byte offset from rsp)
* `calleeOffsets` — `assign_lvar_offsets`, first loop (stack parameters from rbp+16)
* `prologueStores`— the store loop of `emit_text` (`store_gp`/`store_fp` of register parameters)
* `calleeAssign`  — where the callee reads each named parameter from
* `retCallee` / `retCaller` — `ND_RETURN` (`copy_struct_reg`, `copy_struct_mem`) / `copy_ret_buffer` and the scalar cases
* `RetOp`, `copyStructRegOps`, `copyRetBufferOps` — the loads / stores of `copy_struct_reg` / `copy_ret_buffer`, structured (which bytes
                    of the object each touches); the text functions `copyStructRegLines` / `copyRetBufferLines` are their rendering
* `vaInit`, `vaArg` — the `va_area` set-up of the prologue and the three walkers of include/stdarg.h

C `int` counters are `Nat` (they only count up from 0; sizes are those of C objects, < 2^31).
Sites where cc1 aborts are explicit `Except Abort` outcomes.  Core Lean only.
-/
import ChibiVerif.Gen.TemplatesGen

namespace ChibiVerif.CallConv
open ChibiVerif.Gen.Templates (GP_MAX FP_MAX)

/-! ## argument types -/

mutual
/-- the type of an argument, parameter or return value as the back end sees it -/
inductive ATy where
  | int (size : Nat) (uns : Bool) (isBool : Bool)   -- _Bool, char, short, int, long, enum, pointer (the `default:` arms)
  | flt                                             -- TY_FLOAT
  | dbl                                             -- TY_DOUBLE
  | ldbl                                            -- TY_LDOUBLE
  | agg (isUnion : Bool) (size align : Nat) (ms : Members)   -- TY_STRUCT / TY_UNION with `ty->size`, `ty->align`
  | arr (elem : ATy) (len : Nat)                    -- TY_ARRAY (only inside aggregates)
/-- `ty->members`: each with `mem->offset` and `mem->ty` -/
inductive Members where
  | nil
  | cons (off : Nat) (ty : ATy) (rest : Members)
end

mutual
def ATy.beq : ATy → ATy → Bool
  | .int s u b, .int s' u' b' => s == s' && u == u' && b == b'
  | .flt, .flt => true
  | .dbl, .dbl => true
  | .ldbl, .ldbl => true
  | .agg u s a ms, .agg u' s' a' ms' => u == u' && s == s' && a == a' && Members.beq ms ms'
  | .arr e n, .arr e' n' => ATy.beq e e' && n == n'
  | _, _ => false
def Members.beq : Members → Members → Bool
  | .nil, .nil => true
  | .cons o t r, .cons o' t' r' => o == o' && ATy.beq t t' && Members.beq r r'
  | _, _ => false
end

/-- `ty->size` -/
def ATy.size : ATy → Nat
  | .int s _ _ => s
  | .flt => 4
  | .dbl => 8
  | .ldbl => 16
  | .agg _ s _ _ => s
  | .arr e n => e.size * n

/-- `ty->align` -/
def ATy.align : ATy → Nat
  | .int s _ _ => s
  | .flt => 4
  | .dbl => 8
  | .ldbl => 16
  | .agg _ _ a _ => a
  | .arr e _ => e.align

def ATy.isAgg : ATy → Bool
  | .agg .. => true
  | _ => false

def ATy.isFlonum : ATy → Bool      -- TY_FLOAT || TY_DOUBLE (the leaf test of has_flonum)
  | .flt => true
  | .dbl => true
  | _ => false

/-- codegen.c `align_to` -/
def alignTo (n align : Nat) : Nat := (n + align - 1) / align * align

/-- `for (i = 0; i < n; i++) if (!f(i)) return false; return true;` -/
def allBelow : Nat → (Nat → Bool) → Bool
  | 0, _ => true
  | n+1, f => allBelow n f && f n

/-! ## has_flonum / struct_in_regs -/

mutual
/-- `has_flonum(ty, lo, hi, offset)`: every scalar of `ty` that *starts* in `[lo, hi)` is float or double -/
def hasFlonum : ATy → (lo hi off : Nat) → Bool
  | .agg _ _ _ ms, lo, hi, off => hasFlonumMs ms lo hi off
  | .arr e n, lo, hi, off => allBelow n (fun i => hasFlonum e lo hi (off + e.size * i))
  | .int _ _ _, lo, hi, off => decide (off < lo) || decide (hi ≤ off)
  | .ldbl, lo, hi, off => decide (off < lo) || decide (hi ≤ off)
  | .flt, _, _, _ => true
  | .dbl, _, _, _ => true
def hasFlonumMs : Members → (lo hi off : Nat) → Bool
  | .nil, _, _, _ => true
  | .cons o t r, lo, hi, off => hasFlonum t lo hi (off + o) && hasFlonumMs r lo hi off
end

def hasFlonum1 (ty : ATy) : Bool := hasFlonum ty 0 8 0
def hasFlonum2 (ty : ATy) : Bool := hasFlonum ty 8 16 0

def b2n (b : Bool) : Nat := if b then 1 else 0

/-- `struct_in_regs(ty, gp, fp, &ngp, &nfp)`: (result, ngp, nfp).  A GNU empty struct (`ty->size == 0`) occupies no
    register and no stack slot. -/
def structInRegs (ty : ATy) (gp fp : Nat) : Bool × Nat × Nat :=
  if ty.size = 0 then (true, 0, 0) else
  let fp1 := hasFlonum1 ty
  let nfp := b2n fp1
  let ngp := b2n (!fp1)
  let fp2 := hasFlonum2 ty
  let nfp := if ty.size > 8 then nfp + b2n fp2 else nfp
  let ngp := if ty.size > 8 then ngp + b2n (!fp2) else ngp
  ((nfp == 0 || decide (fp + nfp ≤ FP_MAX)) && (ngp == 0 || decide (gp + ngp ≤ GP_MAX)), ngp, nfp)

/-! ## signatures, locations -/

structure Sig where
  ret : Option ATy          -- `none` = void
  params : List ATy         -- argument types at the call: named parameters, then the variadic arguments
  nNamed : Nat              -- number of named parameters (= params.length for a fixed signature)
  variadic : Bool

def Sig.named (s : Sig) : List ATy := s.params.take s.nNamed

/-- `node->ret_buffer && node->ty->size > 16` (caller) = `rty is struct/union && rty->size > 16` (parse.c `function`) -/
def retLarge : Option ATy → Bool
  | some t => t.isAgg && decide (t.size > 16)
  | none => false

inductive Reg where
  | gp (n : Nat)      -- n-th of rdi, rsi, rdx, rcx, r8, r9
  | sse (n : Nat)     -- xmm n
  deriving DecidableEq, Repr

inductive ArgLoc where
  | regs (pieces : List Reg)   -- one register per eightbyte, in order
  | stack (off : Nat)          -- byte offset from rsp at the `call` instruction (= from rbp+16 in the callee)
  deriving DecidableEq, Repr

inductive Abort where
  | stackImbalance      -- what the second pass pushes for an argument is not what the pop phase pops: `assert(depth == 0)`
  | regIndex            -- `argreg64[r]` with r ≥ 6
  | storeSize           -- `store_fp` with a size other than 4 and 8: `unreachable()`
  | assertSize          -- `assert(ty->size == 4 || 8 <= ty->size)` / `assert(ty->size == 12 || ty->size == 16)` / `assert(ty->size <= 16)`
  deriving DecidableEq, Repr

/-! ## caller: push_args -/

/-- one trip through the classification loop of `push_args`.  State (gp, fp, stack); result: `pass_by_stack` -/
def classifyStep (st : Nat × Nat × Nat) (ty : ATy) : (Nat × Nat × Nat) × Bool :=
  let (gp, fp, stack) := st
  match ty with
  | .agg .. =>
    if ty.size > 16 then ((gp, fp, stack + alignTo ty.size 8 / 8), true)
    else
      let (ok, ngp, nfp) := structInRegs ty gp fp
      if ok then ((gp + ngp, fp + nfp, stack), false)
      else ((gp, fp, stack + alignTo ty.size 8 / 8), true)
  | .flt | .dbl =>
    if fp ≥ FP_MAX then ((gp, fp + 1, stack + 1), true) else ((gp, fp + 1, stack), false)
  | .ldbl => ((gp, fp, stack + 2), true)
  | _ =>
    if gp ≥ GP_MAX then ((gp + 1, fp, stack + 1), true) else ((gp + 1, fp, stack), false)

def classifyLoop : (Nat × Nat × Nat) → List ATy → (Nat × Nat × Nat) × List Bool
  | st, [] => (st, [])
  | st, t :: ts =>
    let (st', f) := classifyStep st t
    let (st'', fs) := classifyLoop st' ts
    (st'', f :: fs)

/-- `push_args` up to the padding decision: (`stack` before padding, `pass_by_stack` flags) -/
def classifyArgs (large : Bool) (args : List ATy) : Nat × List Bool :=
  let r := classifyLoop (b2n large, 0, 0) args
  (r.1.2.2, r.2)

/-- slots (8 bytes each) that `push_args2` pushes for one argument -/
def pushSlots : ATy → Nat
  | .agg _ s _ _ => alignTo s 8 / 8        -- push_struct: sub $align_to(size, 8); depth += sz / 8
  | .flt => 1                              -- pushf
  | .dbl => 1
  | .ldbl => 2                             -- sub $16; fstpt; depth += 2
  | _ => 1                                 -- push

inductive Pop where
  | gp (n : Nat)     -- pop(argreg64[n])
  | fp (n : Nat)     -- popf(n)
  deriving DecidableEq, Repr

/-- one trip through the pop loop of `ND_FUNCALL`.  State (gp, fp) -/
def popStep (st : Nat × Nat) (ty : ATy) : (Nat × Nat) × List Pop :=
  let (gp, fp) := st
  match ty with
  | .agg .. =>
    if ty.size > 16 ∨ ty.size = 0 then (st, [])        -- `if (ty->size > 16 || ty->size == 0) continue;`
    else
      let (ok, _, _) := structInRegs ty gp fp
      if ok then
        let p1 := if hasFlonum1 ty then Pop.fp fp else Pop.gp gp
        let gp1 := if hasFlonum1 ty then gp else gp + 1
        let fp1 := if hasFlonum1 ty then fp + 1 else fp
        if ty.size > 8 then
          let p2 := if hasFlonum2 ty then Pop.fp fp1 else Pop.gp gp1
          let gp2 := if hasFlonum2 ty then gp1 else gp1 + 1
          let fp2 := if hasFlonum2 ty then fp1 + 1 else fp1
          ((gp2, fp2), [p1, p2])
        else ((gp1, fp1), [p1])
      else (st, [])
  | .flt | .dbl => if fp < FP_MAX then ((gp, fp + 1), [Pop.fp fp]) else (st, [])
  | .ldbl => (st, [])
  | _ => if gp < GP_MAX then ((gp + 1, fp), [Pop.gp gp]) else (st, [])

def popLoop : (Nat × Nat) → List ATy → (Nat × Nat) × List (List Pop)
  | st, [] => (st, [])
  | st, t :: ts =>
    let (st', p) := popStep st t
    let (st'', ps) := popLoop st' ts
    (st'', p :: ps)

/-- the pop phase: final (gp, fp) and the pops of each argument (the hidden pointer is popped first into rdi) -/
def popPhase (large : Bool) (args : List ATy) : (Nat × Nat) × List (List Pop) :=
  popLoop (b2n large, 0) args

def Pop.reg : Pop → Reg
  | .gp n => .gp n
  | .fp n => .sse n

/-- byte offsets of the stack arguments.  The first pass pushes the `pass_by_stack` arguments right to left, so
    at the call the leftmost is at (%rsp), each following one above the slots of those to its left. -/
def stackOffsets : Nat → List ATy → List Bool → List (Option Nat)
  | _, [], _ => []
  | _, _, [] => []
  | off, t :: ts, f :: fs =>
    if f then some off :: stackOffsets (off + 8 * pushSlots t) ts fs
    else none :: stackOffsets off ts fs

def combineCaller : List ATy → List (Option Nat) → List (List Pop) → Except Abort (List ArgLoc)
  | [], _, _ => .ok []
  | t :: ts, some off :: os, p :: ps =>
    if p.isEmpty then (combineCaller ts os ps).map (ArgLoc.stack off :: ·)
    else .error .stackImbalance          -- pushed in the first pass, popped as well
  | t :: ts, none :: os, p :: ps =>
    if p.length = pushSlots t then (combineCaller ts os ps).map (ArgLoc.regs (p.map Pop.reg) :: ·)
    else .error .stackImbalance          -- second pass pushed `pushSlots t` slots, the pop phase takes `p.length`
  | _ :: _, _, _ => .error .stackImbalance

/-- where every argument is when `call *%r10` executes -/
def callerAssign (s : Sig) : Except Abort (List ArgLoc) :=
  let large := retLarge s.ret
  let (_, flags) := classifyArgs large s.params
  combineCaller s.params (stackOffsets 0 s.params flags) (popPhase large s.params).2

/-- `mov $fp, %rax` -/
def callerAl (s : Sig) : Nat := (popPhase (retLarge s.ret) s.params).1.2

/-- the padding decision `(depth + stack) % 2 == 1` -/
def padSlots (depth stack : Nat) : Nat := if (depth + stack) % 2 = 1 then 1 else 0

/-- `push_args`' return value: the slots removed by `add $8*stack, %rsp` -/
def stackArgs (depth : Nat) (s : Sig) : Nat :=
  let st := (classifyArgs (retLarge s.ret) s.params).1
  st + padSlots depth st

/-- slots pushed by the first pass of `push_args2` (arguments with `pass_by_stack`) -/
def firstPassSlots : List ATy → List Bool → Nat
  | t :: ts, f :: fs => (if f then pushSlots t else 0) + firstPassSlots ts fs
  | _, _ => 0

/-- slots pushed by the second pass -/
def secondPassSlots : List ATy → List Bool → Nat
  | t :: ts, f :: fs => (if f then 0 else pushSlots t) + secondPassSlots ts fs
  | _, _ => 0

def popCount (ps : List (List Pop)) : Nat := (ps.map List.length).sum

/-- `depth` (machine-stack slots above the frame) at the `call` instruction -/
def depthAtCall (depth : Nat) (s : Sig) : Int :=
  let large := retLarge s.ret
  let (st, flags) := classifyArgs large s.params
  (depth : Int) + padSlots depth st + firstPassSlots s.params flags + secondPassSlots s.params flags + b2n large
    - (b2n large + popCount (popPhase large s.params).2)

/-- `depth` after `add $8*stack_args, %rsp; depth -= stack_args` -/
def depthAfterCall (depth : Nat) (s : Sig) : Int := depthAtCall depth s - stackArgs depth s

/-- rsp at the `call` instruction, for a function entered with `entry`, a frame of `stackSize` bytes
    (prologue: push %rbp; sub $stack_size, %rsp) and `depth` slots pushed by enclosing expressions -/
def rspAtCall (entry : Int) (stackSize depth : Nat) (s : Sig) : Int :=
  entry - 8 - stackSize - 8 * depthAtCall depth s

/-! ## callee: assign_lvar_offsets and the prologue -/

/-- `function()` in parse.c: the hidden pointer is the first parameter -/
def calleeParams (s : Sig) : List ATy :=
  (if retLarge s.ret then [ATy.int 8 true false] else []) ++ s.named

/-- first loop of `assign_lvar_offsets`.  State (gp, fp, top); result: `some offset` (rbp-relative) for a stack parameter -/
def offsetStep (st : Nat × Nat × Nat) (ty : ATy) : (Nat × Nat × Nat) × Option Nat :=
  let (gp, fp, top) := st
  let onStack (gp fp : Nat) : (Nat × Nat × Nat) × Option Nat :=
    let top' := alignTo top 8
    ((gp, fp, top' + ty.size), some top')
  match ty with
  | .agg .. =>
    if ty.size ≤ 16 then
      let (ok, ngp, nfp) := structInRegs ty gp fp
      if ok then ((gp + ngp, fp + nfp, top), none) else onStack gp fp
    else onStack gp fp
  | .flt | .dbl => if fp < FP_MAX then ((gp, fp + 1, top), none) else onStack gp (fp + 1)
  | .ldbl => onStack gp fp
  | _ => if gp < GP_MAX then ((gp + 1, fp, top), none) else onStack (gp + 1) fp

def offsetLoop : (Nat × Nat × Nat) → List ATy → (Nat × Nat × Nat) × List (Option Nat)
  | st, [] => (st, [])
  | st, t :: ts =>
    let (st', o) := offsetStep st t
    let (st'', os) := offsetLoop st' ts
    (st'', o :: os)

/-- `var->offset` of the stack parameters (`none`: assigned later, below rbp) -/
def calleeOffsets (params : List ATy) : List (Option Nat) := (offsetLoop (0, 0, 16) params).2

inductive Store where
  | gp (r : Nat) (rel size : Nat)     -- store_gp(r, var->offset + rel, size)
  | fp (r : Nat) (rel size : Nat)     -- store_fp(r, var->offset + rel, size)
  deriving DecidableEq, Repr

def storeFp (r rel sz : Nat) : Except Abort Store :=
  if sz = 4 ∨ sz = 8 then .ok (.fp r rel sz) else .error .storeSize
def storeGp (r rel sz : Nat) : Except Abort Store :=
  if r < 6 then .ok (.gp r rel sz) else .error .regIndex

/-- one trip through the store loop of `emit_text` for a parameter with `var->offset <= 0`.  State (gp, fp) -/
def storeStep (st : Nat × Nat) (ty : ATy) : Except Abort ((Nat × Nat) × List Store) :=
  let (gp, fp) := st
  match ty with
  | .agg .. =>
    if ty.size ≤ 16 then
     if ty.size = 0 then pure ((gp, fp), []) else do        -- `if (ty->size == 0) break;`
      let s1 ← if hasFlonum ty 0 8 0 then storeFp fp 0 (min 8 ty.size) else storeGp gp 0 (min 8 ty.size)
      let gp1 := if hasFlonum ty 0 8 0 then gp else gp + 1
      let fp1 := if hasFlonum ty 0 8 0 then fp + 1 else fp
      if ty.size > 8 then do
        let s2 ← if hasFlonum ty 8 16 0 then storeFp fp1 8 (ty.size - 8) else storeGp gp1 8 (ty.size - 8)
        let gp2 := if hasFlonum ty 8 16 0 then gp1 else gp1 + 1
        let fp2 := if hasFlonum ty 8 16 0 then fp1 + 1 else fp1
        pure ((gp2, fp2), [s1, s2])
      else pure ((gp1, fp1), [s1])
    else .error .assertSize
  | .flt | .dbl => do
    let s ← storeFp fp 0 ty.size
    pure ((gp, fp + 1), [s])
  | _ => do
    let s ← storeGp gp 0 ty.size
    pure ((gp + 1, fp), [s])

def storeLoop : (Nat × Nat) → List ATy → List (Option Nat) → Except Abort (List (List Store))
  | _, [], _ => .ok []
  | _, _ :: _, [] => .ok []
  | st, t :: ts, o :: os =>
    match o with
    | some _ => (storeLoop st ts os).map ([] :: ·)        -- `if (var->offset > 0) continue;`
    | none => do
      let (st', ss) ← storeStep st t
      let rest ← storeLoop st' ts os
      pure (ss :: rest)

/-- the stores of the prologue, per parameter (hidden pointer first) -/
def prologueStores (s : Sig) : Except Abort (List (List Store)) :=
  storeLoop (0, 0) (calleeParams s) (calleeOffsets (calleeParams s))

def Store.reg : Store → Reg
  | .gp r _ _ => .gp r
  | .fp r _ _ => .sse r

def combineCallee : List (Option Nat) → List (List Store) → List ArgLoc
  | some off :: os, _ :: ss => ArgLoc.stack (off - 16) :: combineCallee os ss
  | none :: os, st :: ss => ArgLoc.regs (st.map Store.reg) :: combineCallee os ss
  | _, _ => []

/-- where the callee takes each named parameter from (the hidden pointer is not listed) -/
def calleeAssign (s : Sig) : Except Abort (List ArgLoc) := do
  let stores ← prologueStores s
  let all := combineCallee (calleeOffsets (calleeParams s)) stores
  pure (if retLarge s.ret then all.drop 1 else all)

/-- where the callee takes the hidden pointer from -/
def calleeHidden (s : Sig) : Except Abort (Option ArgLoc) := do
  let stores ← prologueStores s
  let all := combineCallee (calleeOffsets (calleeParams s)) stores
  pure (if retLarge s.ret then all.head? else none)

/-! ## return values -/

inductive RetReg where
  | rax | rdx | xmm0 | xmm1 | st0
  deriving DecidableEq, Repr

inductive RetLoc where
  | void
  | regs (rs : List RetReg)           -- one per eightbyte (scalars: one)
  | memory (raxIsBuffer : Bool)       -- through the hidden pointer; the flag: rax = that pointer on return (callee) /
                                      -- the caller takes the result from the address in rax (caller)
  deriving DecidableEq, Repr

/-- register pieces of a struct/union of at most 16 bytes: `copy_struct_reg` (callee) and `copy_ret_buffer` (caller)
    are the same ladder; both transcribed, see `retPiecesCaller` -/
def retPiecesCallee (ty : ATy) : Except Abort (List RetReg) :=
  if ty.size = 0 then pure [] else do          -- a GNU empty struct is returned in no register
  -- first eightbyte
  let first ← if hasFlonum ty 0 8 0 then
      (if ty.size = 4 ∨ 8 ≤ ty.size then pure RetReg.xmm0 else throw Abort.assertSize)
    else pure RetReg.rax
  let gp := if hasFlonum ty 0 8 0 then 0 else 1
  let fp := if hasFlonum ty 0 8 0 then 1 else 0
  if ty.size > 8 then
    if hasFlonum ty 8 16 0 then
      if ty.size = 12 ∨ ty.size = 16 then pure [first, if fp = 0 then RetReg.xmm0 else RetReg.xmm1]
      else throw Abort.assertSize
    else pure [first, if gp = 0 then RetReg.rax else RetReg.rdx]
  else pure [first]

def retPiecesCaller (ty : ATy) : Except Abort (List RetReg) :=
  if ty.size = 0 then pure [] else do
  let first ← if hasFlonum1 ty then
      (if ty.size = 4 ∨ 8 ≤ ty.size then pure RetReg.xmm0 else throw Abort.assertSize)
    else pure RetReg.rax
  let gp := if hasFlonum1 ty then 0 else 1
  let fp := if hasFlonum1 ty then 1 else 0
  if ty.size > 8 then
    if hasFlonum2 ty then
      if ty.size = 12 ∨ ty.size = 16 then pure [first, if fp = 0 then RetReg.xmm0 else RetReg.xmm1]
      else throw Abort.assertSize
    else pure [first, if gp = 0 then RetReg.rax else RetReg.rdx]
  else pure [first]

/-- `ND_RETURN`: where the callee leaves the value -/
def retCallee : Option ATy → Except Abort RetLoc
  | none => .ok .void
  | some ty =>
    match ty with
    | .agg .. =>
      if ty.size ≤ 16 then (retPiecesCallee ty).map RetLoc.regs
      else .ok (.memory true)     -- copy_struct_mem: bytes copied through the hidden pointer, then `mov %rdi, %rax`
    | .flt | .dbl => .ok (.regs [.xmm0])
    | .ldbl => .ok (.regs [.st0])
    | _ => .ok (.regs [.rax])

/-- after `call`: where the caller takes the value from -/
def retCaller : Option ATy → Except Abort RetLoc
  | none => .ok .void
  | some ty =>
    match ty with
    | .agg .. =>
      if ty.size ≤ 16 then (retPiecesCaller ty).map RetLoc.regs     -- copy_ret_buffer
      else .ok (.memory true)     -- the value of the call expression is the address in rax
    | .flt | .dbl => .ok (.regs [.xmm0])
    | .ldbl => .ok (.regs [.st0])
    | _ => .ok (.regs [.rax])

/-- the instruction that normalises a narrow return value in the caller (`none`: no instruction) -/
def retNormalise : Option ATy → Option String
  | some (.int 1 _ true) => some "movzx %al, %eax"
  | some (.int 1 true false) => some "movzbl %al, %eax"
  | some (.int 1 false false) => some "movsbl %al, %eax"
  | some (.int 2 true false) => some "movzwl %ax, %eax"
  | some (.int 2 false false) => some "movswl %ax, %eax"
  | _ => none

/-! ## variadic functions: va_area and the va_arg walkers -/

/-- `va_elem` as the prologue initialises it; `overflow` is the byte offset of overflow_arg_area from rbp+16 -/
structure VaState where
  gpOffset : Nat
  fpOffset : Nat
  overflow : Nat
  deriving DecidableEq, Repr

/-- one trip through the counting loop of the variadic prologue.  State (gp, fp, overflow); `o` = `var->offset` if positive -/
def vaCountStep (st : Nat × Nat × Nat) (ty : ATy) (o : Option Nat) : Nat × Nat × Nat :=
  let (gp, fp, overflow) := st
  match o with
  | some off => (gp, fp, max overflow (alignTo (off + ty.size) 8))
  | none =>
    match ty with
    | .agg .. => let (_, ngp, nfp) := structInRegs ty gp fp; (gp + ngp, fp + nfp, overflow)
    | .flt | .dbl => (gp, fp + 1, overflow)
    | _ => (gp + 1, fp, overflow)

def vaCountLoop : (Nat × Nat × Nat) → List ATy → List (Option Nat) → Nat × Nat × Nat
  | st, t :: ts, o :: os => vaCountLoop (vaCountStep st t o) ts os
  | st, _, _ => st

/-- `movl $gp*8` / `movl $fp*16+48` / `addq $overflow` -/
def vaInit (s : Sig) : VaState :=
  let (gp, fp, overflow) := vaCountLoop (0, 0, 16) (calleeParams s) (calleeOffsets (calleeParams s))
  { gpOffset := gp * 8, fpOffset := fp * 16 + 48, overflow := overflow - 16 }

/-- where one `va_arg` reads from -/
inductive VaLoc where
  | saveArea (off : Nat)      -- reg_save_area + off  (0..40: rdi..r9; 48 + 16*i: xmm i, as the prologue stores them)
  | overflow (off : Nat)      -- byte offset from rbp+16
  deriving DecidableEq, Repr

/-- `__builtin_reg_class`: 0 integer/pointer, 1 float/double, 2 otherwise (long double, struct, union) -/
def regClass : ATy → Nat
  | .int .. => 0
  | .flt | .dbl => 1
  | _ => 2

/-- `__va_arg_mem` -/
def vaArgMem (st : VaState) (sz align : Nat) : VaState × VaLoc :=
  let p := if align > 8 then (st.overflow + 15) / 16 * 16 else st.overflow
  ({ st with overflow := (p + sz + 7) / 8 * 8 }, .overflow p)

/-- one `va_arg(ap, ty)`: `__va_arg_gp` / `__va_arg_fp` / `__va_arg_mem` by `__builtin_reg_class` -/
def vaArg (st : VaState) (ty : ATy) : VaState × VaLoc :=
  match regClass ty with
  | 0 => if st.gpOffset ≥ 48 then vaArgMem st ty.size ty.align
         else ({ st with gpOffset := st.gpOffset + 8 }, .saveArea st.gpOffset)
  | 1 => if st.fpOffset ≥ 176 then vaArgMem st ty.size ty.align
         else ({ st with fpOffset := st.fpOffset + 16 }, .saveArea st.fpOffset)
  | _ => vaArgMem st ty.size ty.align

def vaWalk : VaState → List ATy → List VaLoc
  | _, [] => []
  | st, t :: ts => (vaArg st t).2 :: vaWalk (vaArg st t).1 ts

/-- where the k-th `va_arg` of the callee reads, for the variadic arguments of `s` -/
def calleeVa (s : Sig) : List VaLoc := vaWalk (vaInit s) (s.params.drop s.nNamed)

/-- a location chosen by the caller, seen from the callee: the prologue copies rdi..r9 to save-area offsets 0..40 and
    xmm0..7 to 48, 64, ..; the stack bytes above the return address are the overflow area.  Arguments spread over
    two registers have no single `VaLoc`. -/
def ArgLoc.asVa : ArgLoc → Option VaLoc
  | .regs [.gp n] => some (.saveArea (8 * n))
  | .regs [.sse n] => some (.saveArea (48 + 16 * n))
  | .stack off => some (.overflow off)
  | _ => none

/-! ## emitted text (for the asm-text tie): the lines `chibicc -S` prints for a call and for a function's entry/return -/

open ChibiVerif.Gen.Templates (argreg8 argreg16 argreg32 argreg64)

def regName (tbl : List String) (r : Nat) : String := tbl.getD r "?"

def countUp (n : Nat) : List Nat := List.range n
def countDown (hi lo : Nat) : List Nat := ((List.range (hi - lo)).map (· + lo)).reverse   -- hi-1, .., lo

/-- second loop of `assign_lvar_offsets`: `(size, align)` of the locals without an offset, in list order → offsets, stack_size -/
def lvarOffsets : Nat → List (Nat × Nat) → List Int
  | _, [] => []
  | bottom, (sz, al) :: rest =>
    let b := alignTo (bottom + sz) al
    (-(b : Int)) :: lvarOffsets b rest

def lvarBottom : Nat → List (Nat × Nat) → Nat
  | bottom, [] => bottom
  | bottom, (sz, al) :: rest => lvarBottom (alignTo (bottom + sz) al) rest

/-- push_args2 for one argument, after `gen_expr` left the value in rax / xmm0 / st0 -/
def pushLines : ATy → List String
  | .agg _ sz _ _ =>
    s!"  sub ${alignTo sz 8}, %rsp" ::
      (countUp sz).flatMap (fun (i : Nat) => [s!"  mov {i}(%rax), %r10b", s!"  mov %r10b, {i}(%rsp)"])
  | .flt | .dbl => ["  sub $8, %rsp", "  movsd %xmm0, (%rsp)"]
  | .ldbl => ["  sub $16, %rsp", "  fstpt (%rsp)"]
  | _ => ["  push %rax"]

def popLines : Pop → List String
  | .gp n => [s!"  pop {regName argreg64 n}"]
  | .fp n => [s!"  movsd (%rsp), %xmm{n}", "  add $8, %rsp"]

def selectRev : List ATy → List Bool → Bool → List ATy
  | t :: ts, f :: fs, want => selectRev ts fs want ++ (if f == want then [t] else [])
  | _, _, _ => []

/-- the register moves and memory accesses of `copy_struct_reg` (callee) and `copy_ret_buffer` (caller), structured: what is
    loaded from / stored to which byte offset of the returned object.  The text functions below are their rendering. -/
inductive RetOp where
  | saveAddr                                          -- `mov %rax, %rdi`
  | fpLoad (width off xmm : Nat)                      -- `movss` / `movsd off(%rdi), %xmmN`: `width` (4 / 8) bytes at `off`
  | zero (reg2 : String)                              -- `mov $0, reg2`
  | byteLoad (off : Nat) (reg1 reg2 : String)         -- `shl $8, reg2; mov off(%rdi), reg1`: one byte at `off`
  | fpStore (width xmm off : Nat)                     -- `movss` / `movsd %xmmN, (base+off)(%rbp)`
  | byteStore (off : Nat) (reg1 reg2 : String)        -- `mov reg1, (base+off)(%rbp); shr $8, reg2`
  deriving DecidableEq, Repr

/-- the byte offsets of the object an operation reads or writes -/
def RetOp.bytes : RetOp → List Nat
  | .fpLoad w off _ => (List.range w).map (· + off)
  | .byteLoad off _ _ => [off]
  | .fpStore w _ off => (List.range w).map (· + off)
  | .byteStore off _ _ => [off]
  | _ => []

/-- the lines an operation prints; `base` = `var->offset` of the return buffer (stores only) -/
def RetOp.lines (base : Int) : RetOp → List String
  | .saveAddr => ["  mov %rax, %rdi"]
  | .fpLoad w off n =>
    [(if w = 4 then "  movss " else "  movsd ") ++ (if off = 0 then "" else toString off) ++ s!"(%rdi), %xmm{n}"]
  | .zero r => [s!"  mov $0, {r}"]
  | .byteLoad i r1 r2 => [s!"  shl $8, {r2}", s!"  mov {i}(%rdi), {r1}"]
  | .fpStore w n off => [(if w = 4 then "  movss " else "  movsd ") ++ s!"%xmm{n}, {base + off}(%rbp)"]
  | .byteStore i r1 r2 => [s!"  mov {r1}, {base + i}(%rbp)", s!"  shr $8, {r2}"]

/-- `copy_ret_buffer(var)`: the stores into the return buffer -/
def copyRetBufferOps (ty : ATy) : List RetOp :=
  let sz := ty.size
  if sz = 0 then [] else
  let first :=
    if hasFlonum1 ty then [RetOp.fpStore (if sz = 4 then 4 else 8) 0 0]
    else (countUp (min 8 sz)).map (fun (i : Nat) => RetOp.byteStore i "%al" "%rax")
  let gp := if hasFlonum1 ty then 0 else 1
  let fp := if hasFlonum1 ty then 1 else 0
  let second :=
    if sz > 8 then
      if hasFlonum2 ty then [RetOp.fpStore (if sz = 12 then 4 else 8) fp 8]
      else
        let reg1 := if gp = 0 then "%al" else "%dl"
        let reg2 := if gp = 0 then "%rax" else "%rdx"
        ((countUp (min 16 sz)).filter (· ≥ 8)).map (fun (i : Nat) => RetOp.byteStore i reg1 reg2)
    else []
  first ++ second

/-- `copy_ret_buffer(var)` with `var->offset = off` -/
def copyRetBufferLines (ty : ATy) (off : Int) : List String := (copyRetBufferOps ty).flatMap (RetOp.lines off)

/-- the lines of one `ND_FUNCALL` that manipulate the stack and the argument registers (argument evaluation itself,
    `gen_expr(node->lhs)` and `.loc` lines left out).  `retOff` = `node->ret_buffer->offset`. -/
def callLines (depth : Nat) (s : Sig) (retOff : Int) : List String :=
  let large := retLarge s.ret
  let (st, flags) := classifyArgs large s.params
  let pad := padSlots depth st
  let pops := (popPhase large s.params).2
  (if pad = 1 then ["  sub $8, %rsp"] else [])
  ++ (selectRev s.params flags true).flatMap pushLines
  ++ (selectRev s.params flags false).flatMap pushLines
  ++ (if large then [s!"  lea {retOff}(%rbp), %rax", "  push %rax", "  pop %rdi"] else [])
  ++ (pops.flatMap (fun ps => ps.flatMap popLines))
  ++ ["  mov %rax, %r10", s!"  mov ${callerAl s}, %rax", "  call *%r10", s!"  add ${(st + pad) * 8}, %rsp"]
  ++ (match retNormalise s.ret with
      | some l => ["  " ++ l]
      | none =>
        match s.ret with
        | some ty => if ty.isAgg && decide (ty.size ≤ 16) then copyRetBufferLines ty retOff ++ [s!"  lea {retOff}(%rbp), %rax"] else []
        | none => [])

def storeLines (off : Int) : Store → List String
  | .fp r rel sz => [if sz = 4 then s!"  movss %xmm{r}, {off + rel}(%rbp)" else s!"  movsd %xmm{r}, {off + rel}(%rbp)"]
  | .gp r rel sz =>
    if sz = 1 then [s!"  mov {regName argreg8 r}, {off + rel}(%rbp)"]
    else if sz = 2 then [s!"  mov {regName argreg16 r}, {off + rel}(%rbp)"]
    else if sz = 4 then [s!"  mov {regName argreg32 r}, {off + rel}(%rbp)"]
    else if sz = 8 then [s!"  mov {regName argreg64 r}, {off + rel}(%rbp)"]
    else (countUp sz).flatMap (fun (i : Nat) => [s!"  mov {regName argreg8 r}, {off + rel + i}(%rbp)", s!"  shr $8, {regName argreg64 r}"])

/-- offsets of the callee's locals when its body declares none: `fn->locals` = __alloca_size__, __va_area__ (if variadic),
    hidden pointer (if any), parameters.  Result: (alloca offset, va_area offset, offsets of `calleeParams`, stack_size) -/
def calleeFrame (s : Sig) : Int × Int × List Int × Nat :=
  let ps := calleeParams s
  let offs := calleeOffsets ps
  let regParams := (ps.zip offs).filter (fun (_, o) => o.isNone) |>.map (fun (t, _) => (t.size, t.align))
  let locals := [(8, 8)] ++ (if s.variadic then [(200, 16)] else []) ++ regParams
  let lo := lvarOffsets 0 locals
  let alloca := lo.getD 0 0
  let va := if s.variadic then lo.getD 1 0 else 0
  let regOffs := lo.drop (if s.variadic then 2 else 1)
  let rec merge : List (Option Nat) → List Int → List Int
    | some o :: os, rs => (o : Int) :: merge os rs
    | none :: os, r :: rs => r :: merge os rs
    | _, _ => []
  (alloca, va, merge offs regOffs, alignTo (lvarBottom 0 locals) 16)

def vaLines (s : Sig) (off : Int) : List String :=
  let v := vaInit s
  [s!"  movl ${v.gpOffset}, {off}(%rbp)", s!"  movl ${v.fpOffset}, {off + 4}(%rbp)",
   s!"  movq %rbp, {off + 8}(%rbp)", s!"  addq ${v.overflow + 16}, {off + 8}(%rbp)",
   s!"  movq %rbp, {off + 16}(%rbp)", s!"  addq ${off + 24}, {off + 16}(%rbp)"]
  ++ ((countUp 6).map (fun (i : Nat) => s!"  movq {regName argreg64 i}, {off + 24 + 8 * i}(%rbp)"))
  ++ ((countUp 8).map (fun (i : Nat) => s!"  movsd %xmm{i}, {off + 72 + 16 * i}(%rbp)"))

/-- the prologue of `emit_text` -/
def prologueLines (s : Sig) : Except Abort (List String) := do
  let (alloca, va, poffs, stackSize) := calleeFrame s
  let stores ← prologueStores s
  pure (["  push %rbp", "  mov %rsp, %rbp", s!"  sub ${stackSize}, %rsp", s!"  mov %rsp, {alloca}(%rbp)"]
    ++ (if s.variadic then vaLines s va else [])
    ++ ((stores.zip poffs).flatMap (fun (ss, o) => ss.flatMap (storeLines o))))

/-- `var->offset` of the named parameters (what `&p` prints as `lea N(%rbp), %rax`) -/
def paramOffsets (s : Sig) : List Int :=
  let (_, _, poffs, _) := calleeFrame s
  if retLarge s.ret then poffs.drop 1 else poffs

/-- `copy_struct_reg()`: the loads from the returned object (its address is in %rax) -/
def copyStructRegOps (ty : ATy) : List RetOp :=
  let sz := ty.size
  if sz = 0 then [] else
  let first :=
    if hasFlonum ty 0 8 0 then [RetOp.fpLoad (if sz = 4 then 4 else 8) 0 0]
    else RetOp.zero "%rax" :: (countDown (min 8 sz) 0).map (fun (i : Nat) => RetOp.byteLoad i "%al" "%rax")
  let gp := if hasFlonum ty 0 8 0 then 0 else 1
  let fp := if hasFlonum ty 0 8 0 then 1 else 0
  let second :=
    if sz > 8 then
      if hasFlonum ty 8 16 0 then [RetOp.fpLoad (if sz = 12 then 4 else 8) 8 fp]      -- /repo 7826748 (was `sz = 4`)
      else
        let reg1 := if gp = 0 then "%al" else "%dl"
        let reg2 := if gp = 0 then "%rax" else "%rdx"
        RetOp.zero reg2 :: (countDown (min 16 sz) 8).map (fun (i : Nat) => RetOp.byteLoad i reg1 reg2)
    else []
  RetOp.saveAddr :: (first ++ second)

/-- `copy_struct_reg()` -/
def copyStructRegLines (ty : ATy) : List String := (copyStructRegOps ty).flatMap (RetOp.lines 0)

/-- the lines `ND_RETURN` adds after `gen_expr(node->lhs)` for a struct/union value -/
def returnLines (s : Sig) : List String :=
  match s.ret with
  | some ty =>
    if ty.isAgg then
      if ty.size ≤ 16 then copyStructRegLines ty
      else
        let (_, _, poffs, _) := calleeFrame s
        s!"  mov {poffs.getD 0 0}(%rbp), %rdi"
          :: (countUp ty.size).flatMap (fun (i : Nat) => [s!"  mov {i}(%rax), %dl", s!"  mov %dl, {i}(%rdi)"])
          ++ ["  mov %rdi, %rax"]
    else []
  | none => []

end ChibiVerif.CallConv
