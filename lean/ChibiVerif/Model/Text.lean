/-
Hand model of translation phases 1-2 as tokenize.c `tokenize_file` performs them on the bytes of a
source file: BOM skip, `canonicalize_newline`, `remove_backslash_newline`,
`convert_universal_chars` (the pinned source text is in tools/extract/literals.py).

A text is a `List Byte` without the NUL terminator; `p[i + 1]` at the last byte reads the
terminator (0).  Core Lean only.
-/
import ChibiVerif.Gen.LiteralsGen
import ChibiVerif.Model.Literals

namespace ChibiVerif.Text
open ChibiVerif.Gen.Literals
open ChibiVerif.Literals (Byte isXDigit fromHex)

def CR : Byte := 13#8
def LF : Byte := 10#8
def BSL : Byte := 92#8

/-- `if (!memcmp(p, "\xef\xbb\xbf", 3)) p += 3;` -/
def skipBOM : List Byte → List Byte
  | a :: b :: c :: rest => if a = 0xEF#8 ∧ b = 0xBB#8 ∧ c = 0xBF#8 then rest else a :: b :: c :: rest
  | l => l

/-- `canonicalize_newline`: "\r\n" and "\r" become "\n" -/
def canonicalizeNewline : List Byte → List Byte
  | [] => []
  | [a] => if a = CR then [LF] else [a]
  | a :: b :: rest =>
    if a = CR then
      if b = LF then LF :: canonicalizeNewline rest else LF :: canonicalizeNewline (b :: rest)
    else a :: canonicalizeNewline (b :: rest)

/-- `remove_backslash_newline`: `n` counts the removed newlines, re-emitted after the next newline (or at the end) -/
def removeBackslashNewlineAux : List Byte → Nat → List Byte
  | [], n => List.replicate n LF
  | [a], n => a :: List.replicate n LF
  | a :: b :: rest, n =>
    if a = BSL ∧ b = LF then removeBackslashNewlineAux rest (n + 1)
    else if a = LF then a :: (List.replicate n LF ++ removeBackslashNewlineAux (b :: rest) 0)
    else a :: removeBackslashNewlineAux (b :: rest) n

def removeBackslashNewline (p : List Byte) : List Byte := removeBackslashNewlineAux p 0

/-- `read_universal_char(p, len)`: 0 if one of the `len` bytes is not a hexadecimal digit (`uint32_t` arithmetic) -/
def readUniversalChar (p : List Byte) : Nat → BitVec 32 → BitVec 32
  | 0, c => c
  | len + 1, c =>
    match p with
    | [] => 0#32
    | b :: rest => if !isXDigit b then 0#32 else readUniversalChar rest len ((c <<< 4) ||| fromHex b)

/-- one iteration of the `while (*p)` loop of `convert_universal_chars` on a non-empty text:
    (bytes written through `q`, text remaining at `p`) -/
def ucnStep : List Byte → List Byte × List Byte
  | [] => ([], [])
  | a :: rest =>
    if a = BSL then
      match rest with
      | b :: rest' =>
        if b = 117#8 then                                   -- startswith(p, "\\u")
          let c := readUniversalChar rest' 4 0
          if c ≠ 0#32 ∧ c ≠ 10#32 then (encodeUtf8 c, rest'.drop 4) else ([a], rest)     -- `if (c && c != '\\n')`
        else if b = 85#8 then                               -- startswith(p, "\\U")
          let c := readUniversalChar rest' 8 0
          if c ≠ 0#32 ∧ c ≠ 10#32 then (encodeUtf8 c, rest'.drop 8) else ([a], rest)
        else ([a, b], rest')                                -- `*q++ = *p++; *q++ = *p++;`
      | [] => ([a], [])                                     -- (the C code would copy the terminator too; texts end in "\n")
    else ([a], rest)

/-- `convert_universal_chars`.  fuel: one unit per loop iteration; every iteration consumes at least one byte,
    so `p.length` suffices (`convertUniversalCharsAux_fuel` in Lemmas/TextLemmas.lean). -/
def convertUniversalCharsAux : Nat → List Byte → List Byte
  | 0, _ => []
  | _ + 1, [] => []
  | fuel + 1, a :: rest => (ucnStep (a :: rest)).1 ++ convertUniversalCharsAux fuel (ucnStep (a :: rest)).2

def convertUniversalChars (p : List Byte) : List Byte := convertUniversalCharsAux p.length p

/-- `read_file` guarantees a final newline -/
def ensureFinalNewline (p : List Byte) : List Byte :=
  match p.getLast? with
  | some b => if b = LF then p else p ++ [LF]
  | none => [LF]

/-- the text `tokenize()` sees for the bytes of a file (no NUL inside) -/
def phase12 (bytes : List Byte) : List Byte :=
  convertUniversalChars (removeBackslashNewline (canonicalizeNewline (skipBOM (ensureFinalNewline bytes))))

-- ------------------------------------------------------------------ vocabulary of the splice-transparency theorems

/-- the UTF-8 byte-order mark -/
def BOM : List Byte := [0xEF#8, 0xBB#8, 0xBF#8]

/-- what `tokenize_file` has done when `remove_backslash_newline` starts (translation phase 1): final newline
    (`read_file`), BOM skip, `canonicalize_newline` -/
def phase1 (bytes : List Byte) : List Byte :=
  canonicalizeNewline (skipBOM (ensureFinalNewline bytes))

/-- the first physical line of a text, without its newline -/
def firstLine (t : List Byte) : List Byte := t.takeWhile (· ≠ LF)

/-- the literal at the start of the text is complete on the first line: the line does not end in a backslash
    (`string_literal_end` steps over a newline that follows a backslash) and `read_char_literal`, which looks for the
    closing quote with `strchr`, finds it before the newline -/
def LiteralOnFirstLine (y : List Byte) : Prop :=
  (firstLine y).getLast? ≠ some BSL ∧
  ChibiVerif.Literals.lexLiteral (firstLine y ++ [LF]) ≠ .error .unclosedChar

instance (y : List Byte) : Decidable (LiteralOnFirstLine y) := by
  unfold LiteralOnFirstLine; infer_instance

end ChibiVerif.Text
