/-
Lvalue paths (property C04): how parse.c turns `.name`, `->name` and `[i]` into ND_MEMBER / ND_DEREF / ND_ADD nodes
and how codegen.c `gen_addr` / `gen_expr` compute addresses from them.

parse.c
  * `get_struct_member(ty, tok)`: first member (in declaration order) that is named `tok`, or is an anonymous
    struct/union in which `get_struct_member` finds `tok`; unnamed bit-fields are skipped.
  * `struct_ref(node, tok)`: `for (;;) { mem = get_struct_member(ty, tok); node = ND_MEMBER(node, mem);
    if (mem->name) break; ty = mem->ty; }` — one ND_MEMBER per anonymous level.
  * `postfix`: `x[y]` is `*(x + y)` through `new_add`; `x->y` is `(*x).y`.
  * `new_add(ptr, num)`: `ptr + num * sizeof(*ptr)`; if `*ptr` is a VLA the factor is the run-time value of the
    hidden local `vla_size` that `compute_vla_size` assigned (`vla_len * (base is VLA ? base.vla_size : base->size)`).
codegen.c
  * `gen_addr`: ND_VAR → the variable's address (VLA: the pointer stored in its slot), ND_MEMBER → gen_addr(lhs) +
    member->offset, ND_DEREF → gen_expr(lhs).
  * `gen_expr` of an lvalue node: gen_addr, then `load(ty)`, which is the identity for arrays, structs, unions and
    VLAs (the value *is* the address) and a memory read for pointers.

The shapes of the gen_addr arms are checked by the translator (tools/extract/c04gen.py); member offsets come from
`struct_decl` (C08's layout model and tie).  Core Lean only.
-/
namespace ChibiVerif.Lval

mutual
  inductive Ty where
    | scalar (size : Nat)
    | ptr (base : Ty)
    | arr (base : Ty) (len : Nat)
    /-- `vla_of(base, len)`: `len` is the run-time value of the length expression -/
    | vla (base : Ty) (len : Nat)
    /-- struct or union with the offsets struct_decl / union_decl assigned -/
    | agg (size : Nat) (ms : Members)
  inductive Members where
    | nil
    | cons (name : Option String) (offset : Nat) (ty : Ty) (rest : Members)
end

/-- C `sizeof` of an object of the type -/
def Ty.sizeof : Ty → Nat
  | .scalar s => s
  | .ptr _ => 8
  | .arr b n => b.sizeof * n
  | .vla b n => b.sizeof * n
  | .agg s _ => s

/-- chibicc's `ty->size` (a VLA has the size of the pointer that implements it) -/
def Ty.implSize : Ty → Nat
  | .scalar s => s
  | .ptr _ => 8
  | .arr b n => b.implSize * n
  | .vla _ _ => 8
  | .agg s _ => s

/-- the run-time value `compute_vla_size` stores into `ty->vla_size`:
    `vla_len * (ty->base->kind == TY_VLA ? base->vla_size : base->size)` -/
def Ty.vlaSizeVal : Ty → Nat
  | .vla b n => n * (match b with | .vla _ _ => b.vlaSizeVal | _ => b.implSize)
  | _ => 0

/- types the parser can build: `array_dimensions` turns an array whose element type is a VLA into a VLA, and
    members are never VLAs, so a VLA occurs only at the top, under another VLA or behind a pointer -/
mutual
  def Ty.noInlineVla : Ty → Bool
    | .scalar _ => true
    | .ptr _ => true
    | .arr b _ => b.noInlineVla
    | .vla _ _ => false
    | .agg _ ms => ms.noInlineVla
  def Members.noInlineVla : Members → Bool
    | .nil => true
    | .cons _ _ t r => t.noInlineVla && r.noInlineVla
end

def Ty.wf : Ty → Bool
  | .vla b _ => b.wf
  | t => t.noInlineVla

mutual
  /-- every type reachable through pointers, arrays, VLAs and members is one the parser can build -/
  def Ty.allWf : Ty → Bool
    | .scalar _ => true
    | .ptr b => b.wf && b.allWf
    | .arr b _ => b.wf && b.allWf
    | .vla b _ => b.wf && b.allWf
    | .agg _ ms => ms.allWf
  def Members.allWf : Members → Bool
    | .nil => true
    | .cons _ _ t r => t.wf && t.allWf && r.allWf
end

/-! ### member lookup -/

mutual
  /-- `get_struct_member(ty, tok) != NULL` -/
  def Ty.has : Ty → String → Bool
    | .agg _ ms, nm => ms.has nm
    | _, _ => false
  def Members.has : Members → String → Bool
    | .nil, _ => false
    | .cons none _ (.agg _ ms) rest, nm => ms.has nm || rest.has nm
    | .cons none _ _ rest, nm => rest.has nm
    | .cons (some n) _ _ rest, nm => n == nm || rest.has nm
end

structure Mem where
  name : Option String
  offset : Nat
  ty : Ty

/-- `get_struct_member`: the member of *this* aggregate the search stops at -/
def Members.get : Members → String → Option Mem
  | .nil, _ => none
  | .cons none off (.agg s ms) rest, nm => if ms.has nm then some ⟨none, off, .agg s ms⟩ else rest.get nm
  | .cons none _ _ rest, nm => rest.get nm
  | .cons (some n) off t rest, nm => if n == nm then some ⟨some n, off, t⟩ else rest.get nm

/-- specification: offset (from the start of the aggregate) and type of the member that `nm` designates, descending
    into anonymous structs/unions in declaration order — the sum of the offsets along the explicit path -/
def Members.locate : Members → String → Option (Nat × Ty)
  | .nil, _ => none
  | .cons none off (.agg _ ms) rest, nm =>
    match ms.locate nm with
    | some (o, t) => some (off + o, t)
    | none => rest.locate nm
  | .cons none _ _ rest, nm => rest.locate nm
  | .cons (some n) off t rest, nm => if n == nm then some (off, t) else rest.locate nm

/- nesting depth of anonymous aggregates (fuel for `struct_ref`'s loop) -/
mutual
  def Ty.depth : Ty → Nat
    | .agg _ ms => ms.depth + 1
    | _ => 0
  def Members.depth : Members → Nat
    | .nil => 0
    | .cons _ _ t r => max t.depth r.depth
end

/-! ### AST fragment and code generation -/

inductive Node where
  /-- ND_VAR of a non-VLA object: `lea off(%rbp)` / `lea sym(%rip)`; the address is supplied by the frame layout
      (`Model/Frame`) or the linker -/
  | var (addr : Int) (ty : Ty)
  /-- ND_VAR of VLA type: `mov off(%rbp), %rax` — the block's address is read from the variable's slot -/
  | vlaVar (slot : Int) (ty : Ty)
  | member (lhs : Node) (offset : Nat) (ty : Ty)
  | deref (lhs : Node) (ty : Ty)
  /-- `ND_ADD(lhs, ND_MUL(idx, scale))` as `new_add` builds it (`ND_SUB` for `new_sub` with a negated index) -/
  | add (lhs : Node) (idx : Int) (scale : Nat) (ty : Ty)

def Node.ty : Node → Ty
  | .var _ t | .vlaVar _ t | .member _ _ t | .deref _ t | .add _ _ _ t => t

inductive Fail where
  | notLvalue          -- error_tok "not an lvalue"
  | notStruct          -- "not a struct nor a union"
  | noSuchMember       -- "no such member"
  | invalidOperands    -- new_add on a non-pointer
  | fuel               -- struct_ref loop did not finish within the depth of the type (impossible: `structRef_fuel`)
  deriving DecidableEq, Repr

/-- the pointer value stored at an address (the part of memory these computations read) -/
structure Env where
  ptrAt : Int → Int

/-- `load(ty)` on an address in %rax -/
def load (env : Env) (ty : Ty) (a : Int) : Int :=
  match ty with
  | .arr _ _ | .agg _ _ | .vla _ _ => a
  | _ => env.ptrAt a

mutual
  def genAddr (env : Env) : Node → Except Fail Int
    | .var a _ => .ok a
    | .vlaVar slot _ => .ok (env.ptrAt slot)
    | .member l off _ => do let a ← genAddr env l; pure (a + off)
    | .deref l _ => genExpr env l
    | .add _ _ _ _ => .error .notLvalue
  def genExpr (env : Env) : Node → Except Fail Int
    | .var a t => .ok (load env t a)
    | .vlaVar slot t => .ok (load env t (env.ptrAt slot))
    | .member l off t => do let a ← genAddr env l; pure (load env t (a + off))
    | .deref l t => do let v ← genExpr env l; pure (load env t v)
    | .add l i sc _ => do let v ← genExpr env l; pure (v + i * sc)
end

/-! ### the parser's elaboration of postfix operators -/

/-- `struct_ref` -/
def structRef : Nat → Node → String → Except Fail Node
  | 0, _, _ => .error .fuel
  | f + 1, node, nm =>
    match node.ty with
    | .agg _ ms =>
      match ms.get nm with
      | none => .error .noSuchMember
      | some m =>
        let node' := Node.member node m.offset m.ty
        if m.name.isSome then .ok node' else structRef f node' nm
    | _ => .error .notStruct

/-- the factor `new_add` multiplies the index by -/
def scaleOf (base : Ty) : Nat :=
  match base with
  | .vla _ _ => base.vlaSizeVal
  | _ => base.implSize

inductive Step where
  | dot (name : String)
  | arrow (name : String)
  | index (i : Int)
  deriving Repr

def elabStep (node : Node) : Step → Except Fail Node
  | .dot nm => structRef (node.ty.depth + 1) node nm
  | .arrow nm =>
    match node.ty with
    | .ptr b => structRef (b.depth + 1) (.deref node b) nm
    | .arr b _ => structRef (b.depth + 1) (.deref node b) nm       -- an array decays; `a->x` is `(*a).x`
    | _ => .error .notStruct
  | .index i =>
    match node.ty with
    | .ptr b | .arr b _ | .vla b _ => .ok (.deref (.add node i (scaleOf b) node.ty) b)
    | _ => .error .invalidOperands

def elabPath : Node → List Step → Except Fail Node
  | node, [] => .ok node
  | node, s :: ss =>
    match elabStep node s with
    | .ok n => elabPath n ss
    | .error e => .error e

/-! ### specification: the object a path designates -/

/-- address and type of the sub-object, by C's rules (6.5.2.1, 6.5.2.3, 6.5.6p8) -/
def designateStep (env : Env) (a : Int) (ty : Ty) : Step → Option (Int × Ty)
  | .dot nm =>
    match ty with
    | .agg _ ms => (ms.locate nm).map fun (o, t) => (a + o, t)
    | _ => none
  | .arrow nm =>
    match ty with
    | .ptr (.agg _ ms) => (ms.locate nm).map fun (o, t) => (env.ptrAt a + o, t)
    | .arr (.agg _ ms) _ => (ms.locate nm).map fun (o, t) => (a + o, t)
    | _ => none
  | .index i =>
    match ty with
    | .ptr b => some (env.ptrAt a + i * b.sizeof, b)
    | .arr b _ => some (a + i * b.sizeof, b)
    | .vla b _ => some (a + i * b.sizeof, b)
    | _ => none

def designate (env : Env) : Int → Ty → List Step → Option (Int × Ty)
  | a, t, [] => some (a, t)
  | a, t, s :: ss =>
    match designateStep env a t s with
    | some (a', t') => designate env a' t' ss
    | none => none

end ChibiVerif.Lval
