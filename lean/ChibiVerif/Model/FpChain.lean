/-
C02: what `gen_expr` does with a CHAIN of `ND_CAST` nodes.

codegen.c, `gen_expr`:

    case ND_CAST:
      gen_expr(node->lhs);
      cast(node->lhs->ty, node->ty);
      return;

One `cast(from, to)` per node, innermost first, nothing elided: `(T)(F)x` prints the code of `x`, then the cell (typeof x → F),
then the cell (F → T) — also when T is the type of `x`.  parse.c inserts `ND_CAST` nodes for every implicit conversion
(`return e;` → the function's return type, `lhs = e` → the type of `lhs`, arguments → the parameter type, the operands of
`?:` and of the binary operators → the common type), so an explicit cast under an implicit conversion is a chain as well.

`CastE` is an expression as far as this arm is concerned: a leaf (any operand: its type and the lines `gen_expr` prints for
it) under any number of `ND_CAST` nodes.  `FpCodegen.cast` (the generated table, or the `_Bool` sequence) is the model of
`cast()`.

Tied to the code on every run by text (checklib/C02.py, leg "chain"): generated chains of 1–4 conversions over all twelve
arithmetic types in three contexts (`return`, assignment to a global, the arms of `?:`) are compiled with `chibicc -S`; the
instruction lines of the function must equal what `drv_c02 seq` renders from `fnChainRet` / `fnChainAssign` /
`fnChainCond` below.  Any peephole in the ND_CAST arm (a conversion dropped, merged or reordered) changes the text.
-/
import ChibiVerif.Model.FpCodegen

namespace ChibiVerif.FpChain
open ChibiVerif.Asm ChibiVerif.Gen.CommonType ChibiVerif.FpCodegen

inductive CastE where
  | leaf (t : TyD) (code : List Line)
  | cast (to : TyD) (e : CastE)

/-- `node->ty` -/
def CastE.ty : CastE → TyD
  | .leaf t _ => t
  | .cast to _ => to

/-- `gen_expr` on a nest of `ND_CAST` nodes -/
def CastE.gen : CastE → List Line
  | .leaf _ c => c
  | .cast to e => e.gen ++ FpCodegen.cast e.ty to

/-- `(tn)…(t2)(t1)e`: the targets in the order in which the conversions are performed -/
def CastE.wrap (e : CastE) : List TyD → CastE
  | [] => e
  | t :: ts => (CastE.cast t e).wrap ts

/-- the operand `a` (a global of type `t`) -/
def leafA (t : TyD) : CastE := .leaf t (varA ++ load t)
def leafB (t : TyD) : CastE := .leaf t (varB ++ load t)

/-- `R f(void) { return (Tn)…(T1)a; }` with `a : t0`: the explicit casts, then the conversion `return` applies
    (parse.c: `new_cast(expr, current_fn->ty->return_ty)`).  Between the prologue and `jmp .L.return.f`. -/
def fnChainRet (t0 : TyD) (ts : List TyD) (ret : TyD) : List Line :=
  ((leafA t0).wrap (ts ++ [ret])).gen

/-- `store(ty)` for scalar types -/
def store (t : TyD) : List Line :=
  [ins1 "pop" (.r "%rdi")] ++
  match t.kind with
  | .TY_FLOAT => [ins2 "movss" (.r "%xmm0") (.m0 "%rdi")]
  | .TY_DOUBLE => [ins2 "movsd" (.r "%xmm0") (.m0 "%rdi")]
  | .TY_LDOUBLE => [ins1 "fstpt" (.m0 "%rdi"), ins1 "fldt" (.m0 "%rdi")]
  | _ =>
    if t.size = 1 then [ins2 "mov" (.r "%al") (.m0 "%rdi")]
    else if t.size = 2 then [ins2 "mov" (.r "%ax") (.m0 "%rdi")]
    else if t.size = 4 then [ins2 "mov" (.r "%eax") (.m0 "%rdi")]
    else [ins2 "mov" (.r "%rax") (.m0 "%rdi")]

/-- `discard(ty)`: an expression statement drops its value; a long double is popped off the x87 stack -/
def discard (t : TyD) : List Line :=
  if t.kind == .TY_LDOUBLE then [ins1 "fstp" (.r "%st(0)")] else []

/-- `G g; int f(void) { g = (Tn)…(T1)a; return 0; }` with `a : t0`, `g : tg`: `ND_ASSIGN` = `gen_addr(lhs); push();
    gen_expr(rhs); store(ty)`, then `discard(ty)` of the expression statement; the right-hand side converted to the type of `g` (`ND_ASSIGN` in `add_type`) -/
def fnChainAssign (t0 : TyD) (ts : List TyD) (tg : TyD) : List Line :=
  [ins2 "lea" (.s "g(%rip)") (.r "%rax"), ins1 "push" (.r "%rax")] ++
  ((leafA t0).wrap (ts ++ [tg])).gen ++ store tg ++ discard tg ++ [ins2 "mov" (.i 0) (.r "%rax")]

def varC : List Line := [ins2 "lea" (.s "c(%rip)") (.r "%rax")]

/-- `R f(void) { return c ? (T1)a : (T2)b; }` with `c : int`, `a : ta`, `b : tb`, label counter `n`: both arms are converted
    to the common type (`usual_arith_conv` in `add_type`, `get_common_type` regenerated from type.c), the result to `R` -/
def fnChainCond (ta t1 tb t2 ret : TyD) (n : Nat) : Option (List Line) := do
  let ct ← commonType t1 t2
  some (varC ++ load ty_int ++ cmpZero ty_int ++ [.raw s!"  je .L.else.{n}"] ++
    ((leafA ta).wrap [t1, ct]).gen ++ [.raw s!"  jmp .L.end.{n}", .label s!".L.else.{n}"] ++
    ((leafB tb).wrap [t2, ct]).gen ++ [.label s!".L.end.{n}"] ++ FpCodegen.cast ct ret)

end ChibiVerif.FpChain
