/-
Syntax of the pieces of main.c that tools/extract/c14args.py regenerates into Gen/C14ArgsGen.lean (C14):

* the option ladder of `parse_args` — one `Arm` per `if (!strcmp(argv[i], …) || !strncmp(argv[i], …, n)) { …; continue; }`
  in source order, its body as a list of `Stmt` over the operand forms `argv[++i]`, `argv[i] + n`, `argv[i]`, a literal;
* `take_arg`'s list, the static option variables with their initial values;
* `parse_opt_x`'s table, `get_file_type`'s suffix ladder;
* `run_linker`'s command line as a list of `LdItem`; `cc1`'s tail (what is written, in which order) as `Cc1Step`s;
* every call site in main.c that creates, opens for writing, renames or removes a file (`FileSite`), with the
  provenance of its path operand.

Core Lean only.  Semantics: Model/C14Args.lean.
-/
namespace ChibiVerif.C14Args

/-- operand of an option arm -/
inductive Src where
  | next                -- `argv[++i]`  (NULL when `argv[i]` was the last element)
  | rest (n : Nat)      -- `argv[i] + n`
  | cur                 -- `argv[i]`
  | lit (s : String)    -- a string literal
  deriving DecidableEq, Repr, Inhabited

inductive Stmt where
  | setFlag (v : String) (b : Bool)         -- `v = true;` / `v = false;`
  | setStr (v : String) (s : Src)           -- `v = <src>;`                        (no dereference)
  | push (a : String) (s : Src)             -- `strarray_push(&a, <src>);`         (no dereference)
  | call (f : String) (s : Src)             -- `define(<src>);` / `undef_macro(<src>);`      (reads `*src`)
  | setX (s : Src)                          -- `opt_x = parse_opt_x(<src>);`                  (reads `*src`)
  | appendMT (quote : Bool) (s : Src)       -- the `-MT` / `-MQ` arm: `opt_MT = opt_MT ? format("%s %s", opt_MT, f(src)) : f(src)`
  | usage (status : Nat)                    -- `usage(status);`  (does not return)
  | exit0                                   -- `hashmap_test(); exit(0);`
  deriving DecidableEq, Repr, Inhabited

inductive Test where
  | eq (s : String)     -- `!strcmp(argv[i], s)`
  | pre (s : String)    -- `!strncmp(argv[i], s, strlen(s))`
  deriving DecidableEq, Repr, Inhabited

structure Arm where
  tests : List Test     -- joined by `||`
  body : List Stmt      -- followed by `continue;` unless the last statement does not return
  deriving DecidableEq, Repr, Inhabited

/-- `FileType` of main.c -/
inductive FileType where
  | none | c | asm | obj | ar | dso
  deriving DecidableEq, Repr, Inhabited

/-- one `strarray_push(&arr, …)` of `run_linker`, or a loop / conditional around such pushes -/
inductive LdItem where
  | lit (s : String)                        -- a literal
  | output                                  -- the parameter `output`
  | libpath (fmt : String)                  -- `format(fmt, libpath)`
  | gccLibpath (fmt : String)               -- `format(fmt, gcc_libpath)`
  | extraArgs                               -- `for … strarray_push(&arr, ld_extra_args.data[i])`
  | inputs                                  -- `for … strarray_push(&arr, inputs->data[i])`
  | ifFlag (v : String) (thn els : List LdItem)   -- `if (v) {…} else {…}`
  | ifNotFlag (v : String) (thn : List LdItem)    -- `if (!v) {…}`
  deriving Repr, Inhabited

/-- main.c `cc1` after `preprocess()`: the steps that can fail and the writes -/
inductive Cc1Step where
  | collectDeps             -- `print_dependencies(deps_buf)`: formats into a memory buffer, touches no file
  | writeDeps               -- `write_file(dependency_path(), deps, deps_len)`
  | printTokens             -- `print_tokens(tok)`: opens `opt_o` / stdout, writes, `close_file`
  | parse                   -- `parse(tok)`        (may call `error()`)
  | codegen                 -- `codegen(prog, …)` into a memory buffer (may call `error()`)
  | writeOutput             -- `write_file(output_file, buf, buflen)`
  | ret                     -- `return;`
  | ifAny (flags : List String) (body : List Cc1Step)    -- `if (f1 || f2 …) { … }`
  deriving Repr, Inhabited

/-- what a run of cc1 does after preprocessing, conditionals resolved -/
inductive Cc1Ev where
  | collectDeps | writeDeps | printTokens | parse | codegen | writeOutput
  deriving DecidableEq, Repr, Inhabited

/-- where the path operand of a file-system call comes from -/
inductive Origin where
  | userOpt (v : String)        -- a `char *` option variable holding a command-line word (`opt_o`, `opt_MF`, `output_file`, …)
  | derived (ext : String)      -- `replace_extn(<input path or -o>, ext)`: the input's basename with another extension
  | fixedName (s : String)      -- a string literal
  | stdout                      -- `"-"` / NULL: no file
  | mkstempTemplate (t : String) -- `strdup(t)` handed to `mkstemp`
  | tempVar                     -- a local that holds the result of `create_tmpfile()`
  | tmpfilesEntry               -- `tmpfiles.data[i]`
  | param (f : String) (k : Nat) -- the k-th parameter of the enclosing function `f` (resolved through its callers)
  | inputArg                    -- `input_paths.data[i]`: an input named on the command line
  deriving DecidableEq, Repr, Inhabited

/-- what the call does with the path -/
inductive SiteKind where
  | create      -- mkstemp
  | write       -- fopen(…, "w"), open_file, `-o`/output operand of a child
  | read        -- input operand of a child
  | remove      -- unlink
  | record      -- strarray_push(&tmpfiles, …)
  deriving DecidableEq, Repr, Inhabited

structure FileSite where
  fn : String           -- enclosing function
  callee : String       -- fopen / mkstemp / unlink / open_file / assemble / run_cc1 / run_linker / strarray_push(&tmpfiles)
  kind : SiteKind
  origins : List Origin -- every value the path operand can take at this site
  deriving DecidableEq, Repr, Inhabited

end ChibiVerif.C14Args
