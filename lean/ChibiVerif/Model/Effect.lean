/-
Effect semantics of the assembly chibicc emits (C20): what a piece of code does to the machine
stack pointer and to the x87 register stack.

* `H` — a height: `rsp` in bytes and the number of occupied x87 registers, both relative to some
  reference point.
* `insDelta` / `lineDelta` — the effect of one instruction / line (DESIGN §C20: `push/pop` ∓8,
  `sub/add $k,%rsp` ∓k, `fld*/fild*/fldz` +1, `fstp*/fistp*/faddp/fsubrp/fmulp/fdivrp/fcomip/fucomip`
  −1, `fst*/fchs/fldcw/fnstcw/fadds` 0, `call` 0 net — +1 on the x87 stack when the callee returns
  a long double).  An instruction the table does not know, or one that writes %rsp in a way the
  table cannot account for (`sub %rdi, %rsp` of alloca, `mov %rbp, %rsp`), has *no* effect value:
  every consumer fails loudly on it.
* `delta` — the effect of straight-line code (no labels, no jumps): the sum of the line effects.
  A `cast_table` line (several instructions, possibly with forward jumps to local labels inside the
  line) has an effect iff all paths through it (`cellPaths`) have the same effect; `multiWhy` names
  two paths that disagree.
* `checkBody` — whole-function check over code with labels and jumps: there is one height per label
  such that every jump to a label and the fall-through into it arrive at that height (so no loop,
  branch, break, continue or goto can accumulate residue), heights never go below the function's
  frame (`rsp ≤ 0`, `0 ≤ x87 ≤ 8`), and every `jmp .L.return.*` leaves at rsp height 0.
  It is executable; the driver runs it on the model's output for every function of a dump.
  The heights are inferred by forward scans repeated to a fixpoint (`inferFix`); the check is sound
  (it accepts only code for which a labelling exists) and complete (it accepts whenever ANY labelling
  passes `verify`): Props/C20.lean, Lemmas/C20Complete.lean.

Assumptions recorded here: a `call` returns with %rsp as before the call and leaves the x87 stack
as it was, plus one register when the callee returns long double (psABI); an `asm` statement and
every directive (`.loc` …, printed as `Line.raw`) have no effect.
-/
import ChibiVerif.Model.Asm

namespace ChibiVerif.Effect
open ChibiVerif.Asm

structure H where
  rsp : Int
  x87 : Int
  deriving DecidableEq, Repr, Inhabited

instance : Add H := ⟨fun a b => ⟨a.rsp + b.rsp, a.x87 + b.x87⟩⟩
def H.zero : H := ⟨0, 0⟩

@[simp] theorem H.add_def (a b : H) : a + b = ⟨a.rsp + b.rsp, a.x87 + b.x87⟩ := rfl

def isRsp : Opd → Bool
  | .r n => n == "%rsp"
  | _ => false

/-- the destination (last operand) is %rsp -/
def dstIsRsp (a : List Opd) : Bool :=
  match a.getLast? with
  | some o => isRsp o
  | none => false

def x87Push : List String := ["fldt", "flds", "fldl", "fildl", "fildll", "fildq", "fldz", "fld", "fld1"]
def x87Pop : List String :=
  ["fstpt", "fstps", "fstpl", "fistps", "fistpl", "fistpq", "faddp", "fsubrp", "fmulp", "fdivrp",
   "fcomip", "fucomip", "fstp"]
def x87Same : List String :=
  ["fchs", "fldcw", "fnstcw", "fadds", "fabs", "fxch", "fcomi", "fucomi", "fadd", "fsub", "fsubr", "fmul", "fdiv",
   "fdivr", "fst", "fsts", "fstl", "faddl", "fsubs", "fsubl", "fmuls", "fmull", "fdivs", "fdivl", "fnstsw", "fwait"]

/-- every other mnemonic the code generator prints; none of them touches %rsp unless %rsp is its
    destination operand, none touches the x87 stack -/
def plainOps : List String :=
  ["mov", "movq", "movl", "movd", "movss", "movsd", "movsbl", "movzbl", "movswl", "movzwl", "movsxd",
   "movzx", "movzb", "lea", "add", "sub", "imul", "idiv", "div", "cqo", "cdq", "and", "or", "xor",
   "not", "neg", "shl", "shr", "sar", "cmp", "test", "sete", "setne", "setl", "setle", "setb",
   "setbe", "seta", "setae", "setp", "setnp", "xorps", "xorpd", "pxor", "ucomiss", "ucomisd",
   "addss", "addsd", "subss", "subsd", "mulss", "mulsd", "divss", "divsd",
   "cvtsi2ssl", "cvtsi2sdl", "cvtsi2ssq", "cvtsi2sdq", "cvtsi2sd", "cvttss2sil", "cvttss2siq",
   "cvttsd2sil", "cvttsd2siq", "cvtss2sd", "cvtsd2ss", "inc", "dec", "xchg", "lock cmpxchg",
   "rep stosb", "data16 lea", "rex64", "addq", "call",
   -- added for the cast strings of /repo cb60798, d20bf97 (u64 -> f32, floating -> u64 >= 2^63)
   "cvtsi2ss", "comiss", "comisd", "btc"]

def jumpOps : List String :=
  ["jmp", "je", "jne", "jbe", "js", "jns", "ja", "jae", "jb", "jl", "jle", "jg", "jge", "jp", "jnp", "jz", "jnz"]

/-- effect of one straight-line instruction; `none` = not straight-line, or unknown -/
def insDelta (i : Ins) : Option H :=
  if i.op == "push" then some ⟨-8, 0⟩
  else if dstIsRsp i.a then
    match i.op, i.a with
    | "sub", [.i k, _] => some ⟨-k, 0⟩
    | "add", [.i k, _] => some ⟨k, 0⟩
    | _, _ => none
  else if i.op == "pop" then some ⟨8, 0⟩
  else if x87Push.contains i.op then some ⟨0, 1⟩
  else if x87Pop.contains i.op then some ⟨0, -1⟩
  else if x87Same.contains i.op || plainOps.contains i.op then some ⟨0, 0⟩
  else none

/-- a local label inside a multi-instruction line: an `Ins` whose op ends in `:` (kernel-reducible
    spelling: `String.endsWith` does not reduce under `decide`) -/
def isLocalLabel (i : Ins) : Bool := i.op.toList.getLast? == some ':' && i.a.isEmpty

/-- the local label a jump inside a multi-instruction line goes to: `1f` ↦ `1:` -/
def fwdLabel (i : Ins) : Option String :=
  match i.a with
  | [.s t] =>
    match t.toList with
    | [d, 'f'] => if d.isDigit then some (String.ofList [d, ':']) else none
    | _ => none
  | _ => none

/-- the instructions after the next definition of local label `l` -/
def afterLabel (l : String) : List Ins → Option (List Ins)
  | [] => none
  | i :: r => if i.op == l && i.a.isEmpty then some r else afterLabel l r

/-- All paths through a `cast_table` line (several instructions, forward jumps to local labels
    inside the line): for each path the instructions executed, in order, and their total effect.
    `none`: an instruction without a known effect, or a jump that is not a forward jump to a local
    label of the line.  `fuel` ≥ length + 1 (every step continues on a proper suffix). -/
def cellPaths : Nat → List Ins → List Ins → H → Option (List (List Ins × H))
  | 0, _, _, _ => none
  | _ + 1, [], acc, h => some [(acc.reverse, h)]
  | fuel + 1, i :: r, acc, h =>
    if isLocalLabel i then cellPaths fuel r acc h
    else if jumpOps.contains i.op then
      match fwdLabel i with
      | none => none
      | some l =>
        match afterLabel l r with
        | none => none
        | some tgt =>
          match cellPaths fuel tgt (i :: acc) h with
          | none => none
          | some taken =>
            if i.op == "jmp" then some taken
            else match cellPaths fuel r (i :: acc) h with
              | none => none
              | some fall => some (taken ++ fall)
    else match insDelta i with
      | none => none
      | some d => cellPaths fuel r (i :: acc) (h + d)

/-- effect of a multi-instruction line: every path through it has the same effect -/
def multiDelta (is : List Ins) : Option H :=
  match cellPaths (is.length + 1) is [] H.zero with
  | some ((_, d) :: rest) => if rest.all (fun p => p.2 == d) then some d else none
  | _ => none

def renderPath (p : List Ins × H) : String :=
  "[" ++ "; ".intercalate (p.1.map Ins.render) ++ s!"] = (rsp {p.2.rsp}, x87 {p.2.x87})"

/-- why a multi-instruction line has no effect value: two paths through it that disagree -/
def multiWhy (is : List Ins) : String :=
  match cellPaths (is.length + 1) is [] H.zero with
  | none => "an instruction without a known effect, or a jump that does not go forward to a local label"
  | some [] => "no path"
  | some (p :: rest) =>
    match rest.find? (fun q => q.2 != p.2) with
    | some q => "paths through the line disagree: " ++ renderPath p ++ "  versus  " ++ renderPath q
    | none => "balanced"

def lineDelta : Line → Option H
  | .ins i => insDelta i
  | .insA i note =>
    if i.op == "call" && note == "ret:f80" then some ⟨0, 1⟩ else none
  | .multi is => multiDelta is
  | .multiT _ is => multiDelta is
  | .label _ => none
  | .raw _ => some H.zero

/-- effect of straight-line code -/
def delta : List Line → Option H
  | [] => some H.zero
  | l :: r =>
    match lineDelta l, delta r with
    | some a, some b => some (a + b)
    | _, _ => none

theorem delta_append (a b : List Line) :
    delta (a ++ b) = (match delta a, delta b with
      | some x, some y => some (x + y)
      | _, _ => none) := by
  induction a with
  | nil =>
    simp only [List.nil_append, delta]
    cases delta b <;> simp [H.zero, H.add_def]
  | cons l r ih =>
    simp only [List.cons_append, delta, ih]
    cases lineDelta l <;> cases delta r <;> cases delta b <;> simp [H.add_def, Int.add_assoc]

/-! ## whole functions: one height per label -/

/-- the label a jump instruction goes to (`none` for `jmp *%rax`).  (Written with `List Char`
    operations: `String.startsWith`/`trim` do not reduce in the kernel, and the findings evaluate
    this checker by `decide`.) -/
def jumpTarget (i : Ins) : Option String :=
  match i.a with
  | [.s t] =>
    match t.toList.dropWhile (· == ' ') with
    | '*' :: _ => none
    | cs => some (String.ofList cs)
  | _ => none

inductive Step where
  | delta (d : H)                 -- straight-line
  | cond (l : String)             -- conditional jump to l
  | jump (l : String)             -- unconditional jump to l
  | leave                         -- `jmp *%rax`, `ret`: control leaves, nothing falls through
  | label (l : String)
  | bad (why : String)
  deriving Repr

/-- a line is straight-line exactly when `lineDelta` knows its effect; otherwise it is a label, a
    jump, `ret`, alloca's `sub %rdi, %rsp`, or something unknown -/
def classifyIns (i : Ins) : Step :=
  match insDelta i with
  | some d => .delta d
  | none =>
    if jumpOps.contains i.op then
      match jumpTarget i with
      | some t => if i.op == "jmp" then .jump t else .cond t
      | none => if i.op == "jmp" then .leave else .bad s!"conditional jump without a label: {i.render}"
    else if i.op == "ret" then .leave
    -- the explicit exception of C20: `alloca` lowers %rsp by a run-time amount after moving the
    -- temporaries that are in flight; relative to them nothing changes
    else if i == ⟨"sub", [.r "%rdi", .r "%rsp"]⟩ then .delta H.zero
    else .bad s!"no effect known for: {i.render}"

def classify (l : Line) : List Step :=
  match lineDelta l with
  | some d => [.delta d]
  | none =>
    match l with
    | .ins i => [classifyIns i]
    | .label n => [.label n]
    | .multi is | .multiT _ is => [.bad s!"cast_table line `{l.render}`: {multiWhy is}"]
    | _ => [.bad s!"no effect known for: {l.render}"]

/-- numeric local labels (`1:` … `9:`): a reference `1f` means the next definition of `1`, `1b` the
    previous one.  `renameLocals` gives every definition a unique name `N#k` and rewrites the
    references, so that the rest of the check can treat all labels alike. -/
def isNumLabel (l : String) : Bool :=
  match l.toList with
  | [c] => c.isDigit
  | _ => false

/-- `1f` ↦ (1, forward), `1b` ↦ (1, backward) -/
def localRef (t : String) : Option (String × Bool) :=
  match t.toList with
  | [d, 'f'] => if d.isDigit then some (String.ofList [d], true) else none
  | [d, 'b'] => if d.isDigit then some (String.ofList [d], false) else none
  | _ => none

def renameLocals : List Step → List (String × Nat) → List Step
  | [], _ => []
  | s :: r, seen =>
    let cnt (d : String) : Nat := (seen.lookup d).getD 0
    let ref (t : String) : String :=
      match localRef t with
      | some (d, true) => s!"{d}#{cnt d + 1}"
      | some (d, false) => s!"{d}#{cnt d}"
      | none => t
    match s with
    | .label l =>
      if isNumLabel l then
        .label s!"{l}#{cnt l + 1}" :: renameLocals r ((l, cnt l + 1) :: seen)
      else s :: renameLocals r seen
    | .cond t => .cond (ref t) :: renameLocals r seen
    | .jump t => .jump (ref t) :: renameLocals r seen
    | s => s :: renameLocals r seen

abbrev Labelling := List (String × H)

/-- `.L.return.<fn>`: jumping there must happen with nothing left on the machine stack (the x87
    stack may hold the long double return value) -/
def isReturnLabel (l : String) : Bool := ".L.return.".toList.isPrefixOf l.toList

/-- one step of the label inference: the height after the step (`none`: not reachable by falling
    through) and the labelling, to which the step adds at most one entry — the height of the first
    fall-through into a label or of the first jump to it, whichever the forward scan meets first.
    `.L.return.*` is treated as `verify` treats it: it has no height of its own. -/
def inferStep (s : Step) (cur : Option H) (acc : Labelling) : Option H × Labelling :=
  match s with
  | .delta d => (cur.map (· + d), acc)
  | .cond l =>
    if isReturnLabel l then (cur, acc) else
    match cur, acc.lookup l with
    | some c, none => (cur, (l, c) :: acc)
    | _, _ => (cur, acc)
  | .jump l =>
    if isReturnLabel l then (none, acc) else
    match cur, acc.lookup l with
    | some c, none => (none, (l, c) :: acc)
    | _, _ => (none, acc)
  | .leave => (none, acc)
  | .label l =>
    if isReturnLabel l then (none, acc) else
    match acc.lookup l, cur with
    | some h, _ => (some h, acc)
    | none, some c => (some c, (l, c) :: acc)
    | none, none => (none, acc)
  | .bad _ => (cur, acc)

/-- pass 1: propose a height for every label — the height of the first fall-through into it or of
    the first jump to it, whichever the forward scan meets first -/
def infer : List Step → Option H → Labelling → Labelling
  | [], _, acc => acc
  | s :: r, cur, acc => infer r (inferStep s cur acc).1 (inferStep s cur acc).2

/-- the range of heights inside a function: nothing above the frame, at most eight x87 registers -/
def okH (c : H) : Bool := c.rsp ≤ 0 && 0 ≤ c.x87 && c.x87 ≤ 8

/-- the complaint of `verify` about a height outside `okH` -/
def rangeMsg (c : H) : String := s!"height out of range: rsp {c.rsp}, x87 {c.x87}"

/-- pass 2 — the definition of consistency for a given labelling: scan the code once; at every
    label and at every jump the current height must be the label's height; heights stay within the
    frame.  `cur = none` means the point is not reachable by falling through. -/
def verify (h : Labelling) : List Step → Option H → Except String Unit
  | [], _ => .ok ()
  | s :: r, cur =>
    match s with
    | .delta d =>
      match cur with
      | some c =>
        if okH (c + d) then verify h r (some (c + d))
        else .error (rangeMsg (c + d))
      | none => verify h r none
    | .cond l | .jump l =>
      let next := match s with | .jump _ => none | _ => cur
      match cur with
      | none => verify h r next
      | some c =>
        if isReturnLabel l then
          if c.rsp == 0 then verify h r next else .error s!"return with rsp {c.rsp}"
        else match h.lookup l with
          | some hl =>
            if hl == c then verify h r next
            else .error s!"jump to {l} at (rsp {c.rsp}, x87 {c.x87}), label is at (rsp {hl.rsp}, x87 {hl.x87})"
          | none => .error s!"jump to a label with no height: {l}"
    | .leave => verify h r none
    | .label l =>
      if isReturnLabel l then verify h r none else
      match h.lookup l, cur with
      | some hl, some c =>
        if hl == c then verify h r (some hl)
        else .error s!"fall-through into {l} at (rsp {c.rsp}, x87 {c.x87}), label is at (rsp {hl.rsp}, x87 {hl.x87})"
      | some hl, none => verify h r (some hl)
      | none, some c => .error s!"label without a height: {l} (rsp {c.rsp})"
      | none, none => verify h r none      -- dead code: never jumped to, not fallen into
    | .bad why => .error why

/-- repeat the inference a fixed number of times (the checker before the fixpoint iteration used
    `inferN 3`: a label that is only reached by a backward jump gets its height on the second pass,
    a chain of k such labels needs k + 1 passes — kept for the witness in Findings/C20.lean) -/
def inferN : Nat → List Step → Labelling → Labelling
  | 0, _, acc => acc
  | n + 1, steps, acc => inferN n steps (infer steps (some H.zero) acc)

/-- repeat the inference until a pass adds nothing.  Every pass that is not the last adds a height
    for at least one more label or jump target of the skeleton, so `length + 1` passes of fuel reach
    the fixpoint (Lemmas/C20Complete.lean: `inferFix_fixpoint`). -/
def inferFix : Nat → List Step → Labelling → Labelling
  | 0, _, acc => acc
  | n + 1, steps, acc =>
    let acc' := infer steps (some H.zero) acc
    if acc'.length == acc.length then acc else inferFix n steps acc'

/-- the labelling the checker infers for a skeleton -/
def inferred (st : List Step) : Labelling := inferFix (st.length + 1) st []

/-- the control-flow skeleton of a piece of code -/
def steps (ls : List Line) : List Step := renameLocals (ls.flatMap classify) []

/-- check the body of one function (the lines between the prologue and `.L.return.<fn>:`): infer one
    height per label (to a fixpoint), then verify that every jump and every fall-through arrives at
    its label's height, within the range -/
def checkBody (body : List Line) : Except String Unit :=
  verify (inferred (steps body)) (steps body) (some H.zero)

/-! ## the relative form used in theorem statements -/

/-- scan with a given labelling, heights relative to the start of the code; returns the height at
    the end (`none`: the end is not reachable by falling through) -/
def scanRel (h : Labelling) : List Step → Option H → Except String (Option H)
  | [], cur => .ok cur
  | .delta d :: r, cur => scanRel h r (cur.map (· + d))
  | .cond l :: r, cur =>
    match cur with
    | none => scanRel h r none
    | some c => if h.lookup l == some c then scanRel h r cur else .error s!"jump to {l} at a different height"
  | .jump l :: r, cur =>
    match cur with
    | none => scanRel h r none
    | some c => if h.lookup l == some c then scanRel h r none else .error s!"jump to {l} at a different height"
  | .leave :: r, _ => scanRel h r none
  | .label l :: r, cur =>
    match h.lookup l with
    | none => .error s!"label without a height: {l}"
    | some hl =>
      if cur == none || cur == some hl then scanRel h r (some hl)
      else .error s!"fall-through into {l} at a different height"
  | .bad why :: _, _ => .error why

/-- `Balanced ls d`: there is one height per label such that every jump and every fall-through
    arrives at its label's height, and control falls out of the end of `ls` at height `d`
    (relative to the start).  For code without labels and jumps this is `delta ls = some d`. -/
def Balanced (ls : List Line) (d : H) : Prop :=
  ∃ h : Labelling, scanRel h (steps ls) (some H.zero) = .ok (some d)

/-- like `Balanced`, for code that may also end in a jump (a statement that ends in `goto`,
    `break`, `return` …): if control falls out of the end, then at height `d` -/
def BalancedOrLeaves (ls : List Line) (d : H) : Prop :=
  ∃ h : Labelling, ∃ e, scanRel h (steps ls) (some H.zero) = .ok e ∧ (e = none ∨ e = some d)

theorem classify_of_lineDelta {l : Line} {d : H} (hl : lineDelta l = some d) : classify l = [.delta d] := by
  simp [classify, hl]

theorem flatMap_classify_of_delta : ∀ (ls : List Line) (d : H), delta ls = some d →
    ∃ ds : List H, ls.flatMap classify = ds.map Step.delta ∧ ds.foldl (· + ·) H.zero = d
  | [], d, h => by
    simp only [delta, Option.some.injEq] at h
    exact ⟨[], rfl, h⟩
  | l :: r, d, h => by
    simp only [delta] at h
    cases hl : lineDelta l with
    | none => simp [hl] at h
    | some a =>
      cases hr : delta r with
      | none => simp [hl, hr] at h
      | some b =>
        simp only [hl, hr, Option.some.injEq] at h
        obtain ⟨ds, e1, e2⟩ := flatMap_classify_of_delta r b hr
        refine ⟨a :: ds, ?_, ?_⟩
        · simp [List.flatMap_cons, classify_of_lineDelta hl, e1]
        · subst h e2
          have : ∀ (xs : List H) (x y : H), xs.foldl (· + ·) (x + y) = x + xs.foldl (· + ·) y := by
            intro xs
            induction xs with
            | nil => intro x y; rfl
            | cons z zs ih =>
              intro x y
              simp only [List.foldl_cons]
              have e : x + y + z = x + (y + z) := by simp [H.add_def, Int.add_assoc]
              rw [e, ih]
          simp only [List.foldl_cons]
          have e0 : H.zero + a = a + H.zero := by simp [H.add_def, H.zero]
          rw [e0, this]

theorem renameLocals_deltas (ds : List H) (seen : List (String × Nat)) :
    renameLocals (ds.map Step.delta) seen = ds.map Step.delta := by
  induction ds with
  | nil => rfl
  | cons d r ih => simp [renameLocals, ih]

theorem scanRel_deltas (h : Labelling) (ds : List H) (c : H) :
    scanRel h (ds.map Step.delta) (some c) = .ok (some (ds.foldl (· + ·) c)) := by
  induction ds generalizing c with
  | nil => rfl
  | cons d r ih => simp [scanRel, ih]

/-- straight-line code is balanced, with its `delta` -/
theorem balanced_of_delta {ls : List Line} {d : H} (h : delta ls = some d) : Balanced ls d := by
  obtain ⟨ds, e1, e2⟩ := flatMap_classify_of_delta ls d h
  refine ⟨[], ?_⟩
  simp only [steps, e1, renameLocals_deltas, scanRel_deltas, e2]

end ChibiVerif.Effect
