/-
Model of chibicc's code generator (codegen.c), written arm by arm after the C text.

`codegen p` applied to the AST dump of a translation unit returns the list of assembly lines that
`chibicc -S` prints for it (`Asm.render` gives the text byte for byte, except that the
`# float/double/long double <value>` comments after floating immediates are not printed).

Shape
* `M` is a state + writer monad: the state is `count()`'s static counter and the `depth`
  variable, the written value is the list of lines printed by `println`.  Sites where the C code
  aborts (`unreachable()`, `error_tok`, `assert`) or would dereference NULL are explicit failures.
* The recursion over the tree (`genAddr`, `genExpr`, `genStmt`, …) is *structural* on
  `Node`/`NodeList`.  Each arm is one call of a non-recursive combinator (`xxxArm`) that receives the
  code generators of the sub-nodes as arguments, in the order the C arm runs them.  Where the C code
  re-enters the generator on the same node (`gen_expr(VAR)` → `gen_addr(node)`,
  `gen_addr(FUNCALL)` → `gen_expr(node)`) both functions call the same combinator.
* `current_fn` is the `Env` argument.  `var->offset` is `Env.off`, computed by `assignLvarOffsets`.
* C `int`/`long` arithmetic is done on `Int`; the model assumes no 32/64-bit wrap-around in sizes
  and offsets (switch-case constants, which the C code truncates on purpose, are wrapped).
-/
import ChibiVerif.Model.Asm
import ChibiVerif.Model.Ast
import ChibiVerif.Gen.CastTableGen

namespace ChibiVerif.Codegen
open ChibiVerif.Asm ChibiVerif.Ast
open ChibiVerif.Gen

/-! ## the monad -/

structure St where
  count : Nat := 1      -- `static int i = 1` of `count()`
  depth : Int := 0
  deriving Repr, DecidableEq, Inhabited

def M (α : Type) := St → Except String (α × St × List Line)

@[inline] def M.pure (a : α) : M α := fun s => .ok (a, s, [])

@[inline] def M.bind (m : M α) (f : α → M β) : M β := fun s =>
  match m s with
  | .error e => .error e
  | .ok (a, s1, l1) =>
    match f a s1 with
    | .error e => .error e
    | .ok (b, s2, l2) => .ok (b, s2, l1 ++ l2)

instance : Monad M where
  pure := M.pure
  bind := M.bind

def fail (msg : String) : M α := fun _ => .error msg
def emit (l : Line) : M Unit := fun s => .ok ((), s, [l])
def emits (ls : List Line) : M Unit := fun s => .ok ((), s, ls)
def getDepth : M Int := fun s => .ok (s.depth, s, [])
def addDepth (d : Int) : M Unit := fun s => .ok ((), { s with depth := s.depth + d }, [])
/-- `count()` -/
def count : M Nat := fun s => .ok (s.count, { s with count := s.count + 1 }, [])
def liftE : Except String α → M α
  | .ok a => M.pure a
  | .error e => fail e

/-! ## small helpers -/

def rax : Opd := .r "%rax"
def rdi : Opd := .r "%rdi"
def rsp : Opd := .r "%rsp"
def rbp (d : Int) : Opd := .m d "%rbp"
def xmm (n : Nat) : Opd := .r s!"%xmm{n}"

/-- `printf("%s", p)` with glibc: a NULL pointer prints `(null)` -/
def cstr (s : Option String) : String := s.getD "(null)"

def nullDeref (what : String) : M α := fail s!"NULL dereference: {what}"

def needTy (what : String) : Option Ty → M Ty
  | some t => pure t
  | none => nullDeref what

def needVar (what : String) : Option Var → M Var
  | some v => pure v
  | none => nullDeref what

def _root_.ChibiVerif.Ast.Ty.isStructOrUnion (t : Ty) : Bool := t.kind == .struct || t.kind == .union

/-- type.c `is_integer` -/
def isInteger (t : Ty) : Bool :=
  t.kind == .bool || t.kind == .char || t.kind == .short || t.kind == .int || t.kind == .long
    || t.kind == .enum

/-- type.c `is_flonum` -/
def isFlonum (t : Ty) : Bool := t.kind == .float || t.kind == .double || t.kind == .ldouble

/-- `align_to`: `(n + align - 1) / align * align` in C `int` arithmetic -/
def alignTo (n align : Int) : Except String Int :=
  if align == 0 then .error "align_to: division by zero" else .ok ((n + align - 1).tdiv align * align)

def GP_MAX : Int := 6
def FP_MAX : Int := 8

def argreg8 : List String := ["%dil", "%sil", "%dl", "%cl", "%r8b", "%r9b"]
def argreg16 : List String := ["%di", "%si", "%dx", "%cx", "%r8w", "%r9w"]
def argreg32 : List String := ["%edi", "%esi", "%edx", "%ecx", "%r8d", "%r9d"]
def argreg64 : List String := ["%rdi", "%rsi", "%rdx", "%rcx", "%r8", "%r9"]

def argreg (tbl : List String) (r : Int) : M String :=
  if r < 0 then fail "argreg: negative index" else
  match tbl[r.toNat]? with
  | some s => pure s
  | none => fail "argreg: index out of range"

def regDx (sz : Int) : M String :=
  if sz == 1 then pure "%dl" else if sz == 2 then pure "%dx" else if sz == 4 then pure "%edx"
  else if sz == 8 then pure "%rdx" else fail "unreachable: reg_dx"

def regAx (sz : Int) : M String :=
  if sz == 1 then pure "%al" else if sz == 2 then pure "%ax" else if sz == 4 then pure "%eax"
  else if sz == 8 then pure "%rax" else fail "unreachable: reg_ax"

/-- `(int)x` -/
def toI32 (x : Int) : Int := (x + 2147483648) % 4294967296 - 2147483648
/-- wrap to `long` -/
def toI64 (x : Int) : Int := (x + 9223372036854775808) % 18446744073709551616 - 9223372036854775808

/-! ## environment (`current_fn`, globals of main.c, the type table) -/

structure Env where
  fpic : Bool
  types : List Ty
  fnName : Option String := none
  retTy : Option Ty := none                 -- `current_fn->ty->return_ty`
  params : List Var := []
  allocaBottom : Option Var := none
  offsets : List (Int × Int) := []          -- object id ↦ `var->offset`
  deriving DecidableEq

/-- `var->offset`.  An object that `assign_lvar_offsets` did not visit (a global, or a local that
    is not on the function's `locals` list) still has the 0 that `calloc` put there. -/
def Env.off (env : Env) (v : Var) : Int :=
  match env.offsets.lookup v.id with
  | some o => o
  | none => 0

def Env.ty? (env : Env) (id : Int) : Option Ty :=
  if id < 0 then none else env.types[id.toNat]?

/-! ## push / pop -/

def push : M Unit := do
  emit (ins1 "push" rax)
  addDepth 1

def pop (arg : String) : M Unit := do
  emit (ins1 "pop" (.r arg))
  addDepth (-1)

def pushf : M Unit := do
  emit (ins2 "sub" (.i 8) rsp)
  emit (ins2 "movsd" (xmm 0) (.m0 "%rsp"))
  addDepth 1

def popf (reg : Nat) : M Unit := do
  emit (ins2 "movsd" (.m0 "%rsp") (xmm reg))
  emit (ins2 "add" (.i 8) rsp)
  addDepth (-1)

/-- `discard(ty)` -/
def discard (ty : Option Ty) : M Unit :=
  match ty with
  | some t => if t.kind == .ldouble then emit (ins1 "fstp" (.r "%st(0)")) else pure ()
  | none => pure ()

def loc (i : NInfo) : M Unit := emit (.raw s!"  .loc {i.fileNo} {i.lineNo}")

/-! ## gen_addr, leaf arm -/

/-- `gen_addr` on an `ND_VAR` node -/
def addrVar (env : Env) (i : NInfo) (v? : Option Var) : M Unit := do
  let v ← needVar "node->var" v?
  let vty ← needTy "node->var->ty" v.ty
  let name := cstr v.name
  -- Variable-length array, which is always local.
  if vty.kind == .vla then
    emit (ins2 "mov" (rbp (env.off v)) rax)
  -- Local variable
  else if v.isLocal then
    emit (ins2 "lea" (rbp (env.off v)) rax)
  else if env.fpic then
    -- Thread-local variable
    if v.isTls then do
      emit (ins2 "data16 lea" (.s s!"{name}@tlsgd(%rip)") rdi)
      emit (.raw "  .value 0x6666")
      emit (ins0 "rex64")
      emit (ins1 "call" (.s "__tls_get_addr@PLT"))
    else
      -- Function or global variable
      emit (ins2 "mov" (.s s!"{name}@GOTPCREL(%rip)") rax)
  -- Thread-local variable
  else if v.isTls then do
    emit (ins2 "mov" (.s "%fs:0") rax)
    emit (ins2 "add" (.s s!"${name}@tpoff") rax)
  else do
    let nty ← needTy "node->ty" i.ty
    -- Function
    if nty.kind == .func then
      if v.isDefinition then
        emit (ins2 "lea" (.s s!"{name}(%rip)") rax)
      else
        emit (ins2 "mov" (.s s!"{name}@GOTPCREL(%rip)") rax)
    else
      -- Global variable
      emit (ins2 "lea" (.s s!"{name}(%rip)") rax)

/-- `gen_addr` on `ND_MEMBER`: `gen_addr(node->lhs); add $offset, %rax` -/
def addrMember (addrLhs : M Unit) (mem : Option Member) : M Unit := do
  addrLhs
  match mem with
  | some m => emit (ins2 "add" (.i m.offset) rax)
  | none => nullDeref "node->member"

/-! ## load / store / cmp_zero / cast -/

/-- Load a value from where %rax is pointing to. -/
def load (ty? : Option Ty) : M Unit := do
  let ty ← needTy "load(ty)" ty?
  match ty.kind with
  | .array | .struct | .union | .func | .vla => pure ()
  | .float => emit (ins2 "movss" (.m0 "%rax") (xmm 0))
  | .double => emit (ins2 "movsd" (.m0 "%rax") (xmm 0))
  | .ldouble => emit (ins1 "fldt" (.m0 "%rax"))
  | _ =>
    let insn := if ty.isUnsigned then "movz" else "movs"
    if ty.size == 1 then emit (ins2 (insn ++ "bl") (.m0 "%rax") (.r "%eax"))
    else if ty.size == 2 then emit (ins2 (insn ++ "wl") (.m0 "%rax") (.r "%eax"))
    else if ty.size == 4 then emit (ins2 "movsxd" (.m0 "%rax") rax)
    else emit (ins2 "mov" (.m0 "%rax") rax)

/-- the byte-copy loop of `store` for structs: `mov i(%rax), %r8b; mov %r8b, i(%rdi)` -/
def copyBytes (src tmp dst : String) : Nat → Nat → List Line
  | _, 0 => []
  | i, n + 1 => ins2 "mov" (.m i src) (.r tmp) :: ins2 "mov" (.r tmp) (.m i dst) :: copyBytes src tmp dst (i + 1) n

/-- Store %rax to an address that the stack top is pointing to. -/
def store (ty? : Option Ty) : M Unit := do
  pop "%rdi"
  let ty ← needTy "store(ty)" ty?
  match ty.kind with
  | .struct | .union => emits (copyBytes "%rax" "%r8b" "%rdi" 0 ty.size.toNat)
  | .float => emit (ins2 "movss" (xmm 0) (.m0 "%rdi"))
  | .double => emit (ins2 "movsd" (xmm 0) (.m0 "%rdi"))
  | .ldouble => do
    -- An assignment is an expression: keep its value on the x87 stack.
    emit (ins1 "fstpt" (.m0 "%rdi"))
    emit (ins1 "fldt" (.m0 "%rdi"))
  | _ =>
    if ty.size == 1 then emit (ins2 "mov" (.r "%al") (.m0 "%rdi"))
    else if ty.size == 2 then emit (ins2 "mov" (.r "%ax") (.m0 "%rdi"))
    else if ty.size == 4 then emit (ins2 "mov" (.r "%eax") (.m0 "%rdi"))
    else emit (ins2 "mov" rax (.m0 "%rdi"))

/-- the common tail of the floating arms of `cmp_zero` -/
def cmpZeroTail : List Line :=
  [ins1 "sete" (.r "%al"), ins1 "setnp" (.r "%dl"), ins2 "and" (.r "%dl") (.r "%al"),
   ins2 "xor" (.i 1) (.r "%al")]

def cmpZero (ty? : Option Ty) : M Unit := do
  let ty ← needTy "cmp_zero(ty)" ty?
  match ty.kind with
  | .float => do
    emit (ins2 "xorps" (xmm 1) (xmm 1))
    emit (ins2 "ucomiss" (xmm 1) (xmm 0))
    emits cmpZeroTail
  | .double => do
    emit (ins2 "xorpd" (xmm 1) (xmm 1))
    emit (ins2 "ucomisd" (xmm 1) (xmm 0))
    emits cmpZeroTail
  | .ldouble => do
    emit (ins0 "fldz")
    emit (ins0 "fucomip")
    emit (ins1 "fstp" (.r "%st(0)"))
    emits cmpZeroTail
  | _ =>
    if isInteger ty && ty.size ≤ 4 then emit (ins2 "cmp" (.i 0) (.r "%eax"))
    else emit (ins2 "cmp" (.i 0) rax)

def cast (from? to? : Option Ty) : M Unit := do
  let to ← needTy "cast(to)" to?
  if to.kind == .void then
    discard from?
  else if to.kind == .bool then do
    cmpZero from?
    emit (ins1 "setne" (.r "%al"))
    emit (ins2 "movzx" (.r "%al") (.r "%eax"))
  else do
    let fr ← needTy "cast(from)" from?
    let t1 := CastTable.getTypeId fr.kind fr.isUnsigned
    let t2 := CastTable.getTypeId to.kind to.isUnsigned
    match CastTable.castCell t1 t2 with
    | some l => emit l
    | none => pure ()

/-! ## struct classification -/

/-- short-circuit conjunction of a list of checks, left to right -/
def allM (f : α → Except String Bool) : List α → Except String Bool
  | [] => .ok true
  | a :: r =>
    match f a with
    | .error e => .error e
    | .ok false => .ok false
    | .ok true => allM f r

/-- `has_flonum(ty, lo, hi, offset)`; `fuel` bounds the nesting depth of the type -/
def hasFlonum (types : List Ty) : Nat → Ty → Int → Int → Int → Except String Bool
  | 0, _, _, _, _ => .error "has_flonum: nesting bound exceeded"
  | fuel + 1, ty, lo, hi, offset =>
    if ty.kind == .struct || ty.kind == .union then
      allM (fun (mem : Member) =>
        match (if mem.ty < 0 then none else types[mem.ty.toNat]?) with
        | none => .error "NULL dereference: mem->ty"
        | some mty => hasFlonum types fuel mty lo hi (offset + mem.offset)) ty.members
    else if ty.kind == .array then
      match (if ty.base < 0 then none else types[ty.base.toNat]?) with
      | none => .error "NULL dereference: ty->base"
      | some bty =>
        allM (fun (i : Nat) => hasFlonum types fuel bty lo hi (offset + bty.size * i))
          (List.range ty.arrayLen.toNat)
    else
      .ok (offset < lo || hi ≤ offset || ty.kind == .float || ty.kind == .double)

/-- `has_flonum1(ty)` / `has_flonum2(ty)` -/
def hasFlonum1E (env : Env) (ty : Ty) : Except String Bool :=
  hasFlonum env.types (env.types.length + 1) ty 0 8 0

def hasFlonum2E (env : Env) (ty : Ty) : Except String Bool :=
  hasFlonum env.types (env.types.length + 1) ty 8 16 0

def hasFlonum1 (env : Env) (ty : Ty) : M Bool := liftE (hasFlonum1E env ty)
def hasFlonum2 (env : Env) (ty : Ty) : M Bool := liftE (hasFlonum2E env ty)

/-- the register classes of a struct/union of at most 16 bytes: (ngp, nfp) = how many
    general-purpose and SSE registers its one or two eightbytes take -/
def structClsE (env : Env) (ty : Ty) : Except String (Int × Int) :=
  match hasFlonum1E env ty with
  | .error e => .error e
  | .ok fp1 =>
    if ty.size > 8 then
      match hasFlonum2E env ty with
      | .error e => .error e
      | .ok fp2 => .ok ((if fp1 then 0 else 1) + (if fp2 then 0 else 1), (if fp1 then 1 else 0) + (if fp2 then 1 else 0))
    else .ok (if fp1 then 0 else 1, if fp1 then 1 else 0)

/-- that many registers of each kind are still free -/
def fitsRegs (gp fp ngp nfp : Int) : Bool :=
  (nfp == 0 || fp + nfp ≤ FP_MAX) && (ngp == 0 || gp + ngp ≤ GP_MAX)

/-- `struct_in_regs(ty, gp, fp, &ngp, &nfp)`: returns (fits, ngp, nfp) -/
def structInRegsE (env : Env) (ty : Ty) (gp fp : Int) : Except String (Bool × Int × Int) :=
  -- A GNU empty struct occupies no register and no stack slot.
  if ty.size == 0 then .ok (true, 0, 0) else
  match structClsE env ty with
  | .error e => .error e
  | .ok (ngp, nfp) => .ok (fitsRegs gp fp ngp nfp, ngp, nfp)

def structInRegs (env : Env) (ty : Ty) (gp fp : Int) : M (Bool × Int × Int) :=
  liftE (structInRegsE env ty gp fp)

/-! ## function calls -/

def pushStruct (ty : Ty) : M Unit := do
  let sz ← liftE (alignTo ty.size 8)
  emit (ins2 "sub" (.i sz) rsp)
  addDepth (sz.tdiv 8)
  emits (copyBytes "%rax" "%r10b" "%rsp" 0 ty.size.toNat)

/-- one argument of a call: its type and its code -/
structure Arg where
  ty : Option Ty
  gen : M Unit

/-- `push_args2(args, first_pass)`; `flags` are the `pass_by_stack` bits -/
def pushArgs2 : List (Arg × Bool) → Bool → M Unit
  | [], _ => pure ()
  | (arg, byStack) :: rest, firstPass => do
    pushArgs2 rest firstPass
    if (firstPass && !byStack) || (!firstPass && byStack) then
      pure ()
    else do
      arg.gen
      let ty ← needTy "args->ty" arg.ty
      match ty.kind with
      | .struct | .union => pushStruct ty
      | .float | .double => pushf
      | .ldouble => do
        emit (ins2 "sub" (.i 16) rsp)
        emit (ins1 "fstpt" (.m0 "%rsp"))
        addDepth 2
      | _ => push

/-- one round of the classification loop of `push_args`, for an argument of type `ty` when `gp`/`fp`
    registers are taken: (`pass_by_stack`, gp, fp after it, stack slots it takes) -/
def classifyArgE (env : Env) (ty : Ty) (gp fp : Int) : Except String (Bool × Int × Int × Int) :=
  match ty.kind with
  | .struct | .union =>
    if ty.size > 16 then do
      let sz ← alignTo ty.size 8
      pure (true, gp, fp, sz.tdiv 8)
    else do
      let (fits, ngp, nfp) ← structInRegsE env ty gp fp
      if fits then pure (false, gp + ngp, fp + nfp, 0)
      else do
        let sz ← alignTo ty.size 8
        pure (true, gp, fp, sz.tdiv 8)
  | .float | .double =>
    if fp ≥ FP_MAX then pure (true, gp, fp + 1, 1) else pure (false, gp, fp + 1, 0)
  | .ldouble => pure (true, gp, fp, 2)
  | _ =>
    if gp ≥ GP_MAX then pure (true, gp + 1, fp, 1) else pure (false, gp + 1, fp, 0)

/-- the classification loop of `push_args`: (`pass_by_stack` of every argument, stack) -/
def classifyArgsE (env : Env) : List (Option Ty) → Int → Int → Int → Except String (List Bool × Int)
  | [], _, _, stack => .ok ([], stack)
  | ty? :: rest, gp, fp, stack =>
    match ty? with
    | none => .error "NULL dereference: arg->ty"
    | some ty =>
      match classifyArgE env ty gp fp with
      | .error e => .error e
      | .ok (b, gp', fp', k) =>
        match classifyArgsE env rest gp' fp' (stack + k) with
        | .error e => .error e
        | .ok (bs, st) => .ok (b :: bs, st)

def classifyArgs (env : Env) (args : List Arg) (gp fp stack : Int) : M (List Bool × Int) :=
  liftE (classifyArgsE env (args.map (·.ty)) gp fp stack)

/-- `node->ret_buffer && node->ty->size > 16` -/
def bigRet (i : NInfo) (retBuffer : Option Var) : M Bool :=
  match retBuffer with
  | none => pure false
  | some _ => do
    let ty ← needTy "node->ty" i.ty
    pure (ty.size > 16)

/-- `push_args(node)`, returns `stack` -/
def pushArgs (env : Env) (i : NInfo) (retBuffer : Option Var) (args : List Arg) : M Int := do
  -- If the return type is a large struct/union, the caller passes
  -- a pointer to a buffer as if it were the first argument.
  let big ← bigRet i retBuffer
  let gp0 : Int := if big then 1 else 0
  let (flags, stack) ← classifyArgs env args gp0 0 0
  let depth ← getDepth
  let stack ← if (depth + stack).tmod 2 == 1 then do
      emit (ins2 "sub" (.i 8) rsp)
      addDepth 1
      pure (stack + 1)
    else pure stack
  pushArgs2 (args.zip flags) true
  pushArgs2 (args.zip flags) false
  if big then do
    let rb ← needVar "node->ret_buffer" retBuffer
    emit (ins2 "lea" (rbp (env.off rb)) rax)
    push
  pure stack

/-- `pop(argreg64[gp])` -/
def popGp (gp : Int) : M Unit := do
  pop (← argreg argreg64 gp)

/-- load one eightbyte of a struct argument into the next SSE (`popf(fp++)`) or general-purpose
    (`pop(argreg64[gp++])`) register -/
def popEightbyte (isFp : Bool) (gp fp : Int) : M (Int × Int) :=
  if isFp then do
    popf fp.toNat
    pure (gp, fp + 1)
  else do
    popGp gp
    pure (gp + 1, fp)

/-- the struct/union arm of the register-loading loop -/
def popStruct (env : Env) (ty : Ty) (gp fp : Int) : M (Int × Int) :=
  if ty.size > 16 || ty.size == 0 then pure (gp, fp)
  else do
    let r ← structInRegs env ty gp fp
    if r.1 then do
      let f1 ← hasFlonum1 env ty
      let gf ← popEightbyte f1 gp fp
      if ty.size > 8 then do
        let f2 ← hasFlonum2 env ty
        popEightbyte f2 gf.1 gf.2
      else pure gf
    else pure (gp, fp)

/-- one round of the register-loading loop of the `ND_FUNCALL` arm, for an argument of type `ty`
    when `gp`/`fp` registers are loaded: pops what was pushed for it, returns (gp, fp) after it -/
def popArg (env : Env) (ty : Ty) (gp fp : Int) : M (Int × Int) :=
  match ty.kind with
  | .struct | .union => popStruct env ty gp fp
  | .float | .double =>
    if fp < FP_MAX then do popf fp.toNat; pure (gp, fp + 1)
    else pure (gp, fp)
  | .ldouble => pure (gp, fp)
  | _ =>
    if gp < GP_MAX then do popGp gp; pure (gp + 1, fp)
    else pure (gp, fp)

/-- the register-loading loop of the `ND_FUNCALL` arm; returns the final (gp, fp) -/
def popArgs (env : Env) : List Arg → Int → Int → M (Int × Int)
  | [], gp, fp => pure (gp, fp)
  | arg :: rest, gp, fp => do
    let ty ← needTy "arg->ty" arg.ty
    let (gp, fp) ← popArg env ty gp fp
    popArgs env rest gp fp

/-- `mov %al, off+i(%rbp); shr $8, %rax` for i in [lo, hi) -/
def retBytes (reg1 reg2 : String) (off : Int) : Nat → Nat → List Line
  | _, 0 => []
  | i, n + 1 => ins2 "mov" (.r reg1) (rbp (off + i)) :: ins2 "shr" (.i 8) (.r reg2)
                  :: retBytes reg1 reg2 off (i + 1) n

def copyRetBuffer (env : Env) (var : Var) : M Unit := do
  let ty ← needTy "var->ty" var.ty
  let off := env.off var
  -- A GNU empty struct is returned in no register.
  if ty.size == 0 then return ()
  let f1 ← hasFlonum1 env ty
  let (gp, fp) : Nat × Nat ← if f1 then do
      unless ty.size == 4 || 8 ≤ ty.size do fail "assert(ty->size == 4 || 8 <= ty->size)"
      if ty.size == 4 then emit (ins2 "movss" (xmm 0) (rbp off))
      else emit (ins2 "movsd" (xmm 0) (rbp off))
      pure (0, 1)
    else do
      emits (retBytes "%al" "%rax" off 0 (min 8 ty.size).toNat)
      pure (1, 0)
  if ty.size > 8 then do
    let f2 ← hasFlonum2 env ty
    if f2 then do
      unless ty.size == 12 || ty.size == 16 do fail "assert(ty->size == 12 || ty->size == 16)"
      if ty.size == 12 then emit (ins2 "movss" (xmm fp) (rbp (off + 8)))
      else emit (ins2 "movsd" (xmm fp) (rbp (off + 8)))
    else do
      let reg1 := if gp == 0 then "%al" else "%dl"
      let reg2 := if gp == 0 then "%rax" else "%rdx"
      emits (retBytes reg1 reg2 off 8 ((min 16 ty.size).toNat - 8))

/-- `shl $8, reg2; mov i(%rdi), reg1` for i = hi-1 downto lo -/
def regBytes (reg1 reg2 : String) (lo : Nat) : Nat → List Line
  | 0 => []
  | n + 1 => ins2 "shl" (.i 8) (.r reg2) :: ins2 "mov" (.m (lo + n : Nat) "%rdi") (.r reg1)
               :: regBytes reg1 reg2 lo n

def copyStructReg (env : Env) : M Unit := do
  let ty ← needTy "current_fn->ty->return_ty" env.retTy
  if ty.size == 0 then return ()
  emit (ins2 "mov" rax rdi)
  let f1 ← liftE (hasFlonum env.types (env.types.length + 1) ty 0 8 0)
  let (gp, fp) : Nat × Nat ← if f1 then do
      unless ty.size == 4 || 8 ≤ ty.size do fail "assert(ty->size == 4 || 8 <= ty->size)"
      if ty.size == 4 then emit (ins2 "movss" (.m0 "%rdi") (xmm 0))
      else emit (ins2 "movsd" (.m0 "%rdi") (xmm 0))
      pure (0, 1)
    else do
      emit (ins2 "mov" (.i 0) rax)
      emits (regBytes "%al" "%rax" 0 (min 8 ty.size).toNat)
      pure (1, 0)
  if ty.size > 8 then do
    let f2 ← liftE (hasFlonum env.types (env.types.length + 1) ty 8 16 0)
    if f2 then do
      unless ty.size == 12 || ty.size == 16 do fail "assert(ty->size == 12 || ty->size == 16)"
      if ty.size == 12 then emit (ins2 "movss" (.m 8 "%rdi") (xmm fp))   -- /repo 7826748 (was `== 4`)
      else emit (ins2 "movsd" (.m 8 "%rdi") (xmm fp))
    else do
      let reg1 := if gp == 0 then "%al" else "%dl"
      let reg2 := if gp == 0 then "%rax" else "%rdx"
      emit (ins2 "mov" (.i 0) (.r reg2))
      emits (regBytes reg1 reg2 8 ((min 16 ty.size).toNat - 8))

def copyStructMem (env : Env) : M Unit := do
  let ty ← needTy "current_fn->ty->return_ty" env.retTy
  match env.params with
  | [] => nullDeref "current_fn->params"
  | var :: _ => do
    emit (ins2 "mov" (rbp (env.off var)) rdi)
    emits (copyBytes "%rax" "%dl" "%rdi" 0 ty.size.toNat)
    -- The address of the returned object is returned in RAX.
    emit (ins2 "mov" rdi rax)

def builtinAlloca (env : Env) : M Unit := do
  let ab ← needVar "current_fn->alloca_bottom" env.allocaBottom
  let off := env.off ab
  -- Align size to 16 bytes.
  emit (ins2 "add" (.i 15) rdi)
  emit (ins2 "and" (.s "$0xfffffff0") (.r "%edi"))
  -- Shift the temporary area by %rdi.
  emit (ins2 "mov" (rbp off) (.r "%rcx"))
  emit (ins2 "sub" rsp (.r "%rcx"))
  emit (ins2 "mov" rsp rax)
  emit (ins2 "sub" rdi rsp)
  emit (ins2 "mov" rsp (.r "%rdx"))
  emit (.label "1")
  emit (ins2 "cmp" (.i 0) (.r "%rcx"))
  emit (ins1 "je" (.s "2f"))
  emit (ins2 "mov" (.m0 "%rax") (.r "%r8b"))
  emit (ins2 "mov" (.r "%r8b") (.m0 "%rdx"))
  emit (ins1 "inc" (.r "%rdx"))
  emit (ins1 "inc" rax)
  emit (ins1 "dec" (.r "%rcx"))
  emit (ins1 "jmp" (.s "1b"))
  emit (.label "2")
  -- Move alloca_bottom pointer.
  emit (ins2 "mov" (rbp off) rax)
  emit (ins2 "sub" rdi rax)
  emit (ins2 "mov" rax (rbp off))

/-! ## gen_expr arms -/

def numArm (i : NInfo) (val : Int) (f32 f64 lo hi : Nat) : M Unit := do
  let ty ← needTy "node->ty" i.ty
  match ty.kind with
  | .float => do
    emit (ins2 "mov" (.i f32) (.r "%eax"))            -- `# float …` comment not printed
    emit (ins2 "movq" rax (xmm 0))
  | .double => do
    emit (ins2 "mov" (.i f64) rax)                    -- `# double …`
    emit (ins2 "movq" rax (xmm 0))
  | .ldouble => do
    emit (ins2 "mov" (.i lo) rax)                     -- `# long double …`
    emit (ins2 "mov" rax (.m (-16) "%rsp"))
    emit (ins2 "mov" (.i hi) rax)
    emit (ins2 "mov" rax (.m (-8) "%rsp"))
    emit (ins1 "fldt" (.m (-16) "%rsp"))
  | _ => emit (ins2 "mov" (.i val) rax)

def negArm (i : NInfo) (lhs : M Unit) : M Unit := do
  lhs
  let ty ← needTy "node->ty" i.ty
  match ty.kind with
  | .float => do
    emit (ins2 "mov" (.i 1) rax)
    emit (ins2 "shl" (.i 31) rax)
    emit (ins2 "movq" rax (xmm 1))
    emit (ins2 "xorps" (xmm 1) (xmm 0))
  | .double => do
    emit (ins2 "mov" (.i 1) rax)
    emit (ins2 "shl" (.i 63) rax)
    emit (ins2 "movq" rax (xmm 1))
    emit (ins2 "xorpd" (xmm 1) (xmm 0))
  | .ldouble => emit (ins0 "fchs")
  | _ => emit (ins1 "neg" rax)

/-- `(w == 64) ? -1UL : (1UL << w) - 1` as an `unsigned long` -/
def bitMask (w : Int) : Nat :=
  if w == 64 then 18446744073709551615 else (2 ^ w.toNat + 18446744073709551615) % 18446744073709551616

/-- the tail shared by the bit-field arms of `ND_MEMBER` and `ND_ASSIGN`: bring the field to the
    top of %rax and shift it back down, extending by its signedness -/
def bitfieldExtract (env : Env) (mem : Member) : M Unit := do
  emit (ins2 "shl" (.i (64 - mem.bitWidth - mem.bitOffset)) rax)
  let mty ← needTy "mem->ty" (env.ty? mem.ty)
  if mty.isUnsigned || mty.kind == .bool then emit (ins2 "shr" (.i (64 - mem.bitWidth)) rax)
  else emit (ins2 "sar" (.i (64 - mem.bitWidth)) rax)

/-- `ND_MEMBER`: `gen_addr(node); load(node->ty);` + bit-field extraction -/
def memberArm (i : NInfo) (addrLhs : M Unit) (mem? : Option Member) (env : Env) : M Unit := do
  addrMember addrLhs mem?
  load i.ty
  match mem? with
  | none => nullDeref "node->member"
  | some mem =>
    if mem.isBitfield then bitfieldExtract env mem
    else pure ()

/-- `node->lhs->kind == ND_MEMBER && node->lhs->member->is_bitfield` -/
def bitfieldOf : Node → Option Member
  | .member _ _ (some m) => if m.isBitfield then some m else none
  | _ => none

def assignArm (env : Env) (i : NInfo) (bf : Option Member) (addrLhs rhs : M Unit) : M Unit := do
  addrLhs
  push
  rhs
  match bf with
  | some mem => do
    -- If the lhs is a bitfield, we need to read the current value
    -- from memory and merge it with a new value. The mask may be
    -- wider than an immediate operand, so it goes through a register.
    let mask := bitMask mem.bitWidth
    emit (ins2 "mov" rax rdi)
    emit (ins2 "mov" (.i (toI64 mask)) (.r "%r9"))
    emit (ins2 "and" (.r "%r9") rdi)
    emit (ins2 "shl" (.i mem.bitOffset) rdi)
    emit (ins2 "mov" (.m0 "%rsp") rax)
    load (env.ty? mem.ty)
    -- `~(mask << mem->bit_offset)` as an `unsigned long`, printed with %ld
    let shifted := (mask * 2 ^ mem.bitOffset.toNat) % 18446744073709551616
    emit (ins2 "mov" (.i (toI64 ((18446744073709551615 - shifted : Nat) : Int))) (.r "%r9"))
    emit (ins2 "and" (.r "%r9") rax)
    emit (ins2 "or" rdi rax)
    store i.ty
    -- The value of the assignment is the value the bit-field has
    -- after it, not the unconverted right operand.
    bitfieldExtract env mem
  | none => store i.ty

def condArm (c : M Unit) (cty : Option Ty) (t e : M Unit) : M Unit := do
  let k ← count
  c
  cmpZero cty
  emit (ins1 "je" (.s s!".L.else.{k}"))
  t
  emit (ins1 "jmp" (.s s!".L.end.{k}"))
  emit (.label s!".L.else.{k}")
  e
  emit (.label s!".L.end.{k}")

def notArm (lhs : M Unit) (lty : Option Ty) : M Unit := do
  lhs
  cmpZero lty
  emit (ins1 "sete" (.r "%al"))
  emit (ins2 "movzx" (.r "%al") rax)

def logandArm (lhs : M Unit) (lty : Option Ty) (rhs : M Unit) (rty : Option Ty) : M Unit := do
  let k ← count
  lhs
  cmpZero lty
  emit (ins1 "je" (.s s!".L.false.{k}"))
  rhs
  cmpZero rty
  emit (ins1 "je" (.s s!".L.false.{k}"))
  emit (ins2 "mov" (.i 1) rax)
  emit (ins1 "jmp" (.s s!".L.end.{k}"))
  emit (.label s!".L.false.{k}")
  emit (ins2 "mov" (.i 0) rax)
  emit (.label s!".L.end.{k}")

def logorArm (lhs : M Unit) (lty : Option Ty) (rhs : M Unit) (rty : Option Ty) : M Unit := do
  let k ← count
  lhs
  cmpZero lty
  emit (ins1 "jne" (.s s!".L.true.{k}"))
  rhs
  cmpZero rty
  emit (ins1 "jne" (.s s!".L.true.{k}"))
  emit (ins2 "mov" (.i 0) rax)
  emit (ins1 "jmp" (.s s!".L.end.{k}"))
  emit (.label s!".L.true.{k}")
  emit (ins2 "mov" (.i 1) rax)
  emit (.label s!".L.end.{k}")

/-- `node->lhs->kind == ND_VAR && !strcmp(node->lhs->var->name, "alloca")` -/
def isAllocaCall : Node → M Bool
  | .var _ v? => do
    let v ← needVar "node->lhs->var" v?
    match v.name with
    | none => nullDeref "strcmp(node->lhs->var->name, …)"
    | some n => pure (n == "alloca")
  | .null => nullDeref "node->lhs"
  | _ => pure false

/-- the `call` and what follows it in the `ND_FUNCALL` arm -/
def callTail (env : Env) (retBuffer : Option Var) (ty : Ty) (stackArgs : Int) : M Unit := do
  -- (the note records the class of the returned value; it is not printed)
  if ty.kind == .ldouble then emit (.insA ⟨"call", [.s "*%r10"]⟩ "ret:f80")
  else emit (ins1 "call" (.s "*%r10"))
  emit (ins2 "add" (.i (stackArgs * 8)) rsp)
  addDepth (-stackArgs)
  -- It looks like the most significant 48 or 56 bits in RAX may
  -- contain garbage if a function return type is short or bool/char,
  -- respectively. We clear the upper bits here.
  match ty.kind with
  | .bool => emit (ins2 "movzx" (.r "%al") (.r "%eax"))
  | .char =>
    if ty.isUnsigned then emit (ins2 "movzbl" (.r "%al") (.r "%eax"))
    else emit (ins2 "movsbl" (.r "%al") (.r "%eax"))
  | .short =>
    if ty.isUnsigned then emit (ins2 "movzwl" (.r "%ax") (.r "%eax"))
    else emit (ins2 "movswl" (.r "%ax") (.r "%eax"))
  | _ =>
    -- If the return type is a small struct, a value is returned
    -- using up to two registers.
    match retBuffer with
    | some rb =>
      if ty.size ≤ 16 then do
        copyRetBuffer env rb
        emit (ins2 "lea" (rbp (env.off rb)) rax)
      else pure ()
    | none => pure ()

/-- the `ND_FUNCALL` arm after `push_args`: callee address, register loading, call -/
def callRest (env : Env) (i : NInfo) (fn : M Unit) (retBuffer : Option Var) (args : List Arg)
    (stackArgs : Int) : M Unit := do
  fn
  -- If the return type is a large struct/union, the caller passes
  -- a pointer to a buffer as if it were the first argument.
  let big ← bigRet i retBuffer
  let gp0 : Int ← if big then do popGp 0; pure 1 else pure 0
  let gf ← popArgs env args gp0 0
  emit (ins2 "mov" rax (.r "%r10"))
  emit (ins2 "mov" (.i gf.2) rax)
  let ty ← needTy "node->ty" i.ty
  callTail env retBuffer ty stackArgs

def funcallArm (env : Env) (i : NInfo) (isAlloca : M Bool) (fn : M Unit) (retBuffer : Option Var)
    (args : List Arg) : M Unit := do
  if ← isAlloca then do
    match args with
    | [] => nullDeref "node->args"
    | a :: _ => a.gen
    emit (ins2 "mov" rax rdi)
    builtinAlloca env
  else do
    let stackArgs ← pushArgs env i retBuffer args
    callRest env i fn retBuffer args stackArgs

def casArm (env : Env) (addr : M Unit) (addrTy : Option Ty) (old : M Unit) (oldTy : Option Ty)
    (new : M Unit) (newTy : Option Ty) : M Unit := do
  addr
  push
  new
  -- Compare-and-swap works on the object representation. Move the
  -- bits of a floating value to %rax.
  let nty ← needTy "node->cas_new->ty" newTy
  if nty.kind == .float then emit (ins2 "movd" (xmm 0) (.r "%eax"))
  else if nty.kind == .double then emit (ins2 "movq" (xmm 0) rax)
  else pure ()
  push
  old
  emit (ins2 "mov" rax (.r "%r8"))
  let oty ← needTy "node->cas_old->ty" oldTy
  let obase ← needTy "node->cas_old->ty->base" (env.ty? oty.base)
  if isFlonum obase then emit (ins2 "mov" (.m0 "%rax") (.r (← regAx obase.size)))
  else load (some obase)
  pop "%rdx" -- new
  pop "%rdi" -- addr
  let aty ← needTy "node->cas_addr->ty" addrTy
  let bty ← needTy "node->cas_addr->ty->base" (env.ty? aty.base)
  let sz := bty.size
  emit (ins2 "lock cmpxchg" (.r (← regDx sz)) (.m0 "%rdi"))
  emit (ins1 "sete" (.r "%cl"))
  emit (ins1 "je" (.s "1f"))
  emit (ins2 "mov" (.r (← regAx sz)) (.m0 "%r8"))
  emit (.label "1")
  emit (ins2 "movzbl" (.r "%cl") (.r "%eax"))

def exchArm (env : Env) (lhs : M Unit) (lty : Option Ty) (rhs : M Unit) : M Unit := do
  lhs
  push
  rhs
  pop "%rdi"
  let lt ← needTy "node->lhs->ty" lty
  let ty ← needTy "node->lhs->ty->base" (env.ty? lt.base)
  -- A floating value is exchanged through %rax.
  if ty.kind == .float then emit (ins2 "movd" (xmm 0) (.r "%eax"))
  else if ty.kind == .double then emit (ins2 "movq" (xmm 0) rax)
  else pure ()
  emit (ins2 "xchg" (.r (← regAx ty.size)) (.m0 "%rdi"))
  if ty.kind == .float then emit (ins2 "movd" (.r "%eax") (xmm 0))
  else if ty.kind == .double then emit (ins2 "movq" rax (xmm 0))
  else pure ()
  -- A value shorter than 4 bytes is kept sign- or zero-extended in
  -- %eax; xchg has only replaced the low byte or word.
  if ty.size == 1 then
    emit (ins2 (if ty.isUnsigned then "movzbl" else "movsbl") (.r "%al") (.r "%eax"))
  else if ty.size == 2 then
    emit (ins2 (if ty.isUnsigned then "movzwl" else "movswl") (.r "%ax") (.r "%eax"))
  else pure ()

/-- the tail of `gen_expr`, `TY_FLOAT`/`TY_DOUBLE` operands (`sz` is "ss" or "sd") -/
def binopFlo (sz : String) (op : BinOp) (lhs rhs : M Unit) : M Unit := do
  rhs
  pushf
  lhs
  popf 1
  match op with
  | .add => emit (ins2 ("add" ++ sz) (xmm 1) (xmm 0))
  | .sub => emit (ins2 ("sub" ++ sz) (xmm 1) (xmm 0))
  | .mul => emit (ins2 ("mul" ++ sz) (xmm 1) (xmm 0))
  | .div => emit (ins2 ("div" ++ sz) (xmm 1) (xmm 0))
  | .eq | .ne | .lt | .le => do
    emit (ins2 ("ucomi" ++ sz) (xmm 0) (xmm 1))
    match op with
    | .eq => do
      emit (ins1 "sete" (.r "%al"))
      emit (ins1 "setnp" (.r "%dl"))
      emit (ins2 "and" (.r "%dl") (.r "%al"))
    | .ne => do
      emit (ins1 "setne" (.r "%al"))
      emit (ins1 "setp" (.r "%dl"))
      emit (ins2 "or" (.r "%dl") (.r "%al"))
    | .lt => emit (ins1 "seta" (.r "%al"))
    | _ => emit (ins1 "setae" (.r "%al"))
    emit (ins2 "and" (.i 1) (.r "%al"))
    emit (ins2 "movzb" (.r "%al") rax)
  | _ => fail "error_tok: invalid expression"

/-- the tail of `gen_expr`, `TY_LDOUBLE` operands -/
def binopLd (op : BinOp) (lhs rhs : M Unit) : M Unit := do
  lhs
  rhs
  match op with
  | .add => emit (ins0 "faddp")
  | .sub => emit (ins0 "fsubrp")
  | .mul => emit (ins0 "fmulp")
  | .div => emit (ins0 "fdivrp")
  | .eq | .ne | .lt | .le => do
    emit (ins0 "fcomip")
    emit (ins1 "fstp" (.r "%st(0)"))
    match op with
    | .eq => do
      emit (ins1 "sete" (.r "%al"))
      emit (ins1 "setnp" (.r "%dl"))
      emit (ins2 "and" (.r "%dl") (.r "%al"))
    | .ne => do
      emit (ins1 "setne" (.r "%al"))
      emit (ins1 "setp" (.r "%dl"))
      emit (ins2 "or" (.r "%dl") (.r "%al"))
    | .lt => emit (ins1 "seta" (.r "%al"))
    | _ => emit (ins1 "setae" (.r "%al"))
    emit (ins2 "movzb" (.r "%al") rax)
  | _ => fail "error_tok: invalid expression"

/-- the tail of `gen_expr`, every other operand type -/
def binopInt (i : NInfo) (op : BinOp) (lty : Ty) (lhs rhs : M Unit) : M Unit := do
  rhs
  push
  lhs
  pop "%rdi"
  let wide := lty.kind == .long || lty.base ≥ 0
  let ax := if wide then "%rax" else "%eax"
  let di := if wide then "%rdi" else "%edi"
  let dx := if wide then "%rdx" else "%edx"
  match op with
  | .add => emit (ins2 "add" (.r di) (.r ax))
  | .sub => emit (ins2 "sub" (.r di) (.r ax))
  | .mul => emit (ins2 "imul" (.r di) (.r ax))
  | .div | .mod => do
    let ty ← needTy "node->ty" i.ty
    if ty.isUnsigned then do
      emit (ins2 "mov" (.i 0) (.r dx))
      emit (ins1 "div" (.r di))
    else do
      if lty.size == 8 then emit (ins0 "cqo") else emit (ins0 "cdq")
      emit (ins1 "idiv" (.r di))
    if op == .mod then emit (ins2 "mov" (.r "%rdx") rax) else pure ()
  | .bitand => emit (ins2 "and" (.r di) (.r ax))
  | .bitor => emit (ins2 "or" (.r di) (.r ax))
  | .bitxor => emit (ins2 "xor" (.r di) (.r ax))
  | .eq | .ne | .lt | .le => do
    emit (ins2 "cmp" (.r di) (.r ax))
    match op with
    | .eq => emit (ins1 "sete" (.r "%al"))
    | .ne => emit (ins1 "setne" (.r "%al"))
    | .lt => if lty.isUnsigned then emit (ins1 "setb" (.r "%al")) else emit (ins1 "setl" (.r "%al"))
    | _ => if lty.isUnsigned then emit (ins1 "setbe" (.r "%al")) else emit (ins1 "setle" (.r "%al"))
    emit (ins2 "movzb" (.r "%al") rax)
  | .shl => do
    emit (ins2 "mov" rdi (.r "%rcx"))
    emit (ins2 "shl" (.r "%cl") (.r ax))
  | .shr => do
    emit (ins2 "mov" rdi (.r "%rcx"))
    if lty.isUnsigned then emit (ins2 "shr" (.r "%cl") (.r ax))
    else emit (ins2 "sar" (.r "%cl") (.r ax))

/-- the tail of `gen_expr`: binary operators, `switch (node->lhs->ty->kind)` -/
def binopArm (i : NInfo) (op : BinOp) (lhs : M Unit) (lty? : Option Ty) (rhs : M Unit) : M Unit := do
  let lty ← needTy "node->lhs->ty" lty?
  match lty.kind with
  | .float => binopFlo "ss" op lhs rhs
  | .double => binopFlo "sd" op lhs rhs
  | .ldouble => binopLd op lhs rhs
  | _ => binopInt i op lty lhs rhs

def memzeroArm (env : Env) (v? : Option Var) : M Unit := do
  let v ← needVar "node->var" v?
  let vty ← needTy "node->var->ty" v.ty
  -- `rep stosb` is equivalent to `memset(%rdi, %al, %rcx)`.
  emit (ins2 "mov" (.i vty.size) (.r "%rcx"))
  emit (ins2 "lea" (rbp (env.off v)) rdi)
  emit (ins2 "mov" (.i 0) (.r "%al"))
  emit (ins0 "rep stosb")

/-! ## gen_stmt arms -/

def ifArm (c : M Unit) (cty : Option Ty) (t : M Unit) (e : Option (M Unit)) : M Unit := do
  let k ← count
  c
  cmpZero cty
  emit (ins1 "je" (.s s!" .L.else.{k}"))        -- the C text has two spaces here
  t
  emit (ins1 "jmp" (.s s!".L.end.{k}"))
  emit (.label s!".L.else.{k}")
  match e with
  | some e => e
  | none => pure ()
  emit (.label s!".L.end.{k}")

def forArm (init : Option (M Unit)) (c : Option (M Unit × Option Ty)) (t : M Unit)
    (inc : Option (M Unit × Option Ty)) (brk cont : Option String) : M Unit := do
  let k ← count
  match init with
  | some x => x
  | none => pure ()
  emit (.label s!".L.begin.{k}")
  match c with
  | some (c, cty) => do
    c
    cmpZero cty
    emit (ins1 "je" (.s (cstr brk)))
  | none => pure ()
  t
  emit (.label (cstr cont))
  match inc with
  | some (x, ty) => do
    x
    discard ty
  | none => pure ()
  emit (ins1 "jmp" (.s s!".L.begin.{k}"))
  emit (.label (cstr brk))

def doArm (t c : M Unit) (cty : Option Ty) (brk cont : Option String) : M Unit := do
  let k ← count
  emit (.label s!".L.begin.{k}")
  t
  emit (.label (cstr cont))
  c
  cmpZero cty
  emit (ins1 "jne" (.s s!".L.begin.{k}"))
  emit (.label (cstr brk))

/-- the compare ladder of one `case` -/
def caseLadder (wide : Bool) (c : Case) : List Line :=
  let ax := if wide then "%rax" else "%eax"
  let di := if wide then "%rdi" else "%edi"
  -- Case constants are converted to the type of the controlling
  -- expression. A 64-bit constant that is not a sign-extended
  -- 32-bit immediate has to go through a register.
  let begin0 := c.begin_
  let span0 := toI64 (c.end_ - c.begin_)
  let begin_ := if wide then begin0 else toI32 begin0
  let span := if wide then span0 else toI32 span0
  if c.begin_ == c.end_ then
    (if begin_ == toI32 begin_ then [ins2 "cmp" (.i begin_) (.r ax)]
     else [ins2 "mov" (.i begin_) rdi, ins2 "cmp" rdi rax])
    ++ [ins1 "je" (.s (cstr c.label))]
  else
    -- [GNU] Case ranges
    [ins2 "mov" (.r ax) (.r di)]
    ++ (if begin_ == toI32 begin_ then [ins2 "sub" (.i begin_) (.r di)]
        else [ins2 "mov" (.i begin_) (.r "%rdx"), ins2 "sub" (.r "%rdx") rdi])
    ++ (if span == toI32 span then [ins2 "cmp" (.i span) (.r di)]
        else [ins2 "mov" (.i span) (.r "%rdx"), ins2 "cmp" (.r "%rdx") rdi])
    ++ [ins1 "jbe" (.s (cstr c.label))]

def switchArm (c : M Unit) (cty : Option Ty) (t : M Unit) (brk : Option String) (cases : List Case)
    (dflt : Option (Option String)) : M Unit := do
  c
  match cases with
  | [] => pure ()
  | _ => do
    let ty ← needTy "node->cond->ty" cty
    emits (cases.flatMap (caseLadder (ty.size == 8)))
  match dflt with
  | some l => emit (ins1 "jmp" (.s (cstr l)))
  | none => pure ()
  emit (ins1 "jmp" (.s (cstr brk)))
  t
  emit (.label (cstr brk))

def returnArm (env : Env) (lhs : Option (M Unit × Option Ty)) : M Unit := do
  match lhs with
  | some (x, ty?) => do
    x
    let ty ← needTy "node->lhs->ty" ty?
    match ty.kind with
    | .struct | .union =>
      if ty.size ≤ 16 then copyStructReg env else copyStructMem env
    | _ => pure ()
  | none => pure ()
  emit (ins1 "jmp" (.s s!".L.return.{cstr env.fnName}"))

/-! ## the recursion over the tree -/

/-- `some (gen n)` unless `n` is NULL -/
def optGen (n : Node) (g : M Unit) : Option (M Unit) :=
  match n with
  | .null => none
  | _ => some g

mutual
/-- Compute the absolute address of a given node. -/
def genAddr (env : Env) : Node → M Unit
  | .null => nullDeref "gen_addr(node)"
  | .var i v => addrVar env i v
  | .deref _ lhs => genExpr env lhs
  | .comma _ lhs rhs => do
    genExpr env lhs
    discard lhs.ty?
    genAddr env rhs
  | .member _ lhs mem => addrMember (genAddr env lhs) mem
  | .funcall i lhs _ retBuffer args =>
    match retBuffer with
    | some _ => do
      loc i
      funcallArm env i (isAllocaCall lhs) (genExpr env lhs) retBuffer (genArgs env args)
    | none => fail "error_tok: not an lvalue"
  | .assign i lhs rhs => do
    let ty ← needTy "node->ty" i.ty
    if ty.isStructOrUnion then do
      loc i
      assignArm env i (bitfieldOf lhs) (genAddr env lhs) (genExpr env rhs)
    else fail "error_tok: not an lvalue"
  | .cond i c t e => do
    let ty ← needTy "node->ty" i.ty
    if ty.isStructOrUnion then do
      loc i
      condArm (genExpr env c) c.ty? (genExpr env t) (genExpr env e)
    else fail "error_tok: not an lvalue"
  | .vlaPtr _ v? => do
    let v ← needVar "node->var" v?
    emit (ins2 "lea" (rbp (env.off v)) rax)
  | _ => fail "error_tok: not an lvalue"

/-- Generate code for a given node. -/
def genExpr (env : Env) : Node → M Unit
  | .null => nullDeref "gen_expr(node)"
  | .nullExpr i => loc i
  | .num i val f32 f64 lo hi => do loc i; numArm i val f32 f64 lo hi
  | .neg i lhs => do loc i; negArm i (genExpr env lhs)
  | .var i v => do loc i; addrVar env i v; load i.ty
  | .member i lhs mem => do loc i; memberArm i (genAddr env lhs) mem env
  | .deref i lhs => do loc i; genExpr env lhs; load i.ty
  | .addr i lhs => do loc i; genAddr env lhs
  | .assign i lhs rhs => do loc i; assignArm env i (bitfieldOf lhs) (genAddr env lhs) (genExpr env rhs)
  | .stmtExpr i body => do loc i; genStmtExprBody env body
  | .comma i lhs rhs => do
    loc i
    genExpr env lhs
    discard lhs.ty?
    genExpr env rhs
  | .cast i lhs => do
    loc i
    genExpr env lhs
    cast lhs.ty? i.ty
  | .memzero i v => do loc i; memzeroArm env v
  | .cond i c t e => do loc i; condArm (genExpr env c) c.ty? (genExpr env t) (genExpr env e)
  | .not i lhs => do loc i; notArm (genExpr env lhs) lhs.ty?
  | .bitnot i lhs => do
    loc i
    genExpr env lhs
    emit (ins1 "not" rax)
  | .logand i lhs rhs => do loc i; logandArm (genExpr env lhs) lhs.ty? (genExpr env rhs) rhs.ty?
  | .logor i lhs rhs => do loc i; logorArm (genExpr env lhs) lhs.ty? (genExpr env rhs) rhs.ty?
  | .funcall i lhs _ retBuffer args => do
    loc i
    funcallArm env i (isAllocaCall lhs) (genExpr env lhs) retBuffer (genArgs env args)
  | .labelVal i _ ul => do
    loc i
    emit (ins2 "lea" (.s s!"{cstr ul}(%rip)") rax)
  | .cas i addr old new => do
    loc i
    casArm env (genExpr env addr) addr.ty? (genExpr env old) old.ty? (genExpr env new) new.ty?
  | .exch i lhs rhs => do loc i; exchArm env (genExpr env lhs) lhs.ty? (genExpr env rhs)
  | .binop i op lhs rhs => do
    loc i
    match lhs with
    | .null => nullDeref "node->lhs"
    | _ => binopArm i op (genExpr env lhs) lhs.ty? (genExpr env rhs)
  -- statement kinds: the C code falls through to `node->lhs->ty->kind` on a node that has no
  -- such operand, or ends in error_tok("invalid expression")
  | .vlaPtr i _ | .ret i _ | .if_ i .. | .for_ i .. | .do_ i .. | .switch_ i .. | .case_ i ..
  | .block i _ | .goto_ i .. | .gotoExpr i _ | .label i .. | .exprStmt i _ | .asm_ i _ => do
    loc i
    fail "gen_expr: not an expression (NULL dereference or error_tok: invalid expression)"

def genStmt (env : Env) : Node → M Unit
  | .null => nullDeref "gen_stmt(node)"
  | .if_ i c t e => do
    loc i
    ifArm (genExpr env c) c.ty? (genStmt env t) (optGen e (genStmt env e))
  | .for_ i init c inc t brk cont => do
    loc i
    forArm (optGen init (genStmt env init)) ((optGen c (genExpr env c)).map (·, c.ty?)) (genStmt env t)
      ((optGen inc (genExpr env inc)).map (·, inc.ty?)) brk cont
  | .do_ i t c brk cont => do loc i; doArm (genStmt env t) (genExpr env c) c.ty? brk cont
  | .switch_ i c t brk cases dflt => do
    loc i
    switchArm (genExpr env c) c.ty? (genStmt env t) brk cases dflt
  | .case_ i _ _ lbl lhs => do
    loc i
    emit (.label (cstr lbl))
    genStmt env lhs
  | .block i body => do loc i; genStmts env body
  | .goto_ i _ ul => do
    loc i
    emit (ins1 "jmp" (.s (cstr ul)))
  | .gotoExpr i lhs => do
    loc i
    genExpr env lhs
    emit (ins1 "jmp" (.s "*%rax"))
  | .label i _ ul lhs => do
    loc i
    emit (.label (cstr ul))
    genStmt env lhs
  | .ret i lhs => do loc i; returnArm env ((optGen lhs (genExpr env lhs)).map (·, lhs.ty?))
  | .exprStmt i lhs => do
    loc i
    genExpr env lhs
    discard lhs.ty?
  | .asm_ i s => do
    loc i
    emit (.raw ("  " ++ cstr s))
  | .nullExpr i | .binop i .. | .neg i .. | .assign i .. | .cond i .. | .comma i .. | .member i ..
  | .addr i .. | .deref i .. | .not i .. | .bitnot i .. | .logand i .. | .logor i .. | .labelVal i ..
  | .funcall i .. | .stmtExpr i .. | .var i .. | .vlaPtr i .. | .num i .. | .cast i ..
  | .memzero i .. | .cas i .. | .exch i .. => do
    loc i
    fail "error_tok: invalid statement"

/-- `for (Node *n = node->body; n; n = n->next) gen_stmt(n);` -/
def genStmts (env : Env) : NodeList → M Unit
  | .nil => pure ()
  | .cons n rest => do
    genStmt env n
    genStmts env rest

/-- the loop of the `ND_STMT_EXPR` arm: the last expression statement keeps its value -/
def genStmtExprBody (env : Env) : NodeList → M Unit
  | .nil => pure ()
  | .cons (.exprStmt i lhs) .nil => do
    loc i
    genExpr env lhs
  | .cons n rest => do
    genStmt env n
    genStmtExprBody env rest

/-- the arguments of a call with their code -/
def genArgs (env : Env) : NodeList → List Arg
  | .nil => []
  | .cons a rest => { ty := a.ty?, gen := genExpr env a } :: genArgs env rest
end

/-! ## assign_lvar_offsets -/

/-- the first loop: offsets of pass-by-stack parameters -/
def paramOffsets (env : Env) : List Var → Int → Int → Int → List (Int × Int) →
    Except String (List (Int × Int))
  | [], _, _, _, acc => .ok acc
  | var :: rest, top, gp, fp, acc => do
    let some ty := var.ty | .error "NULL dereference: var->ty"
    let onStack (gp fp : Int) : Except String (List (Int × Int)) := do
      let top ← alignTo top 8
      paramOffsets env rest (top + ty.size) gp fp ((var.id, top) :: acc)
    match ty.kind with
    | .struct | .union =>
      if ty.size ≤ 16 then
        match structInRegsE env ty gp fp with
        | .error e => .error e
        | .ok (fits, ngp, nfp) =>
          if fits then paramOffsets env rest top (gp + ngp) (fp + nfp) acc
          else onStack gp fp
      else onStack gp fp
    | .float | .double =>
      if fp < FP_MAX then paramOffsets env rest top gp (fp + 1) acc else onStack gp (fp + 1)
    | .ldouble => onStack gp fp
    | _ =>
      if gp < GP_MAX then paramOffsets env rest top (gp + 1) fp acc else onStack (gp + 1) fp

/-- the second loop: (offsets, bottom) -/
def localOffsets : List Var → Int → List (Int × Int) → Except String (List (Int × Int) × Int)
  | [], bottom, acc => .ok (acc, bottom)
  | var :: rest, bottom, acc =>
    match acc.lookup var.id with
    | some o =>
      if o != 0 then localOffsets rest bottom acc
      else .error "assign_lvar_offsets: object listed twice"
    | none => do
      let some ty := var.ty | .error "NULL dereference: var->ty"
      -- AMD64 System V ABI has a special alignment rule for an array of
      -- length at least 16 bytes.
      let align := if ty.kind == .array && ty.size ≥ 16 then max 16 var.align else var.align
      let bottom ← alignTo (bottom + ty.size) align
      localOffsets rest bottom ((var.id, -bottom) :: acc)

/-- `assign_lvar_offsets` for one function: (offsets, stack_size) -/
def assignLvarOffsets (env : Env) (fn : Obj) : Except String (List (Int × Int) × Int) := do
  let acc ← paramOffsets env fn.params 16 0 0 []
  let (acc, bottom) ← localOffsets fn.locals 0 acc
  pure (acc, ← alignTo bottom 16)

/-! ## emit_data -/

/-- `.byte %d` of a `char` -/
def byteLine (b : Nat) : Line := .raw s!"  .byte {if b ≥ 128 then (b : Int) - 256 else (b : Int)}"

def signedStr (n : Int) : String := if n ≥ 0 then s!"+{n}" else s!"{n}"

/-- the `while (pos < var->ty->size)` loop; `fuel` ≥ size -/
def dataLines (data : List Nat) : Nat → List Reloc → Int → Int → Except String (List Line)
  | 0, _, pos, size => if pos < size then .error "emit_data: out of fuel" else .ok []
  | fuel + 1, rels, pos, size =>
    if pos < size then
      match rels with
      | rel :: rest =>
        if rel.offset == pos then do
          let r ← dataLines data fuel rest (pos + 8) size
          pure (.raw s!"  .quad {cstr rel.label}{signedStr rel.addend}" :: r)
        else do
          let some b := data[pos.toNat]? | .error "emit_data: read past init_data"
          let r ← dataLines data fuel rels (pos + 1) size
          pure (byteLine b :: r)
      | [] => do
        let some b := data[pos.toNat]? | .error "emit_data: read past init_data"
        let r ← dataLines data fuel [] (pos + 1) size
        pure (byteLine b :: r)
    else .ok []

/-- the byte loop without relocations, linear in the size -/
def plainBytes : List Nat → List Line
  | [] => []
  | b :: r => byteLine b :: plainBytes r

def emitDataVar (fcommon : Bool) (var : Obj) : Except String (List Line) := do
  let v := var.v
  if v.isFunction || !v.isDefinition then return []
  -- Data of a function that is not emitted would only leave dangling references (/repo 35df197).
  if var.ownerDead then return []
  let name := cstr v.name
  let some ty := v.ty | .error "NULL dereference: var->ty"
  let head := if v.isStatic then Line.raw s!"  .local {name}" else Line.raw s!"  .globl {name}"
  let align := if ty.kind == .array && ty.size ≥ 16 then max 16 v.align else v.align
  -- Common symbol
  if fcommon && v.isTentative && !v.isTls then
    return [head, .raw s!"  .comm {name}, {ty.size}, {align}"]
  -- .data or .tdata
  match var.initData with
  | some data => do
    let sec := if v.isTls then Line.raw "  .section .tdata,\"awT\",@progbits" else Line.raw "  .data"
    let body ← match var.rels with
      | [] => pure (plainBytes (data.take ty.size.toNat))
      | rels => dataLines data (ty.size.toNat + 1) rels 0 ty.size
    pure ([head, sec, .raw s!"  .type {name}, @object", .raw s!"  .size {name}, {ty.size}",
           .raw s!"  .align {align}", .label name] ++ body)
  | none =>
    -- .bss or .tbss
    let sec := if v.isTls then Line.raw "  .section .tbss,\"awT\",@nobits" else Line.raw "  .bss"
    pure [head, sec, .raw s!"  .type {name}, @object", .raw s!"  .size {name}, {ty.size}",
          .raw s!"  .align {align}", .label name, .raw s!"  .zero {ty.size}"]

def emitData (p : Program) : Except String (List Line) := do
  let ls ← p.prog.mapM (emitDataVar p.fcommon)
  pure ls.flatten

/-! ## emit_text -/

def storeFp (r : Int) (offset sz : Int) : M Unit :=
  if sz == 4 then emit (ins2 "movss" (xmm r.toNat) (rbp offset))
  else if sz == 8 then emit (ins2 "movsd" (xmm r.toNat) (rbp offset))
  else fail "unreachable: store_fp"

def gpBytes (r8 r64 : String) (offset : Int) : Nat → Nat → List Line
  | _, 0 => []
  | i, n + 1 => ins2 "mov" (.r r8) (rbp (offset + i)) :: ins2 "shr" (.i 8) (.r r64)
                  :: gpBytes r8 r64 offset (i + 1) n

def storeGp (r : Int) (offset sz : Int) : M Unit := do
  if sz == 1 then emit (ins2 "mov" (.r (← argreg argreg8 r)) (rbp offset))
  else if sz == 2 then emit (ins2 "mov" (.r (← argreg argreg16 r)) (rbp offset))
  else if sz == 4 then emit (ins2 "mov" (.r (← argreg argreg32 r)) (rbp offset))
  else if sz == 8 then emit (ins2 "mov" (.r (← argreg argreg64 r)) (rbp offset))
  else if sz ≤ 0 then pure ()
  else emits (gpBytes (← argreg argreg8 r) (← argreg argreg64 r) offset 0 sz.toNat)

/-- Save passed-by-register arguments to the stack -/
def saveParams (env : Env) : List Var → Int → Int → M Unit
  | [], _, _ => pure ()
  | var :: rest, gp, fp => do
    if env.off var > 0 then saveParams env rest gp fp
    else do
      let ty ← needTy "var->ty" var.ty
      let off := env.off var
      match ty.kind with
      | .struct | .union => do
        unless ty.size ≤ 16 do fail "assert(ty->size <= 16)"
        if ty.size == 0 then saveParams env rest gp fp else
        let f1 ← liftE (hasFlonum env.types (env.types.length + 1) ty 0 8 0)
        let (gp, fp) ← if f1 then do storeFp fp off (min 8 ty.size); pure (gp, fp + 1)
                       else do storeGp gp off (min 8 ty.size); pure (gp + 1, fp)
        let (gp, fp) ← if ty.size > 8 then do
            let f2 ← liftE (hasFlonum env.types (env.types.length + 1) ty 8 16 0)
            if f2 then do storeFp fp (off + 8) (ty.size - 8); pure (gp, fp + 1)
            else do storeGp gp (off + 8) (ty.size - 8); pure (gp + 1, fp)
          else pure (gp, fp)
        saveParams env rest gp fp
      | .float | .double => do
        storeFp fp off ty.size
        saveParams env rest gp (fp + 1)
      | _ => do
        storeGp gp off ty.size
        saveParams env rest (gp + 1) fp

/-- the classification loop of the variadic prologue: (gp, fp, overflow) -/
def vaCount (env : Env) : List Var → Int → Int → Int → M (Int × Int × Int)
  | [], gp, fp, overflow => pure (gp, fp, overflow)
  | var :: rest, gp, fp, overflow => do
    let ty ← needTy "var->ty" var.ty
    if env.off var > 0 then do
      let e ← liftE (alignTo (env.off var + ty.size) 8)
      vaCount env rest gp fp (max overflow e)
    else
      match ty.kind with
      | .struct | .union => do
        let (_, ngp, nfp) ← structInRegs env ty gp fp
        vaCount env rest (gp + ngp) (fp + nfp) overflow
      | .float | .double => vaCount env rest gp (fp + 1) overflow
      | _ => vaCount env rest (gp + 1) fp overflow

def vaAreaSave (env : Env) (fn : Obj) (va : Var) : M Unit := do
  -- Count the registers taken by the named parameters, and find
  -- the end of the named parameters that were passed on the stack.
  let (gp, fp, overflow) ← vaCount env fn.params 0 0 16
  let off := env.off va
  -- va_elem
  emit (ins2 "movl" (.i (gp * 8)) (rbp off))
  emit (ins2 "movl" (.i (fp * 16 + 48)) (rbp (off + 4)))
  emit (ins2 "movq" (.r "%rbp") (rbp (off + 8)))
  emit (ins2 "addq" (.i overflow) (rbp (off + 8)))
  emit (ins2 "movq" (.r "%rbp") (rbp (off + 16)))
  emit (ins2 "addq" (.i (off + 24)) (rbp (off + 16)))
  -- __reg_save_area__
  emit (ins2 "movq" (.r "%rdi") (rbp (off + 24)))
  emit (ins2 "movq" (.r "%rsi") (rbp (off + 32)))
  emit (ins2 "movq" (.r "%rdx") (rbp (off + 40)))
  emit (ins2 "movq" (.r "%rcx") (rbp (off + 48)))
  emit (ins2 "movq" (.r "%r8") (rbp (off + 56)))
  emit (ins2 "movq" (.r "%r9") (rbp (off + 64)))
  emit (ins2 "movsd" (xmm 0) (rbp (off + 72)))
  emit (ins2 "movsd" (xmm 1) (rbp (off + 88)))
  emit (ins2 "movsd" (xmm 2) (rbp (off + 104)))
  emit (ins2 "movsd" (xmm 3) (rbp (off + 120)))
  emit (ins2 "movsd" (xmm 4) (rbp (off + 136)))
  emit (ins2 "movsd" (xmm 5) (rbp (off + 152)))
  emit (ins2 "movsd" (xmm 6) (rbp (off + 168)))
  emit (ins2 "movsd" (xmm 7) (rbp (off + 184)))

/-- the `Env` of one function (after `assign_lvar_offsets`) and its `stack_size` -/
def fnEnv (p : Program) (fn : Obj) : Except String (Env × Int) := do
  let env0 : Env := { fpic := p.fpic, types := p.types }
  let (offsets, stackSize) ← assignLvarOffsets env0 fn
  let retTy := match fn.v.ty with
    | some t => p.ty? t.returnTy
    | none => none
  pure ({ env0 with fnName := fn.v.name, retTy, params := fn.params, allocaBottom := fn.allocaBottom,
                    offsets }, stackSize)

/-- is code emitted for this member of the prog list? -/
def emitsCode (fn : Obj) : Bool :=
  -- No code is emitted for "static inline" functions
  -- if no one is referencing them.
  fn.v.isFunction && fn.v.isDefinition && fn.v.isLive

def fnPrologue (env : Env) (stackSize : Int) (fn : Obj) : M Unit := do
  let v := fn.v
  let name := cstr v.name
  if v.isStatic then emit (.raw s!"  .local {name}") else emit (.raw s!"  .globl {name}")
  emit (.raw "  .text")
  emit (.raw s!"  .type {name}, @function")
  emit (.label name)
  -- Prologue
  emit (ins1 "push" (.r "%rbp"))
  emit (ins2 "mov" rsp (.r "%rbp"))
  emit (ins2 "sub" (.i stackSize) rsp)
  let ab ← needVar "fn->alloca_bottom" fn.allocaBottom
  emit (ins2 "mov" rsp (rbp (env.off ab)))
  -- Save arg registers if function is variadic
  match fn.vaArea with
  | some va => vaAreaSave env fn va
  | none => pure ()
  -- Save passed-by-register arguments to the stack
  saveParams env fn.params 0 0

/-- `gen_stmt(fn->body); assert(depth == 0);` -/
def fnBody (env : Env) (fn : Obj) : M Unit := do
  genStmt env fn.body
  if (← getDepth) != 0 then fail "assert(depth == 0)" else pure ()

def fnEpilogue (fn : Obj) : M Unit := do
  let name := cstr fn.v.name
  -- The C spec defines a special rule for the main function.
  if fn.v.name == some "main" then emit (ins2 "mov" (.i 0) rax) else pure ()
  -- Epilogue
  emit (.label s!".L.return.{name}")
  emit (ins2 "mov" (.r "%rbp") rsp)
  emit (ins1 "pop" (.r "%rbp"))
  emit (ins0 "ret")

/-- one iteration of the loop of `emit_text` -/
def emitFn (p : Program) (fn : Obj) : M Unit := do
  if !emitsCode fn then return ()
  let (env, stackSize) ← liftE (fnEnv p fn)
  fnPrologue env stackSize fn
  fnBody env fn
  fnEpilogue fn

def emitText (p : Program) : List Obj → M Unit
  | [] => pure ()
  | fn :: rest => do
    emitFn p fn
    emitText p rest

/-- `assign_lvar_offsets` runs over every function before anything is printed: its failures come
    first -/
def checkOffsets (p : Program) : List Obj → Except String Unit
  | [] => .ok ()
  | fn :: rest =>
    if fn.v.isFunction then
      match assignLvarOffsets { fpic := p.fpic, types := p.types } fn with
      | .error e => .error e
      | .ok _ => checkOffsets p rest
    else checkOffsets p rest

/-- the code of every function body (what `gen_stmt(fn->body)` prints), with the function's name;
    the label counter runs through all functions as in `emit_text` -/
def fnBodies (p : Program) : List Obj → St → Except String (List (String × List Line))
  | [], _ => .ok []
  | fn :: rest, s =>
    if !emitsCode fn then fnBodies p rest s else
    match fnEnv p fn with
    | .error e => .error e
    | .ok (env, _) =>
      match fnBody env fn s with
      | .error e => .error s!"{cstr fn.v.name}: {e}"
      | .ok (_, s', ls) =>
        match fnBodies p rest s' with
        | .error e => .error e
        | .ok r => .ok ((cstr fn.v.name, ls) :: r)

def fileLines (p : Program) : List Line :=
  -- Name the translation unit (/repo: `println("  .file \"%s\"", base_file)` at the head of `codegen`).
  .raw s!"  .file \"{cstr p.baseFile}\"" ::
  p.files.map fun (no, name) => .raw s!"  .file {no} \"{cstr name}\""

/-- `codegen(prog, out)` -/
def codegen (p : Program) : Except String (List Line) := do
  checkOffsets p p.prog
  let data ← emitData p
  match emitText p p.prog {} with
  | .error e => .error e
  | .ok (_, _, text) => pure (fileLines p ++ data ++ text)

end ChibiVerif.Codegen
