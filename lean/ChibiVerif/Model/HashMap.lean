/-
Model of /repo/hashmap.c (open addressing, linear probing, tombstones, rehash).

Hand-written, tied to the code by the state-level correspondence harness
(tools/harness/hashmap_harness.c prints every bucket after every operation;
`driver hashmap` must print the same lines) and by the generated constants in
`Gen/HashMapGen.lean`.

Conventions
* `buckets = []`  ⇔  `map->buckets == NULL` (capacity 0).
* the hash function is a parameter `h : α → Nat`; every theorem is for all `h`.
* C sites that abort are explicit `Crash` outcomes:
    `unreachable()` after the probe loops, `assert(map2.used == nkeys)`,
    `assert(cap > 0)`; a watermark-triggered rehash *inside* the reinsertion loop of
    `rehash` would be unbounded mutual recursion in C and is the outcome `nestedRehash`.
* C `int` arithmetic (`used * 100`) is modelled in `Nat`; the no-overflow side
  condition `capacity * 100 < 2^31` is stated in DESIGN.md (C17, I4).
-/
import ChibiVerif.Gen.HashMapGen

namespace ChibiVerif.HashMap
open ChibiVerif.Gen.HashMap (INIT_SIZE HIGH_WATERMARK LOW_WATERMARK)

inductive Slot (α β : Type) where
  | empty                     -- key == NULL
  | tomb                      -- key == TOMBSTONE
  | full (k : α) (v : β)
  deriving Repr, DecidableEq

inductive Crash where
  | unreachable               -- probe loop fell through
  | assertUsed                -- assert(map2.used == nkeys)
  | assertCap                 -- assert(cap > 0) / division by zero capacity
  | nestedRehash              -- watermark fired while reinserting during rehash
  deriving Repr, DecidableEq

structure HM (α β : Type) where
  buckets : List (Slot α β)
  used : Nat
  deriving Repr, DecidableEq

namespace HM
variable {α β : Type} [DecidableEq α]

def empty : HM α β := ⟨[], 0⟩

def capacity (m : HM α β) : Nat := m.buckets.length

/-- `match(ent, key, keylen)` -/
def Slot.matches (s : Slot α β) (k : α) : Bool :=
  match s with
  | .full k' _ => k' == k
  | _ => false

def slotAt (b : List (Slot α β)) (i : Nat) : Slot α β := b.getD i .empty

/-- `get_entry`: the probe loop, `n` iterations left, currently at offset `i`.
    Returns the bucket index holding `k`, `none` at the first empty slot. -/
def getLoop (b : List (Slot α β)) (hk : Nat) (k : α) : Nat → Nat → Except Crash (Option Nat)
  | 0, _ => .error .unreachable
  | n+1, i =>
    let idx := (hk + i) % b.length
    match slotAt b idx with
    | .full k' _ => if k' = k then .ok (some idx) else getLoop b hk k n (i+1)
    | .tomb => getLoop b hk k n (i+1)
    | .empty => .ok none

def getEntry (h : α → Nat) (m : HM α β) (k : α) : Except Crash (Option Nat) :=
  if m.buckets.isEmpty then .ok none else getLoop m.buckets (h k) k m.buckets.length 0

inductive InsPos where
  | found (idx : Nat)        -- key already present at idx
  | reuse (idx : Nat)        -- first tombstone on the probe path, key absent
  | fresh (idx : Nat)        -- first empty slot, no tombstone before it
  deriving Repr, DecidableEq

/-- `get_or_insert_entry` probe loop (after the `fix:` — the first tombstone is
    remembered and probing continues until a match or an empty slot). -/
def insLoop (b : List (Slot α β)) (hk : Nat) (k : α) :
    Nat → Nat → Option Nat → Except Crash InsPos
  | 0, _, _ => .error .unreachable
  | n+1, i, t =>
    let idx := (hk + i) % b.length
    match slotAt b idx with
    | .full k' _ => if k' = k then .ok (.found idx) else insLoop b hk k n (i+1) t
    | .tomb => insLoop b hk k n (i+1) (match t with | some j => some j | none => some idx)
    | .empty => match t with
      | some j => .ok (.reuse j)
      | none => .ok (.fresh idx)

/-- write `key`/`val` at the position chosen by `insLoop` -/
def applyIns (m : HM α β) (k : α) (v : β) : InsPos → HM α β
  | .found idx => ⟨m.buckets.set idx (.full k v), m.used⟩
  | .reuse idx => ⟨m.buckets.set idx (.full k v), m.used⟩
  | .fresh idx => ⟨m.buckets.set idx (.full k v), m.used + 1⟩

def isLive : Slot α β → Bool
  | .full _ _ => true
  | _ => false

def liveEntries (b : List (Slot α β)) : List (α × β) :=
  b.filterMap fun s => match s with | .full k v => some (k, v) | _ => none

/-- `while ((nkeys * 100) / cap >= LOW_WATERMARK) cap = cap * 2;` with fuel. -/
def growCap (nkeys : Nat) : Nat → Nat → Nat
  | 0, cap => cap
  | f+1, cap => if nkeys * 100 / cap ≥ LOW_WATERMARK then growCap nkeys f (cap * 2) else cap

/-- `hashmap_put2` on the fresh table inside `rehash`: the watermark test is present
    in the C code (same function); it must not fire. -/
def putNoRehash (h : α → Nat) (m : HM α β) (k : α) (v : β) : Except Crash (HM α β) :=
  if m.buckets.isEmpty then .error .assertCap
  else if m.used * 100 / m.buckets.length ≥ HIGH_WATERMARK then .error .nestedRehash
  else do
    let p ← insLoop m.buckets (h k) k m.buckets.length 0 none
    pure (applyIns m k v p)

def rehash (h : α → Nat) (m : HM α β) : Except Crash (HM α β) := do
  let live := liveEntries m.buckets
  let nkeys := live.length
  if m.buckets.isEmpty then throw .assertCap
  let cap := growCap nkeys (nkeys + 2) m.buckets.length
  if cap = 0 then throw .assertCap
  let m2 : HM α β := ⟨List.replicate cap .empty, 0⟩
  let m2 ← live.foldlM (fun acc kv => putNoRehash h acc kv.1 kv.2) m2
  if m2.used ≠ nkeys then throw .assertUsed
  pure m2

def put (h : α → Nat) (m : HM α β) (k : α) (v : β) : Except Crash (HM α β) := do
  let m ←
    if m.buckets.isEmpty then pure (⟨List.replicate INIT_SIZE .empty, m.used⟩ : HM α β)
    else if m.used * 100 / m.buckets.length ≥ HIGH_WATERMARK then rehash h m
    else pure m
  let p ← insLoop m.buckets (h k) k m.buckets.length 0 none
  pure (applyIns m k v p)

def get (h : α → Nat) (m : HM α β) (k : α) : Except Crash (Option β) := do
  match ← getEntry h m k with
  | none => pure none
  | some idx => match slotAt m.buckets idx with
    | .full _ v => pure (some v)
    | _ => pure none

def delete (h : α → Nat) (m : HM α β) (k : α) : Except Crash (HM α β) := do
  match ← getEntry h m k with
  | none => pure m
  | some idx => pure ⟨m.buckets.set idx .tomb, m.used⟩

end HM

/-! ### Operation histories -/

inductive Op (α β : Type) where
  | put (k : α) (v : β)
  | del (k : α)
  | get (k : α)
  deriving Repr, DecidableEq

variable {α β : Type} [DecidableEq α]

/-- one step: new state and, for `get`, the answer -/
def step (h : α → Nat) (m : HM α β) : Op α β → Except Crash (HM α β × Option (Option β))
  | .put k v => do pure (← m.put h k v, none)
  | .del k => do pure (← m.delete h k, none)
  | .get k => do pure (m, some (← m.get h k))

/-- run a history from a state, collecting the answers of the `get`s in order -/
def run (h : α → Nat) : HM α β → List (Op α β) → Except Crash (HM α β × List (Option β))
  | m, [] => .ok (m, [])
  | m, op :: ops => do
    let (m', o) ← step h m op
    let (m'', outs) ← run h m' ops
    pure (m'', match o with | some a => a :: outs | none => outs)

/-! ### The abstract dictionary (last write wins, deleted means absent) -/

def AMap (α β : Type) := List (α × β)

namespace AMap
def empty : AMap α β := []
def get (m : AMap α β) (k : α) : Option β := (m.find? (fun kv => kv.1 == k)).map (·.2)
def erase (m : AMap α β) (k : α) : AMap α β := m.filter (fun kv => !(kv.1 == k))
def put (m : AMap α β) (k : α) (v : β) : AMap α β := (k, v) :: erase m k
end AMap

def arun : AMap α β → List (Op α β) → AMap α β × List (Option β)
  | m, [] => (m, [])
  | m, .put k v :: ops => arun (m.put k v) ops
  | m, .del k :: ops => arun (m.erase k) ops
  | m, .get k :: ops => let (m', outs) := arun m ops; (m', m.get k :: outs)

end ChibiVerif.HashMap
