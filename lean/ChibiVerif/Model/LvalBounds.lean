/-
Lvalue paths, second part (property C04): *where* the designated sub-object lies.

`Model/Lval.lean` says which address `gen_addr` computes for a path of `.name` / `->name` / `[i]` steps and that it is the
address C designates.  This file adds what is needed to state that the designated object never leaves the object it is
part of:

  * `Ty.fits` — the layout invariant struct_decl / union_decl establish (C08): every member, with its whole size, lies
    inside its aggregate.  Union members all have offset 0 and a flexible array member (`.arr b 0`, size 0) may sit at
    the very end; both are instances.
  * `stepOk` / `pathOk` — the indices of the path are in range: `0 ≤ i < n` for an index into an array or VLA of `n`
    elements (C11 6.5.6p8 allows one-past for pointer arithmetic, not for access), `a->m` on an array needs `n > 0`.
    Steps through a *pointer* (`p->m`, `p[i]`) are always admitted: what the pointer points to is the program's business;
    from there on the enclosing object is the pointee (`enclosing`).
  * `enclosing` — the object the remaining steps have to stay inside: the root object until the path goes through a
    pointer, then the pointed-to object (`p->m`: `*p`; `p[i]`: the element `p[i]`).
  * `offsetTerms` — for a path that goes through no pointer, the summands `gen_addr` adds to the base address: one member
    offset per `.name` (the sum along the anonymous levels), `i * sizeof(element)` per `[i]`.

Core Lean only.
-/
import ChibiVerif.Model.Lval

namespace ChibiVerif.Lval

mutual
  /-- every member lies inside its aggregate (recursively, also behind pointers) -/
  def Ty.fits : Ty → Bool
    | .scalar _ => true
    | .ptr b => b.fits
    | .arr b _ => b.fits
    | .vla b _ => b.fits
    | .agg s ms => ms.fits s
  def Members.fits : Members → Nat → Bool
    | .nil, _ => true
    | .cons _ off t r, s => decide (off + t.sizeof ≤ s) && t.fits && r.fits s
end

/-- is the index / array decay of this step inside the array it is applied to? -/
def stepOk (ty : Ty) : Step → Bool
  | .index i =>
    match ty with
    | .arr _ n | .vla _ n => decide (0 ≤ i) && decide (i < (n : Int))
    | _ => true
  | .arrow _ =>
    match ty with
    | .arr _ n => decide (0 < n)
    | _ => true
  | .dot _ => true

/-- all steps of the path are in range (checked against the types the path walks through) -/
def pathOk (env : Env) : Int → Ty → List Step → Bool
  | _, _, [] => true
  | a, t, st :: ss =>
    stepOk t st &&
    match designateStep env a t st with
    | some (a', t') => pathOk env a' t' ss
    | none => true

/-- the enclosing object `(base, size)` after one step -/
def encloseStep (env : Env) (B : Int) (S : Nat) (a : Int) (ty : Ty) : Step → Int × Nat
  | .arrow _ =>
    match ty with
    | .ptr b => (env.ptrAt a, b.sizeof)
    | _ => (B, S)
  | .index i =>
    match ty with
    | .ptr b => (env.ptrAt a + i * b.sizeof, b.sizeof)
    | _ => (B, S)
  | .dot _ => (B, S)

/-- the object the designated sub-object has to lie in: the root `(B, S)` until the path goes through a pointer -/
def enclosing (env : Env) : Int → Nat → Int → Ty → List Step → Int × Nat
  | B, S, _, _, [] => (B, S)
  | B, S, a, t, st :: ss =>
    match designateStep env a t st with
    | some (a', t') => enclosing env (encloseStep env B S a t st).1 (encloseStep env B S a t st).2 a' t' ss
    | none => (B, S)

/-- does the step go through a pointer value stored in memory? -/
def stepThroughPtr (ty : Ty) : Step → Bool
  | .arrow _ | .index _ => match ty with | .ptr _ => true | _ => false
  | .dot _ => false

/-- the summand one pointer-free step adds to the address, and the type it leads to (`none`: the step goes through a
    pointer or designates nothing) -/
def offsetStep : Ty → Step → Option (Int × Ty)
  | .agg _ ms, .dot nm => (ms.locate nm).map fun p => ((p.1 : Int), p.2)
  | .arr (.agg _ ms) _, .arrow nm => (ms.locate nm).map fun p => ((p.1 : Int), p.2)
  | .arr b _, .index i => some (i * (b.sizeof : Int), b)
  | .vla b _, .index i => some (i * (b.sizeof : Int), b)
  | _, _ => none

/-- the summands a pointer-free path adds to the base address, and the designated type -/
def offsetTerms : Ty → List Step → Option (List Int × Ty)
  | t, [] => some ([], t)
  | t, st :: ss =>
    match offsetStep t st with
    | some (k, t') => (offsetTerms t' ss).map fun p => (k :: p.1, p.2)
    | none => none

end ChibiVerif.Lval
