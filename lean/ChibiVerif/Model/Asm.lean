/-
Assembly syntax shared by the code-generation model (Model/Codegen), the instruction
semantics (Model/X86) and the effect semantics (C20).  The printer reproduces the text
chibicc's `println` emits, so that the model's output can be compared with `chibicc -S`
byte for byte.

An operand is structured where the semantics needs structure (registers, decimal
immediates, register-relative memory) and verbatim text elsewhere.
-/
namespace ChibiVerif.Asm

inductive Opd where
  | r (name : String)            -- register, written with its `%`:  %rax  %eax  %al  %xmm0  %st(0)
  | i (n : Int)                  -- `$n` (decimal)
  | m (disp : Int) (base : String)   -- `disp(base)`, e.g. `-8(%rbp)`; base written with `%`
  | m0 (base : String)           -- `(base)`
  | s (text : String)            -- anything else, verbatim: symbols, `foo(%rip)`, `*%rax`, `$0xfffffff0`, `1f`, `.L.end.3`
  deriving Repr, DecidableEq, Inhabited

structure Ins where
  op : String
  a : List Opd := []
  deriving Repr, DecidableEq, Inhabited

inductive Line where
  | ins (i : Ins)                -- `  op a, b`
  | insA (i : Ins) (note : String)
      -- an instruction printed exactly like `.ins i`, carrying a fact the text does not show
      -- (used for `call`: note "ret:f80" = the callee returns a long double in %st(0))
  | multi (is : List Ins)        -- `  i1; i2; i3`      (cast_table strings)
  | multiT (text : String) (is : List Ins)
      -- a cast_table string whose spelling is not the canonical `op a, b; op c` (no space after a
      -- comma or semicolon, local labels `1:`): printed as `  text`; `is` is the same string parsed
      -- by tools/extract/casttable.py (a local label is an `Ins` whose op ends in `:`)
  | label (name : String)        -- `name:`
  | raw (text : String)          -- a line printed verbatim (directives, asm statements)
  deriving Repr, DecidableEq, Inhabited

def Opd.render : Opd → String
  | .r n => n
  | .i n => "$" ++ (toString n : String)
  | .m d b => (toString d : String) ++ "(" ++ b ++ ")"
  | .m0 b => "(" ++ b ++ ")"
  | .s t => t

def Ins.render (i : Ins) : String :=
  match i.a with
  | [] => i.op
  | as => i.op ++ " " ++ ", ".intercalate (as.map Opd.render)

def Line.render : Line → String
  | .ins i => "  " ++ i.render
  | .insA i _ => "  " ++ i.render
  | .multi is => "  " ++ "; ".intercalate (is.map Ins.render)
  | .multiT t _ => "  " ++ t
  | .label n => n ++ ":"
  | .raw t => t

/-- all instructions of a line, in order -/
def Line.instrs : Line → List Ins
  | .ins i => [i]
  | .insA i _ => [i]
  | .multi is => is
  | .multiT _ is => is
  | _ => []

def render (ls : List Line) : String :=
  String.join (ls.map fun l => l.render ++ "\n")

/-! convenience constructors -/
def ins0 (op : String) : Line := .ins ⟨op, []⟩
def ins1 (op : String) (a : Opd) : Line := .ins ⟨op, [a]⟩
def ins2 (op : String) (a b : Opd) : Line := .ins ⟨op, [a, b]⟩

end ChibiVerif.Asm
