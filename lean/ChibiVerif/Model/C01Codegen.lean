/-
The integer part of codegen.c `gen_expr` / `cast` / `cmp_zero` / `load` / `store`, arm by arm, as functions from the
type descriptors the C code looks at to the lines it prints (C01).  The cast table and `getTypeId` come from
`Gen/CastTableGen`, `get_common_type` and the `add_type` rules from `Gen/CommonTypeGen` (both regenerated from /repo).

Tied to the code on every run by text: checklib/C01.py compiles `R f(T1 a, T2 b) { return a OP b; }` (all OP, all 9×9
type pairs, all unary operators, casts, `!`), and the lines between the prologue and `jmp .L.return.f` must equal
`fnBinary`/`fnUnary`/`fnCast` rendered by `drv_c01 seq`.
-/
import ChibiVerif.Model.Asm
import ChibiVerif.Gen.CommonTypeGen
import ChibiVerif.Gen.CastTableGen

namespace ChibiVerif.C01Codegen
open ChibiVerif.Asm ChibiVerif.Gen.CommonType

def kindToAst : Kind → ChibiVerif.Ast.TyKind
  | .TY_VOID => .void | .TY_BOOL => .bool | .TY_CHAR => .char | .TY_SHORT => .short | .TY_INT => .int
  | .TY_LONG => .long | .TY_FLOAT => .float | .TY_DOUBLE => .double | .TY_LDOUBLE => .ldouble | .TY_ENUM => .enum
  | .TY_PTR => .ptr | .TY_FUNC => .func | .TY_ARRAY => .array | .TY_VLA => .vla | .TY_STRUCT => .struct
  | .TY_UNION => .union

/-- `getTypeId(ty)` -/
def typeId (t : TyD) : Nat := ChibiVerif.Gen.CastTable.getTypeId (kindToAst t.kind) t.isUnsigned

/-- type.c `is_integer` -/
def isInteger (t : TyD) : Bool :=
  t.kind == .TY_BOOL || t.kind == .TY_CHAR || t.kind == .TY_SHORT || t.kind == .TY_INT || t.kind == .TY_LONG ||
  t.kind == .TY_ENUM

def isFlonum (t : TyD) : Bool := t.kind == .TY_FLOAT || t.kind == .TY_DOUBLE || t.kind == .TY_LDOUBLE

/-- `cmp_zero` (non-floating types) -/
def cmpZero (t : TyD) : List Line :=
  if isInteger t && decide (t.size ≤ 4) then [ins2 "cmp" (.i 0) (.r "%eax")] else [ins2 "cmp" (.i 0) (.r "%rax")]

/-- `cast(from, to)` for non-floating `from` -/
def cast (frm to : TyD) : List Line :=
  if to.kind == .TY_VOID then []
  else if to.kind == .TY_BOOL then cmpZero frm ++ [ins1 "setne" (.r "%al"), ins2 "movzx" (.r "%al") (.r "%eax")]
  else match ChibiVerif.Gen.CastTable.castCell (typeId frm) (typeId to) with
    | some l => [l]
    | none => []

/-- `load(ty)` for scalar integer / pointer types -/
def load (t : TyD) : List Line :=
  let insn := if t.isUnsigned then "movz" else "movs"
  if t.size = 1 then [ins2 (insn ++ "bl") (.m0 "%rax") (.r "%eax")]
  else if t.size = 2 then [ins2 (insn ++ "wl") (.m0 "%rax") (.r "%eax")]
  else if t.size = 4 then [ins2 "movsxd" (.m0 "%rax") (.r "%rax")]
  else [ins2 "mov" (.m0 "%rax") (.r "%rax")]

/-- `store(ty)` for scalar integer / pointer types -/
def store (t : TyD) : List Line :=
  [ins1 "pop" (.r "%rdi")] ++
  (if t.size = 1 then [ins2 "mov" (.r "%al") (.m0 "%rdi")]
   else if t.size = 2 then [ins2 "mov" (.r "%ax") (.m0 "%rdi")]
   else if t.size = 4 then [ins2 "mov" (.r "%eax") (.m0 "%rdi")]
   else [ins2 "mov" (.r "%rax") (.m0 "%rdi")])

/-- the choice `node->lhs->ty->kind == TY_LONG || node->lhs->ty->base` -/
def is64 (lhs : TyD) : Bool := lhs.kind == .TY_LONG || lhs.hasBase

/-- the tail of `gen_expr` for the binary integer operators, after `pop %rdi`:
    `lhs` = type of `node->lhs`, `node` = type of the node -/
def genBinop (k : NK) (lhs node : TyD) : Option (List Line) :=
  let ax : Opd := .r (if is64 lhs then "%rax" else "%eax")
  let di : Opd := .r (if is64 lhs then "%rdi" else "%edi")
  let dx : Opd := .r (if is64 lhs then "%rdx" else "%edx")
  let divmod : List Line :=
    if node.isUnsigned then [ins2 "mov" (.i 0) dx, ins1 "div" di]
    else [if lhs.size = 8 then ins0 "cqo" else ins0 "cdq", ins1 "idiv" di]
  let cmp (setcc : String) : List Line := [ins2 "cmp" di ax, ins1 setcc (.r "%al"), ins2 "movzb" (.r "%al") (.r "%rax")]
  match k with
  | .ND_ADD => some [ins2 "add" di ax]
  | .ND_SUB => some [ins2 "sub" di ax]
  | .ND_MUL => some [ins2 "imul" di ax]
  | .ND_DIV => some divmod
  | .ND_MOD => some (divmod ++ [ins2 "mov" (.r "%rdx") (.r "%rax")])
  | .ND_BITAND => some [ins2 "and" di ax]
  | .ND_BITOR => some [ins2 "or" di ax]
  | .ND_BITXOR => some [ins2 "xor" di ax]
  | .ND_EQ => some (cmp "sete")
  | .ND_NE => some (cmp "setne")
  | .ND_LT => some (cmp (if lhs.isUnsigned then "setb" else "setl"))
  | .ND_LE => some (cmp (if lhs.isUnsigned then "setbe" else "setle"))
  | .ND_SHL => some [ins2 "mov" (.r "%rdi") (.r "%rcx"), ins2 "shl" (.r "%cl") ax]
  | .ND_SHR => some [ins2 "mov" (.r "%rdi") (.r "%rcx"), ins2 (if lhs.isUnsigned then "shr" else "sar") (.r "%cl") ax]
  | _ => none

/-- unary operators after `gen_expr(node->lhs)`; `lhs` = type of the (already converted) operand -/
def genUnop (k : NK) (lhs : TyD) : Option (List Line) :=
  match k with
  | .ND_NEG => some [ins1 "neg" (.r "%rax")]
  | .ND_BITNOT => some [ins1 "not" (.r "%rax")]
  | .ND_NOT => some (cmpZero lhs ++ [ins1 "sete" (.r "%al"), ins2 "movzx" (.r "%al") (.r "%rax")])
  | _ => none

/-! ### typing (type.c `add_type`) of one operator applied to typed operands -/

def resTy : Res → Option TyD
  | .ty t => some t
  | _ => none          -- pointer results are not needed for integer operands

/-- (type the lhs is cast to, type the rhs is cast to or `none` if it is left alone, type of the node) -/
def typeBinary (k : NK) (t1 t2 : TyD) : Option (TyD × Option TyD × TyD) :=
  match opRule k with
  | .usualArith => (resTy (getCommonType t1 t2)).map fun c => (c, some c, c)
  | .usualArithInt => (resTy (getCommonType t1 t2)).map fun c => (c, some c, ty_int)
  | .promoteLhs => (resTy (getCommonType ty_int t1)).map fun c => (c, none, c)
  | _ => none

def typeUnary (k : NK) (t : TyD) : Option (Option TyD × TyD) :=
  match opRule k with
  | .promoteLhs => (resTy (getCommonType ty_int t)).map fun c => (some c, c)
  | .int => some (none, ty_int)
  | _ => none

/-! ### whole function bodies `R f(T1 a, T2 b) { return a OP b; }` between prologue and `jmp .L.return.f`
    (`A(%rbp)`, `B(%rbp)` stand for the two parameter slots) -/

def varA : List Line := [ins2 "lea" (.s "A(%rbp)") (.r "%rax")]
def varB : List Line := [ins2 "lea" (.s "B(%rbp)") (.r "%rax")]

def fnBinary (k : NK) (t1 t2 ret : TyD) : Option (List Line) := do
  let (cl, cr, nt) ← typeBinary k t1 t2
  let op ← genBinop k cl nt
  let rhs := varB ++ load t2 ++ (match cr with | some c => cast t2 c | none => [])
  let lhs := varA ++ load t1 ++ cast t1 cl
  some (rhs ++ [ins1 "push" (.r "%rax")] ++ lhs ++ [ins1 "pop" (.r "%rdi")] ++ op ++ cast nt ret)

def fnUnary (k : NK) (t ret : TyD) : Option (List Line) := do
  let (c, nt) ← typeUnary k t
  let operandTy := match c with | some c => c | none => t
  let op ← genUnop k operandTy
  some (varA ++ load t ++ (match c with | some c => cast t c | none => []) ++ op ++ cast nt ret)

/-- `R f(T a) { return (R)a; }`: the explicit cast followed by the (no-op) return conversion -/
def fnCast (t ret : TyD) : List Line :=
  varA ++ load t ++ cast t ret ++ cast ret ret

end ChibiVerif.C01Codegen
