/-
Bit-field access as chibicc generates it (property C04).

The two code-generation arms (codegen.c `gen_expr`, `case ND_MEMBER` and the bit-field part of `case ND_ASSIGN`)
are regenerated from the source as lists of structured assembly lines (`Gen/C04Gen.lean`: `bfExtractLines`,
`bfAssignLines`, with the printed arithmetic `bfMask`, `bfShlCount`, `bfShrCount`, `bfLogical`).  This file gives
the *meaning* of those two sequences as pure functions on bit-vectors, instruction by instruction:

    load:    gen_addr; load(mem->ty);  shl $(64-w-o), %rax;  shr|sar $(64-w), %rax
    assign:  mov %rax,%rdi; mov $mask,%r9; and %r9,%rdi; shl $o,%rdi;
             mov (%rsp),%rax; load(mem->ty);
             mov $~(mask<<o),%r9; and %r9,%rax; or %rdi,%rax;
             store(node->ty)                      -- pop %rdi; mov %al|%ax|%eax|%rax, (%rdi)
             shl $(64-w-o), %rax; shr|sar $(64-w), %rax      -- value of the assignment expression

The storage unit of a bit-field is an object of the declared type (1, 2, 4 or 8 bytes) at `mem->offset`;
`load(mem->ty)` reads it into %rax with the extension `load` chooses for that type, `store(node->ty)` writes the low
8·size bits of %rax back.  Nothing else is written (the only memory operand of the sequence besides `(%rsp)` is the
unit itself, accessed with exactly the unit's width; see `storeIntLines` / `loadIntLine` in the generated file).

The text of the sequences is tied to `chibicc -S` on every run (checklib/C04.py, `drv_c04 bfseq`).
Core Lean only.
-/
import ChibiVerif.Gen.C04Gen

namespace ChibiVerif.BitField
open ChibiVerif.Gen.C04 ChibiVerif.Asm
open ChibiVerif.Gen.Declspec (TyName primInfo primKind)

/-- size of the storage unit = size of the declared type of the bit-field -/
inductive USize where
  | b1 | b2 | b4 | b8
  deriving DecidableEq, Repr, Inhabited

@[reducible] def USize.bytes : USize → Nat
  | .b1 => 1 | .b2 => 2 | .b4 => 4 | .b8 => 8

@[reducible] def USize.bits (s : USize) : Nat := 8 * s.bytes

theorem USize.bits_le (s : USize) : s.bits ≤ 64 := by cases s <;> decide
theorem USize.bits_pos (s : USize) : 0 < s.bits := by cases s <;> decide

def USize.all : List USize := [.b1, .b2, .b4, .b8]

/-- the declared types a bit-field can have (C11 6.7.2.1p5 plus the other integer types, as gcc and chibicc accept) -/
inductive BfType where
  | bool | char | uchar | short | ushort | int | uint | long | ulong
  deriving DecidableEq, Repr, Inhabited

def BfType.all : List BfType := [.bool, .char, .uchar, .short, .ushort, .int, .uint, .long, .ulong]

/-- the type.c literal the type denotes -/
def BfType.tyName : BfType → TyName
  | .bool => .bool | .char => .char | .uchar => .uchar | .short => .short | .ushort => .ushort
  | .int => .int | .uint => .uint | .long => .long | .ulong => .ulong

/-- `mem->ty->size` (type.c literal, regenerated) -/
def BfType.implSize (t : BfType) : Nat := (primInfo t.tyName).1
/-- `mem->ty->is_unsigned` (type.c literal, regenerated) -/
def BfType.implUnsigned (t : BfType) : Bool := (primInfo t.tyName).2.2
/-- `mem->ty->kind == TY_BOOL` -/
def BfType.implBool (t : BfType) : Bool := primKind t.tyName == "TY_BOOL"

/-- the storage unit of a declared type -/
def BfType.usize : BfType → USize
  | .bool | .char | .uchar => .b1
  | .short | .ushort => .b2
  | .int | .uint => .b4
  | .long | .ulong => .b8

/-! ### the instructions, as functions on %rax / %rdi -/

/-- `load(ty)` for an integer type: %rax after the load, as a function of the unit's content.
    size 1: `movsbl|movzbl (%rax), %eax`   size 2: `movswl|movzwl (%rax), %eax`   (writing %eax clears bits 32..63)
    size 4: `movsxd (%rax), %rax` whatever the signedness      size 8: `mov (%rax), %rax` -/
def loadUnit (s : USize) (isUnsigned : Bool) (u : BitVec s.bits) : BitVec 64 :=
  match s with
  | .b1 => if isUnsigned then (u.setWidth 32).setWidth 64 else (u.signExtend 32).setWidth 64
  | .b2 => if isUnsigned then (u.setWidth 32).setWidth 64 else (u.signExtend 32).setWidth 64
  | .b4 => u.signExtend 64
  | .b8 => u.setWidth 64

/-- `store(ty)` for an integer type: the bytes written are the low 8·size bits of %rax -/
def storeUnit (s : USize) (rax : BitVec 64) : BitVec s.bits := rax.setWidth s.bits

/-- an immediate shift count of a 64-bit shift is taken modulo 64 by the CPU -/
def shiftCount (n : Int) : Nat := n.toNat % 64

/-- `shl $(64-w-o), %rax; shr|sar $(64-w), %rax` -/
def extract (w o : Nat) (isUnsigned isBool : Bool) (rax : BitVec 64) : BitVec 64 :=
  let r := rax <<< shiftCount (bfShlCount w o)
  if bfLogical isUnsigned isBool then r >>> shiftCount (bfShrCount w) else r.sshiftRight (shiftCount (bfShrCount w))

/-- reading a bit-field: `gen_addr; load(mem->ty); shl; shr|sar` -/
def bfLoad (s : USize) (isUnsigned isBool : Bool) (w o : Nat) (u : BitVec s.bits) : BitVec 64 :=
  extract w o isUnsigned isBool (loadUnit s isUnsigned u)

structure Assigned (s : USize) where
  /-- content of the storage unit after the assignment -/
  unit : BitVec s.bits
  /-- %rax after the sequence = the value of the assignment expression -/
  rax : BitVec 64

/-- assigning `v` (in %rax) to a bit-field whose unit holds `old` -/
def bfAssign (s : USize) (isUnsigned isBool : Bool) (w o : Nat) (old : BitVec s.bits) (v : BitVec 64) : Assigned s :=
  -- mov %rax, %rdi; mov $mask, %r9; and %r9, %rdi; shl $o, %rdi
  let rdi := (v &&& bfMask w) <<< shiftCount o
  -- mov (%rsp), %rax; load(mem->ty)
  let rax := loadUnit s isUnsigned old
  -- mov $~(mask << o), %r9; and %r9, %rax; or %rdi, %rax
  let rax := (rax &&& ~~~(bfMask w <<< o)) ||| rdi
  -- store(node->ty); shl; shr|sar
  { unit := storeUnit s rax, rax := extract w o isUnsigned isBool rax }

/-! ### by declared type -/

def bfLoadT (t : BfType) (w o : Nat) (u : BitVec t.usize.bits) : BitVec 64 :=
  bfLoad t.usize t.implUnsigned t.implBool w o u

def bfAssignT (t : BfType) (w o : Nat) (old : BitVec t.usize.bits) (v : BitVec 64) : Assigned t.usize :=
  bfAssign t.usize t.implUnsigned t.implBool w o old v

/-! ### the text of the two sequences (for the tie with `chibicc -S`) -/

/-- lines printed for reading a bit-field after `gen_addr` -/
def loadSeq (t : BfType) (w o : Nat) : List Line :=
  loadIntLine t.implSize t.implUnsigned :: bfExtractLines w o t.implUnsigned t.implBool

/-- lines printed for an assignment to a bit-field after `gen_addr(lhs); push(); gen_expr(rhs)` -/
def assignSeq (t : BfType) (w o : Nat) : List Line :=
  bfAssignLines w o t.implUnsigned t.implBool [loadIntLine t.implSize t.implUnsigned] (storeIntLines t.implSize)

/-- lines printed for the whole statement `local.member = c`, `member` a bit-field at byte offset `k` of a local object at
    `d(%rbp)`, `c` an integer constant of the member's type: `gen_addr(lhs)` (ND_MEMBER over ND_VAR: `lea`, `add`), `push()`,
    `gen_expr(rhs)` (ND_NUM), then the bit-field arm -/
def assignLocalSeq (d k c : Int) (t : BfType) (w o : Nat) : List Line :=
  [.ins ⟨"lea", [.m d "%rbp", .r "%rax"]⟩, .ins ⟨"add", [.i k, .r "%rax"]⟩, .ins ⟨"push", [.r "%rax"]⟩, .ins ⟨"mov", [.i c, .r "%rax"]⟩] ++
  assignSeq t w o

/-! ### on a byte-addressed memory

The unit of a bit-field is the object of the declared type at `mem->offset`; `load` / `store` access exactly its
`size` bytes (little endian).  Addresses are `Int` (no wrap-around). -/

abbrev Mem := Int → BitVec 8

/-- little-endian read of `n` bytes at `a` -/
def readLE (m : Mem) : Int → (n : Nat) → BitVec (8 * n)
  | _, 0 => 0#0
  | a, n + 1 => (readLE m (a + 1) n ++ m a).cast (by omega)

/-- little-endian write of `n` bytes at `a` -/
def writeLE (m : Mem) (a : Int) (n : Nat) (v : BitVec (8 * n)) : Mem :=
  fun x => if a ≤ x ∧ x < a + n then v.extractLsb' (8 * (x - a).toNat) 8 else m x

/-- `s.f = v` on a byte-addressed memory: the unit is the `size` bytes at `addr` -/
def bfAssignMem (t : BfType) (w o : Nat) (m : Mem) (addr : Int) (v : BitVec 64) : Mem × BitVec 64 :=
  let r := bfAssignT t w o (readLE m addr t.usize.bytes) v
  (writeLE m addr t.usize.bytes r.unit, r.rax)

/-- reading `s.f` from memory -/
def bfLoadMem (t : BfType) (w o : Nat) (m : Mem) (addr : Int) : BitVec 64 :=
  bfLoadT t w o (readLE m addr t.usize.bytes)

end ChibiVerif.BitField
