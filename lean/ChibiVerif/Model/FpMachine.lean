/-
Machine model for the floating-point code chibicc emits (C02).

State = the integer machine of Model/X86 (registers, flags, byte memory) + the low quadwords of `%xmm0`/`%xmm1`
+ the x87 register stack (a list, head = `%st(0)`) + the x87 control word.  A `float` lives in the low 32 bits of an
xmm register (scalar single instructions leave bits 63:32 alone), a `double` in the low 64 bits.

`step F i s` gives semantics to one `Asm.Ins`: the SSE/x87 forms below are interpreted here, with every arithmetic
*result* delegated to the abstract `F : FpuSpec`; everything else is handed to `X86.step` (integer instructions).
Unknown forms are `none`, never guessed.  `run` executes a cast-table string, including the forward local labels
(`js 1f; …; 1:`) of the branchy `u64f64`/`u64f80` cells.

Mnemonic → operation (trusted; validated end to end against gcc/the CPU by checklib/C02.py):
  AT&T `op src, dst` computes dst := dst op src.  `ucomis* src, dst` compares dst ? src.
  `faddp/fmulp` : st(1) := st(1) op st(0), pop.  GNU as' AT&T `fsubrp` / `fdivrp` (no operands) assemble to the
  instructions that compute st(1) := st(1) − st(0) / st(1) ÷ st(0) (the historical operand swap of AT&T syntax), pop.
  `fcomip/fucomip` compare st(0) ? st(1), set ZF/PF/CF (OF, SF := 0), pop once; `fcomi %st(1), %st` does not pop.
  `fsub %st(1), %st` : st(0) := st(0) − st(1);  `fstp %st(1)` : st(1) := st(0), pop;  `fxch %st(1)` exchanges st(0), st(1).
  `comiss/comisd src, dst` compare dst ? src like `ucomis*`;  `movd %r32, %xmm` zero-extends;  `btc $n, %r64` complements bit n;
  `cvtsi2ss %r64, %xmm` converts the signed 64-bit register;  `mov $0x…, %reg` loads the immediate.
-/
import ChibiVerif.Model.X86
import ChibiVerif.Spec.FpuSpec

namespace ChibiVerif.Fp
open ChibiVerif.Asm ChibiVerif.X86 ChibiVerif.Spec.Fpu

structure FState where
  x : X86.State
  xmm0 : BitVec 64
  xmm1 : BitVec 64
  st : List (BitVec 80)
  cw : BitVec 16

/-- replace the low 32 bits -/
def setLow32 (x : BitVec 64) (v : BitVec 32) : BitVec 64 := BitVec.ofNat 64 (x.toNat / 4294967296 * 4294967296 + v.toNat)

def FState.xget (s : FState) : String → Option (BitVec 64)
  | "%xmm0" => some s.xmm0
  | "%xmm1" => some s.xmm1
  | _ => none

def FState.xset (s : FState) (n : String) (v : BitVec 64) : Option FState :=
  match n with
  | "%xmm0" => some { s with xmm0 := v }
  | "%xmm1" => some { s with xmm1 := v }
  | _ => none

/-- effective address of a memory operand -/
def FState.addr (s : FState) : Opd → Option (BitVec 64)
  | .m d b => (baseOf b).map fun r => s.x.ea d r
  | .m0 b => (baseOf b).map fun r => s.x.ea 0 r
  | _ => none

def read80 (s : X86.State) (a : BitVec 64) : BitVec 80 := s.read16 (a + 8) ++ s.read64 a
def write80 (s : X86.State) (a : BitVec 64) (v : BitVec 80) : X86.State :=
  (s.write64 a (v.setWidth 64)).write16 (a + 8) ((v >>> 64).setWidth 16)

/-- flags after `ucomis*`/`fcomip`: ZF PF CF by relation, OF SF cleared -/
def FState.setRel (s : FState) (r : Rel) : FState :=
  { s with x := { s.x with zf := r.flags.1, pf := r.flags.2.1, cf := r.flags.2.2, sf := false, of := false, flagsValid := true } }

def FState.gpr32 (s : FState) (n : String) : Option (BitVec 32) :=
  match regOf n with
  | some (r, .w32) => some (s.x.getW r .w32)
  | _ => none

def FState.gpr64 (s : FState) (n : String) : Option (BitVec 64) :=
  match regOf n with
  | some (r, .w64) => some (s.x.get r)
  | _ => none

def FState.setGpr32 (s : FState) (n : String) (v : BitVec 32) : Option FState :=
  match regOf n with
  | some (r, .w32) => some { s with x := s.x.setW r .w32 v }
  | _ => none

def FState.setGpr64 (s : FState) (n : String) (v : BitVec 64) : Option FState :=
  match regOf n with
  | some (r, .w64) => some { s with x := s.x.set r v }
  | _ => none

/-! ### `$0x…` immediates (the translator keeps their spelling: `.s "$0x5f000000"`) -/

def hexDigit? (c : Char) : Option Nat :=
  if '0' ≤ c ∧ c ≤ '9' then some (c.toNat - '0'.toNat)
  else if 'a' ≤ c ∧ c ≤ 'f' then some (c.toNat - 'a'.toNat + 10)
  else if 'A' ≤ c ∧ c ≤ 'F' then some (c.toNat - 'A'.toNat + 10)
  else none

def hexList? : List Char → Nat → Option Nat
  | [], acc => some acc
  | c :: cs, acc => match hexDigit? c with
    | some d => hexList? cs (acc * 16 + d)
    | none => none

/-- value of an immediate spelled `$0x<hex digits>` -/
def hexImm? (s : String) : Option Nat :=
  match s.toList with
  | '$' :: '0' :: 'x' :: d :: ds => hexList? (d :: ds) 0
  | _ => none

/-- x87 binary operation of the `f…p` family: st(1) := f st(1) st(0); pop -/
def FState.x87bin (s : FState) (f : BitVec 80 → BitVec 80 → BitVec 80) : Option FState :=
  match s.st with
  | a :: b :: rest => some { s with st := f b a :: rest }
  | _ => none

def step (F : FpuSpec) (i : Ins) (s : FState) : Option FState :=
  match i.op, i.a with
  /- integer → floating (SSE) -/
  | "cvtsi2ssl", [.r g, .r x] => do
      let v ← s.gpr32 g; let old ← s.xget x; s.xset x (setLow32 old (F.cvtsi2ss32 v))
  | "cvtsi2ssq", [.r g, .r x] => do
      let v ← s.gpr64 g; let old ← s.xget x; s.xset x (setLow32 old (F.cvtsi2ss64 v))
  | "cvtsi2sdl", [.r g, .r x] => do
      let v ← s.gpr32 g; let _ ← s.xget x; s.xset x (F.cvtsi2sd32 v)
  | "cvtsi2sdq", [.r g, .r x] => do
      let v ← s.gpr64 g; let _ ← s.xget x; s.xset x (F.cvtsi2sd64 v)
  | "cvtsi2sd", [.r g, .r x] => do      -- operand size from the 64-bit register
      let v ← s.gpr64 g; let _ ← s.xget x; s.xset x (F.cvtsi2sd64 v)
  | "cvtsi2ss", [.r g, .r x] => do      -- operand size from the 64-bit register
      let v ← s.gpr64 g; let old ← s.xget x; s.xset x (setLow32 old (F.cvtsi2ss64 v))
  /- floating → integer (SSE, truncating) -/
  | "cvttss2sil", [.r x, .r g] => do
      let v ← s.xget x; s.setGpr32 g (F.cvttss2si32 (v.setWidth 32))
  | "cvttss2siq", [.r x, .r g] => do
      let v ← s.xget x; s.setGpr64 g (F.cvttss2si64 (v.setWidth 32))
  | "cvttsd2sil", [.r x, .r g] => do
      let v ← s.xget x; s.setGpr32 g (F.cvttsd2si32 v)
  | "cvttsd2siq", [.r x, .r g] => do
      let v ← s.xget x; s.setGpr64 g (F.cvttsd2si64 v)
  /- floating ↔ floating (SSE) -/
  | "cvtss2sd", [.r a, .r b] => do
      let v ← s.xget a; let _ ← s.xget b; s.xset b (F.cvtss2sd (v.setWidth 32))
  | "cvtsd2ss", [.r a, .r b] => do
      let v ← s.xget a; let old ← s.xget b; s.xset b (setLow32 old (F.cvtsd2ss v))
  /- moves -/
  | "movq", [.r g, .r x] =>
      match s.gpr64 g, s.xget x with
      | some v, some _ => s.xset x v
      | _, _ => (X86.step i s.x).map fun x' => { s with x := x' }
  | "movd", [.r g, .r x] => do          -- 32-bit GPR → XMM: zero-extended
      let v ← s.gpr32 g; let _ ← s.xget x; s.xset x (v.setWidth 64)
  | "mov", [.s imm, .r g] =>            -- `mov $0x…, %r32|%r64` (64-bit: the assembler picks `movabs` when needed)
      match hexImm? imm, regOf g with
      | some v, some (r, .w64) => if v < 2 ^ 64 then some { s with x := s.x.set r (BitVec.ofNat 64 v) } else none
      | some v, some (r, .w32) => if v < 2 ^ 32 then some { s with x := s.x.setW r .w32 (BitVec.ofNat 32 v) } else none
      | _, _ => none
  | "movss", [.r x, m] => do
      let v ← s.xget x; let a ← s.addr m; some { s with x := s.x.write32 a (v.setWidth 32) }
  | "movss", [m, .r x] => do
      let a ← s.addr m; let _ ← s.xget x; s.xset x ((s.x.read32 a).setWidth 64)
  | "movsd", [.r x, m] => do
      let v ← s.xget x; let a ← s.addr m; some { s with x := s.x.write64 a v }
  | "movsd", [m, .r x] => do
      let a ← s.addr m; let _ ← s.xget x; s.xset x (s.x.read64 a)
  /- bitwise -/
  | "pxor", [.r a, .r b] | "xorps", [.r a, .r b] | "xorpd", [.r a, .r b] => do
      let va ← s.xget a; let vb ← s.xget b; s.xset b (vb ^^^ va)
  /- SSE arithmetic: dst := dst op src -/
  | "addss", [.r a, .r b] => do
      let va ← s.xget a; let vb ← s.xget b; s.xset b (setLow32 vb (F.addss (vb.setWidth 32) (va.setWidth 32)))
  | "subss", [.r a, .r b] => do
      let va ← s.xget a; let vb ← s.xget b; s.xset b (setLow32 vb (F.subss (vb.setWidth 32) (va.setWidth 32)))
  | "mulss", [.r a, .r b] => do
      let va ← s.xget a; let vb ← s.xget b; s.xset b (setLow32 vb (F.mulss (vb.setWidth 32) (va.setWidth 32)))
  | "divss", [.r a, .r b] => do
      let va ← s.xget a; let vb ← s.xget b; s.xset b (setLow32 vb (F.divss (vb.setWidth 32) (va.setWidth 32)))
  | "addsd", [.r a, .r b] => do
      let va ← s.xget a; let vb ← s.xget b; s.xset b (F.addsd vb va)
  | "subsd", [.r a, .r b] => do
      let va ← s.xget a; let vb ← s.xget b; s.xset b (F.subsd vb va)
  | "mulsd", [.r a, .r b] => do
      let va ← s.xget a; let vb ← s.xget b; s.xset b (F.mulsd vb va)
  | "divsd", [.r a, .r b] => do
      let va ← s.xget a; let vb ← s.xget b; s.xset b (F.divsd vb va)
  /- SSE compare: `ucomis src, dst` compares dst ? src -/
  | "ucomiss", [.r a, .r b] => do
      let va ← s.xget a; let vb ← s.xget b; some (s.setRel (F.ucomiss (vb.setWidth 32) (va.setWidth 32)))
  | "ucomisd", [.r a, .r b] => do
      let va ← s.xget a; let vb ← s.xget b; some (s.setRel (F.ucomisd vb va))
  /- `comis*`: the flag results of `ucomis*` (F.comiss / F.comisd carry the same contract) -/
  | "comiss", [.r a, .r b] => do
      let va ← s.xget a; let vb ← s.xget b; some (s.setRel (F.comiss (vb.setWidth 32) (va.setWidth 32)))
  | "comisd", [.r a, .r b] => do
      let va ← s.xget a; let vb ← s.xget b; some (s.setRel (F.comisd vb va))
  /- x87 loads -/
  | "flds", [m] => do let a ← s.addr m; some { s with st := F.fld32 (s.x.read32 a) :: s.st }
  | "fldl", [m] => do let a ← s.addr m; some { s with st := F.fld64 (s.x.read64 a) :: s.st }
  | "fldt", [m] => do let a ← s.addr m; some { s with st := read80 s.x a :: s.st }
  | "fildl", [m] => do let a ← s.addr m; some { s with st := F.fild32 (s.x.read32 a) :: s.st }
  | "fildll", [m] | "fildq", [m] => do let a ← s.addr m; some { s with st := F.fild64 (s.x.read64 a) :: s.st }
  | "fldz", [] => some { s with st := F.fldz :: s.st }
  /- x87 stores (pop) -/
  | "fstps", [m] => do
      let a ← s.addr m
      match s.st with
      | v :: rest => some { s with st := rest, x := s.x.write32 a (F.fst32 s.cw v) }
      | [] => none
  | "fstpl", [m] => do
      let a ← s.addr m
      match s.st with
      | v :: rest => some { s with st := rest, x := s.x.write64 a (F.fst64 s.cw v) }
      | [] => none
  | "fstpt", [m] => do
      let a ← s.addr m
      match s.st with
      | v :: rest => some { s with st := rest, x := write80 s.x a v }
      | [] => none
  | "fistps", [m] => do
      let a ← s.addr m
      match s.st with
      | v :: rest => some { s with st := rest, x := s.x.write16 a (F.fistp16 s.cw v) }
      | [] => none
  | "fistpl", [m] => do
      let a ← s.addr m
      match s.st with
      | v :: rest => some { s with st := rest, x := s.x.write32 a (F.fistp32 s.cw v) }
      | [] => none
  | "fistpq", [m] => do
      let a ← s.addr m
      match s.st with
      | v :: rest => some { s with st := rest, x := s.x.write64 a (F.fistp64 s.cw v) }
      | [] => none
  | "fstp", [.r "%st(0)"] =>
      match s.st with
      | _ :: rest => some { s with st := rest }
      | [] => none
  | "fstp", [.r "%st(1)"] =>           -- st(1) := st(0); pop
      match s.st with
      | a :: _ :: rest => some { s with st := a :: rest }
      | _ => none
  | "fxch", [.r "%st(1)"] =>
      match s.st with
      | a :: b :: rest => some { s with st := b :: a :: rest }
      | _ => none
  /- x87 control word -/
  | "fnstcw", [m] => do let a ← s.addr m; some { s with x := s.x.write16 a s.cw }
  | "fldcw", [m] => do let a ← s.addr m; some { s with cw := s.x.read16 a }
  /- x87 arithmetic -/
  | "fadds", [m] => do
      let a ← s.addr m
      match s.st with
      | v :: rest => some { s with st := F.fadd s.cw v (F.fld32 (s.x.read32 a)) :: rest }
      | [] => none
  | "faddp", [] => s.x87bin (F.fadd s.cw)
  | "fsubrp", [] => s.x87bin (F.fsub s.cw)
  | "fmulp", [] => s.x87bin (F.fmul s.cw)
  | "fdivrp", [] => s.x87bin (F.fdiv s.cw)
  | "fsub", [.r "%st(1)", .r "%st"] =>  -- st(0) := st(0) − st(1) (destination %st: no AT&T operand swap)
      match s.st with
      | a :: b :: rest => some { s with st := F.fsub s.cw a b :: b :: rest }
      | _ => none
  | "fchs", [] =>
      match s.st with
      | v :: rest => some { s with st := F.fchs v :: rest }
      | [] => none
  | "fcomi", [.r "%st(1)", .r "%st"] => -- compare st(0) ? st(1); no pop
      match s.st with
      | a :: b :: _ => some (s.setRel (F.fcomi a b))
      | _ => none
  | "fcomip", [] | "fucomip", [] =>
      match s.st with
      | a :: b :: rest => some ({ s with st := b :: rest }.setRel (F.fcomi a b))
      | _ => none
  /- integer forms Model/X86 does not decode -/
  | "or", [.i n, .r "%ah"] =>      -- bits 15:8 of %rax
      some { s with x := s.x.set .rax (s.x.get .rax ||| ((BitVec.ofInt 64 n &&& 255) <<< 8)) }
  | "btc", [.i n, .r g] =>         -- complement bit n of a 64-bit register (CF := the old bit; OF SF PF undefined)
      if 0 ≤ n ∧ n < 64 then
        match regOf g with
        | some (r, .w64) => some { s with x := { (s.x.set r (s.x.get r ^^^ (1#64 <<< n.toNat))) with flagsValid := false } }
        | _ => none
      else none
  | "shr", [.r n] =>               -- shift right by one
      match regOf n with
      | some (r, .w64) => some { s with x := { (s.x.set r (s.x.get r >>> 1)) with flagsValid := false } }
      | _ => none
  | _, _ => (X86.step i s.x).map fun x' => { s with x := x' }

/-- conditional / unconditional forward jumps to a local label: (reads the flags?, taken?, label) -/
def jumpOf (i : Ins) (s : FState) : Option (Bool × Bool × String) :=
  match i.op, i.a with
  | "jmp", [.s l] => some (false, true, l)
  | "js", [.s l] => some (true, s.x.sf, l)
  | "jns", [.s l] => some (true, !s.x.sf, l)
  | "je", [.s l] => some (true, s.x.zf, l)
  | "jne", [.s l] => some (true, !s.x.zf, l)
  | "jae", [.s l] => some (true, !s.x.cf, l)
  | _, _ => none

/-- `1f` refers to the next `1:` (the cast-table strings use the local labels 1 and 2, forward only) -/
def labelOfRef : String → Option String
  | "1f" => some "1:" | "2f" => some "2:" | "3f" => some "3:"
  | _ => none

def isLabel (i : Ins) : Bool := i.a.isEmpty && (i.op == "1:" || i.op == "2:" || i.op == "3:")

/-- execute a sequence with forward local labels; `skip = some l`: a jump to `l` is in flight -/
def runFrom (F : FpuSpec) : List Ins → Option String → FState → Option FState
  | [], none, s => some s
  | [], some _, _ => none
  | i :: is, some l, s => if i.op = l ∧ i.a.isEmpty then runFrom F is none s else runFrom F is (some l) s
  | i :: is, none, s =>
      if isLabel i then runFrom F is none s else
      match jumpOf i s with
      | some (needsFlags, taken, l) =>
          if needsFlags ∧ ¬ s.x.flagsValid then none else
          if taken then (match labelOfRef l with | some t => runFrom F is (some t) s | none => none)
          else runFrom F is none s
      | none =>
        match step F i s with
        | some s' => runFrom F is none s'
        | none => none

def run (F : FpuSpec) (is : List Ins) (s : FState) : Option FState := runFrom F is none s

end ChibiVerif.Fp
