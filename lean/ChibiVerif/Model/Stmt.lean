/-
C03 — model of the statement bookkeeping of /repo/parse.c and of /repo/codegen.c `gen_stmt`.

parse.c (`stmt`, l.1570-1783; `resolve_goto_labels`, l.3262; `function`, l.3305):
  * `new_unique_name()` = `.L..<id++>`: one static counter for break/continue/case/label
    names *and* anonymous globals (`__func__`, `__FUNCTION__` take two per function);
  * `brk_label`, `cont_label`, `current_switch` are file-scope variables that `stmt` saves
    in a C local before descending and restores afterwards;
  * `case`/`default` nodes are linked into `current_switch` *after* their sub-statement
    was parsed (`case_next` list, most recent first; `default_case` overwritten);
  * `break`/`continue` become `ND_GOTO` with `unique_label` = current `brk_label`/`cont_label`;
  * named gotos and `&&label` are resolved per function against the `labels` list.
The parser state is an explicit value `PState` threaded through `parseStmt`; the C
locals `brk`, `cont`, `sw` are the `let`-bound copies.

codegen.c (`gen_stmt`, l.1260-1400; `count()`, l.26): `genStmt` emits the control skeleton
of what `gen_stmt` prints: labels, jumps, the `switch` compare ladder, and one
pseudo-instruction per call of `m`/`c`/`in` (the argument set-up and the call itself are
C06's business).  `count()` is the threaded `Nat`.

Instructions are structured (`CIns`) so that theorems need no string reasoning;
`CIns.toLine` maps them to the shared syntax `Model/Asm.lean`, whose printer gives the
text compared with `chibicc -S`.
-/
import ChibiVerif.Model.Asm
import ChibiVerif.Spec.ControlSpec

namespace ChibiVerif.Ctl
open ChibiVerif.Spec.Ctl (Val SStmt Event SState)

/-! ### parsed statements -/

structure CaseEnt where
  lbl : Nat
  lo : Val
  hi : Val
  deriving Repr, DecidableEq, Inhabited

inductive GotoKind where
  | brk | cont
  | user (l : Nat)             -- `goto l;` (the label name is kept for the correspondence with the source)
  deriving Repr, DecidableEq, Inhabited

/-- `Node` restricted to statements; every unique label is the number `n` of `.L..n` -/
inductive Stmt where
  | skip
  | marker (k : Nat)
  | seq (a b : Stmt)
  | block (s : Stmt)
  | ifte (c : Nat) (t e : Stmt)
  | for_ (init cond inc : Option Nat) (brk cont : Nat) (body : Stmt)
  | doWhile (brk cont : Nat) (body : Stmt) (c : Nat)
  | switch_ (w64 uns : Bool) (k : Nat) (cases : List CaseEnt) (dflt : Option Nat) (brk : Nat)
      (body : Stmt)
  | case_ (lbl : Nat) (lo hi : Val) (s : Stmt)
  | default_ (lbl : Nat) (s : Stmt)
  | goto_ (kind : GotoKind) (target : Nat)     -- ND_GOTO with `unique_label`
  | gotoN (l : Nat)                            -- ND_GOTO with `label`, not yet resolved
  | gotoVal (l : Nat) (target : Nat)           -- `goto *&&L` resolved
  | gotoValN (l : Nat)
  | label (l : Nat) (u : Nat) (s : Stmt)
  | ret
  deriving Repr, DecidableEq, Inhabited

inductive PErr where
  | strayCase | strayDefault | strayBreak | strayContinue
  | emptyRange                 -- "empty case range specified"
  | undeclaredLabel            -- "use of undeclared label"
  | lostSwitch                 -- `current_switch` NULL after a sub-statement (cannot happen; C03_break_binds)
  deriving Repr, DecidableEq, Inhabited

/-- the `Node` fields of the switch being parsed that `case`/`default` write through
    `current_switch` -/
structure SwCtx where
  cases : List CaseEnt         -- `case_next` chain, head = most recently linked
  dflt : Option Nat            -- `default_case->label`
  deriving Repr, DecidableEq, Inhabited

structure PState where
  uniq : Nat                   -- `static int id` of new_unique_name
  brk : Option Nat             -- brk_label  (none = NULL)
  cont : Option Nat            -- cont_label
  sw : Option SwCtx            -- current_switch
  labels : List (Nat × Nat)    -- `labels`: (name, unique), head = most recent
  deriving Repr, DecidableEq, Inhabited

def PState.fresh (σ : PState) : Nat × PState := (σ.uniq, { σ with uniq := σ.uniq + 1 })

def parseStmt : SStmt → PState → Except PErr (Stmt × PState)
  | .skip, σ => .ok (.skip, σ)
  | .marker k, σ => .ok (.marker k, σ)
  | .seq a b, σ =>
    match parseStmt a σ with
    | .error e => .error e
    | .ok (a', σ1) =>
      match parseStmt b σ1 with
      | .error e => .error e
      | .ok (b', σ2) => .ok (.seq a' b', σ2)
  | .block s, σ =>
    match parseStmt s σ with
    | .error e => .error e
    | .ok (s', σ1) => .ok (.block s', σ1)
  | .ifte c t e, σ =>
    match parseStmt t σ with
    | .error e => .error e
    | .ok (t', σ1) =>
      match parseStmt e σ1 with
      | .error e => .error e
      | .ok (e', σ2) => .ok (.ifte c t' e', σ2)
  | .switch_ w64 uns k body, σ =>
    let sw := σ.sw                                       -- Node *sw = current_switch;
    let brk := σ.brk                                     -- char *brk = brk_label;
    let b := σ.uniq                                      -- brk_label = node->brk_label = new_unique_name();
    match parseStmt body { σ with sw := some ⟨[], none⟩, brk := some b, uniq := σ.uniq + 1 } with
    | .error e => .error e
    | .ok (body', σ1) =>
      match σ1.sw with
      | none => .error .lostSwitch
      | some ctx =>
        .ok (.switch_ w64 uns k ctx.cases ctx.dflt b body',
             { σ1 with sw := sw, brk := brk })           -- current_switch = sw; brk_label = brk;
  | .case_ lo hi s, σ =>
    match σ.sw with
    | none => .error .strayCase
    | some _ =>
      if hi.slt lo then .error .emptyRange               -- `if (end < begin)` on `long`
      else
        let l := σ.uniq                                  -- node->label = new_unique_name();
        match parseStmt s { σ with uniq := σ.uniq + 1 } with
        | .error e => .error e
        | .ok (s', σ1) =>
          match σ1.sw with
          | none => .error .lostSwitch
          | some ctx =>                                  -- node->case_next = current_switch->case_next; ...
            .ok (.case_ l lo hi s', { σ1 with sw := some { ctx with cases := ⟨l, lo, hi⟩ :: ctx.cases } })
  | .default_ s, σ =>
    match σ.sw with
    | none => .error .strayDefault
    | some _ =>
      let l := σ.uniq
      match parseStmt s { σ with uniq := σ.uniq + 1 } with
      | .error e => .error e
      | .ok (s', σ1) =>
        match σ1.sw with
        | none => .error .lostSwitch
        | some ctx => .ok (.default_ l s', { σ1 with sw := some { ctx with dflt := some l } })
  | .for_ init c inc body, σ =>
    let brk := σ.brk
    let cont := σ.cont
    let b := σ.uniq
    let ct := σ.uniq + 1
    match parseStmt body { σ with brk := some b, cont := some ct, uniq := σ.uniq + 2 } with
    | .error e => .error e
    | .ok (body', σ1) => .ok (.for_ init c inc b ct body', { σ1 with brk := brk, cont := cont })
  | .doWhile body c, σ =>
    let brk := σ.brk
    let cont := σ.cont
    let b := σ.uniq
    let ct := σ.uniq + 1
    match parseStmt body { σ with brk := some b, cont := some ct, uniq := σ.uniq + 2 } with
    | .error e => .error e
    | .ok (body', σ1) => .ok (.doWhile b ct body' c, { σ1 with brk := brk, cont := cont })
  | .break_, σ =>
    match σ.brk with
    | none => .error .strayBreak
    | some b => .ok (.goto_ .brk b, σ)
  | .continue_, σ =>
    match σ.cont with
    | none => .error .strayContinue
    | some c => .ok (.goto_ .cont c, σ)
  | .goto_ l, σ => .ok (.gotoN l, σ)
  | .gotoVal l, σ => .ok (.gotoValN l, σ)
  | .label l s, σ =>
    let u := σ.uniq                                      -- node->unique_label = new_unique_name();
    match parseStmt s { σ with uniq := σ.uniq + 1 } with
    | .error e => .error e
    | .ok (s', σ1) => .ok (.label l u s', { σ1 with labels := (l, u) :: σ1.labels })
  | .ret, σ => .ok (.ret, σ)

/-- `resolve_goto_labels`: first label of that name in the `labels` list -/
def lookupLabel (labels : List (Nat × Nat)) (l : Nat) : Option Nat :=
  (labels.find? (fun p => p.1 == l)).map (·.2)

def resolve (labels : List (Nat × Nat)) : Stmt → Except PErr Stmt
  | .seq a b =>
    match resolve labels a with
    | .error e => .error e
    | .ok a' => match resolve labels b with
      | .error e => .error e
      | .ok b' => .ok (.seq a' b')
  | .block s => match resolve labels s with
    | .error e => .error e
    | .ok s' => .ok (.block s')
  | .ifte c t e =>
    match resolve labels t with
    | .error e => .error e
    | .ok t' => match resolve labels e with
      | .error e => .error e
      | .ok e' => .ok (.ifte c t' e')
  | .for_ i c n b ct body => match resolve labels body with
    | .error e => .error e
    | .ok body' => .ok (.for_ i c n b ct body')
  | .doWhile b ct body c => match resolve labels body with
    | .error e => .error e
    | .ok body' => .ok (.doWhile b ct body' c)
  | .switch_ w u k cs d b body => match resolve labels body with
    | .error e => .error e
    | .ok body' => .ok (.switch_ w u k cs d b body')
  | .case_ l lo hi s => match resolve labels s with
    | .error e => .error e
    | .ok s' => .ok (.case_ l lo hi s')
  | .default_ l s => match resolve labels s with
    | .error e => .error e
    | .ok s' => .ok (.default_ l s')
  | .label l u s => match resolve labels s with
    | .error e => .error e
    | .ok s' => .ok (.label l u s')
  | .gotoN l => match lookupLabel labels l with
    | none => .error .undeclaredLabel
    | some u => .ok (.goto_ (.user l) u)
  | .gotoValN l => match lookupLabel labels l with
    | none => .error .undeclaredLabel
    | some u => .ok (.gotoVal l u)
  -- (the parser never produces the next two forms; resolving them again keeps `resolve` idempotent)
  | .goto_ (.user l) _ => match lookupLabel labels l with
    | none => .error .undeclaredLabel
    | some u => .ok (.goto_ (.user l) u)
  | .gotoVal l _ => match lookupLabel labels l with
    | none => .error .undeclaredLabel
    | some u => .ok (.gotoVal l u)
  | s => .ok s

/-- `function()` for `void f(void) { body }`: `__func__` and `__FUNCTION__` take two unique
    names, then the body is parsed with no enclosing loop/switch, then gotos are resolved.
    `uniq0` = value of the name counter when the function definition is reached. -/
def PState.init (uniq0 : Nat) : PState := ⟨uniq0 + 2, none, none, none, []⟩

def parseFn (uniq0 : Nat) (body : SStmt) : Except PErr (Stmt × Nat) :=
  match parseStmt body (PState.init uniq0) with
  | .error e => .error e
  | .ok (st, σ) =>
    match resolve σ.labels st with
    | .error e => .error e
    | .ok st' => .ok (st', σ.uniq)

/-! ### code -/

inductive Lbl where
  | u (n : Nat)            -- .L..n        (new_unique_name)
  | begin_ (c : Nat)       -- .L.begin.c   (count())
  | else_ (c : Nat)        -- .L.else.c
  | end_ (c : Nat)         -- .L.end.c
  | ret                    -- .L.return.<fn>
  deriving Repr, DecidableEq, Inhabited

inductive Reg where
  | ax | di | dx
  deriving Repr, DecidableEq, Inhabited

inductive CIns where
  | label (l : Lbl)
  | jmp (l : Lbl)
  | je (l : Lbl)
  | jne (l : Lbl)
  | jbe (l : Lbl)
  | jmpInd                               -- jmp *%rax
  | lea (l : Lbl)                        -- lea l(%rip), %rax
  | call (e : Event)                     -- the call sequence of m(k) / c(k) / in(k)
  | cmpImm (w64 : Bool) (imm : Val) (r : Reg)   -- cmp $imm, r      (AT&T: flags of r - imm)
  | cmpReg (src dst : Reg)               -- cmp %src, %dst   (64-bit)
  | movImm (imm : Val) (r : Reg)         -- mov $imm, %r     (64-bit)
  | movAxDi (w64 : Bool)                 -- mov %eax, %edi / mov %rax, %rdi
  | subImm (w64 : Bool) (imm : Val)      -- sub $imm, %edi / %rdi
  | subDxDi                              -- sub %rdx, %rdi
  deriving Repr, DecidableEq, Inhabited

/-- `(int)x` as a `long` -/
def sext32 (x : Val) : Val := (x.setWidth 32).signExtend 64

/-- `x == (int)x` -/
def fits32 (x : Val) : Bool := sext32 x == x

/-- one arm of the compare ladder (`for (Node *n = node->case_next; n; n = n->case_next)`) -/
def ladderEnt (w64 : Bool) (e : CaseEnt) : List CIns :=
  let begin_ := if w64 then e.lo else sext32 e.lo
  let span := if w64 then e.hi - e.lo else sext32 (e.hi - e.lo)
  if e.lo = e.hi then
    (if fits32 begin_ then [.cmpImm w64 begin_ .ax]
     else [.movImm begin_ .di, .cmpReg .di .ax]) ++ [.je (.u e.lbl)]
  else
    [.movAxDi w64] ++
    (if fits32 begin_ then [.subImm w64 begin_] else [.movImm begin_ .dx, .subDxDi]) ++
    (if fits32 span then [.cmpImm w64 span .di] else [.movImm span .dx, .cmpReg .dx .di]) ++
    [.jbe (.u e.lbl)]

def ladder (w64 : Bool) (cases : List CaseEnt) (dflt : Option Nat) (brk : Nat) : List CIns :=
  cases.flatMap (ladderEnt w64) ++
  (match dflt with | some d => [.jmp (.u d)] | none => []) ++ [.jmp (.u brk)]

def callOpt : Option Nat → List CIns
  | none => []
  | some k => [.call (.m k)]

/-- `cmp_zero(ty_int)` -/
def cmpZero : CIns := .cmpImm false 0 .ax

def genStmt : Stmt → Nat → List CIns × Nat
  | .skip, c => ([], c)
  | .marker k, c => ([.call (.m k)], c)
  | .seq a b, c =>
    let x := genStmt a c
    let y := genStmt b x.2
    (x.1 ++ y.1, y.2)
  | .block s, c => genStmt s c
  | .ifte k t e, c =>                                   -- int c = count();
    let x := genStmt t (c + 1)
    let y := genStmt e x.2
    ([.call (.c k), cmpZero, .je (.else_ c)] ++ x.1 ++ [.jmp (.end_ c), .label (.else_ c)] ++ y.1 ++
      [.label (.end_ c)], y.2)
  | .for_ init cond inc brk cont body, c =>
    let x := genStmt body (c + 1)
    (callOpt init ++ [.label (.begin_ c)] ++
      (match cond with
       | some k => [.call (.c k), cmpZero, .je (.u brk)]
       | none => []) ++
      x.1 ++ [.label (.u cont)] ++ callOpt inc ++ [.jmp (.begin_ c), .label (.u brk)], x.2)
  | .doWhile brk cont body k, c =>
    let x := genStmt body (c + 1)
    ([.label (.begin_ c)] ++ x.1 ++
      [.label (.u cont), .call (.c k), cmpZero, .jne (.begin_ c), .label (.u brk)], x.2)
  | .switch_ w64 _ k cases dflt brk body, c =>
    let x := genStmt body c
    ([.call (.inp k)] ++ ladder w64 cases dflt brk ++ x.1 ++ [.label (.u brk)], x.2)
  | .case_ l _ _ s, c =>
    let x := genStmt s c
    (.label (.u l) :: x.1, x.2)
  | .default_ l s, c =>
    let x := genStmt s c
    (.label (.u l) :: x.1, x.2)
  | .goto_ _ t, c => ([.jmp (.u t)], c)
  | .gotoN _, c => ([.jmp (.u 0)], c)          -- never generated after `resolve` succeeded
  | .gotoVal _ t, c => ([.lea (.u t), .jmpInd], c)
  | .gotoValN _, c => ([.lea (.u 0), .jmpInd], c)
  | .label _ u s, c =>
    let x := genStmt s c
    (.label (.u u) :: x.1, x.2)
  | .ret, c => ([.jmp .ret], c)

/-- body of a function followed by its `.L.return.<fn>:`; `count0` = value of `count()`'s
    counter when `emit_text` reaches the function -/
def genFn (st : Stmt) (count0 : Nat) : List CIns :=
  (genStmt st count0).1 ++ [.label .ret]

/-! ### what the parsed tree says about itself (used in the statements of C03_break_binds / C03_labels) -/

/-- forget the labels: the source statement a parsed statement came from -/
def erase : Stmt → SStmt
  | .skip => .skip
  | .marker k => .marker k
  | .seq a b => .seq (erase a) (erase b)
  | .block s => .block (erase s)
  | .ifte c t e => .ifte c (erase t) (erase e)
  | .for_ i c n _ _ body => .for_ i c n (erase body)
  | .doWhile _ _ body c => .doWhile (erase body) c
  | .switch_ w u k _ _ _ body => .switch_ w u k (erase body)
  | .case_ _ lo hi s => .case_ lo hi (erase s)
  | .default_ _ s => .default_ (erase s)
  | .goto_ .brk _ => .break_
  | .goto_ .cont _ => .continue_
  | .goto_ (.user l) _ => .goto_ l
  | .gotoN l => .goto_ l
  | .gotoVal l _ => .gotoVal l
  | .gotoValN l => .gotoVal l
  | .label l _ s => .label l (erase s)
  | .ret => .ret

/-- the `case` nodes that belong to the innermost switch enclosing this statement (nested
    switches are opaque), in source order -/
def caseEnts : Stmt → List CaseEnt
  | .seq a b => caseEnts a ++ caseEnts b
  | .block s => caseEnts s
  | .ifte _ t e => caseEnts t ++ caseEnts e
  | .for_ _ _ _ _ _ body => caseEnts body
  | .doWhile _ _ body _ => caseEnts body
  | .case_ l lo hi s => ⟨l, lo, hi⟩ :: caseEnts s
  | .default_ _ s => caseEnts s
  | .label _ _ s => caseEnts s
  | _ => []

/-- likewise the labels of the `default` nodes -/
def dflts : Stmt → List Nat
  | .seq a b => dflts a ++ dflts b
  | .block s => dflts s
  | .ifte _ t e => dflts t ++ dflts e
  | .for_ _ _ _ _ _ body => dflts body
  | .doWhile _ _ body _ => dflts body
  | .case_ _ _ _ s => dflts s
  | .default_ l s => l :: dflts s
  | .label _ _ s => dflts s
  | _ => []

/-- the `default_case` a switch node records is one of the `default`s of its body, and is
    absent only if the body has none -/
def DfltOf : Option Nat → List Nat → Prop
  | none, ds => ds = []
  | some d, ds => d ∈ ds

/-- `Bound b c st`: with `b`/`c` the break/continue labels of the innermost enclosing
    loop-or-switch / loop *outside* `st`, every `break`/`continue` node of `st` jumps to the
    label of **its** innermost enclosing construct, and every switch node's case list and
    default are exactly the `case`/`default` nodes of its own body. -/
def Bound (b c : Option Nat) : Stmt → Prop
  | .seq x y => Bound b c x ∧ Bound b c y
  | .block s => Bound b c s
  | .ifte _ t e => Bound b c t ∧ Bound b c e
  | .for_ _ _ _ brk cont body => Bound (some brk) (some cont) body
  | .doWhile brk cont body _ => Bound (some brk) (some cont) body
  | .switch_ _ _ _ cases dflt brk body =>
    Bound (some brk) c body ∧ (∀ e, e ∈ cases ↔ e ∈ caseEnts body) ∧ DfltOf dflt (dflts body)
  | .case_ _ _ _ s => Bound b c s
  | .default_ _ s => Bound b c s
  | .label _ _ s => Bound b c s
  | .goto_ .brk t => b = some t
  | .goto_ .cont t => c = some t
  | _ => True

/-- unique labels whose definition `genStmt` emits for this statement -/
def defs : Stmt → List Nat
  | .seq a b => defs a ++ defs b
  | .block s => defs s
  | .ifte _ t e => defs t ++ defs e
  | .for_ _ _ _ brk cont body => defs body ++ [cont, brk]
  | .doWhile brk cont body _ => defs body ++ [cont, brk]
  | .switch_ _ _ _ _ _ brk body => defs body ++ [brk]
  | .case_ l _ _ s => l :: defs s
  | .default_ l s => l :: defs s
  | .label _ u s => u :: defs s
  | _ => []

/-- labels a code sequence defines / jumps to -/
def labelsOf (code : List CIns) : List Lbl :=
  code.filterMap fun i => match i with | .label l => some l | _ => none

def targetsOf (code : List CIns) : List Lbl :=
  code.filterMap fun i => match i with
    | .jmp l => some l | .je l => some l | .jne l => some l | .jbe l => some l | .lea l => some l
    | _ => none

/-- `genStmt` with the function epilogue label, also returning the advanced `count()` -/
def genFnC (st : Stmt) (count0 : Nat) : List CIns × Nat :=
  let r := genStmt st count0
  (r.1 ++ [.label .ret], r.2)

/-- a translation unit of `void f_i(void) { body_i }` definitions: `parse()` handles them in
    order of definition (one name counter); `emit_text` walks the `globals` list, which
    `new_gvar` builds by prepending, so code is generated — and `count()` advances — in
    **reverse** order of definition. -/
def parseUnit : Nat → List SStmt → Except PErr (List Stmt × Nat)
  | u, [] => .ok ([], u)
  | u, f :: fs =>
    match parseFn u f with
    | .error e => .error e
    | .ok (st, u1) =>
      match parseUnit u1 fs with
      | .error e => .error e
      | .ok (sts, u2) => .ok (st :: sts, u2)

/-- code of the functions listed in *emission* order -/
def genUnitRev : List Stmt → Nat → List (List CIns)
  | [], _ => []
  | st :: r, c => let (code, c1) := genFnC st c; code :: genUnitRev r c1

/-- code per function, in definition order -/
def genUnit (sts : List Stmt) (count0 : Nat) : List (List CIns) :=
  (genUnitRev sts.reverse count0).reverse

/-! ### printing (shared syntax of Model/Asm.lean) -/

def Lbl.render (fn : String) : Lbl → String
  | .u n => ".L.." ++ toString n
  | .begin_ c => ".L.begin." ++ toString c
  | .else_ c => ".L.else." ++ toString c
  | .end_ c => ".L.end." ++ toString c
  | .ret => ".L.return." ++ fn

def Reg.name (w64 : Bool) : Reg → String
  | .ax => if w64 then "%rax" else "%eax"
  | .di => if w64 then "%rdi" else "%edi"
  | .dx => if w64 then "%rdx" else "%edx"

def eventRender : Event → String
  | .m k => "m " ++ toString k
  | .c k => "c " ++ toString k
  | .inp k => "in " ++ toString k

open Asm in
def CIns.toLine (fn : String) : CIns → Line
  | .label l => .label (l.render fn)
  | .jmp l => ins1 "jmp" (.s (l.render fn))
  | .je l => ins1 "je" (.s (l.render fn))
  | .jne l => ins1 "jne" (.s (l.render fn))
  | .jbe l => ins1 "jbe" (.s (l.render fn))
  | .jmpInd => ins1 "jmp" (.s "*%rax")
  | .lea l => ins2 "lea" (.s (l.render fn ++ "(%rip)")) (.r "%rax")
  | .call e => .insA ⟨"call", [.s (eventRender e)]⟩ "skeleton"
  | .cmpImm w imm r => ins2 "cmp" (.i imm.toInt) (.r (r.name w))
  | .cmpReg s d => ins2 "cmp" (.r (s.name true)) (.r (d.name true))
  | .movImm imm r => ins2 "mov" (.i imm.toInt) (.r (r.name true))
  | .movAxDi w => ins2 "mov" (.r (Reg.ax.name w)) (.r (Reg.di.name w))
  | .subImm w imm => ins2 "sub" (.i imm.toInt) (.r (Reg.di.name w))
  | .subDxDi => ins2 "sub" (.r "%rdx") (.r "%rdi")

def genLines (fn : String) (st : Stmt) (count0 : Nat) : List Asm.Line :=
  (genFn st count0).map (CIns.toLine fn)

/-! ### the machine over `List CIns` -/

abbrev Prog := List CIns

/-- position of the definition of `l`, counted from `k` (first one; `C03_labels`: there is
    exactly one) -/
def findLabelFrom : Prog → Lbl → Nat → Option Nat
  | [], _, _ => none
  | i :: r, l, k => if i = .label l then some k else findLabelFrom r l (k + 1)

def findLabel (P : Prog) (l : Lbl) : Option Nat := findLabelFrom P l 0

structure MState where
  pc : Nat
  σ : SState               -- oracle position and trace
  rax : Val
  rdi : Val
  rdx : Val
  zf : Bool                -- ZF
  be : Bool                -- CF ∨ ZF  ("below or equal")
  deriving Repr, DecidableEq

def MState.reg (s : MState) : Reg → Val
  | .ax => s.rax | .di => s.rdi | .dx => s.rdx

def MState.setReg (s : MState) (r : Reg) (v : Val) : MState :=
  match r with
  | .ax => { s with rax := v } | .di => { s with rdi := v } | .dx => { s with rdx := v }

def MState.next (s : MState) : MState := { s with pc := s.pc + 1 }

def MState.jump (s : MState) (P : Prog) (l : Lbl) : Option MState :=
  match findLabel P l with
  | some i => some { s with pc := i }
  | none => none

/-- low 32 bits, zero-extended (what a write to a 32-bit register leaves in the 64-bit one) -/
def zext32 (x : Val) : Val := (x.setWidth 32).setWidth 64

/-- flags of `a - b` at width 64 or 32: (ZF, CF ∨ ZF) -/
def cmpFlags (w64 : Bool) (a b : Val) : Bool × Bool :=
  if w64 then (a == b, a ≤ b) else (a.setWidth 32 == b.setWidth 32, a.setWidth 32 ≤ b.setWidth 32)

/-- one instruction; `none` = the machine stops (end of code, undefined label) -/
def step (ω : Nat → Val) (P : Prog) (s : MState) : Option MState :=
  match P[s.pc]? with
  | none => none
  | some i =>
    match i with
    | .label _ => some s.next
    | .jmp l => s.jump P l
    | .je l => if s.zf then s.jump P l else some s.next
    | .jne l => if s.zf then some s.next else s.jump P l
    | .jbe l => if s.be then s.jump P l else some s.next
    | .jmpInd => some { s with pc := s.rax.toNat }
    | .lea l => match findLabel P l with
      | some i => some { s with rax := BitVec.ofNat 64 i }.next
      | none => none
    | .call (.m k) =>
      -- a call clobbers the caller-saved registers and the flags
      some { s with σ := s.σ.emit (.m k), rax := 0, rdi := 0, rdx := 0, zf := false, be := false }.next
    | .call e =>
      let (v, σ') := s.σ.call ω e
      some { s with σ := σ', rax := v, rdi := 0, rdx := 0, zf := false, be := false }.next
    | .cmpImm w imm r =>
      let f := cmpFlags w (s.reg r) imm
      some { s with zf := f.1, be := f.2 }.next
    | .cmpReg src dst =>
      let f := cmpFlags true (s.reg dst) (s.reg src)
      some { s with zf := f.1, be := f.2 }.next
    | .movImm imm r => some (s.setReg r imm).next
    | .movAxDi w => some { s with rdi := if w then s.rax else zext32 s.rax }.next
    | .subImm w imm =>
      let f := cmpFlags w s.rdi imm
      some { s with rdi := if w then s.rdi - imm else zext32 (s.rdi - imm), zf := f.1, be := f.2 }.next
    | .subDxDi =>
      let f := cmpFlags true s.rdi s.rdx
      some { s with rdi := s.rdi - s.rdx, zf := f.1, be := f.2 }.next

def stepN (ω : Nat → Val) (P : Prog) : Nat → MState → Option MState
  | 0, s => some s
  | n + 1, s => match step ω P s with
    | none => none
    | some s' => stepN ω P n s'

/-- run until the machine stops or the fuel is used up; returns the last state -/
def runM (ω : Nat → Val) (P : Prog) : Nat → MState → MState
  | 0, s => s
  | n + 1, s => match step ω P s with
    | none => s
    | some s' => runM ω P n s'

def MState.init (σ : SState) : MState := ⟨0, σ, 0, 0, 0, false, false⟩

/-! ### named labels (parse.c `labels` / `gotos`, `resolve_goto_labels`) -/

/-- (source name, unique label) of every labelled statement, in source order -/
def labelPairs : Stmt → List (Nat × Nat)
  | .seq a b => labelPairs a ++ labelPairs b
  | .block s => labelPairs s
  | .ifte _ t e => labelPairs t ++ labelPairs e
  | .for_ _ _ _ _ _ body => labelPairs body
  | .doWhile _ _ body _ => labelPairs body
  | .switch_ _ _ _ _ _ _ body => labelPairs body
  | .case_ _ _ _ s => labelPairs s
  | .default_ _ s => labelPairs s
  | .label l u s => (l, u) :: labelPairs s
  | _ => []

/-- every `goto l` / `goto *&&l` is resolved, to a unique label `t` with `R l t`; `V` holds if there is a
    computed goto (it will be: code addresses fit a 64-bit register) -/
def GotoR (R : Nat → Nat → Prop) (V : Prop) : Stmt → Prop
  | .seq a b => GotoR R V a ∧ GotoR R V b
  | .block s => GotoR R V s
  | .ifte _ t e => GotoR R V t ∧ GotoR R V e
  | .for_ _ _ _ _ _ body => GotoR R V body
  | .doWhile _ _ body _ => GotoR R V body
  | .switch_ _ _ _ _ _ _ body => GotoR R V body
  | .case_ _ _ _ s => GotoR R V s
  | .default_ _ s => GotoR R V s
  | .label _ _ s => GotoR R V s
  | .goto_ (.user l) t => R l t
  | .gotoVal l t => R l t ∧ V
  | .gotoN _ => False
  | .gotoValN _ => False
  | _ => True

/-- the label names `goto l` / `goto *&&l` statements of a source statement use -/
def jumpNames : SStmt → List Nat
  | .seq a b => jumpNames a ++ jumpNames b
  | .block s => jumpNames s
  | .ifte _ t e => jumpNames t ++ jumpNames e
  | .for_ _ _ _ b => jumpNames b
  | .doWhile b _ => jumpNames b
  | .switch_ _ _ _ b => jumpNames b
  | .case_ _ _ s => jumpNames s
  | .default_ s => jumpNames s
  | .label _ s => jumpNames s
  | .goto_ l => [l]
  | .gotoVal l => [l]
  | _ => []

end ChibiVerif.Ctl
