/-
`Ty`, `Member`, `Node`, `Var`, `Obj`, `Program` mirroring chibicc.h, and the parser of the
`-verif-dump-ast` text written by /repo/verif_dump.c (guard CHIBICC_VERIF).

Conventions
* C `int`/`long` fields are `Int` (offsets are negative, sizes take part in signed arithmetic).
* C strings are byte strings: a `String` whose characters all have code < 256, one per byte.
  The driver writes them back one byte per character, so non-ASCII bytes round-trip exactly.
* A NULL `Node *` is `Node.null`; NULL strings / types / objects are `none`.
* Types are a table of flat records (`Ty`, references by id); every node carries a copy of the
  record of its own type (`NInfo.ty`), deeper lookups (`base`, members, `return_ty`) go through
  `Program.types`.  Variables: every node that refers to an `Obj` carries the static part of it
  (`Var`: name, type, flags); the stack offset is *not* in the dump, it is computed by
  `Codegen.assignLvarOffsets`.
* Everything here is core Lean; the parser is total (fuel = number of tokens).
-/
namespace ChibiVerif.Ast

inductive TyKind where
  | void | bool | char | short | int | long | float | double | ldouble | enum
  | ptr | func | array | vla | struct | union
  deriving DecidableEq, Repr, Inhabited

structure Member where
  idx : Int
  name : Option String
  ty : Int                -- type id
  align : Int
  offset : Int
  isBitfield : Bool
  bitOffset : Int
  bitWidth : Int
  deriving DecidableEq, Repr, Inhabited

/-- one row of the type table (struct Type) -/
structure Ty where
  id : Int
  kind : TyKind
  size : Int
  align : Int
  isUnsigned : Bool
  isAtomic : Bool
  base : Int              -- type id, -1 = NULL
  arrayLen : Int
  returnTy : Int          -- type id, -1 = NULL
  isVariadic : Bool
  isFlexible : Bool
  isPacked : Bool
  vlaSize : Int           -- object id, -1 = NULL
  params : List Int       -- type ids
  members : List Member
  deriving DecidableEq, Repr, Inhabited

/-- the part of `struct Obj` that does not depend on code generation -/
structure Var where
  id : Int
  name : Option String
  ty : Option Ty
  align : Int
  isLocal : Bool
  isFunction : Bool
  isDefinition : Bool
  isStatic : Bool
  isTentative : Bool
  isTls : Bool
  isInline : Bool
  isLive : Bool
  isRoot : Bool
  deriving DecidableEq, Repr, Inhabited

/-- fields every node has: `ty` (may be NULL), `tok->file->file_no`, `tok->line_no` -/
structure NInfo where
  ty : Option Ty
  fileNo : Int
  lineNo : Int
  deriving DecidableEq, Repr, Inhabited

/-- the node kinds that fall through to the generic binary-operator tail of `gen_expr` -/
inductive BinOp where
  | add | sub | mul | div | mod | bitand | bitor | bitxor | shl | shr | eq | ne | lt | le
  deriving DecidableEq, Repr, Inhabited

/-- one element of a switch's `case_next` chain -/
structure Case where
  begin_ : Int
  end_ : Int
  label : Option String
  deriving DecidableEq, Repr, Inhabited

mutual
inductive Node where
  | null
  | nullExpr (i : NInfo)
  | binop (i : NInfo) (op : BinOp) (lhs rhs : Node)
  | neg (i : NInfo) (lhs : Node)
  | assign (i : NInfo) (lhs rhs : Node)
  | cond (i : NInfo) (c t e : Node)
  | comma (i : NInfo) (lhs rhs : Node)
  | member (i : NInfo) (lhs : Node) (mem : Option Member)
  | addr (i : NInfo) (lhs : Node)
  | deref (i : NInfo) (lhs : Node)
  | not (i : NInfo) (lhs : Node)
  | bitnot (i : NInfo) (lhs : Node)
  | logand (i : NInfo) (lhs rhs : Node)
  | logor (i : NInfo) (lhs rhs : Node)
  | ret (i : NInfo) (lhs : Node)
  | if_ (i : NInfo) (c t e : Node)
  | for_ (i : NInfo) (init c inc t : Node) (brk cont : Option String)
  | do_ (i : NInfo) (t c : Node) (brk cont : Option String)
  | switch_ (i : NInfo) (c t : Node) (brk : Option String) (cases : List Case)
      (dflt : Option (Option String))
  | case_ (i : NInfo) (begin_ end_ : Int) (label : Option String) (lhs : Node)
  | block (i : NInfo) (body : NodeList)
  | goto_ (i : NInfo) (label uniqueLabel : Option String)
  | gotoExpr (i : NInfo) (lhs : Node)
  | label (i : NInfo) (label uniqueLabel : Option String) (lhs : Node)
  | labelVal (i : NInfo) (label uniqueLabel : Option String)
  | funcall (i : NInfo) (lhs : Node) (funcTy : Int) (retBuffer : Option Var) (args : NodeList)
  | exprStmt (i : NInfo) (lhs : Node)
  | stmtExpr (i : NInfo) (body : NodeList)
  | var (i : NInfo) (v : Option Var)
  | vlaPtr (i : NInfo) (v : Option Var)
  | num (i : NInfo) (val : Int) (f32 f64 f80lo f80hi : Nat)
  | cast (i : NInfo) (lhs : Node)
  | memzero (i : NInfo) (v : Option Var)
  | asm_ (i : NInfo) (s : Option String)
  | cas (i : NInfo) (addr old new : Node)
  | exch (i : NInfo) (lhs rhs : Node)
inductive NodeList where
  | nil
  | cons (n : Node) (rest : NodeList)
end

instance : Inhabited Node := ⟨.null⟩
instance : Inhabited NodeList := ⟨.nil⟩

def NodeList.toList : NodeList → List Node
  | .nil => []
  | .cons n r => n :: r.toList

def NodeList.ofList : List Node → NodeList
  | [] => .nil
  | n :: r => .cons n (NodeList.ofList r)

/-- `node->ty` etc.; `none` for a NULL node -/
def Node.info? : Node → Option NInfo
  | .null => none
  | .nullExpr i | .binop i .. | .neg i .. | .assign i .. | .cond i .. | .comma i .. | .member i ..
  | .addr i .. | .deref i .. | .not i .. | .bitnot i .. | .logand i .. | .logor i .. | .ret i ..
  | .if_ i .. | .for_ i .. | .do_ i .. | .switch_ i .. | .case_ i .. | .block i .. | .goto_ i ..
  | .gotoExpr i .. | .label i .. | .labelVal i .. | .funcall i .. | .exprStmt i .. | .stmtExpr i ..
  | .var i .. | .vlaPtr i .. | .num i .. | .cast i .. | .memzero i .. | .asm_ i .. | .cas i ..
  | .exch i .. => some i

def Node.ty? (n : Node) : Option Ty := n.info?.bind (·.ty)

structure Reloc where
  offset : Int
  label : Option String
  addend : Int
  deriving DecidableEq, Repr, Inhabited

/-- a member of the `prog` list -/
structure Obj where
  v : Var
  initData : Option (List Nat)      -- `ty->size` bytes
  rels : List Reloc
  params : List Var                  -- list order of `fn->params`
  locals : List Var                  -- list order of `fn->locals`
  vaArea : Option Var
  allocaBottom : Option Var
  body : Node
  /-- anonymous data (static local, string literal) of a function that is not emitted: `var->owner && !var->owner->is_live`
      (listed by the dump in `(unemitted …)`; /repo 35df197) -/
  ownerDead : Bool := false
  deriving Inhabited

structure Program where
  fpic : Bool
  fcommon : Bool
  baseFile : Option String
  files : List (Int × Option String)
  prog : List Obj
  types : List Ty
  vlaLens : List (Int × Node)        -- type id ↦ `vla_len` (not read by codegen)
  deriving Inhabited

def Program.ty? (p : Program) (id : Int) : Option Ty :=
  if id < 0 then none else p.types[id.toNat]?

/-! ## S-expressions -/

inductive Sexp where
  | atom (s : String)
  | list (l : List Sexp)
  deriving Inhabited

inductive Tok where
  | lp | rp | atom (s : String)
  deriving Inhabited

private def isWs (c : Char) : Bool := c == ' ' || c == '\n' || c == '\t' || c == '\r'

/-- split into `(`, `)` and atoms; `cur` is the atom being read, reversed -/
def tokenize : List Char → List Char → List Tok → List Tok
  | [], cur, acc =>
    (if cur.isEmpty then acc else .atom (String.ofList cur.reverse) :: acc).reverse
  | c :: cs, cur, acc =>
    let acc' := if cur.isEmpty then acc else .atom (String.ofList cur.reverse) :: acc
    if c == '(' then tokenize cs [] (.lp :: acc')
    else if c == ')' then tokenize cs [] (.rp :: acc')
    else if isWs c then tokenize cs [] acc'
    else tokenize cs (c :: cur) acc

/-- `stack`: lists under construction, innermost first, each reversed -/
def parseToks : List Tok → List (List Sexp) → List Sexp → Except String (List Sexp)
  | [], [], top => .ok top.reverse
  | [], _ :: _, _ => .error "dump: unbalanced '('"
  | .lp :: ts, stack, top => parseToks ts (top :: stack) []
  | .rp :: ts, up :: stack, top => parseToks ts stack (.list top.reverse :: up)
  | .rp :: _, [], _ => .error "dump: unbalanced ')'"
  | .atom a :: ts, stack, top => parseToks ts stack (.atom a :: top)

def parseSexps (text : String) : Except String (List Sexp) :=
  parseToks (tokenize text.toList [] []) [] []

/-! ## atoms -/

def hexVal (c : Char) : Option Nat :=
  if '0' ≤ c && c ≤ '9' then some (c.toNat - '0'.toNat)
  else if 'a' ≤ c && c ≤ 'f' then some (c.toNat - 'a'.toNat + 10)
  else if 'A' ≤ c && c ≤ 'F' then some (c.toNat - 'A'.toNat + 10)
  else none

def decodePct : List Char → List Char → Except String (List Char)
  | [], acc => .ok acc.reverse
  | '%' :: a :: b :: r, acc =>
    match hexVal a, hexVal b with
    | some x, some y => decodePct r (Char.ofNat (16 * x + y) :: acc)
    | _, _ => .error "dump: bad %XX escape"
  | '%' :: _, _ => .error "dump: truncated %XX escape"
  | c :: r, acc => decodePct r (c :: acc)

/-- `~` ↦ none, `'text` ↦ some (decoded byte string) -/
def asStr : Sexp → Except String (Option String)
  | .atom s =>
    match s.toList with
    | ['~'] => .ok none
    | '\'' :: r => do let cs ← decodePct r []; pure (some (String.ofList cs))
    | _ => .error s!"dump: expected string, got {s}"
  | .list _ => .error "dump: expected string, got list"

def asInt : Sexp → Except String Int
  | .atom s => match s.toInt? with
    | some n => .ok n
    | none => .error s!"dump: expected integer, got {s}"
  | .list _ => .error "dump: expected integer, got list"

def asNat (s : Sexp) : Except String Nat := do
  let n ← asInt s
  if n < 0 then .error "dump: expected natural number" else pure n.toNat

def asBool (s : Sexp) : Except String Bool := do
  let n ← asInt s
  pure (n != 0)

def hexBytes : List Char → List Nat → Except String (List Nat)
  | [], acc => .ok acc.reverse
  | a :: b :: r, acc =>
    match hexVal a, hexVal b with
    | some x, some y => hexBytes r ((16 * x + y) :: acc)
    | _, _ => .error "dump: bad hex blob"
  | [_], _ => .error "dump: odd hex blob"

def asBlob : Sexp → Except String (Option (List Nat))
  | .atom s =>
    match s.toList with
    | ['~'] => .ok none
    | '#' :: r => do let b ← hexBytes r []; pure (some b)
    | _ => .error s!"dump: expected blob, got {s}"
  | .list _ => .error "dump: expected blob, got list"

def tyKindOf : String → Except String TyKind
  | "VOID" => .ok .void | "BOOL" => .ok .bool | "CHAR" => .ok .char | "SHORT" => .ok .short
  | "INT" => .ok .int | "LONG" => .ok .long | "FLOAT" => .ok .float | "DOUBLE" => .ok .double
  | "LDOUBLE" => .ok .ldouble | "ENUM" => .ok .enum | "PTR" => .ok .ptr | "FUNC" => .ok .func
  | "ARRAY" => .ok .array | "VLA" => .ok .vla | "STRUCT" => .ok .struct | "UNION" => .ok .union
  | s => .error s!"dump: unknown type kind {s}"

def asMember : Sexp → Except String (Option Member)
  | .atom "~" => .ok none
  | .list [idx, name, ty, align, off, bf, bo, bw] => do
    pure (some { idx := ← asInt idx, name := ← asStr name, ty := ← asInt ty, align := ← asInt align,
                 offset := ← asInt off, isBitfield := ← asBool bf, bitOffset := ← asInt bo,
                 bitWidth := ← asInt bw })
  | _ => .error "dump: bad member"

def asMembers : List Sexp → Except String (List Member)
  | [] => .ok []
  | s :: r => do
    match ← asMember s with
    | some m => pure (m :: (← asMembers r))
    | none => .error "dump: NULL member in member list"

/-- `(type id KIND size align unsigned atomic base array_len return_ty variadic flexible packed
     vla_size (params ..) (members ..) vla_len)`; returns the row and the raw `vla_len` -/
def asType : Sexp → Except String (Ty × Sexp)
  | .list [.atom "type", id, .atom kind, size, align, uns, atom, base, alen, ret, variadic, flex,
           packed, vlaSize, .list (.atom "params" :: ps), .list (.atom "members" :: ms), vlaLen] => do
    let t : Ty := {
      id := ← asInt id, kind := ← tyKindOf kind, size := ← asInt size, align := ← asInt align,
      isUnsigned := ← asBool uns, isAtomic := ← asBool atom, base := ← asInt base,
      arrayLen := ← asInt alen, returnTy := ← asInt ret, isVariadic := ← asBool variadic,
      isFlexible := ← asBool flex, isPacked := ← asBool packed, vlaSize := ← asInt vlaSize,
      params := ← ps.mapM asInt, members := ← asMembers ms }
    pure (t, vlaLen)
  | _ => .error "dump: bad (type ...)"

/-! ## objects and nodes -/

structure Tables where
  types : Array Ty
  vars : Array Var

def Tables.ty? (t : Tables) (s : Sexp) : Except String (Option Ty) := do
  let id ← asInt s
  if id < 0 then pure none
  else match t.types[id.toNat]? with
    | some ty => pure (some ty)
    | none => .error s!"dump: unknown type id {id}"

def Tables.var? (t : Tables) (s : Sexp) : Except String (Option Var) := do
  let id ← asInt s
  if id < 0 then pure none
  else match t.vars[id.toNat]? with
    | some v => pure (some v)
    | none => .error s!"dump: unknown object id {id}"

def Tables.info (t : Tables) (ty f l : Sexp) : Except String NInfo := do
  pure { ty := ← t.ty? ty, fileNo := ← asInt f, lineNo := ← asInt l }

def binOpOf : String → Option BinOp
  | "ADD" => some .add | "SUB" => some .sub | "MUL" => some .mul | "DIV" => some .div
  | "MOD" => some .mod | "BITAND" => some .bitand | "BITOR" => some .bitor
  | "BITXOR" => some .bitxor | "SHL" => some .shl | "SHR" => some .shr | "EQ" => some .eq
  | "NE" => some .ne | "LT" => some .lt | "LE" => some .le
  | _ => none

def asCases : List Sexp → Except String (List Case)
  | [] => .ok []
  | .list [b, e, l] :: r => do
    pure ({ begin_ := ← asInt b, end_ := ← asInt e, label := ← asStr l } :: (← asCases r))
  | _ => .error "dump: bad case entry"

mutual
def toNode (t : Tables) : Nat → Sexp → Except String Node
  | 0, _ => .error "dump: out of fuel"
  | _, .atom "~" => .ok .null
  | _, .atom a => .error s!"dump: expected node, got {a}"
  | fuel + 1, .list (.atom kind :: ty :: f :: l :: rest) => do
    let i ← t.info ty f l
    let nd := toNode t fuel
    match kind, rest with
    | "NULL_EXPR", [] => pure (.nullExpr i)
    | "NEG", [a] => pure (.neg i (← nd a))
    | "ASSIGN", [a, b] => pure (.assign i (← nd a) (← nd b))
    | "COND", [c, a, b] => pure (.cond i (← nd c) (← nd a) (← nd b))
    | "COMMA", [a, b] => pure (.comma i (← nd a) (← nd b))
    | "MEMBER", [a, m] => pure (.member i (← nd a) (← asMember m))
    | "ADDR", [a] => pure (.addr i (← nd a))
    | "DEREF", [a] => pure (.deref i (← nd a))
    | "NOT", [a] => pure (.not i (← nd a))
    | "BITNOT", [a] => pure (.bitnot i (← nd a))
    | "LOGAND", [a, b] => pure (.logand i (← nd a) (← nd b))
    | "LOGOR", [a, b] => pure (.logor i (← nd a) (← nd b))
    | "RETURN", [a] => pure (.ret i (← nd a))
    | "IF", [c, a, b] => pure (.if_ i (← nd c) (← nd a) (← nd b))
    | "FOR", [ini, c, inc, th, brk, cont] =>
      pure (.for_ i (← nd ini) (← nd c) (← nd inc) (← nd th) (← asStr brk) (← asStr cont))
    | "DO", [th, c, brk, cont] => pure (.do_ i (← nd th) (← nd c) (← asStr brk) (← asStr cont))
    | "SWITCH", [c, th, brk, .list (.atom "cases" :: cs), d] => do
      let dflt ← match d with
        | .atom "~" => pure none
        | .list [.atom "default", lbl] => do pure (some (← asStr lbl))
        | _ => .error "dump: bad switch default"
      pure (.switch_ i (← nd c) (← nd th) (← asStr brk) (← asCases cs) dflt)
    | "CASE", [b, e, lbl, a] => pure (.case_ i (← asInt b) (← asInt e) (← asStr lbl) (← nd a))
    | "BLOCK", [.list (.atom "body" :: ns)] => pure (.block i (← toNodes t fuel ns))
    | "STMT_EXPR", [.list (.atom "body" :: ns)] => pure (.stmtExpr i (← toNodes t fuel ns))
    | "GOTO", [a, b] => pure (.goto_ i (← asStr a) (← asStr b))
    | "GOTO_EXPR", [a] => pure (.gotoExpr i (← nd a))
    | "LABEL", [a, b, c] => pure (.label i (← asStr a) (← asStr b) (← nd c))
    | "LABEL_VAL", [a, b] => pure (.labelVal i (← asStr a) (← asStr b))
    | "FUNCALL", [fn, fty, rb, .list (.atom "args" :: as)] =>
      pure (.funcall i (← nd fn) (← asInt fty) (← t.var? rb) (← toNodes t fuel as))
    | "EXPR_STMT", [a] => pure (.exprStmt i (← nd a))
    | "VAR", [v] => pure (.var i (← t.var? v))
    | "VLA_PTR", [v] => pure (.vlaPtr i (← t.var? v))
    | "MEMZERO", [v] => pure (.memzero i (← t.var? v))
    | "NUM", [v, a, b, c, d] => pure (.num i (← asInt v) (← asNat a) (← asNat b) (← asNat c) (← asNat d))
    | "CAST", [a] => pure (.cast i (← nd a))
    | "ASM", [s] => pure (.asm_ i (← asStr s))
    | "CAS", [a, o, n] => pure (.cas i (← nd a) (← nd o) (← nd n))
    | "EXCH", [a, b] => pure (.exch i (← nd a) (← nd b))
    | k, [a, b] =>
      match binOpOf k with
      | some op => pure (.binop i op (← nd a) (← nd b))
      | none => .error s!"dump: unknown node kind {k}"
    | k, _ => .error s!"dump: bad node {k}"
  | _, .list _ => .error "dump: bad node"
def toNodes (t : Tables) : Nat → List Sexp → Except String NodeList
  | 0, _ => .error "dump: out of fuel"
  | _, [] => .ok .nil
  | fuel + 1, s :: r => do
    let n ← toNode t fuel s
    let ns ← toNodes t fuel r
    pure (.cons n ns)
end

/-- header of `(obj id name type align is_local is_function is_definition is_static is_tentative
    is_tls is_inline is_live is_root ...)` -/
def asVarHead (types : Array Ty) : Sexp → Except String Var
  | .list (.atom "obj" :: id :: name :: ty :: align :: loc :: fn :: df :: st :: tent :: tls :: inl
           :: live :: root :: _) => do
    let t : Tables := { types, vars := #[] }
    pure { id := ← asInt id, name := ← asStr name, ty := ← t.ty? ty, align := ← asInt align,
           isLocal := ← asBool loc, isFunction := ← asBool fn, isDefinition := ← asBool df,
           isStatic := ← asBool st, isTentative := ← asBool tent, isTls := ← asBool tls,
           isInline := ← asBool inl, isLive := ← asBool live, isRoot := ← asBool root }
  | _ => .error "dump: bad (obj ...)"

def asRels : List Sexp → Except String (List Reloc)
  | [] => .ok []
  | .list [o, l, a] :: r => do
    pure ({ offset := ← asInt o, label := ← asStr l, addend := ← asInt a } :: (← asRels r))
  | _ => .error "dump: bad relocation"

def mustVar (t : Tables) (s : Sexp) : Except String Var := do
  match ← t.var? s with
  | some v => pure v
  | none => .error "dump: NULL object in a list"

def asObj (t : Tables) (fuel : Nat) : Sexp → Except String Obj
  | .list [.atom "obj", id, _, _, _, _, _, _, _, _, _, _, _, _, init, .list (.atom "rels" :: rels),
           .list (.atom "params" :: ps), .list (.atom "locals" :: ls), va, ab, body] => do
    let some v ← t.var? id | .error "dump: bad object id"
    pure { v, initData := ← asBlob init, rels := ← asRels rels, params := ← ps.mapM (mustVar t),
           locals := ← ls.mapM (mustVar t), vaArea := ← t.var? va, allocaBottom := ← t.var? ab,
           body := ← toNode t fuel body }
  | _ => .error "dump: bad (obj ...)"

def headIs (h : String) : Sexp → Bool
  | .list (.atom a :: _) => a == h
  | _ => false

/-- ids must be 0, 1, 2, … in order of appearance -/
def checkDense (what : String) : List Int → Nat → Except String Unit
  | [], _ => .ok ()
  | id :: r, k => if id == (k : Int) then checkDense what r (k + 1)
                  else .error s!"dump: {what} ids are not dense at {k}"

def asFiles : List Sexp → Except String (List (Int × Option String))
  | [] => .ok []
  | .list [n, s] :: r => do pure ((← asInt n, ← asStr s) :: (← asFiles r))
  | _ => .error "dump: bad (files ...)"

def parseDump (text : String) : Except String Program := do
  let toks := tokenize text.toList [] []
  let fuel := toks.length + 1
  let top ← parseToks toks [] []
  match top with
  | .list [.atom "chibicc-ast", .atom "1"] :: .list [.atom "opts", fpic, fcommon, base]
      :: .list (.atom "files" :: files) :: .list (.atom "prog" :: progIds) :: rest => do
    unless rest.getLast?.map (headIs "end") == some true do
      .error "dump: truncated (no (end))"
    -- pass 1: the type table
    let tys ← (rest.filter (headIs "type")).mapM asType
    checkDense "type" (tys.map (·.1.id)) 0
    let types := (tys.map (·.1)).toArray
    -- pass 2: the static part of every object
    let objSexps := rest.filter (headIs "obj")
    let vars ← objSexps.mapM (asVarHead types)
    checkDense "object" (vars.map (·.id)) 0
    let t : Tables := { types, vars := vars.toArray }
    -- pass 3: the members of the prog list, with bodies
    let objArr := objSexps.toArray
    -- `(unemitted id …)`: data that emit_data() skips (absent in dumps of older trees)
    let unemitted ← (match rest.filter (headIs "unemitted") with
      | [.list (_ :: ids)] => ids.mapM asNat
      | [] => pure []
      | _ => .error "dump: bad (unemitted ...)")
    let prog ← progIds.mapM fun s => do
      let id ← asNat s
      match objArr[id]? with
      | some o => do
        let ob ← asObj t fuel o
        pure { ob with ownerDead := unemitted.contains id }
      | none => .error s!"dump: prog refers to unknown object {id}"
    let vlaLens ← tys.filterMapM fun (ty, s) => do
      match s with
      | .atom "~" => pure none
      | _ => do pure (some (ty.id, ← toNode t fuel s))
    pure { fpic := ← asBool fpic, fcommon := ← asBool fcommon, baseFile := ← asStr base,
           files := ← asFiles files, prog, types := types.toList, vlaLens }
  | _ => .error "dump: bad header"

end ChibiVerif.Ast
