/-
C17 — the key discipline of the clients of hashmap.c.

hashmap.c never copies a key: an entry holds the pointer and the length the caller passed
(`ent->key = key; ent->keylen = keylen`), `match` compares `keylen` and then `memcmp`s
`keylen` bytes, `fnv_hash` reads `keylen` bytes.  The clients pass keys in three ways:

* `hashmap_get2(&sc->vars, tok->loc, tok->len)` — a **span**: the bytes of a token inside
  its source buffer; whatever follows the token in the buffer (`out` in `out_err = 1;`) is
  outside the key;
* `hashmap_put(&scope->vars, get_ident(tok), sc)` — a **copy**: `strndup(tok->loc, tok->len)`
  and then, inside the wrapper, `strlen`;
* `hashmap_put(&map, "return", (void *)1)` — a **C string** that already exists (literal,
  command-line word, `format(...)` result, file name), length by `strlen`.

This file models the three conventions on byte lists with the C functions involved
(`strlen`, `strndup`, `memcmp`, the wrappers) as total functions whose undefined cases
(reading past the end of the object) are explicit errors, the classification of the
regenerated call-site list (`Gen/HashSitesGen.lean`) into these conventions, and client
histories.  Tied to the code by `drv_c17 hashmapx` against tools/harness/hashmap_harness.c
(real `strndup`/`strlen`/`hashmap_*`, ASan) on generated buffers.
-/
import ChibiVerif.Model.HashMap
import ChibiVerif.Gen.HashSitesGen

namespace ChibiVerif.C17Clients
open ChibiVerif.HashMap

abbrev Bytes := List UInt8

/-- reading outside the object a pointer points into (undefined behaviour; ASan aborts) -/
inductive KeyErr where
  | overread
  deriving Repr, DecidableEq

/-! ### The C functions a key passes through

`obj` is always the list of bytes from the pointer to the end of the object it points into. -/

/-- `strlen(p)` -/
def strlenC : Bytes → Except KeyErr Nat
  | [] => .error .overread
  | b :: rest =>
    if b = 0 then .ok 0
    else match strlenC rest with
      | .ok n => .ok (n + 1)
      | .error e => .error e

/-- `strndup(p, n)`: copies until `n` bytes are copied or a NUL is seen, appends a NUL;
    returns the new object -/
def strndupC : Bytes → Nat → Except KeyErr Bytes
  | _, 0 => .ok [0]
  | [], _ + 1 => .error .overread
  | b :: rest, n + 1 =>
    if b = 0 then .ok [0]
    else match strndupC rest n with
      | .ok r => .ok (b :: r)
      | .error e => .error e

/-- the `len` bytes `fnv_hash(key, len)` and `memcmp(ent->key, key, len)` read -/
def spanC (obj : Bytes) (len : Nat) : Except KeyErr Bytes :=
  if len ≤ obj.length then .ok (obj.take len) else .error .overread

/-- `memcmp(a, b, n) == 0` -/
def memcmpEq : Bytes → Bytes → Nat → Bool
  | _, _, 0 => true
  | a :: as, b :: bs, n + 1 => a == b && memcmpEq as bs n
  | _, _, _ + 1 => false

/-- `match(ent, key, keylen)` for a live entry whose key bytes are `stored`:
    `ent->keylen == keylen && memcmp(ent->key, key, keylen) == 0` (source pinned by the translator) -/
def matchC (stored key : Bytes) : Bool :=
  stored.length == key.length && memcmpEq stored key key.length

/-- `match` without the length comparison (what a prefix key would hit) — used in Findings only -/
def matchNoLen (stored key : Bytes) : Bool := memcmpEq stored key key.length

/-! ### Key sources -/

/-- how a client names a key -/
inductive Src where
  | span (obj : Bytes) (len : Nat)   -- `(T->loc, T->len)`, `obj` = the source buffer from `T->loc` on
  | dup (obj : Bytes) (len : Nat)    -- `strndup(T->loc, T->len)` handed to a `strlen` wrapper
  | cstr (obj : Bytes)               -- an existing NUL-terminated object handed to a `strlen` wrapper
  deriving Repr, DecidableEq

/-- the key hashmap.c sees (the bytes it hashes and compares) -/
def Src.key : Src → Except KeyErr Bytes
  | .span obj len => spanC obj len
  | .dup obj len =>
    match strndupC obj len with
    | .error e => .error e
    | .ok s => match strlenC s with
      | .error e => .error e
      | .ok n => spanC s n
  | .cstr obj =>
    match strlenC obj with
    | .error e => .error e
    | .ok n => spanC obj n

/-- the name the client means: the token's spelling, or the string's content -/
def Src.spelling : Src → Bytes
  | .span obj len => obj.take len
  | .dup obj len => obj.take len
  | .cstr obj => obj.takeWhile (· ≠ 0)

/-- the side conditions under which the C code is defined and the key is the spelling:
    a token lies inside its buffer; a copied token contains no NUL; a string is terminated -/
def Src.wf : Src → Bool
  | .span obj len => decide (len ≤ obj.length)
  | .dup obj len => decide (len ≤ obj.length) && !(obj.take len).contains 0
  | .cstr obj => obj.contains 0

/-! ### Client histories -/

inductive COp where
  | put (s : Src) (v : Nat)
  | del (s : Src)
  | get (s : Src)
  deriving Repr, DecidableEq

def COp.src : COp → Src
  | .put s _ => s
  | .del s => s
  | .get s => s

/-- the operation hashmap.c performs -/
def COp.toOp : COp → Except KeyErr (Op Bytes Nat)
  | .put s v => match s.key with | .ok k => .ok (.put k v) | .error e => .error e
  | .del s => match s.key with | .ok k => .ok (.del k) | .error e => .error e
  | .get s => match s.key with | .ok k => .ok (.get k) | .error e => .error e

/-- the operation the client means -/
def COp.spellOp : COp → Op Bytes Nat
  | .put s v => .put s.spelling v
  | .del s => .del s.spelling
  | .get s => .get s.spelling

def toOps : List COp → Except KeyErr (List (Op Bytes Nat))
  | [] => .ok []
  | c :: cs =>
    match c.toOp with
    | .error e => .error e
    | .ok o => match toOps cs with
      | .error e => .error e
      | .ok os => .ok (o :: os)

/-- the hash the compiler uses, on byte keys -/
def fnv (k : Bytes) : Nat := (ChibiVerif.Gen.HashMap.fnvHash k).toNat

/-! ### Audit of the regenerated call-site list -/

open ChibiVerif.Gen.HashSites

/-- what the keys of a table are -/
inductive Domain where
  | ident      -- identifier spellings (macros, scopes, keyword and type-name sets)
  | path       -- file names (include cache, #pragma once, include guards)
  | internal   -- hashmap.c itself (wrappers, rehash, self-test)
  deriving Repr, DecidableEq

/-- the tables of the compiler, by the expression a call site passes as `map` -/
def tableDomain (file table : String) : Option Domain :=
  if file == "tokenize.c" && table == "&map" then some .ident            -- is_keyword
  else if file == "preprocess.c" && table == "&macros" then some .ident
  else if file == "preprocess.c" && (table == "&cache" || table == "&pragma_once" || table == "&include_guards")
    then some .path
  else if file == "parse.c" && (table == "&sc->vars" || table == "&scope->vars" || table == "&sc->tags" ||
      table == "&scope->tags" || table == "&map") then some .ident       -- scopes; is_typename
  else if file == "hashmap.c" && (table == "map" || table == "&map2") then some .internal
  else none

/-- a literal the translator printed is its own byte string iff it is plain ASCII without NUL -/
def litOK (s : String) : Bool := s.toList.all (fun c => decide (c.toNat ≠ 0) && decide (c.toNat < 128))

/-- the audited origins of a `strlen`-convention key, per domain.  Every accepted origin is a
    NUL-terminated object that is not written after its creation:
    * `dupTokSpan`/`dupTokInner`/`dupPrefix`: fresh `strndup` results;
    * literals of the compiler; `format` results; command-line words;
    * `_->refs.data[i]`: names recorded by `strarray_push(&current_fn->refs, var->name)`;
    * `_.data[i]`: `-include` operands; `_->file->name`: the path a file was opened by;
    * `calloc`: the buffer `join_tokens` fills and terminates;
    * `hashmap_get`: a string stored as a *value* of `include_guards`/`cache` by an audited put. -/
def leafOK : Domain → Leaf → Bool
  | _, .other _ => false
  | .ident, .dupTokSpan => true
  | .ident, .dupPrefix => true
  | .ident, .argv _ => true
  | .ident, .lit s => litOK s
  | .ident, .fmt f => f == ".L..%d"
  | .ident, .field p => p == "_->refs.data[i]"
  | .ident, .call fn => fn == "hashmap_get"
  | .ident, .dupTokInner => false
  | .path, .dupTokInner => true
  | .path, .fmt f => f == "%s/%s"
  | .path, .field p => p == "_.data[i]" || p == "_->file->name"
  | .path, .call fn => fn == "calloc" || fn == "hashmap_get"
  | .path, _ => false
  | .internal, .fmt f => f == "key %d"
  | .internal, .lit s => litOK s
  | .internal, _ => false

/-- the key expression follows an audited convention for the table's domain and fits the entry point -/
def keyOK (d : Domain) (api : Api) : KeyExpr → Bool
  | .span _ => d == .ident && (api == .get2 || api == .put2 || api == .delete2)
  | .cstr ls => (api == .get || api == .put || api == .delete) && !ls.isEmpty && ls.all (leafOK d)
  | .strlenOf => d == .internal && (api == .get2 || api == .put2 || api == .delete2)
  | .entry => d == .internal && api == .put2
  | .other2 _ _ => false

/-- stored values are not NULL (a NULL value reads as "absent"): the audited value expressions.
    `m`, `sc`: fresh `calloc` results; `path`: a `format` result; `guard_name`: stored under
    `if (guard_name)`; `ty`: `push_tag_scope` is only called with a type just built;
    `(void *)1`; inside hashmap.c the value is passed through. -/
def valOK (fn val : String) : Bool :=
  (fn == "is_keyword" && val == "(void *)1") || (fn == "is_typename" && val == "(void *)1") ||
  (fn == "preprocess2" && val == "(void *)1") || (fn == "add_macro" && val == "m") ||
  (fn == "search_include_paths" && val == "path") || (fn == "include_file" && val == "guard_name") ||
  (fn == "push_scope" && val == "sc") || (fn == "push_tag_scope" && val == "ty") ||
  (fn == "rehash" && val == "ent->val") || (fn == "hashmap_put" && val == "val") ||
  (fn == "hashmap_test" && val == "(void *)(size_t)i")

/-- one of the possible origins of a `strlen`-convention key is `l` -/
def keyHasLeaf : KeyExpr → Leaf → Bool
  | .cstr ls, l => ls.contains l
  | _, _ => false

def isPut : Api → Bool
  | .put | .put2 => true
  | _ => false

def siteOK (s : Site) : Bool :=
  match tableDomain s.file s.table with
  | none => false
  | some d => keyOK d s.api s.key && (if isPut s.api then valOK s.fn s.val else s.val == "")

/-- only the two growable arrays are ever reallocated, nothing is freed: a key pointer stays valid -/
def releaseOK (r : String × String × String × String) : Bool :=
  r == ("tokenize.c", "tokenize_file", "realloc", "input_files") ||
  r == ("strings.c", "strarray_push", "realloc", "arr->data")

/-- the three in-place rewriters of a source buffer run in `tokenize_file` before `tokenize`
    creates the first token of that buffer, and nowhere else -/
def writerOK (w : String × String × String × String) : Bool :=
  w.1 == "tokenize.c" && w.2.1 == "tokenize_file" && w.2.2.2 == "yes"

end ChibiVerif.C17Clients
