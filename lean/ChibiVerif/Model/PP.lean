/-
Model of the macro expander of preprocess.c (property C09; also used by C10/C18/C19).

Transcribed function by function from /repo/preprocess.c *as it is now* (after the `fix:` commits recorded in
known_findings.json): hide sets, `copy_line`, `read_macro_params`, `read_macro_definition`,
`read_macro_arg_one`, `read_macro_args`, `find_arg`, `join_tokens`, `quote_string`, `stringize`, `paste`,
`has_varargs`, `subst` (all arms in source order), `expand_macro`, the rescanning loop of `preprocess2`
(with `#define`, `#undef`, `#pragma`, `#error` and the null directive; the conditional-inclusion and
`#include` directives belong to C10 and are an explicit `.unsupportedDirective` outcome here), and the
`__COUNTER__`/`__LINE__`/`__FILE__` handlers.

Conventions.
* A C token list is a linked list ended by a `TK_EOF` token; here it is a `List Tok` and "the EOF token" is the end
  of the list (`head? = none`).  `equal(tok, s)` on the EOF token is false, `find_arg` on it finds nothing.
* `Tok.origin` is `some l` when the C token has `origin != NULL`; `l` is the line of the outermost origin
  (what `line_macro` computes by walking the chain).
* Every C site that can abort is an `Err` outcome.  Loops whose C recursion is not structural take fuel; running
  out of fuel is `.error .fuel`, never a truncated result.
* `paste` re-lexes the concatenated spelling.  The lexer is a parameter `lx : String → LexOne` of every function
  that can reach `paste`; `Lex.lexOne` below is a small transcription of `tokenize()` for ASCII input
  (written here because Model/Lex.lean of C19 did not exist when this file was written).
Core Lean only (no Mathlib): this file is linked into the driver executable.
-/
import ChibiVerif.Gen.PPGen

namespace ChibiVerif.PP
open ChibiVerif.Gen.PP

inductive Kind where
  | ident | num | str | punct | other
  deriving DecidableEq, Repr, Inhabited

/-- a preprocessing token with the fields of `struct Token` the macro expander reads or writes -/
structure Tok where
  kind : Kind
  text : String
  hasSpace : Bool := false
  atBol : Bool := false
  hide : List String := []
  line : Nat := 1
  origin : Option Nat := none
  deriving DecidableEq, Repr, Inhabited

inductive Err where
  | fuel                    -- the model ran out of fuel (never produced by the C code)
  | prematureEnd            -- "premature end of input"
  | expected (s : String)   -- skip(): "expected '<s>'"
  | hashNotParam            -- "'#' is not followed by a macro parameter"
  | pasteAtStart            -- "'##' cannot appear at start of macro expansion"
  | pasteAtEnd              -- "'##' cannot appear at end of macro expansion"
  | pasteInvalid            -- "pasting forms '..', an invalid token"
  | lexError                -- tokenize() rejected the pasted text (unclosed comment / literal, invalid character)
  | macroNameNotIdent       -- "macro name must be an identifier"
  | expectedIdent           -- "expected an identifier"
  | errorDirective          -- #error
  | invalidDirective        -- "invalid preprocessor directive"
  | unsupportedDirective    -- a directive outside this model (#include, #if ..., #line): property C10
  deriving DecidableEq, Repr

/-- results of model runs are compared by `decide` in witnesses and examples -/
instance instDecidableEqExcept {ε α : Type} [DecidableEq ε] [DecidableEq α] : DecidableEq (Except ε α) := fun a b =>
  match a, b with
  | .ok x, .ok y => if h : x = y then isTrue (h ▸ rfl) else isFalse (fun e => h (Except.ok.inj e))
  | .error x, .error y => if h : x = y then isTrue (h ▸ rfl) else isFalse (fun e => h (Except.error.inj e))
  | .ok _, .error _ => isFalse (fun e => nomatch e)
  | .error _, .ok _ => isFalse (fun e => nomatch e)

/-! ## A small lexer for the pasted spelling (`tokenize()` restricted to ASCII) -/
namespace Lex

def isIdent1 (c : Char) : Bool := c.isAlpha || c == '_' || c == '$'
def isIdent2 (c : Char) : Bool := isIdent1 c || c.isDigit
/-- C `ispunct` in the "C" locale -/
def isPunctC (c : Char) : Bool :=
  let n := c.toNat
  (33 ≤ n && n ≤ 47) || (58 ≤ n && n ≤ 64) || (91 ≤ n && n ≤ 96) || (123 ≤ n && n ≤ 126)
def isOct (c : Char) : Bool := '0' ≤ c && c ≤ '7'
def isHex (c : Char) : Bool := c.isDigit || ('a' ≤ c && c ≤ 'f') || ('A' ≤ c && c ≤ 'F')
def startsWith (cs : List Char) (p : String) : Bool := p.toList.isPrefixOf cs

/-- the pp-number loop of `tokenize` after the first character: number of characters consumed.
    The C loop looks two characters ahead (`p[0]` in "eEpP" and `p[1]` in "+-" consumes both); here the
    same language is read one character at a time, `prevE` = the character just consumed is one of `eEpP`. -/
def ppNumLenAux (prevE : Bool) : List Char → Nat
  | [] => 0
  | c :: rest =>
    if prevE && (c == '+' || c == '-') then 1 + ppNumLenAux false rest
    else if c.isAlphanum || c == '.' then 1 + ppNumLenAux (c == 'e' || c == 'E' || c == 'p' || c == 'P') rest
    else 0

def ppNumLen (cs : List Char) : Nat := ppNumLenAux false cs

def identLen : List Char → Nat
  | [] => 0
  | c :: rest => if isIdent2 c then 1 + identLen rest else 0

/-- `string_literal_end` on the text after the opening quote: characters up to and including the closing quote -/
def strLitLen : List Char → Option Nat
  | [] => none
  | c :: rest =>
    if c == '"' then some 1
    else if c == '\n' then none
    else if c == '\\' then
      match rest with
      | [] => none
      | _ :: rest' => (strLitLen rest').map (· + 2)
    else (strLitLen rest).map (· + 1)

def countWhile (p : Char → Bool) : List Char → Nat
  | [] => 0
  | c :: rest => if p c then 1 + countWhile p rest else 0

/-- `read_escaped_char` on the text after the backslash: number of characters it consumes -/
def escLen : List Char → Option Nat
  | [] => none
  | c :: rest =>
    if isOct c then some (1 + min 2 (countWhile isOct rest))
    else if c == 'x' then
      (if (rest.head?.map isHex).getD false then some (1 + countWhile isHex rest) else none)
    else some 1

def findQuote : List Char → Option Nat
  | [] => none
  | c :: rest => if c == '\'' then some 1 else (findQuote rest).map (· + 1)

/-- `read_char_literal` on the text after the opening quote: characters up to and including the closing quote
    (the C code takes the first `'` after the first character, `strchr`) -/
def charLitLen : List Char → Option Nat
  | [] => none
  | c :: rest =>
    if c == '\\' then
      match escLen rest with
      | none => none
      | some n => (findQuote (rest.drop n)).map (· + 1 + n)
    else (findQuote rest).map (· + 1)

inductive First where
  | tok (k : Kind) (len : Nat)
  | lineComment
  | blockComment
  | err
  deriving DecidableEq, Repr

/-- the first lexeme of non-empty text that does not start with white space, in the order of the tests of `tokenize` -/
def lexFirst (cs : List Char) : First :=
  if startsWith cs "//" then .lineComment
  else if startsWith cs "/*" then .blockComment
  else match cs with
  | [] => .err
  | c :: rest =>
    let str (skip : Nat) : First :=
      match strLitLen (cs.drop skip) with | some n => .tok .str (skip + n) | none => .err
    let chr (skip : Nat) : First :=
      match charLitLen (cs.drop skip) with | some n => .tok .other (skip + n) | none => .err
    if c.isDigit || (c == '.' && (rest.head?.map Char.isDigit).getD false) then .tok .num (1 + ppNumLen rest)
    else if c == '"' then str 1
    else if startsWith cs "u8\"" then str 3
    else if startsWith cs "u\"" then str 2
    else if startsWith cs "L\"" then str 2
    else if startsWith cs "U\"" then str 2
    else if c == '\'' then chr 1
    else if startsWith cs "u'" then chr 2
    else if startsWith cs "L'" then chr 2
    else if startsWith cs "U'" then chr 2
    else if isIdent1 c then .tok .ident (1 + identLen rest)
    else match punctKw.find? (startsWith cs) with
      | some k => .tok .punct k.length
      | none => if isPunctC c then .tok .punct 1 else .err

end Lex

/-- what `paste` learns from `tokenize(buf)` -/
inductive LexOne where
  | one (k : Kind)     -- exactly one token (the whole text)
  | many               -- more than one token: "pasting forms .. an invalid token"
  | none               -- no token at all (`//` is a comment)
  | error              -- tokenize() itself reports an error
  deriving DecidableEq, Repr

/-- `tokenize(buf)` as far as `paste` looks at it (ASCII; `buf` is the concatenation of two token spellings) -/
def Lex.lexOne (s : String) : LexOne :=
  let cs := s.toList
  match Lex.lexFirst cs with
  | .tok k n => if n == cs.length then .one k else .many
  | .lineComment => .none
  | .blockComment => .error
  | .err => .error

/-! ## Hide sets (`Hideset` is a linked list of names) -/

abbrev Hideset := List String

/-- `hideset_union`: a copy of `hs1` followed by `hs2` -/
def hidesetUnion (hs1 hs2 : Hideset) : Hideset := hs1 ++ hs2
/-- `hideset_contains` -/
def hidesetContains (hs : Hideset) (s : String) : Bool := hs.any (· == s)
/-- `hideset_intersection`: the names of `hs1` that `hs2` contains, in the order of `hs1` -/
def hidesetIntersection (hs1 hs2 : Hideset) : Hideset := hs1.filter (hidesetContains hs2)
/-- `add_hideset`: copies of the tokens with `hs` appended to each hide set -/
def addHideset (ts : List Tok) (hs : Hideset) : List Tok := ts.map fun t => { t with hide := hidesetUnion t.hide hs }

/-! ## Token helpers -/

/-- `equal(tok, s)` where `none` is the EOF token -/
def textIs (t : Option Tok) (s : String) : Bool := match t with | some t => t.text == s | none => false

/-- `t->at_bol = ..; t->has_space = ..` on the first token of a list (on the EOF token when the list is empty: no effect) -/
def setHeadFlags (ts : List Tok) (atBol hasSpace : Bool) : List Tok :=
  match ts with
  | [] => []
  | t :: r => { t with atBol := atBol, hasSpace := hasSpace } :: r

/-- `copy_line`: the tokens up to the next token with `at_bol` (or EOF), and the rest -/
def copyLine (ts : List Tok) : List Tok × List Tok := ts.span (fun t => !t.atBol)

/-- `skip(tok, s)` -/
def skip (ts : List Tok) (s : String) : Except Err (List Tok) :=
  match ts with
  | t :: r => if t.text == s then .ok r else .error (.expected s)
  | [] => .error (.expected s)

/-- `skip_line` (the warning is not modelled) -/
def skipLine (ts : List Tok) : List Tok := ts.dropWhile (fun t => !t.atBol)

/-! ## Macros and the macro table -/

inductive Builtin where
  | file | line | counter | timestamp | baseFile
  deriving DecidableEq, Repr

inductive Macro where
  | obj (body : List Tok)
  | fn (params : List String) (va : Option String) (body : List Tok)
  | builtin (b : Builtin)
  deriving DecidableEq, Repr

/-- the state the expander reads and writes: the macro table (newest binding first; `hashmap_put` overwrites, which
    is the dictionary behaviour proved in C17), the `__COUNTER__` cell and the display name of the file -/
structure St where
  defs : List (String × Macro) := []
  counter : Nat := counterStart
  file : String := "t.c"
  /-- ghost: some function-like expansion so far had a replacement list / argument combination outside
      `NoPlacemarkerChain` (`p ## q ##` with both arguments empty: the placemarker loop of `subst` ran; formerly the region
      of the repaired finding C09-placemarker).  Never read by the expander. -/
  pmHit : Bool := false
  /-- ghost: some function-like expansion stringized an argument outside `StringizeLiteralSafe` (a `\` or `"` outside
      a literal: the only arguments for which the result of `#` may fail to be a valid string literal, 6.10.3.2p2;
      formerly the region of the repaired finding C09-stringize-backslash-outside-literal).  Never read by the expander. -/
  bsHit : Bool := false
  deriving Repr

/-- `find_macro` -/
def findMacro (defs : List (String × Macro)) (t : Tok) : Option Macro :=
  if t.kind == .ident then defs.lookup t.text else none

def addMacro (st : St) (name : String) (m : Macro) : St := { st with defs := (name, m) :: st.defs }
def undefMacro (st : St) (name : String) : St := { st with defs := st.defs.filter (fun d => d.1 != name) }

/-! ## Definitions -/

/-- the three program points of the loop of `read_macro_params` -/
inductive PState where
  | first        -- loop head, no parameter read yet
  | next         -- loop head after a parameter: `)` or `,`
  | afterComma   -- after `skip(tok, ",")`
  deriving DecidableEq

/-- `read_macro_params` from the token after `(`: parameter names, variadic name, the token after `)` -/
def readMacroParams : PState → List Tok → Except Err (List String × Option String × List Tok)
  | .next, [] => .error (.expected ",")
  | _, [] => .error .expectedIdent
  | s, tok :: rest =>
    if s != .afterComma && tok.text == ")" then .ok ([], none, rest)
    else if s == .next then
      (if tok.text == "," then readMacroParams .afterComma rest else .error (.expected ","))
    else if tok.text == "..." then
      (skip rest ")").map fun r => ([], some vaArgsName, r)
    else if tok.kind != .ident then .error .expectedIdent
    else if textIs rest.head? "..." then
      (skip (rest.drop 1) ")").map fun r => ([], some tok.text, r)
    else
      (readMacroParams .next rest).map fun (ps, va, r) => (tok.text :: ps, va, r)

/-- `read_macro_definition` from the token after `define`: the new table and the first token of the next line -/
def readMacroDefinition (st : St) (ts : List Tok) : Except Err (St × List Tok) :=
  match ts with
  | [] => .error .macroNameNotIdent
  | name :: r =>
    if name.kind != .ident then .error .macroNameNotIdent
    else
      match r with
      | lp :: r2 =>
        if !lp.hasSpace && !lp.atBol && lp.text == "(" then
          match readMacroParams .first r2 with
          | .error e => .error e
          | .ok (params, va, r3) =>
            let (body, rest) := copyLine r3
            .ok (addMacro st name.text (.fn params va body), rest)
        else
          let (body, rest) := copyLine r
          .ok (addMacro st name.text (.obj body), rest)
      | [] => .ok (addMacro st name.text (.obj []), [])

/-! ## Arguments -/

structure MacroArg where
  name : String
  isVa : Bool := false
  toks : List Tok
  /-- `arg->expanded`: the completely macro-replaced argument, computed at its first use -/
  expanded : Option (List Tok) := none
  deriving DecidableEq, Repr

/-- `read_macro_arg_one`: the argument's tokens and the list starting at the terminating `)` or `,` -/
def readMacroArgOne (readRest : Bool) : Nat → List Tok → Except Err (List Tok × List Tok)
  | _, [] => .error .prematureEnd
  | level, tok :: rest =>
    if level == 0 && tok.text == ")" then .ok ([], tok :: rest)
    else if level == 0 && !readRest && tok.text == "," then .ok ([], tok :: rest)
    else
      let level' := if tok.text == "(" then level + 1 else if tok.text == ")" then level - 1 else level
      (readMacroArgOne readRest level' rest).map fun (a, r) => (tok :: a, r)

/-- the `for (; pp; pp = pp->next)` loop of `read_macro_args` -/
def readNamedArgs : List String → Bool → List Tok → Except Err (List MacroArg × List Tok)
  | [], _, ts => .ok ([], ts)
  | p :: ps, first, ts =>
    match (if first then .ok ts else skip ts ",") with
    | .error e => .error e
    | .ok ts1 =>
      match readMacroArgOne false 0 ts1 with
      | .error e => .error e
      | .ok (a, r) =>
        (readNamedArgs ps false r).map fun (as, r') => ({ name := p, toks := a } :: as, r')

/-- `read_macro_args` from the token after `(`: the arguments, the `)` token, and the tokens after it -/
def readMacroArgs (params : List String) (va : Option String) (ts : List Tok) :
    Except Err (List MacroArg × Tok × List Tok) :=
  match readNamedArgs params true ts with
  | .error e => .error e
  | .ok (args, r) =>
    let fin (args : List MacroArg) (r : List Tok) : Except Err (List MacroArg × Tok × List Tok) :=
      match r with
      | t :: r' => if t.text == ")" then .ok (args, t, r') else .error (.expected ")")
      | [] => .error (.expected ")")
    match va with
    | none => fin args r
    | some vn =>
      if textIs r.head? ")" then fin (args ++ [{ name := vn, isVa := true, toks := [] }]) r
      else
        match (if params.isEmpty then .ok r else skip r ",") with
        | .error e => .error e
        | .ok r1 =>
          match readMacroArgOne true 0 r1 with
          | .error e => .error e
          | .ok (a, r2) => fin (args ++ [{ name := vn, isVa := true, toks := a }]) r2

/-- `find_arg` (on the EOF token: nothing) -/
def findArg (args : List MacroArg) (t : Option Tok) : Option MacroArg :=
  match t with
  | none => none
  | some t => args.find? (fun a => a.name == t.text)

/-- store `arg->expanded` in the argument `find_arg` returns for `name` -/
def setExpanded : List MacroArg → String → List Tok → List MacroArg
  | [], _, _ => []
  | a :: as, name, e => if a.name == name then { a with expanded := some e } :: as else a :: setExpanded as name e

/-- `has_varargs` -/
def hasVarargs (args : List MacroArg) : Bool :=
  match args.find? (fun a => a.name == hasVarargsName) with
  | some a => !a.toks.isEmpty
  | none => false

/-- the argument bound to the parameter this token names is empty -/
def emptyParam (args : List MacroArg) (t : Tok) : Bool :=
  match findArg args (some t) with
  | some a => a.toks.isEmpty
  | none => false

/-- four consecutive tokens `p ## q ##` of a replacement list with `p` and `q` parameters whose arguments are both
    empty: C11 6.10.3.3 needs a placemarker here (placemarker ## placemarker = placemarker, which is then the left
    operand of the next `##`).  Before `fix:` 5a15c0f `subst` had nothing for it; now `skipEmptyOperands` below is the
    loop that walks over such a run -/
def hasPlacemarkerChain (args : List MacroArg) : List Tok → Bool
  | [] => false
  | p :: tl =>
    (match tl with
     | h1 :: q :: h2 :: _ => emptyParam args p && h1.text == "##" && emptyParam args q && h2.text == "##"
     | _ => false) || hasPlacemarkerChain args tl

/-- no chain of `##` over two empty arguments in a row (decidable: a Boolean function of body and arguments).
    Was: the region outside known finding C09-placemarker; since `fix:` 5a15c0f no theorem needs it (kept for the ghost flag
    `St.pmHit`, with which the check counts how many compared cases exercise the placemarker loop, and for the repaired
    witnesses in Findings/C09.lean) -/
def NoPlacemarkerChain (body : List Tok) (args : List MacroArg) : Prop := hasPlacemarkerChain args body = false

instance (body : List Tok) (args : List MacroArg) : Decidable (NoPlacemarkerChain body args) := by
  unfold NoPlacemarkerChain; infer_instance

/-- the token is a string literal or a character constant, or it contains neither `\` nor `"`: stringizing such tokens
    always gives a valid string literal (before `fix:` 6fecbd6: exactly the tokens on which `quote_string`'s escaping of
    every `\` and `"` was what C11 6.10.3.2p2 asks for) -/
def strSafeTok (t : Tok) : Bool :=
  t.kind == .str || t.kind == .other || !(t.text.toList.any fun c => c == '\\' || c == '"')

/-- some `# p` of the replacement list stringizes an argument with a `\` (or `"`) outside literals -/
def hasUnsafeStringize (args : List MacroArg) : List Tok → Bool
  | [] => false
  | h :: tl =>
    (match tl with
     | p :: _ => h.text == "#" && (match findArg args (some p) with | some a => !(a.toks.all strSafeTok) | none => false)
     | _ => false) || hasUnsafeStringize args tl

/-- every stringized argument is literal-safe (was: the region outside the repaired finding
    C09-stringize-backslash-outside-literal; now: where `#` cannot produce an invalid string literal) -/
def StringizeLiteralSafe (body : List Tok) (args : List MacroArg) : Prop := hasUnsafeStringize args body = false

instance (body : List Tok) (args : List MacroArg) : Decidable (StringizeLiteralSafe body args) := by
  unfold StringizeLiteralSafe; infer_instance

/-! ## `#` and `##` -/

/-- `join_tokens(tok, NULL)` -/
def joinTokens : List Tok → String
  | [] => ""
  | t :: ts => ts.foldl (fun acc u => acc ++ (if u.hasSpace || u.atBol then " " else "") ++ u.text) t.text

/-- `quote_string` -/
def quoteString (s : String) : String :=
  String.ofList ('"' :: (s.toList.flatMap fun c => if c == '\\' || c == '"' then ['\\', c] else [c]) ++ ['"'])

/-- the inner loop `for (int i = 0; i < t->len; i++)` of `stringize`: the spelling of one token is copied character by
    character; `lit` is `t->kind == TK_STR || t->kind == TK_NUM` (a string literal or — the only `TK_NUM` tokens there are
    while the preprocessor runs — a character constant), and only then a `\` is put in front of every `\` and `"` -/
def strzCopy (lit : Bool) : List Char → List Char
  | [] => []
  | c :: r => if lit && (c == '\\' || c == '"') then '\\' :: c :: strzCopy lit r else c :: strzCopy lit r

/-- the outer loop `for (Token *t = arg; t->kind != TK_EOF; t = t->next)` of `stringize`; `first` is `t == arg`:
    one space before every token but the first that has `has_space` or `at_bol`, then the copy of its spelling -/
def strzLoop : Bool → List Tok → List Char
  | _, [] => []
  | first, t :: ts =>
    (if !first && (t.hasSpace || t.atBol) then [' '] else []) ++
      (strzCopy (t.kind == .str || t.kind == .other) t.text.toList ++ strzLoop false ts)

/-- `stringize(hash, arg)` (after `fix:` 6fecbd6: the literal is built by `stringize` itself, no longer by
    `quote_string(join_tokens(arg))`) followed by the two flag assignments of the `#` arm of `subst`.
    The C function hands the buffer `"`…`"` to `tokenize()` and returns the first token; the model returns the buffer as
    one string token.  The two agree whenever the buffer is exactly one string literal, which can fail only if a token
    of the argument has a `\` or `"` outside a string literal / character constant (`Props.C09.C09_stringize_wellformed`);
    C11 6.10.3.2p2 leaves the behaviour undefined then, and the check does not compare those runs. -/
def stringize (hash : Tok) (arg : List Tok) : Tok :=
  { kind := .str, text := String.ofList ('"' :: (strzLoop true arg ++ ['"'])), hasSpace := hash.hasSpace, atBol := hash.atBol,
    line := hash.line }

/-- `paste(lhs, rhs)` -/
def paste (lx : String → LexOne) (lhs rhs : Tok) : Except Err Tok :=
  let buf := lhs.text ++ rhs.text
  match lx buf with
  | .one k => .ok { kind := k, text := buf, hasSpace := lhs.hasSpace, atBol := lhs.atBol, line := lhs.line }
  | .many => .error .pasteInvalid
  | .none => .error .pasteInvalid      -- `tok->kind == TK_EOF`: the pasted text is a comment (`/` ## `/`)
  | .error => .error .lexError

/-! ## `subst` -/

/-- the loop `while (arg2 && arg2->tok->kind == TK_EOF && equal(rhs->next, "##") && rhs->next->next->kind != TK_EOF)
    { rhs = rhs->next->next; arg2 = find_arg(args, rhs); }` of the arm "parameter with an empty argument followed by `##`"
    of `subst` (`fix:` 5a15c0f): from the right operand `rhs` of that `##` and the tokens after it, skip `q ##` while `q` is a
    parameter whose argument is empty and a further operand exists; the result is the operand the loop stops at and the
    tokens after it (`tok = rhs->next`) -/
def skipEmptyOperands (args : List MacroArg) : Tok → List Tok → Tok × List Tok
  | rhs, h :: q :: rest =>
    if emptyParam args rhs && h.text == "##" then skipEmptyOperands args q rest else (rhs, h :: q :: rest)
  | rhs, rest => (rhs, rest)

/-- the pre-expander handed to `subst` (it is `preprocess2` with the remaining fuel) -/
abbrev PreExpand := St → List Tok → Except Err (List Tok × St)

/-- `subst(tok, args, is_objlike)`.  `acc` is the output so far, newest first (`cur` is its head, `cur == &head`
    is `acc = []`).  The arms are in source order.  Fuel: one unit per loop iteration; `body.length + 1` suffices
    (the nested call for `__VA_OPT__` works on a strict sub-list). -/
def substLoop (lx : String → LexOne) (pp : PreExpand) (isObj : Bool) :
    Nat → St → List MacroArg → List Tok → List Tok → Except Err (List Tok × List MacroArg × St)
  | _, st, args, [], acc => .ok (acc.reverse, args, st)
  | 0, _, _, _ :: _, _ => .error .fuel
  | n + 1, st, args, tok :: rest, acc =>
    -- "#" followed by a parameter
    if tok.text == "#" && !isObj then
      match findArg args rest.head? with
      | none => .error .hashNotParam
      | some a => substLoop lx pp isObj n st args (rest.drop 1) (stringize tok a.toks :: acc)
    else
    -- [GNU] `, ## __VA_ARGS__`
    match (if tok.text == "," && textIs rest.head? "##" then (findArg args (rest.drop 1).head?).filter (·.isVa) else none) with
    | some a =>
      if a.toks.isEmpty then substLoop lx pp isObj n st args (rest.drop 2) acc
      else substLoop lx pp isObj n st args (rest.drop 1) (tok :: acc)
    | none =>
    -- "##"
    if tok.text == "##" then
      match acc with
      | [] => .error .pasteAtStart
      | cur :: acc' =>
        match rest with
        | [] => .error .pasteAtEnd
        | nxt :: rest' =>
          match findArg args (some nxt) with
          | some a =>
            match a.toks with
            | [] => substLoop lx pp isObj n st args rest' acc
            | t0 :: ts =>
              match paste lx cur t0 with
              | .error e => .error e
              | .ok p => substLoop lx pp isObj n st args rest' (ts.reverse ++ p :: acc')
          | none =>
            match paste lx cur nxt with
            | .error e => .error e
            | .ok p => substLoop lx pp isObj n st args rest' (p :: acc')
    else
    match findArg args (some tok) with
    | some a =>
      -- a parameter followed by "##": its argument is copied without macro replacement
      if textIs rest.head? "##" then
        match rest.drop 1 with
        | [] => .error .pasteAtEnd
        | rhs :: rest3 =>
          match a.toks with
          | [] =>
            -- an empty argument stands for a placemarker: the `while` loop of `fix:` 5a15c0f moves `rhs` over every
            -- `q ##` whose `q` is an empty argument too (placemarker ## placemarker = placemarker, C11 6.10.3.3p3)
            match findArg args (some (skipEmptyOperands args rhs rest3).1) with
            | some a2 => substLoop lx pp isObj n st args (skipEmptyOperands args rhs rest3).2 (a2.toks.reverse ++ acc)
            | none =>
              substLoop lx pp isObj n st args (skipEmptyOperands args rhs rest3).2 ((skipEmptyOperands args rhs rest3).1 :: acc)
          | _ :: _ =>
            substLoop lx pp isObj n st args rest ((setHeadFlags a.toks tok.atBol tok.hasSpace).reverse ++ acc)
      else
        -- a parameter: the completely macro-replaced argument (a copy is expanded, once)
        match a.expanded with
        | some e => substLoop lx pp isObj n st args rest ((setHeadFlags e tok.atBol tok.hasSpace).reverse ++ acc)
        | none =>
          match pp st (addHideset a.toks []) with
          | .error e => .error e
          | .ok (e, st') =>
            substLoop lx pp isObj n st' (setExpanded args a.name e) rest
              ((setHeadFlags e tok.atBol tok.hasSpace).reverse ++ acc)
    | none =>
      -- __VA_OPT__(x)
      if tok.text == "__VA_OPT__" && textIs rest.head? "(" then
        match readMacroArgOne true 0 (rest.drop 1) with
        | .error e => .error e
        | .ok (content, r) =>
          if hasVarargs args then
            match substLoop lx pp false n st args content [] with
            | .error e => .error e
            | .ok (out, args', st') => substLoop lx pp isObj n st' args' (r.drop 1) (out.reverse ++ acc)
          else substLoop lx pp isObj n st args (r.drop 1) acc
      else
        -- any other token
        substLoop lx pp isObj n st args rest (tok :: acc)

def subst (lx : String → LexOne) (pp : PreExpand) (st : St) (body : List Tok) (args : List MacroArg) (isObj : Bool) :
    Except Err (List Tok × St) :=
  (substLoop lx pp isObj (body.length + 1) st args body []).map fun (out, _, st') => (out, st')

/-! ## `expand_macro` -/

/-- `new_num_token(val, tmpl)` as the handlers leave it: a fresh token, first of its own "file", on `tmpl`'s line -/
def newNumToken (val : Nat) (line : Nat := 1) : Tok := { kind := .num, text := toString val, atBol := true, line := line }
/-- `new_str_token(str, tmpl)` -/
def newStrToken (s : String) (line : Nat := 1) : Tok := { kind := .str, text := quoteString s, atBol := true, line := line }

/-- the line `line_macro` reports for a token: that of its outermost origin -/
def originLine (t : Tok) : Nat := t.origin.getD t.line

/-- the built-in handlers (`__TIMESTAMP__` depends on the file system: its text is not modelled) -/
def runBuiltin (st : St) (b : Builtin) (tok : Tok) : Tok × St :=
  match b with
  | .counter => (newNumToken st.counter tok.line, { st with counter := st.counter + 1 })
  | .line => (newNumToken (originLine tok) (originLine tok), st)
  | .file => (newStrToken st.file (originLine tok), st)
  | .baseFile => (newStrToken st.file tok.line, st)
  | .timestamp => (newStrToken "??? ??? ?? ??:??:?? ????" tok.line, st)

/-- `t->origin = tok` for every token of an expansion -/
def setOrigin (ts : List Tok) (tok : Tok) : List Tok := ts.map fun t => { t with origin := some (originLine tok) }

/-- `append(body, tok->next)` followed by the guarded flag assignment -/
def spliceBody (body rest : List Tok) (tok : Tok) : List Tok :=
  if body.isEmpty then rest else setHeadFlags (body ++ rest) tok.atBol tok.hasSpace

/-- `expand_macro(&rest, tok)`: `none` when it returns false, otherwise the new input list -/
def expandMacro (lx : String → LexOne) (pp : PreExpand) (st : St) (tok : Tok) (rest : List Tok) :
    Except Err (Option (List Tok × St)) :=
  if hidesetContains tok.hide tok.text then .ok none
  else match findMacro st.defs tok with
  | none => .ok none
  | some (.builtin b) =>
    let (t, st') := runBuiltin st b tok
    .ok (some (t :: rest, st'))
  | some (.obj mbody) =>
    let hs := hidesetUnion tok.hide [tok.text]
    match subst lx pp st mbody [] true with
    | .error e => .error e
    | .ok (body, st') => .ok (some (spliceBody (setOrigin (addHideset body hs) tok) rest tok, st'))
  | some (.fn params va mbody) =>
    if !textIs rest.head? "(" then .ok none
    else match readMacroArgs params va (rest.drop 1) with
    | .error e => .error e
    | .ok (args, rparen, rest') =>
      let hs := hidesetUnion (hidesetIntersection tok.hide rparen.hide) [tok.text]
      let st := { st with pmHit := st.pmHit || hasPlacemarkerChain args mbody,
                          bsHit := st.bsHit || hasUnsafeStringize args mbody }        -- ghost
      match subst lx pp st mbody args false with
      | .error e => .error e
      | .ok (body, st') => .ok (some (spliceBody (setOrigin (addHideset body hs) tok) rest' tok, st'))

/-! ## `preprocess2` -/

/-- `is_hash` -/
def isHash (t : Tok) : Bool := t.atBol && t.origin.isNone && t.text == "#"

def unsupportedDirectives : List String :=
  ["include", "include_next", "if", "ifdef", "ifndef", "elif", "else", "endif", "line"]

/-- the directive part of the loop of `preprocess2`, from the token after `#`: new table and where to go on -/
def directive (st : St) (ts : List Tok) : Except Err (St × List Tok) :=
  match ts with
  | [] => .ok (st, [])                 -- `#` then end of file: the EOF token of a file has at_bol
  | d :: r =>
    if d.atBol then .ok (st, ts)       -- null directive
    else if d.text == "define" then readMacroDefinition st r
    else if d.text == "undef" then
      match r with
      | [] => .error .macroNameNotIdent
      | name :: r' => if name.kind != .ident then .error .macroNameNotIdent else .ok (undefMacro st name.text, skipLine r')
    else if unsupportedDirectives.contains d.text || d.kind == .num then .error .unsupportedDirective
    else if d.text == "pragma" && textIs r.head? "once" then .error .unsupportedDirective
    else if d.text == "pragma" then .ok (st, skipLine r)      -- do tok = tok->next; while (!tok->at_bol)
    else if d.text == "error" then .error .errorDirective
    else .error .invalidDirective

/-- `preprocess2`.  One unit of fuel per iteration of its loop; the pre-expansion of an argument runs with the
    fuel that is left. -/
def preprocess2 (lx : String → LexOne) : Nat → St → List Tok → Except Err (List Tok × St)
  | _, st, [] => .ok ([], st)
  | 0, _, _ :: _ => .error .fuel
  | n + 1, st, tok :: rest =>
    match expandMacro lx (fun st ts => preprocess2 lx n st ts) st tok rest with
    | .error e => .error e
    | .ok (some (ts', st')) => preprocess2 lx n st' ts'
    | .ok none =>
      if !isHash tok then
        (preprocess2 lx n st rest).map fun (out, st') => (tok :: out, st')
      else
        match directive st rest with
        | .error e => .error e
        | .ok (st', rest') => preprocess2 lx n st' rest'

/-! ## The initial table (`init_macros`) -/

/-- `tokenize(buf)` for the replacement texts of the predefined macros: white-space separated ASCII lexemes -/
def lexAllAux : Nat → List Char → Bool → Bool → List Tok
  | 0, _, _, _ => []
  | _, [], _, _ => []
  | fuel + 1, c :: rest, bol, sp =>
    if c == ' ' || c == '\t' then lexAllAux fuel rest bol true
    else if c == '\n' then lexAllAux fuel rest true false
    else match Lex.lexFirst (c :: rest) with
      | .tok k n =>
        { kind := k, text := String.ofList ((c :: rest).take n), hasSpace := sp, atBol := bol }
          :: lexAllAux fuel ((c :: rest).drop n) false false
      | _ => []

def lexAll (s : String) : List Tok := lexAllAux (s.length + 1) s.toList true false

def builtinOf (handler : String) : Builtin :=
  if handler == "file_macro" then .file
  else if handler == "line_macro" then .line
  else if handler == "counter_macro" then .counter
  else if handler == "base_file_macro" then .baseFile
  else .timestamp

/-- the table after `init_macros` (later entries of the C function shadow earlier ones, as `hashmap_put` does) -/
def initDefs : List (String × Macro) :=
  (builtins.map fun (n, h) => (n, Macro.builtin (builtinOf h))).reverse ++
  (predefined.map fun (n, v) => (n, Macro.obj (lexAll v))).reverse

def initSt (file : String := "t.c") : St := { defs := initDefs, file := file }

/-- the whole preprocessor on a token list, from the table of `init_macros` -/
def preprocess (fuel : Nat) (ts : List Tok) (file : String := "t.c") : Except Err (List Tok) :=
  (preprocess2 Lex.lexOne fuel (initSt file) ts).map (·.1)

/-- ... together with the ghost flags `pmHit` and `bsHit` -/
def preprocessX (fuel : Nat) (ts : List Tok) (file : String := "t.c") : Except Err (List Tok × Bool × Bool) :=
  (preprocess2 Lex.lexOne fuel (initSt file) ts).map fun (out, st) => (out, st.pmHit, st.bsHit)

/-- the same from an empty table (what most theorems and witnesses use) -/
def expand (fuel : Nat) (defs : List (String × Macro)) (ts : List Tok) : Except Err (List Tok) :=
  (preprocess2 Lex.lexOne fuel { defs := defs } ts).map (·.1)

end ChibiVerif.PP
