/-
C13's own scanner model: what happens to an ARBITRARY byte string between `read_file` and the end of
`tokenize()` (tokenize.c), with line numbers, written so that every way of leaving the text is an outcome.

Alphabet: bytes as `Nat` (0..255).  The C code works on the NUL-terminated buffer; here a text is the
list of bytes BEFORE the terminating NUL, positions are offsets into that list, reading offset
`length` is reading the terminator, and any read beyond it is the outcome `overread` (never a
silent `getD`).  Sibling models (Model/Lex: code points, no NUL, no lines; Model/Literals: `byteAt`
reads zeros after the terminator) assume what is a theorem here.

Outcomes of `lexFile bytes` (= tokenize_file up to the return of tokenize):
  ok n            n tokens (without TK_EOF)
  diag line msg   `error_at(loc, msg)`; `line` is what error_at computes: 1 + number of '\n' before loc
  overread why    the code steps over the terminating NUL:
                    universalBackslash  convert_universal_chars: `\` directly before the NUL is copied as a pair
                  (the three sites of the scanner proper — `//` without a newline, `"\` and `'\` directly before the NUL —
                  were repaired in /repo, fix ee6fc96; the model follows the repaired code and Findings/C13.lean keeps
                  the witnesses)
  fuel            loop bound of the model exhausted (theorem: never)

The passes: read_file appends '\n' when the last byte is not '\n'; the C string ends at the first NUL
byte of the file; BOM; canonicalize_newline; remove_backslash_newline; convert_universal_chars.
Tables come from the translated Gen files (punctuators, identifier ranges, UTF-8 codec); <ctype.h> from LexChar.
Not modelled: token kinds/values (C19, C11), has_space/at_bol, add_line_numbers.
-/
import ChibiVerif.Gen.LexGen
import ChibiVerif.Gen.LiteralsGen

namespace ChibiVerif.LexTotal
open ChibiVerif.LexChar

inductive Msg
  | unclosedString | unclosedChar | unclosedComment | invalidToken | invalidHexEscape | invalidUtf8
  deriving DecidableEq, Repr

inductive Why
  | universalBackslash
  deriving DecidableEq, Repr

inductive Outcome
  | ok (ntok : Nat)
  | diag (line : Nat) (m : Msg)
  | overread (w : Why)
  | fuel
  deriving DecidableEq, Repr

def LF : Nat := 10
def CR : Nat := 13
def BSL : Nat := 92

/-- number of '\n' -/
def countLF : List Nat → Nat
  | [] => 0
  | c :: t => (if c = 10 then 1 else 0) + countLF t

-- ------------------------------------------------------------------ read_file .. convert_universal_chars

/-- `read_file`: `if (buflen == 0 || buf[buflen - 1] != '\n') fputc('\n', out);` -/
def readFile (b : List Nat) : List Nat := if b.getLast? = some 10 then b else b ++ [10]

/-- the C string: everything before the first NUL byte -/
def cstr : List Nat → List Nat
  | [] => []
  | c :: t => if c = 0 then [] else c :: cstr t

/-- `if (!memcmp(p, "\xef\xbb\xbf", 3)) p += 3;` -/
def skipBOM : List Nat → List Nat
  | a :: b :: c :: rest => if a = 0xEF ∧ b = 0xBB ∧ c = 0xBF then rest else a :: b :: c :: rest
  | l => l

/-- `canonicalize_newline` -/
def canonNL : List Nat → List Nat
  | [] => []
  | [a] => if a = 13 then [10] else [a]
  | a :: b :: rest =>
    if a = 13 then
      if b = 10 then 10 :: canonNL rest else 10 :: canonNL (b :: rest)
    else a :: canonNL (b :: rest)

/-- `remove_backslash_newline`; `n` = removed newlines not yet re-emitted -/
def rmBsNlAux : List Nat → Nat → List Nat
  | [], n => List.replicate n 10
  | [a], n => a :: List.replicate n 10
  | a :: b :: rest, n =>
    if a = 92 ∧ b = 10 then rmBsNlAux rest (n + 1)
    else if a = 10 then a :: (List.replicate n 10 ++ rmBsNlAux (b :: rest) 0)
    else a :: rmBsNlAux (b :: rest) n

def rmBsNl (p : List Nat) : List Nat := rmBsNlAux p 0

def isXDigitN (c : Nat) : Bool := isXDigit c

/-- tokenize.c `from_hex` on a hexadecimal digit -/
def fromHexN (c : Nat) : Nat :=
  if 48 ≤ c ∧ c ≤ 57 then c - 48 else if 97 ≤ c ∧ c ≤ 102 then c - 97 + 10 else c - 65 + 10

/-- `read_universal_char(p, len)`: 0 when one of the `len` bytes is not a hexadecimal digit (the NUL is not one) -/
def readUC : List Nat → Nat → Nat → Nat
  | _, 0, c => c
  | [], _ + 1, _ => 0
  | b :: rest, len + 1, c => if isXDigitN b then readUC rest len ((c * 16 + fromHexN b) % 4294967296) else 0

def encodeU (c : Nat) : List Nat := (ChibiVerif.Gen.Literals.encodeUtf8 (BitVec.ofNat 32 c)).map BitVec.toNat

/-- `convert_universal_chars`; fuel = one unit per loop iteration -/
def convUCAux : Nat → List Nat → Except Why (List Nat)
  | 0, p => .ok p
  | _ + 1, [] => .ok []
  | fuel + 1, a :: rest =>
    if a = 92 then
      match rest with
      | [] => .error .universalBackslash          -- `*q++ = *p++; *q++ = *p++;` copies the NUL and goes on behind it
      | b :: rest' =>
        if b = 117 ∧ readUC rest' 4 0 ≠ 0 ∧ readUC rest' 4 0 ≠ 10 then
          (convUCAux fuel (rest'.drop 4)).map (encodeU (readUC rest' 4 0) ++ ·)
        else if b = 85 ∧ readUC rest' 8 0 ≠ 0 ∧ readUC rest' 8 0 ≠ 10 then
          (convUCAux fuel (rest'.drop 8)).map (encodeU (readUC rest' 8 0) ++ ·)
        else if b = 117 ∨ b = 85 then
          (convUCAux fuel rest).map (a :: ·)       -- `*q++ = *p++;` only the backslash (value 0 or '\n': not converted)
        else (convUCAux fuel rest').map (fun r => a :: b :: r)
    else (convUCAux fuel rest).map (a :: ·)

def convUC (p : List Nat) : Except Why (List Nat) := convUCAux (p.length + 1) p

/-- the text `tokenize()` is handed for the bytes of a file -/
def phases (bytes : List Nat) : Except Why (List Nat) :=
  convUC (rmBsNl (canonNL (skipBOM (cstr (readFile bytes)))))

-- ------------------------------------------------------------------ the scanner

/-- result of one iteration of `while (*p)` relative to the current position -/
inductive Step
  | skip (len : Nat)
  | tok (len : Nat)
  | err (off : Nat) (m : Msg)
  deriving DecidableEq, Repr

/-- offset of the first '\n' -/
def idxLF : List Nat → Option Nat
  | [] => none
  | c :: t => if c = 10 then some 0 else (idxLF t).map (· + 1)

/-- `strstr(p, "*/")`: number of characters up to and including the `*/` -/
def findClose : List Nat → Option Nat
  | [] => none
  | c :: t => if c = 42 ∧ t.head? = some 47 then some 2 else (findClose t).map (· + 1)

def headIs (p : Nat → Bool) : List Nat → Bool
  | [] => false
  | c :: _ => p c

/-- pp-number loop after the first character: number of characters taken -/
def ppLen : List Nat → Nat
  | [] => 0
  | c :: t =>
    if ChibiVerif.Gen.Lex.ppExpChars.contains c && headIs (fun d => ChibiVerif.Gen.Lex.ppSignChars.contains d) t then
      match t with
      | _ :: t' => 2 + ppLen t'
      | [] => 0
    else if isAlnum c || c == 46 then 1 + ppLen t
    else 0

inductive StrEnd
  | found (k : Nat)      -- offset of the closing quote
  | unclosed
  deriving DecidableEq, Repr

def StrEnd.shift (n : Nat) : StrEnd → StrEnd
  | .found k => .found (k + n)
  | r => r

/-- `string_literal_end` from the character after the opening quote -/
def strEnd : List Nat → StrEnd
  | [] => .unclosed
  | c :: t =>
    if c = 34 then .found 0
    else if c = 10 then .unclosed
    else if c = 92 then
      match t with
      | [] => .unclosed                           -- `if (*p == '\\' && p[1]) p++;` then the loop reaches the NUL
      | _ :: t' => (strEnd t').shift 2
    else (strEnd t).shift 1

def decode (s : List Nat) : Except Unit (Nat × Nat) :=
  match ChibiVerif.Gen.Literals.decodeUtf8 ((s.take 4).map (BitVec.ofNat 8)) with
  | .ok (c, n) => .ok (c.toNat, n)
  | .error _ => .error ()

/-- the reading loops of read_string_literal (`wide = false`) and read_utf16/32_string_literal (`wide = true`) over the
    body: first error in reading order as (offset, message).  After a backslash exactly one more byte is skipped here;
    the digits an octal / hexadecimal escape consumes are ASCII digits, which are neither backslashes nor decode errors. -/
def bodyCheck (wide : Bool) : Nat → List Nat → Nat → Option (Nat × Msg)
  | 0, _, _ => none
  | _ + 1, [], _ => none
  | fuel + 1, c :: t, off =>
    if c = 92 then
      match t with
      | [] => none
      | d :: t' =>
        if d = 120 ∧ !(headIs isXDigitN t') then some (off + 2, .invalidHexEscape)
        else bodyCheck wide fuel t' (off + 2)
    else if wide then
      match decode (c :: t) with
      | .error _ => some (off, .invalidUtf8)
      | .ok (_, n) => bodyCheck wide fuel ((c :: t).drop n) (off + n)
    else bodyCheck wide fuel t (off + 1)

/-- a string literal whose opening quote is at offset `q` of `s` -/
def strTok (wide : Bool) (s : List Nat) (q : Nat) : Step :=
  match strEnd (s.drop (q + 1)) with
  | .unclosed => .err (q + 1) .unclosedString
  | .found k =>
    match bodyCheck wide (k + 1) ((s.drop (q + 1)).take k) (q + 1) with
    | some (off, m) => .err off m
    | none => .tok (q + 1 + k + 1)

/-- offset of the first `'` -/
def idxQuote : List Nat → Option Nat
  | [] => none
  | c :: t => if c = 39 then some 0 else (idxQuote t).map (· + 1)

def isOct (c : Nat) : Bool := decide (48 ≤ c) && decide (c ≤ 55)

/-- number of leading hexadecimal digits -/
def xrun : List Nat → Nat
  | [] => 0
  | c :: t => if isXDigitN c then 1 + xrun t else 0

inductive ChrFirst
  | at (j : Nat)                    -- offset (in the token) of the position after the first character
  | err (off : Nat) (m : Msg)
  deriving DecidableEq, Repr

/-- the first (possibly escaped) character of a character constant; `p` = text after the opening quote at offset `q` -/
def chrFirst (q : Nat) : List Nat → ChrFirst
  | [] => .err 0 .unclosedChar                      -- `if (*p == '\0') error_at(start, …)`
  | c :: t =>
    if c = 92 then
      match t with
      | [] => .err 0 .unclosedChar                  -- `if (*p == '\\' && p[1] == '\0') error_at(start, …)`
      | d :: t' =>
        if isOct d then
          .at (q + 3 + (if headIs isOct t' then (if headIs isOct (t'.drop 1) then 2 else 1) else 0))
        else if d = 120 then
          if headIs isXDigitN t' then .at (q + 3 + xrun t') else .err (q + 3) .invalidHexEscape
        else .at (q + 3)
    else
      match decode (c :: t) with
      | .error _ => .err (q + 1) .invalidUtf8
      | .ok (_, n) => .at (q + 1 + n)

/-- a character constant whose opening quote is at offset `q` of `s` -/
def chrTok (s : List Nat) (q : Nat) : Step :=
  match chrFirst q (s.drop (q + 1)) with
  | .err off m => .err off m
  | .at j =>
    match idxQuote (s.drop j) with
    | none => .err j .unclosedChar                  -- `strchr(p, '\'')` fails
    | some k => .tok (j + k + 1)

/-- `read_ident` after the first character: characters taken, or the offset of an undecodable byte -/
def identRest : Nat → List Nat → Nat → Except Nat Nat
  | 0, _, off => .ok off
  | _ + 1, [], off => .ok off
  | fuel + 1, c :: t, off =>
    match decode (c :: t) with
    | .error _ => .error off
    | .ok (cp, n) =>
      if ChibiVerif.Gen.Literals.isIdent2 cp then identRest fuel ((c :: t).drop n) (off + n) else .ok off

def startsWith (pre s : List Nat) : Bool := pre.isPrefixOf s

/-- last branches of the loop: `read_ident`, then `read_punct`, then "invalid token" -/
def stepWord (s : List Nat) : Step :=
  match decode s with
  | .error _ => .err 0 .invalidUtf8
  | .ok (cp, n) =>
    if ChibiVerif.Gen.Literals.isIdent1 cp then
      match identRest (s.length + 1) (s.drop n) n with
      | .error off => .err off .invalidUtf8
      | .ok len => .tok len
    else if ChibiVerif.Gen.Lex.readPunct s = 0 then .err 0 .invalidToken
    else .tok (ChibiVerif.Gen.Lex.readPunct s)

/-- the character-constant branches: `'`, `u'`, `L'`, `U'` -/
def stepChr (c : Nat) (s : List Nat) : Step :=
  if c = 39 then chrTok s 0
  else if startsWith [117, 39] s then chrTok s 1
  else if startsWith [76, 39] s then chrTok s 1
  else if startsWith [85, 39] s then chrTok s 1
  else stepWord s

/-- the string-literal branches: `"`, `u8"`, `u"`, `L"`, `U"` -/
def stepStr (c : Nat) (s : List Nat) : Step :=
  if c = 34 then strTok false s 0
  else if startsWith [117, 56, 34] s then strTok false s 2
  else if startsWith [117, 34] s then strTok true s 1
  else if startsWith [76, 34] s then strTok true s 1
  else if startsWith [85, 34] s then strTok true s 1
  else stepChr c s

/-- one iteration of `while (*p)`, branches in source order -/
def step (s : List Nat) : Step :=
  match s with
  | [] => .skip 0
  | c :: t =>
    if startsWith [47, 47] (c :: t) then
      match idxLF (t.drop 1) with
      | none => .skip (2 + (t.drop 1).length)       -- `while (*p && *p != '\n') p++;` stops at the NUL
      | some k => .skip (2 + k)
    else if startsWith [47, 42] (c :: t) then
      match findClose (t.drop 1) with
      | none => .err 0 .unclosedComment
      | some k => .skip (2 + k)
    else if c = 10 then .skip 1
    else if isSpace c then .skip 1
    else if isDigit c || (c == 46 && headIs isDigit t) then .tok (1 + ppLen t)
    else stepStr c (c :: t)

/-- the loop of `tokenize`; `line` = 1 + number of '\n' before the current position.
    (Until fix N1 `verror_at` could replace the message: `display_width` decoded the text of the line up to the error
    column with the erroring decoder.  display_width now counts an undecodable byte as one column, so the message printed
    is the message of the site.) -/
def loop : Nat → List Nat → Nat → Nat → Outcome
  | 0, _, _, _ => .fuel
  | _ + 1, [], _, n => .ok n
  | fuel + 1, c :: t, line, n =>
    match step (c :: t) with
    | .skip k => loop fuel ((c :: t).drop k) (line + countLF ((c :: t).take k)) n
    | .tok k => loop fuel ((c :: t).drop k) (line + countLF ((c :: t).take k)) (n + 1)
    | .err off m => .diag (line + countLF ((c :: t).take off)) m

/-- `tokenize(file)` on the text -/
def scan (text : List Nat) : Outcome := loop (text.length + 1) text 1 0

/-- `tokenize_file(path)` on the bytes of the file -/
def lexFile (bytes : List Nat) : Outcome :=
  match phases bytes with
  | .error w => .overread w
  | .ok t => scan t

/-- the text ends in a newline (what read_file guarantees for a file; temporary buffers of the preprocessor need not) -/
def EndsLF (l : List Nat) : Prop := l.getLast? = some 10

instance (l : List Nat) : Decidable (EndsLF l) := inferInstanceAs (Decidable (l.getLast? = some 10))

/-- line terminators of the raw bytes as the first two passes see them: "\r\n", lone "\r", "\n" -/
def terminators : List Nat → Nat
  | [] => 0
  | [a] => if a = 13 ∨ a = 10 then 1 else 0
  | a :: b :: rest =>
    if a = 13 ∧ b = 10 then 1 + terminators rest
    else (if a = 13 ∨ a = 10 then 1 else 0) + terminators (b :: rest)

/-- the largest line number a diagnostic about this file can carry: the EOF position of the text -/
def lastLine (bytes : List Nat) : Nat :=
  match phases bytes with
  | .error _ => 1
  | .ok t => countLF t + 1

end ChibiVerif.LexTotal
