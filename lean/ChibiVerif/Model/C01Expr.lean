/-
C01: `gen_expr` on whole expression trees (core Lean only, so that `drv_c01 compile` can run it).

`compileE` assembles the code chibicc emits for a side-effect-free integer expression (literals, variables in the frame,
casts, unary and binary operators, arbitrary nesting) from the per-node pieces the C01 theorems are about:
`castSeq` (cast table cell / `_Bool` sequence), `unSeq`, `opSeq` (operator tails of `gen_expr`), `loadSeq` (`load`).
The typing it applies is the one `add_type` applies (`C01_op_type`, `C01_unop_type`): operands converted to the common type,
shifts promote the left operand only, `a > b` is `b < a`.

Tie: checklib/C01.py (leg b2) prints generated expression nests as C, compiles them with `chibicc -S` and compares the
instruction sequence of the function body with `drv_c01 compile` instruction by instruction.
-/
import ChibiVerif.Model.C01Codegen
import ChibiVerif.Spec.IntSpec

namespace ChibiVerif.C01
open ChibiVerif.Asm ChibiVerif.Spec.IntSpec ChibiVerif.Gen.CommonType ChibiVerif.C01Codegen

/-- the chibicc type descriptor of a C11 integer type -/
def descr : ITy → TyD
  | .bool => ty_bool | .i8 => ty_char | .i16 => ty_short | .i32 => ty_int | .i64 => ty_long
  | .u8 => ty_uchar | .u16 => ty_ushort | .u32 => ty_uint | .u64 => ty_ulong

/-- the instructions `cast(from, to)` prints (cast table cell, or the `_Bool` sequence) -/
def castSeq (f t : ITy) : List Ins := (cast (descr f) (descr t)).flatMap Line.instrs

/-- type of the node for operator `k` on operands of (converted) type `t` -/
def nodeTy (k : NK) (t : ITy) : TyD :=
  match opRule k with
  | .usualArithInt => ty_int
  | _ => descr t

/-- the instructions `gen_expr` prints for `k` after `pop %rdi`, operands of type `t` -/
def opSeq (k : NK) (t : ITy) : List Ins :=
  match genBinop k (descr t) (nodeTy k t) with
  | some ls => ls.flatMap Line.instrs
  | none => []

/-- the instructions for a unary operator after the operand has been evaluated -/
def unSeq (k : NK) (t : ITy) : List Ins :=
  match genUnop k (descr t) with
  | some ls => ls.flatMap Line.instrs
  | none => []

/-- the instruction `load(ty)` prints -/
def loadSeq (t : ITy) : List Ins := (load (descr t)).flatMap Line.instrs

/-- the instructions `store(ty)` prints -/
def storeSeq (t : ITy) : List Ins := (store (descr t)).flatMap Line.instrs

/-- node kind and operand order of a C11 binary operator (`a > b` is `b < a`) -/
def nodeOf : BinOp → NK × Bool
  | .add => (.ND_ADD, false) | .sub => (.ND_SUB, false) | .mul => (.ND_MUL, false) | .div => (.ND_DIV, false)
  | .mod => (.ND_MOD, false) | .band => (.ND_BITAND, false) | .bor => (.ND_BITOR, false) | .bxor => (.ND_BITXOR, false)
  | .shl => (.ND_SHL, false) | .shr => (.ND_SHR, false)
  | .eq => (.ND_EQ, false) | .ne => (.ND_NE, false) | .lt => (.ND_LT, false) | .le => (.ND_LE, false)
  | .gt => (.ND_LT, true) | .ge => (.ND_LE, true)

/-- the immediate `gen_expr` prints for `ND_NUM` with `%ld`: the value as a signed 64-bit number -/
def immOf (v : Int) : Int := Int.bmod v 18446744073709551616

/-- `gen_expr` on the typed tree `add_type` builds for a pure expression over variables at `off i (%rbp)` -/
def compileE (tys : List ITy) (off : Nat → Int) : E → Option (ITy × List Ins)
  | .lit t v => some (t, [⟨"mov", [.i (immOf v), .r "%rax"]⟩])
  | .var i => (tys[i]?).map fun t => (t, ⟨"lea", [.m (off i) "%rbp", .r "%rax"]⟩ :: loadSeq t)
  | .cast t e => (compileE tys off e).map fun (te, c) => (t, c ++ castSeq te t)
  | .un op e =>
      (compileE tys off e).map fun (te, c) =>
        match op with
        | .plus => (promote te, c ++ castSeq te (promote te))
        | .lognot => (.i32, c ++ unSeq .ND_NOT te)
        | .neg => (promote te, c ++ castSeq te (promote te) ++ unSeq .ND_NEG (promote te))
        | .bitnot => (promote te, c ++ castSeq te (promote te) ++ unSeq .ND_BITNOT (promote te))
  | .bin op a b =>
      match compileE tys off a, compileE tys off b with
      | some (ta, ca), some (tb, cb) =>
        let (k, swap) := nodeOf op
        let (tl, cl, tr, cr) := if swap then (tb, cb, ta, ca) else (ta, ca, tb, cb)
        let t := binopOperandType op tl tr
        let rhs := if op.isShift then cr else cr ++ castSeq tr t
        some (binopType op ta tb,
              rhs ++ [⟨"push", [.r "%rax"]⟩] ++ cl ++ castSeq tl t ++ [⟨"pop", [.r "%rdi"]⟩] ++ opSeq k t)
      | _, _ => none
  | _ => none

/-- stack slots `compileE` needs below `%rsp` -/
def depthE : E → Nat
  | .cast _ e | .un _ e => depthE e
  | .bin op a b =>
      -- the right-hand node is evaluated first, then pushed, then the left-hand node (`a > b` is the node `b < a`)
      if (nodeOf op).2 then max (depthE a) (depthE b + 1) else max (depthE b) (depthE a + 1)
  | _ => 0

end ChibiVerif.C01
