/-
C01: `gen_expr` on whole expression trees (core Lean only, so that `drv_c01 compile` can run it).

`compileE` assembles the code chibicc emits for a side-effect-free integer expression (literals, variables in the frame,
casts, unary and binary operators, arbitrary nesting) from the per-node pieces the C01 theorems are about:
`castSeq` (cast table cell / `_Bool` sequence), `unSeq`, `opSeq` (operator tails of `gen_expr`), `loadSeq` (`load`).
The typing it applies is the one `add_type` applies (`C01_op_type`, `C01_unop_type`): operands converted to the common type,
shifts promote the left operand only, `a > b` is `b < a`.

Tie: checklib/C01.py (leg b2) prints generated expression nests as C, compiles them with `chibicc -S` and compares the
instruction sequence of the function body with `drv_c01 compile` instruction by instruction.
-/
import ChibiVerif.Model.C01Codegen
import ChibiVerif.Spec.IntSpec

namespace ChibiVerif.C01
open ChibiVerif.Asm ChibiVerif.Spec.IntSpec ChibiVerif.Gen.CommonType ChibiVerif.C01Codegen

/-- the chibicc type descriptor of a C11 integer type -/
def descr : ITy → TyD
  | .bool => ty_bool | .i8 => ty_char | .i16 => ty_short | .i32 => ty_int | .i64 => ty_long
  | .u8 => ty_uchar | .u16 => ty_ushort | .u32 => ty_uint | .u64 => ty_ulong

/-- the instructions `cast(from, to)` prints (cast table cell, or the `_Bool` sequence) -/
def castSeq (f t : ITy) : List Ins := (cast (descr f) (descr t)).flatMap Line.instrs

/-- type of the node for operator `k` on operands of (converted) type `t` -/
def nodeTy (k : NK) (t : ITy) : TyD :=
  match opRule k with
  | .usualArithInt => ty_int
  | _ => descr t

/-- the instructions `gen_expr` prints for `k` after `pop %rdi`, operands of type `t` -/
def opSeq (k : NK) (t : ITy) : List Ins :=
  match genBinop k (descr t) (nodeTy k t) with
  | some ls => ls.flatMap Line.instrs
  | none => []

/-- the instructions for a unary operator after the operand has been evaluated -/
def unSeq (k : NK) (t : ITy) : List Ins :=
  match genUnop k (descr t) with
  | some ls => ls.flatMap Line.instrs
  | none => []

/-- the instruction `load(ty)` prints -/
def loadSeq (t : ITy) : List Ins := (load (descr t)).flatMap Line.instrs

/-- the instructions `store(ty)` prints -/
def storeSeq (t : ITy) : List Ins := (store (descr t)).flatMap Line.instrs

/-- node kind and operand order of a C11 binary operator (`a > b` is `b < a`) -/
def nodeOf : BinOp → NK × Bool
  | .add => (.ND_ADD, false) | .sub => (.ND_SUB, false) | .mul => (.ND_MUL, false) | .div => (.ND_DIV, false)
  | .mod => (.ND_MOD, false) | .band => (.ND_BITAND, false) | .bor => (.ND_BITOR, false) | .bxor => (.ND_BITXOR, false)
  | .shl => (.ND_SHL, false) | .shr => (.ND_SHR, false)
  | .eq => (.ND_EQ, false) | .ne => (.ND_NE, false) | .lt => (.ND_LT, false) | .le => (.ND_LE, false)
  | .gt => (.ND_LT, true) | .ge => (.ND_LE, true)

/-- the immediate `gen_expr` prints for `ND_NUM` with `%ld`: the value as a signed 64-bit number -/
def immOf (v : Int) : Int := Int.bmod v 18446744073709551616

/-- `gen_expr` on the typed tree `add_type` builds for a pure expression over variables at `off i (%rbp)` -/
def compileE (tys : List ITy) (off : Nat → Int) : E → Option (ITy × List Ins)
  | .lit t v => some (t, [⟨"mov", [.i (immOf v), .r "%rax"]⟩])
  | .var i => (tys[i]?).map fun t => (t, ⟨"lea", [.m (off i) "%rbp", .r "%rax"]⟩ :: loadSeq t)
  | .cast t e => (compileE tys off e).map fun (te, c) => (t, c ++ castSeq te t)
  | .un op e =>
      (compileE tys off e).map fun (te, c) =>
        match op with
        | .plus => (promote te, c ++ castSeq te (promote te))
        | .lognot => (.i32, c ++ unSeq .ND_NOT te)
        | .neg => (promote te, c ++ castSeq te (promote te) ++ unSeq .ND_NEG (promote te))
        | .bitnot => (promote te, c ++ castSeq te (promote te) ++ unSeq .ND_BITNOT (promote te))
  | .bin op a b =>
      match compileE tys off a, compileE tys off b with
      | some (ta, ca), some (tb, cb) =>
        let (k, swap) := nodeOf op
        let (tl, cl, tr, cr) := if swap then (tb, cb, ta, ca) else (ta, ca, tb, cb)
        let t := binopOperandType op tl tr
        let rhs := if op.isShift then cr else cr ++ castSeq tr t
        some (binopType op ta tb,
              rhs ++ [⟨"push", [.r "%rax"]⟩] ++ cl ++ castSeq tl t ++ [⟨"pop", [.r "%rdi"]⟩] ++ opSeq k t)
      | _, _ => none
  | _ => none

/-- stack slots `compileE` needs below `%rsp` -/
def depthE : E → Nat
  | .cast _ e | .un _ e => depthE e
  | .bin op a b =>
      -- the right-hand node is evaluated first, then pushed, then the left-hand node (`a > b` is the node `b < a`)
      if (nodeOf op).2 then max (depthE a) (depthE b + 1) else max (depthE b) (depthE a + 1)
  | _ => 0

/-! ### expressions with side effects on variables: `,` `=` `op=` `++` `--`

`compileX` extends `compileE` by the comma operator, assignment to a variable, the ten compound assignments and prefix /
postfix `++` `--` on variables, as parse.c rewrites them: `A op= B` is `tmp = &A, *tmp = *tmp op B` with a hidden pointer
temporary in the frame (`to_assign`); `++A` is `A += 1`, `--A` is `A -= 1`; `A++` is `(T)((A += 1) - 1)`, `A--` is
`(T)((A += -1) + 1)` (`new_inc_dec`; for `_Bool` operands chibicc uses two temporaries instead: not modelled, `none`).
The hidden temporaries are numbered in the order parse.c creates them (operands first, left to right); temporary `k`
lives at `toff k (%rbp)`.  `&&`, `||`, `?:` need jumps: `none`. -/

def iPush : Ins := ⟨"push", [.r "%rax"]⟩
def iPopRdi : Ins := ⟨"pop", [.r "%rdi"]⟩
def iLea (d : Int) : Ins := ⟨"lea", [.m d "%rbp", .r "%rax"]⟩
def iMovImm (v : Int) : Ins := ⟨"mov", [.i (immOf v), .r "%rax"]⟩

/-- `tmp = &A, *tmp = (T)(*tmp op B)` for a variable `A` of type `ti` at `offA(%rbp)`, `B` of type `tb` compiled to `cb`,
    the pointer temporary at `tmp(%rbp)`; `k` is the node kind of `op` -/
def opAssignCode (k : NK) (op : BinOp) (ti tb : ITy) (offA tmp : Int) (cb : List Ins) : List Ins :=
  let t := binopOperandType op ti tb
  -- tmp = &A
  [iLea tmp, iPush, iLea offA] ++ storeSeq .u64 ++
  -- address of *tmp, kept on the stack for the store
  iLea tmp :: loadSeq .u64 ++ [iPush] ++
  -- *tmp op B : B (converted), push, *tmp (loaded, converted), pop, operator; then the conversion to A's type
  (cb ++ (if op.isShift then [] else castSeq tb t)) ++ [iPush] ++
  (iLea tmp :: loadSeq .u64 ++ loadSeq ti ++ castSeq ti t) ++ [iPopRdi] ++ opSeq k t ++
  castSeq (binopType op ti tb) ti ++
  storeSeq ti

/-- the operators that have a compound assignment -/
def compoundable (op : BinOp) : Bool := !op.isRel

def compileX (tys : List ITy) (off toff : Nat → Int) : Nat → E → Option (ITy × List Ins × Nat)
  | k, .lit t v => some (t, [iMovImm v], k)
  | k, .var i => (tys[i]?).map fun t => (t, iLea (off i) :: loadSeq t, k)
  | k, .cast t e => (compileX tys off toff k e).map fun (te, c, k1) => (t, c ++ castSeq te t, k1)
  | k, .un op e =>
      (compileX tys off toff k e).map fun (te, c, k1) =>
        match op with
        | .plus => (promote te, c ++ castSeq te (promote te), k1)
        | .lognot => (.i32, c ++ unSeq .ND_NOT te, k1)
        | .neg => (promote te, c ++ castSeq te (promote te) ++ unSeq .ND_NEG (promote te), k1)
        | .bitnot => (promote te, c ++ castSeq te (promote te) ++ unSeq .ND_BITNOT (promote te), k1)
  | k, .bin op a b =>
      match compileX tys off toff k a with
      | some (ta, ca, k1) =>
        match compileX tys off toff k1 b with
        | some (tb, cb, k2) =>
          let (nk, swap) := nodeOf op
          let (tl, cl, tr, cr) := if swap then (tb, cb, ta, ca) else (ta, ca, tb, cb)
          let t := binopOperandType op tl tr
          let rhs := if op.isShift then cr else cr ++ castSeq tr t
          some (binopType op ta tb, rhs ++ [iPush] ++ cl ++ castSeq tl t ++ [iPopRdi] ++ opSeq nk t, k2)
        | none => none
      | none => none
  | k, .comma a b =>
      match compileX tys off toff k a with
      | some (_, ca, k1) => (compileX tys off toff k1 b).map fun (tb, cb, k2) => (tb, ca ++ cb, k2)
      | none => none
  | k, .assign i e =>
      match tys[i]?, compileX tys off toff k e with
      | some ti, some (te, c, k1) => some (ti, [iLea (off i), iPush] ++ c ++ castSeq te ti ++ storeSeq ti, k1)
      | _, _ => none
  | k, .opassign op i e =>
      match tys[i]?, compileX tys off toff k e with
      | some ti, some (te, c, k1) =>
          if compoundable op then some (ti, opAssignCode (nodeOf op).1 op ti te (off i) (toff k1) c, k1 + 1) else none
      | _, _ => none
  | k, .preinc i =>
      (tys[i]?).map fun ti => (ti, opAssignCode .ND_ADD .add ti .i32 (off i) (toff k) [iMovImm 1], k + 1)
  | k, .predec i =>
      (tys[i]?).map fun ti => (ti, opAssignCode .ND_SUB .sub ti .i32 (off i) (toff k) [iMovImm 1], k + 1)
  | k, .postinc i =>
      match tys[i]? with
      | some ti =>
        if ti = .bool then none else
        let t := binopOperandType .add ti .i32
        some (ti, [iMovImm (-1)] ++ castSeq .i32 t ++ [iPush] ++
                  opAssignCode .ND_ADD .add ti .i32 (off i) (toff k) [iMovImm 1] ++ castSeq ti t ++ [iPopRdi] ++
                  opSeq .ND_ADD t ++ castSeq t ti, k + 1)
      | none => none
  | k, .postdec i =>
      match tys[i]? with
      | some ti =>
        if ti = .bool then none else
        let t := binopOperandType .add ti .i32
        some (ti, [iMovImm 1] ++ castSeq .i32 t ++ [iPush] ++
                  opAssignCode .ND_ADD .add ti .i32 (off i) (toff k) [iMovImm (-1)] ++ castSeq ti t ++ [iPopRdi] ++
                  opSeq .ND_ADD t ++ castSeq t ti, k + 1)
      | none => none
  | _, _ => none

/-- stack slots `compileX` needs below `%rsp` -/
def depthX : E → Nat
  | .cast _ e | .un _ e => depthX e
  | .bin op a b => if (nodeOf op).2 then max (depthX a) (depthX b + 1) else max (depthX b) (depthX a + 1)
  | .comma a b => max (depthX a) (depthX b)
  | .assign _ e => depthX e + 1
  | .opassign _ _ e => max (depthX e + 1) 2
  | .preinc _ | .predec _ => 2
  | .postinc _ | .postdec _ => 3
  | _ => 0

/-- variables whose value the evaluation of `e` may read -/
def rd : E → List Nat
  | .lit _ _ => []
  | .var i => [i]
  | .un _ e | .cast _ e | .assign _ e => rd e
  | .bin _ a b | .comma a b | .land a b | .lor a b => rd a ++ rd b
  | .cond c a b => rd c ++ (rd a ++ rd b)
  | .opassign _ i e => i :: rd e
  | .preinc i | .predec i | .postinc i | .postdec i => [i]

/-- variables the evaluation of `e` may modify -/
def wr : E → List Nat
  | .lit _ _ | .var _ => []
  | .un _ e | .cast _ e => wr e
  | .bin _ a b | .comma a b | .land a b | .lor a b => wr a ++ wr b
  | .cond c a b => wr c ++ (wr a ++ wr b)
  | .assign i e | .opassign _ i e => i :: wr e
  | .preinc i | .predec i | .postinc i | .postdec i => [i]

def disjointL (a b : List Nat) : Bool := a.all fun x => !b.contains x

/-- C11 6.5p2 for the operands of a binary operator (which are unsequenced): neither operand modifies a variable the
    other one reads or modifies.  (`,` sequences its operands; an assignment's store is sequenced after its operands.) -/
def noConflict : E → Bool
  | .lit _ _ | .var _ | .preinc _ | .predec _ | .postinc _ | .postdec _ => true
  | .un _ e | .cast _ e | .assign _ e | .opassign _ _ e => noConflict e
  | .bin _ a b =>
      disjointL (wr a) (rd b ++ wr b) && disjointL (wr b) (rd a ++ wr a) && noConflict a && noConflict b
  | .comma a b | .land a b | .lor a b => noConflict a && noConflict b
  | .cond c a b => noConflict c && noConflict a && noConflict b

/-! ### pointer arithmetic (parse.c `new_add`, `new_sub`)

Every form — `p + i`, `i + p`, `p - i`, `p[i]`, `p += i`, `p -= i`, `++p`, `p++` … — goes through `new_add` / `new_sub`, which
scale the index by `ND_MUL(idx, new_long(sizeof *p))`: `add_type` converts the index to `long` (`unsigned long` for an
`unsigned long` index) and the multiplication is a 64-bit `imul`.  `p - q` is `ND_DIV(ND_SUB(p, q) : long, new_num(size))`. -/

/-- `idx * sizeof(*p)`: the element size (a `long` literal), `push`, the index (type `ti`, code `cidx`) converted to the
    common type with `long`, `pop %rdi`, 64-bit multiply -/
def scaleCode (ti : ITy) (size : Int) (cidx : List Ins) : List Ins :=
  [iMovImm size] ++ castSeq .i64 (usualArith ti .i64) ++ [iPush] ++ cidx ++ castSeq ti (usualArith ti .i64) ++ [iPopRdi] ++
    opSeq .ND_MUL (usualArith ti .i64)

/-- `p + i` / `p - i` (also `i + p`, `&p[i]`): the scaled index, `push`, the pointer, `pop %rdi`, 64-bit add / sub -/
def ptrAddCode (isSub : Bool) (ti : ITy) (size : Int) (cidx cptr : List Ins) : List Ins :=
  scaleCode ti size cidx ++ [iPush] ++ cptr ++ [iPopRdi] ++ opSeq (if isSub then .ND_SUB else .ND_ADD) .u64

/-- `p - q`: the element size (an `int` literal converted to `long`), `push`, `q`, `push`, `p`, `pop`, 64-bit sub, `pop`,
    `cqo; idiv` -/
def ptrDiffCode (size : Int) (cp cq : List Ins) : List Ins :=
  [iMovImm size] ++ castSeq .i32 .i64 ++ [iPush] ++ (cq ++ [iPush] ++ cp ++ [iPopRdi] ++ opSeq .ND_SUB .i64) ++ [iPopRdi] ++
    opSeq .ND_DIV .i64

/-- a pointer variable: `lea off(%rbp), %rax; mov (%rax), %rax` -/
def ptrVarCode (d : Int) : List Ins := iLea d :: loadSeq .u64

/-- `p op= i` for a pointer variable at `offP(%rbp)` (`op` = add / sub; also `++p`, `--p` with the literal 1 as index):
    `tmp = &p, *tmp = *tmp ± i * size` -/
def ptrOpAssignCode (isSub : Bool) (ti : ITy) (size : Int) (offP tmp : Int) (cidx : List Ins) : List Ins :=
  [iLea tmp, iPush, iLea offP] ++ storeSeq .u64 ++ iLea tmp :: loadSeq .u64 ++ [iPush] ++
  ptrAddCode isSub ti size cidx (iLea tmp :: loadSeq .u64 ++ loadSeq .u64) ++ storeSeq .u64

/-- `p++` / `p--` (`(T*)((p += ±1) + ∓1)`): the literal `∓1` scaled, `push`, `p += ±1`, `pop %rdi`, 64-bit add -/
def ptrPostCode (isDec : Bool) (size : Int) (offP tmp : Int) : List Ins :=
  ptrAddCode false .i32 size [iMovImm (if isDec then 1 else -1)]
    (ptrOpAssignCode false .i32 size offP tmp [iMovImm (if isDec then -1 else 1)])

/-! ### frame layouts (offsets relative to `%rbp`, frame of `N` bytes: `%rbp = %rsp + N` after the prologue) -/

/-- `[d, d+n)` lies inside the frame `[-N, 0)` -/
def inFrame (d : Int) (n : Nat) (N : Int) : Bool := decide (-N ≤ d) && decide (d + n ≤ 0)

/-- `[a, a+n)` and `[b, b+m)` are disjoint -/
def disjI (a : Int) (n : Nat) (b : Int) (m : Nat) : Bool := decide (a + n ≤ b) || decide (b + m ≤ a)

def szOf (tys : List ITy) (i : Nat) : Nat := ((tys[i]?).map ITy.size).getD 0

/-- the variables (`off i`, `size` bytes) and the `K` hidden temporaries (`toff k`, 8 bytes) lie inside the frame and are
    pairwise disjoint: the hypothesis `Lay` of `C01_value_effects`, as a check on offsets (`lay_of_layoutOK`) -/
def layoutOK (tys : List ITy) (off toff : Nat → Int) (K : Nat) (N : Int) : Bool :=
  (List.range tys.length).all (fun i => inFrame (off i) (szOf tys i) N) &&
  (List.range K).all (fun k => inFrame (toff k) 8 N) &&
  (List.range tys.length).all (fun i => (List.range tys.length).all fun j =>
    i == j || disjI (off i) (szOf tys i) (off j) (szOf tys j)) &&
  (List.range tys.length).all (fun i => (List.range K).all fun k => disjI (off i) (szOf tys i) (toff k) 8) &&
  (List.range K).all (fun k => (List.range K).all fun l => k == l || disjI (toff k) 8 (toff l) 8)

end ChibiVerif.C01
