/-
Hand model of chibicc's source-position bookkeeping (property C18), written after the code as it is now:

  tokenize.c   read_file (final newline), tokenize_file (BOM skip), canonicalize_newline,
               remove_backslash_newline (with the re-insertion counter `n`), convert_universal_chars (with unicode.c encode_utf8),
               add_line_numbers,
               error_at (recount of newlines), verror_at (source line shown), tokenize_file's file_no / input_files
  preprocess.c read_line_marker (`line_delta = N - line_no(directive)`, `display_name`, and the `LineMarker` it pushes on
               `file->markers`), line_marker_at (the directive in force at a token's own line),
               preprocess2 pass-through (`m = line_marker_at(tok); tok->line_delta = m ? m->line_delta : 0; tok->filename = ...`),
               preprocess (`t->line_no += t->line_delta`), line_macro / file_macro (walk `origin`, then `line_marker_at`),
               paste / new_str_token / new_num_token (fresh File with the template's name and file_no; `line_no` of the template),
               include_file (token lists are spliced, nothing is renumbered)
  codegen.c    `.loc file_no line_no` in gen_expr / gen_stmt, the `.file` table in codegen

A text is a `List Nat` of bytes without the NUL terminator (`p[i+1]` at the last byte reads the terminator, 0).
Core Lean only.  (Model/Text.lean has the same phase functions over `BitVec 8`; this file keeps its own copy over
`Nat` so that C18 does not depend on the literal tables Text.lean imports.)
-/
namespace ChibiVerif.LineNo

abbrev LF : Nat := 10
abbrev CR : Nat := 13
abbrev BSL : Nat := 92

/-! ## phases on the bytes of one file -/

/-- `read_file`: `if (buflen == 0 || buf[buflen - 1] != '\n') fputc('\n', out);` -/
def ensureFinalNewline (p : List Nat) : List Nat :=
  match p.getLast? with
  | some b => if b = LF then p else p ++ [LF]
  | none => [LF]

/-- `!memcmp(p, "\xef\xbb\xbf", 3)` -/
def hasBOM : List Nat → Bool
  | a :: b :: c :: _ => a = 0xEF && b = 0xBB && c = 0xBF
  | _ => false

def bomLen (p : List Nat) : Nat := if hasBOM p then 3 else 0

/-- `if (!memcmp(p, "\xef\xbb\xbf", 3)) p += 3;` -/
def skipBOM (p : List Nat) : List Nat := p.drop (bomLen p)

/-- `canonicalize_newline`: "\r\n" and "\r" become "\n" -/
def canonicalizeNewline : List Nat → List Nat
  | [] => []
  | [a] => if a = CR then [LF] else [a]
  | a :: b :: rest =>
    if a = CR then
      if b = LF then LF :: canonicalizeNewline rest else LF :: canonicalizeNewline (b :: rest)
    else a :: canonicalizeNewline (b :: rest)

/-- `remove_backslash_newline`: `n` counts the removed newlines; they are written back after the next
    newline that is not removed (or at the end of the text). -/
def removeBackslashNewlineAux : List Nat → Nat → List Nat
  | [], n => List.replicate n LF
  | [a], n => a :: List.replicate n LF
  | a :: b :: rest, n =>
    if a = BSL ∧ b = LF then removeBackslashNewlineAux rest (n + 1)
    else if a = LF then a :: (List.replicate n LF ++ removeBackslashNewlineAux (b :: rest) 0)
    else a :: removeBackslashNewlineAux (b :: rest) n

def removeBackslashNewline (p : List Nat) : List Nat := removeBackslashNewlineAux p 0

/-- the text after `read_file`, BOM skip, `canonicalize_newline`, `remove_backslash_newline`
    (`convert_universal_chars` still to come: `tokenizerText`) -/
def sourceText (bytes : List Nat) : List Nat :=
  removeBackslashNewline (canonicalizeNewline (skipBOM (ensureFinalNewline bytes)))

/-- `isxdigit` in the C locale (bytes ≥ 128 are not digits) -/
def isXDigit (c : Nat) : Bool := (48 ≤ c && c ≤ 57) || (65 ≤ c && c ≤ 70) || (97 ≤ c && c ≤ 102)

/-- `from_hex` -/
def fromHex (c : Nat) : Nat := if 48 ≤ c ∧ c ≤ 57 then c - 48 else if 97 ≤ c ∧ c ≤ 102 then c - 97 + 10 else c - 65 + 10

/-- `read_universal_char(p, len)`: 0 as soon as one of the `len` bytes is not a hexadecimal digit (the terminator is not one);
    `(c << 4) | from_hex(p[i])` on `uint32_t` (at most 8 digits: no wrap-around) -/
def readUniversalChar : List Nat → Nat → Nat → Nat
  | _, 0, c => c
  | [], _ + 1, _ => 0
  | b :: r, n + 1, c => if isXDigit b then readUniversalChar r n (c * 16 + fromHex b) else 0

/-- `encode_utf8` (unicode.c); `buf[0] = 0b11110000 | (c >> 18)` is truncated to a `char` -/
def encodeUtf8 (c : Nat) : List Nat :=
  if c ≤ 0x7F then [c]
  else if c ≤ 0x7FF then [0xC0 ||| (c >>> 6), 0x80 ||| (c &&& 0x3F)]
  else if c ≤ 0xFFFF then [0xE0 ||| (c >>> 12), 0x80 ||| ((c >>> 6) &&& 0x3F), 0x80 ||| (c &&& 0x3F)]
  else [(0xF0 ||| (c >>> 18)) % 256, 0x80 ||| ((c >>> 12) &&& 0x3F), 0x80 ||| ((c >>> 6) &&& 0x3F), 0x80 ||| (c &&& 0x3F)]

/-- `convert_universal_chars`, annotated: every output byte is paired with the offset (in the input text, counted from `s`) of
    the input byte it is a copy of; all bytes of an encoded universal character name are attributed to its backslash.
    Fuel: one unit per loop iteration (`length + 1` suffices). -/
def convertUCNAux : Nat → List Nat → Nat → List (Nat × Nat)
  | 0, _, _ => []
  | _ + 1, [], _ => []
  | f + 1, a :: rest, s =>
    if a = BSL then
      match rest with
      | [] => [(a, s)]    -- `*q++ = *p++; *q++ = *p++;` would copy the terminator and run on: unreachable, the text ends in '\n' (Props `C18_text_ends_newline`)
      | b :: rest' =>
        if b = 117 then                                       -- "\\u"
          let c := readUniversalChar rest' 4 0
          if c ≠ 0 ∧ c ≠ LF then (encodeUtf8 c).map (·, s) ++ convertUCNAux f (rest'.drop 4) (s + 6)
          else (a, s) :: convertUCNAux f rest (s + 1)
        else if b = 85 then                                   -- "\\U"
          let c := readUniversalChar rest' 8 0
          if c ≠ 0 ∧ c ≠ LF then (encodeUtf8 c).map (·, s) ++ convertUCNAux f (rest'.drop 8) (s + 10)
          else (a, s) :: convertUCNAux f rest (s + 1)
        else (a, s) :: (b, s + 1) :: convertUCNAux f rest' (s + 2)
    else (a, s) :: convertUCNAux f rest (s + 1)

def convertUCN (p : List Nat) : List (Nat × Nat) := convertUCNAux (p.length + 1) p 0

/-- `convert_universal_chars` -/
def convertUniversalChars (p : List Nat) : List Nat := (convertUCN p).map (·.1)

/-- the text `tokenize()` sees and `add_line_numbers` numbers -/
def tokenizerText (bytes : List Nat) : List Nat := convertUniversalChars (sourceText bytes)

/-- every '\n' that `convert_universal_chars` writes is a copy of a '\n' of its input (true for every text since the pass
    leaves `\u000a` alone: Lemmas `noNewlineUCN_always`; before that repair `/* \u000a */` shifted every later line) -/
def noNewlineUCN (p : List Nat) : Bool := (convertUCN p).all (fun e => e.1 != LF || p[e.2]? == some LF)

/-! ## line numbers -/

def countLF : List Nat → Nat
  | [] => 0
  | a :: r => (if a = LF then 1 else 0) + countLF r

/-- number of '\n' before offset `off`, plus 1: the value `add_line_numbers` gives a token that starts at `off` -/
def lineNoOf (text : List Nat) (off : Nat) : Nat := 1 + countLF (text.take off)

inductive Crash where
  | nullTok      -- `tok->loc` with `tok == NULL` in add_line_numbers (token list exhausted before the terminator)
  deriving DecidableEq, Repr

/-- `add_line_numbers`:
    ```
    char *p = contents; int n = 1;
    do { if (p == tok->loc) { tok->line_no = n; tok = tok->next; }
         if (*p == '\n') n++; } while (*p++);
    ```
    `locs` are the `loc` offsets of the token list in list order (the last one is the EOF token at the terminator);
    the result is the `line_no` of each token that got one.  `none`-token dereference is an explicit crash. -/
def addLineNumbersAux : List Nat → Nat → Nat → List Nat → Except Crash (List Nat)
  | [], p, n, locs =>                       -- `*p == 0`: last iteration
    match locs with
    | [] => .error .nullTok
    | l :: _ => .ok (if p = l then [n] else [])
  | c :: rest, p, n, locs =>
    match locs with
    | [] => .error .nullTok
    | l :: ls =>
      if p = l then (addLineNumbersAux rest (p + 1) (if c = LF then n + 1 else n) ls).map (n :: ·)
      else addLineNumbersAux rest (p + 1) (if c = LF then n + 1 else n) locs

def addLineNumbers (text : List Nat) (locs : List Nat) : Except Crash (List Nat) :=
  addLineNumbersAux text 0 1 locs

/-- `error_at`: `int line_no = 1; for (char *p = contents; p < loc; p++) if (*p == '\n') line_no++;` -/
def errorAtLine (text : List Nat) (loc : Nat) : Nat :=
  (text.take loc).foldl (fun n c => if c = LF then n + 1 else n) 1

/-- `verror_at`: `while (input < line && line[-1] != '\n') line--;` — offset of the start of the line shown -/
def shownStart (text : List Nat) : Nat → Nat
  | 0 => 0
  | k + 1 => if text[k]? = some LF then k + 1 else shownStart text k

/-- `verror_at`: `while (*end && *end != '\n') end++;` — offset one past the line shown -/
def shownEnd (text : List Nat) (loc : Nat) : Nat :=
  loc + ((text.drop loc).takeWhile (· ≠ LF)).length

/-- the source line `verror_at` prints under the `file:line:` prefix -/
def shownLine (text : List Nat) (loc : Nat) : List Nat :=
  (text.drop (shownStart text loc)).take (shownEnd text loc - shownStart text loc)

/-! ## files and tokens -/

/-- `LineMarker` (chibicc.h): one `#line`-family directive of a file -/
structure LineMarker where
  lineNo : Int            -- `line_no`: line (as `add_line_numbers` computed it) of the directive
  lineDelta : Int         -- `line_delta`
  displayName : String    -- `display_name`
  deriving DecidableEq, Repr

/-- `File` (chibicc.h) -/
structure File where
  name : String
  fileNo : Nat
  displayName : String
  lineDelta : Int
  markers : List LineMarker := []   -- `markers`: most recent first
  inclDepth : Nat := 0              -- `incl_depth` (set by include_file; no position depends on it)
  deriving DecidableEq, Repr

/-- `new_file` (`calloc`: no markers, depth 0) -/
def newFile (name : String) (fileNo : Nat) : File := ⟨name, fileNo, name, 0, [], 0⟩

/-- the `input_files` array: one `File` per `tokenize_file` call, in order of entry -/
abbrev Files := List File

/-- `tokenize_file`: `static int file_no; new_file(path, file_no + 1, p); input_files[file_no] = file; file_no++` -/
def enterFile (fs : Files) (path : String) : Files × Nat := (fs ++ [newFile path (fs.length + 1)], fs.length)

/-- `codegen`: `for (i = 0; files[i]; i++) println("  .file %d \"%s\"", files[i]->file_no, files[i]->name);` -/
def fileTable (fs : Files) : List (Nat × String) := fs.map (fun f => (f.fileNo, f.name))

/-- which `File` object a token points to: one of `input_files`, or a fresh one made by
    `new_file(tmpl->file->name, tmpl->file->file_no, buf)` in paste / new_str_token / new_num_token
    (name and file_no of input file `of`, `display_name = name`, `line_delta = 0`, no markers; never the target of a `#line`) -/
inductive FileRef where
  | input (idx : Nat)
  | synth (of : Nat)
  deriving DecidableEq, Repr

def FileRef.base : FileRef → Nat
  | .input i => i
  | .synth i => i

def getFile (fs : Files) : FileRef → File
  | .input i => fs.getD i (newFile "" 0)
  | .synth i => let f := fs.getD i (newFile "" 0); newFile f.name f.fileNo

/-- the position fields of a `Token` -/
structure TokInfo where
  file : FileRef
  lineNo : Int          -- `line_no`
  lineDelta : Int := 0  -- `line_delta`
  filename : String := ""
  deriving DecidableEq, Repr

/-- a token with its `origin` chain (`NULL` for tokens that `tokenize` made from a file) -/
inductive Tok where
  | plain (i : TokInfo)
  | expanded (i : TokInfo) (origin : Tok)
  deriving Repr

def Tok.info : Tok → TokInfo
  | .plain i => i
  | .expanded i _ => i

/-- `while (tmpl->origin) tmpl = tmpl->origin;` -/
def Tok.outermost : Tok → Tok
  | .plain i => .plain i
  | .expanded _ o => o.outermost

/-- `expand_macro`: `for (t = body; ...) t->origin = tok;` on a copy of a body token -/
def expandBodyTok (body : TokInfo) (macroTok : Tok) : Tok := .expanded body macroTok

/-- `read_line_marker`:
    ```
    start->file->line_delta = tok->val - start->line_no;
    m->next = start->file->markers; m->line_no = start->line_no; m->line_delta = start->file->line_delta;
    m->display_name = start->file->display_name; start->file->markers = m;
    … if a string follows: start->file->display_name = m->display_name = tok->str;
    ```
    `startLineNo` is the `line_no` of the directive's first operand token BEFORE macro expansion (`start`; it lies on the
    directive's own logical line), `val` the value of the (macro-expanded) number. -/
def readLineMarker (f : File) (startLineNo : Int) (val : Int) (name : Option String) : File :=
  let delta := val - startLineNo
  let disp := name.getD f.displayName
  { f with lineDelta := delta, displayName := disp, markers := ⟨startLineNo, delta, disp⟩ :: f.markers }

/-- `line_marker_at`: `m = tok->file->markers; while (m && m->line_no >= tok->line_no) m = m->next; return m;` -/
def lineMarkerAt : List LineMarker → Int → Option LineMarker
  | [], _ => none
  | m :: r, lineNo => if m.lineNo ≥ lineNo then lineMarkerAt r lineNo else some m

/-- `m ? m->line_delta : 0` -/
def deltaAt (f : File) (lineNo : Int) : Int :=
  match lineMarkerAt f.markers lineNo with
  | some m => m.lineDelta
  | none => 0

/-- `m ? m->display_name : tok->file->name` -/
def nameAt (f : File) (lineNo : Int) : String :=
  match lineMarkerAt f.markers lineNo with
  | some m => m.displayName
  | none => f.name

/-- `preprocess2`, a token that is not a `#`:
    `LineMarker *m = line_marker_at(tok); tok->line_delta = m ? m->line_delta : 0; tok->filename = m ? m->display_name : tok->file->name;`
    (`f` is `tok->file`; `t.lineNo` is still the line `add_line_numbers` computed) -/
def passThroughF (f : File) (t : TokInfo) : TokInfo :=
  { t with lineDelta := deltaAt f t.lineNo, filename := nameAt f t.lineNo }

def passThrough (fs : Files) (t : TokInfo) : TokInfo := passThroughF (getFile fs t.file) t

/-- `preprocess`: `for (t = tok; t; t = t->next) t->line_no += t->line_delta;` -/
def finalize (t : TokInfo) : TokInfo := { t with lineNo := t.lineNo + t.lineDelta }

/-- `line_macro`: the value of `__LINE__` (`tmpl` walked to the outermost origin; the marker in force THERE) -/
def lineMacro (fs : Files) (tmpl : Tok) : Int :=
  let o := tmpl.outermost.info
  o.lineNo + deltaAt (getFile fs o.file) o.lineNo

/-- `file_macro`: the value of `__FILE__` -/
def fileMacro (fs : Files) (tmpl : Tok) : String :=
  let o := tmpl.outermost.info
  nameAt (getFile fs o.file) o.lineNo

/-- `new_num_token` / `new_str_token` (as used by line_macro, file_macro, stringize) and `paste`:
    the new token lives in a fresh `File` and takes the template's `line_no` -/
def synthTok (tmpl : TokInfo) : TokInfo := { file := .synth tmpl.file.base, lineNo := tmpl.lineNo }

/-- `.loc %d %d` in gen_expr / gen_stmt: `node->tok->file->file_no, node->tok->line_no` (token after `preprocess`) -/
def locRecord (fs : Files) (t : TokInfo) : Nat × Int := ((getFile fs t.file).fileNo, t.lineNo)

/-- `error_tok` / `warn_tok`: `verror_at(tok->file->name, tok->file->contents, tok->line_no, tok->loc, ...)` prints `"%s:%d: "` -/
def diagPrefix (fs : Files) (t : TokInfo) : String × Int := ((getFile fs t.file).name, t.lineNo)

/-! ## one file's tokens in processing order -/

/-- what `preprocess2` meets in ONE `File` object, in PROCESSING order (tokens of other files in between do not touch this
    file's markers): ordinary tokens by text offset — a token copied out of a macro body is met when the macro is expanded,
    which can be long after (and below) later `#line` directives of the file —, `#line`-family directives by the offset of
    their first operand token (`start` in read_line_marker; it lies on the logical line of the `#`), and `__LINE__` / `__FILE__` expansions by the offset of the outermost origin token. -/
inductive Ev where
  | tok (off : Nat)
  | lineDir (off : Nat) (n : Int) (name : Option String)
  | lineMac (off : Nat)
  | fileMac (off : Nat)
  deriving DecidableEq, Repr

inductive Out where
  | tok (line : Int) (filename : String)      -- final `line_no` and `filename` of the token
  | line (v : Int)                             -- value of `__LINE__`
  | file (s : String)                          -- value of `__FILE__`
  deriving DecidableEq, Repr

/-- run the events of one file: `text` is the text `tokenize` saw, `f` the file's `File` object -/
def runFile (text : List Nat) : File → List Ev → List Out
  | _, [] => []
  | f, .tok off :: r =>
    let t := finalize (passThroughF f { file := .input (f.fileNo - 1), lineNo := lineNoOf text off })
    .tok t.lineNo t.filename :: runFile text f r
  | f, .lineDir off n name :: r => runFile text (readLineMarker f (lineNoOf text off) n name) r
  | f, .lineMac off :: r => .line ((lineNoOf text off : Int) + deltaAt f (lineNoOf text off)) :: runFile text f r
  | f, .fileMac off :: r => .file (nameAt f (lineNoOf text off)) :: runFile text f r

/-- `include_file`: `return append(tok2, tok);` — the included file's tokens (numbered from its own text) are put in
    front of the rest of the including file's tokens; no `line_no` is touched -/
def includeFile (included rest : List TokInfo) : List TokInfo := included ++ rest

/-- `include_file`: `tok2->file->incl_depth = filename_tok->file->incl_depth + 1;` on the freshly entered file -/
def enterIncluded (includer : File) (f : File) : File := { f with inclDepth := includer.inclDepth + 1 }

/-! ## original offsets -/

/-- scanned output of `remove_backslash_newline` for a prefix that ends at a scan boundary (no end-of-text flush) -/
def spliceEmit : List Nat → Nat → List Nat
  | [], _ => []
  | [a], n => if a = LF then a :: List.replicate n LF else [a]
  | a :: b :: rest, n =>
    if a = BSL ∧ b = LF then spliceEmit rest (n + 1)
    else if a = LF then a :: (List.replicate n LF ++ spliceEmit (b :: rest) 0)
    else a :: spliceEmit (b :: rest) n

/-- offset, in `sourceText bytes`, of the byte at offset `off` of the file (meaningful when that byte is not
    part of a line terminator or a BOM; `C18_posMap_faithful` shows the byte found there is the same byte) -/
def posMap (bytes : List Nat) (off : Nat) : Nat :=
  let b := ensureFinalNewline bytes
  (spliceEmit (canonicalizeNewline ((skipBOM b).take (off - bomLen b))) 0).length

/-- offsets of the file at which a token can start: a byte of the file, after the BOM, that is not part of a
    line terminator (no token starts with CR or LF) -/
def tokenStart (bytes : List Nat) (off : Nat) : Bool :=
  decide (bomLen (ensureFinalNewline bytes) ≤ off) &&
  match bytes[off]? with
  | some c => c != LF && c != CR
  | none => false

/-- line number of the image of file offset `off` in the text before `convert_universal_chars` -/
def lineNoAt (bytes : List Nat) (off : Nat) : Nat := lineNoOf (sourceText bytes) (posMap bytes off)

/-- offset in `tokenizerText bytes` of the byte that came from file offset `off` (the text length if there is none) -/
def finalPos (bytes : List Nat) (off : Nat) : Nat :=
  let p := posMap bytes off        -- (evaluated once, not once per element)
  (convertUCN (sourceText bytes)).findIdx (fun e => e.2 == p)

/-- line number chibicc's tokenizer (`add_line_numbers`) gives the token whose first byte is at offset `off` of the file -/
def lineNoFinal (bytes : List Nat) (off : Nat) : Nat := lineNoOf (tokenizerText bytes) (finalPos bytes off)

end ChibiVerif.LineNo
