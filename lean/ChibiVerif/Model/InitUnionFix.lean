/-
ALTERNATIVE model of the initializer parser (property C05): Model/Init.lean with `union_initializer` as the patch
`union-second-initializer.patch` (prepared for the lead; NOT applied to /repo) would make it:

    static void union_rest(Token **rest, Token *tok, Initializer *init) {
      while (!consume_end(rest, tok)) {
        tok = skip(tok, ",");
        if (equal(tok, ".")) {
          Member *mem = struct_designator(&tok, tok, init->ty);
          if (mem != init->mem)
            *init->children[mem->idx] = *new_initializer(mem->ty, false);
          init->mem = mem;
          designation(&tok, tok, init->children[mem->idx]);
        } else {
          tok = skip_excess_element(tok);
        }
      }
    }

called in `union_initializer` where it now says `consume(&tok, tok, ","); *rest = skip(tok, "}");` (twice).  The eleven other
functions are copied unchanged (they are mutually recursive with `union_initializer`, so the block cannot be shared).
`drv_c05 initu` runs this model; `VERIF_C05_UNIONFIX=1 VERIF_REPO=<patched copy> ./check C05` ties it to the patched compiler.
Findings/C05.lean: with this definition the region of known finding C05-union-second-initializer is empty on an exhaustive scope.
-/
import ChibiVerif.Model.Init

namespace ChibiVerif.Init.UFix
open ChibiVerif.Init

/-- `init->mem` as a member index -/
def _root_.ChibiVerif.Init.Init.mem? : Init → Option Nat
  | .union _ m _ => m
  | _ => none

/-! ## The mutually recursive parser (fuel = one unit per C call or loop iteration) -/

mutual

  /-- `designation = ("[" const-expr "]" | "." ident)* "="? initializer` -/
  def designation : Nat → Ty → List ITok → Init → P
    | 0, _, _, _ => .error .fuel
    | f+1, ty, toks, init =>
      match toks with
      | .idx _ :: _ | .range _ _ :: _ =>
        match ty.elem? with
        | none => .error (.diag "array index in non-array initializer")
        | some elem =>
          match init with
          | .flex => .error (.diag "array designator index exceeds array bounds")
          | _ => do
            let (b, e, tok) ← arrayDesignator init.children.length toks
            -- for (int i = begin; i <= end; i++) designation(&tok2, tok, init->children[i]);
            let (init, tok2) ← (List.range' b (e + 1 - b)).foldlM
              (fun (acc : Init × List ITok) i => do
                let c ← getChild acc.1.children i
                let (c', t2) ← designation f elem tok c
                pure (acc.1.setChild i c', t2)) (init, tok)
            arrayInit2 f elem tok2 init (e + 1)
      | .dot name :: r =>
        match ty with
        | .struct ms _ _ => do
          let (k, anon) ← structDesignator name ms 0
          let tok := if anon then toks else r
          let mty ← memTy ms k
          let c ← getChild init.children k
          let (c', tok) ← designation f mty tok c
          let init := (init.setChild k c').setExpr none
          -- `bool first = (mem == init->ty->members)` is false for `mem->next`: a comma comes first
          structInit2 f ms tok init (k + 1) false
        | .union ms _ _ => do
          let (k, anon) ← structDesignator name ms 0
          let tok := if anon then toks else r
          let mty ← memTy ms k
          let init := init.setMem k
          let c ← getChild init.children k
          let (c', rest) ← designation f mty tok c
          pure (init.setChild k c', rest)
        | _ => .error (.diag "field name not in struct or union initializer")
      | .eq :: r => initializer2 f ty r init
      | _ => initializer2 f ty toks init
  termination_by structural f _ _ _ => f

  /-- the `while` loop of `count_array_init_elements`; `elem` = `ty->base` -/
  def countLoop : Nat → Ty → List ITok → Init → Int → Int → Bool → Except Fail Int
    | 0, _, _, _, _, _, _ => .error .fuel
    | f+1, elem, toks, dummy, i, mx, first =>
      match consumeEnd toks with
      | some _ => .ok mx
      | none => do
        let toks ← if first then pure toks else skipTok .comma "," toks
        let (dummy, toks, i) ← (match toks with
          | .idx a :: r => do
            let (d, t) ← designation f elem r dummy
            pure (d, t, a)
          | .range _ b :: r => do
            let (d, t) ← designation f elem r dummy
            pure (d, t, b)
          | _ => do
            let (d, t) ← initializer2 f elem toks dummy
            pure (d, t, i) : Except Fail (Init × List ITok × Int))
        let i := i + 1
        countLoop f elem toks dummy i (max mx i) false
  termination_by structural f _ _ _ _ _ _ => f

  /-- `count_array_init_elements(tok, ty)`; `elem` = `ty->base` -/
  def countArrayInit : Nat → Ty → List ITok → Except Fail Nat
    | 0, _, _ => .error .fuel
    | f+1, elem, toks => do
      let mx ← countLoop f elem toks (newInit elem true) 0 0 true
      pure mx.toNat
  termination_by structural f _ _ => f

  /-- the `for` loop of `array_initializer1` -/
  def arrayInit1Loop : Nat → Ty → List ITok → Init → Nat → Bool → P
    | 0, _, _, _, _, _ => .error .fuel
    | f+1, elem, toks, init, i, first =>
      match consumeEnd toks with
      | some rest => .ok (init, rest)
      | none => do
        let toks ← if first then pure toks else skipTok .comma "," toks
        if isBracket toks then do
          let (b, e, tok) ← arrayDesignator init.children.length toks
          let (init, tok2) ← (List.range' b (e + 1 - b)).foldlM
            (fun (acc : Init × List ITok) j => do
              let c ← getChild acc.1.children j
              let (c', t2) ← designation f elem tok c
              pure (acc.1.setChild j c', t2)) (init, tok)
          arrayInit1Loop f elem tok2 init (e + 1) false
        else if i < init.children.length then do
          let c ← getChild init.children i
          let (c', toks) ← initializer2 f elem toks c
          arrayInit1Loop f elem toks (init.setChild i c') (i + 1) false
        else do
          let toks ← skipExcess f toks
          arrayInit1Loop f elem toks init (i + 1) false
  termination_by structural f _ _ _ _ _ => f

  /-- `array_initializer1 = "{" initializer ("," initializer)* ","? "}"` -/
  def arrayInit1 : Nat → Ty → List ITok → Init → P
    | 0, _, _, _ => .error .fuel
    | f+1, elem, toks, init => do
      let toks ← skipTok .lbrace "{" toks
      let init ← (match init with
        | .flex => do
          let len ← countArrayInit f elem toks
          pure (newInit (.array elem len) false)
        | i => pure i : Except Fail Init)
      arrayInit1Loop f elem toks init 0 true
  termination_by structural f _ _ _ => f

  /-- the `for` loop of `array_initializer2` -/
  def arrayInit2Loop : Nat → Ty → List ITok → Init → Nat → P
    | 0, _, _, _, _ => .error .fuel
    | f+1, elem, toks, init, i =>
      if i < init.children.length && !isEnd toks then do
        let start := toks
        let toks ← if i > 0 then skipTok .comma "," toks else pure toks
        if isDesg toks then pure (init, start)
        else do
          let c ← getChild init.children i
          let (c', toks) ← initializer2 f elem toks c
          arrayInit2Loop f elem toks (init.setChild i c') (i + 1)
      else pure (init, toks)
  termination_by structural f _ _ _ _ => f

  /-- `array_initializer2 = initializer ("," initializer)*` -/
  def arrayInit2 : Nat → Ty → List ITok → Init → Nat → P
    | 0, _, _, _, _ => .error .fuel
    | f+1, elem, toks, init, i => do
      let init ← (match init with
        | .flex => do
          let len ← countArrayInit f elem toks
          pure (newInit (.array elem len) false)
        | x => pure x : Except Fail Init)
      arrayInit2Loop f elem toks init i
  termination_by structural f _ _ _ _ => f

  /-- the `while` loop of `struct_initializer1`; `mem` is an index into `ms` (`ms.length` = NULL) -/
  def structInit1Loop : Nat → Members → List ITok → Init → Nat → Bool → P
    | 0, _, _, _, _, _ => .error .fuel
    | f+1, ms, toks, init, mem, first =>
      match consumeEnd toks with
      | some rest => .ok (init, rest)
      | none => do
        let toks ← if first then pure toks else skipTok .comma "," toks
        match toks with
        | .dot name :: r => do
          let (k, anon) ← structDesignator name ms 0
          let tok := if anon then toks else r
          let mty ← memTy ms k
          let c ← getChild init.children k
          let (c', tok) ← designation f mty tok c
          structInit1Loop f ms tok (init.setChild k c') (k + 1) false
        | _ =>
          let mem := skipUnnamedBf ms ms.length mem
          if mem < ms.length then do
            let mty ← memTy ms mem
            let c ← getChild init.children mem
            let (c', toks) ← initializer2 f mty toks c
            structInit1Loop f ms toks (init.setChild mem c') (mem + 1) false
          else do
            let toks ← skipExcess f toks
            structInit1Loop f ms toks init mem false
  termination_by structural f _ _ _ _ _ => f

  /-- `struct_initializer1 = "{" initializer ("," initializer)* ","? "}"` -/
  def structInit1 : Nat → Members → List ITok → Init → P
    | 0, _, _, _ => .error .fuel
    | f+1, ms, toks, init => do
      let toks ← skipTok .lbrace "{" toks
      structInit1Loop f ms toks init 0 true
  termination_by structural f _ _ _ => f

  /-- `struct_initializer2 = initializer ("," initializer)*` (the whole function is its `for` loop) -/
  def structInit2 : Nat → Members → List ITok → Init → Nat → Bool → P
    | 0, _, _, _, _, _ => .error .fuel
    | f+1, ms, toks, init, mem, first =>
      match ms[mem]? with
      | none => pure (init, toks)
      | some (mi, mty) =>
        if isEnd toks then pure (init, toks)
        else if mi.bf.isSome && mi.name.isNone then structInit2 f ms toks init (mem + 1) first
        else do
          let start := toks
          let toks ← if first then pure toks else skipTok .comma "," toks
          if isDesg toks then pure (init, start)
          else do
            let c ← getChild init.children mem
            let (c', toks) ← initializer2 f mty toks c
            structInit2 f ms toks (init.setChild mem c') (mem + 1) false
  termination_by structural f _ _ _ _ _ => f

  /-- the remaining initializers of a union's list (`union_rest` of the patch): a designated one selects - and initialises - a
      member, the last one wins (C11 6.7.9p19); a member other than the one initialised so far starts from zero; others are excess -/
  def unionRest : Nat → Members → List ITok → Init → P
    | 0, _, _, _ => .error .fuel
    | f+1, ms, toks, init =>
      match consumeEnd toks with
      | some rest => .ok (init, rest)
      | none => do
        let toks ← skipTok .comma "," toks
        match toks with
        | .dot name :: r => do
          let (k, anon) ← structDesignator name ms 0
          let tok := if anon then toks else r
          let mty ← memTy ms k
          -- `if (mem != init->mem) *init->children[mem->idx] = *new_initializer(mem->ty, false);`
          let init := if init.mem? = some k then init else init.setChild k (newInit mty false)
          let init := init.setMem k
          let c ← getChild init.children k
          let (c', tok) ← designation f mty tok c
          unionRest f ms tok (init.setChild k c')
        | _ => do
          let toks ← skipExcess f toks
          unionRest f ms toks init
  termination_by structural f _ _ _ => f

  /-- `union_initializer` with `union_rest` in place of `consume(","); skip("}")` -/
  def unionInit : Nat → Members → List ITok → Init → P
    | 0, _, _, _ => .error .fuel
    | f+1, ms, toks, init =>
      match toks with
      | .lbrace :: .dot name :: r => do
        let (k, anon) ← structDesignator name ms 0
        let tok := if anon then (.dot name :: r) else r
        let mty ← memTy ms k
        let init := init.setMem k
        let c ← getChild init.children k
        let (c', tok) ← designation f mty tok c
        unionRest f ms tok (init.setChild k c')
      | _ =>
        if ms.isEmpty then (if startsBrace toks then structInit1 f ms toks init else pure (init, toks))
        else
          let k := firstNamed ms ms.length 0
          let init := init.setMem k
          match toks with
          | .lbrace :: r => do
            let mty ← memTy ms k
            let c ← getChild init.children k
            let (c', tok) ← initializer2 f mty r c
            unionRest f ms tok (init.setChild k c')
          | _ => do
            let mty ← memTy ms k
            let c ← getChild init.children k
            let (c', rest) ← initializer2 f mty toks c
            pure (init.setChild k c', rest)
  termination_by structural f _ _ _ => f

  /-- `initializer2` -/
  def initializer2 : Nat → Ty → List ITok → Init → P
    | 0, _, _, _ => .error .fuel
    | f+1, ty, toks, init =>
      match ty with
      | .array elem _ | .inc elem =>
        match toks with
        | .str _ bytes esz :: r =>
          if elem.isInteger then stringInitializer elem bytes esz r init
          else arrayInit2 f elem toks init 0
        | .lbrace :: _ => arrayInit1 f elem toks init
        | _ => arrayInit2 f elem toks init 0
      | .struct ms _ _ =>
        if startsBrace toks then structInit1 f ms toks init
        else do
          -- `struct T x = y;`
          let (e, rest) ← parseAssign toks
          if e.isStruct then pure (init.setExpr (some e), rest)
          else structInit2 f ms toks init 0 true
      | .union ms _ _ =>
        if startsBrace toks then unionInit f ms toks init
        else do
          -- `union T x = y;`
          let (e, rest) ← parseAssign toks
          if e.isUnion then pure (init.setExpr (some e), rest)
          else unionInit f ms toks init
      | .scalar _ _ =>
        match toks with
        | .lbrace :: r => do
          let (init, tok) ← initializer2 f ty r init
          let tok := match tok with | .comma :: t => t | t => t
          let rest ← skipTok .rbrace "}" tok
          pure (init, rest)
        | _ => do
          let (e, rest) ← parseAssign toks
          pure (init.setExpr (some e), rest)
  termination_by structural f _ _ _ => f


end


def initializer (fuel : Nat) (ty : Ty) (toks : List ITok) : Except Fail (Init × Ty × List ITok) := do
  let (init, rest) ← initializer2 fuel ty toks (newInit ty true)
  pure (init, resolveTy ty init, rest)

def parseInit (ty : Ty) (toks : List ITok) : Except Fail (Init × List ITok) :=
  initializer2 (stdFuel ty toks) ty toks (newInit ty true)

end ChibiVerif.Init.UFix
