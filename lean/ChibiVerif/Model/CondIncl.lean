/-
Model of conditional inclusion in /repo/preprocess.c (C10):
`preprocess2`'s directive arms for #if/#ifdef/#ifndef/#elif/#else/#endif/#define/#undef/#error,
the `cond_incl` stack (ctx IN_THEN/IN_ELIF/IN_ELSE, `included`), `skip_cond_incl`,
`skip_cond_incl2`, `skip_line`, `read_const_expr` (`defined X`, `defined(X)`), identifier→0
in `eval_const_expr`, `detect_include_guard`, and the final check in `preprocess`
("unterminated conditional directive").

Abstraction: the token stream is a list of *lines*.  A line is a text line (never starts with
`#`; its first token may well be the identifier `if`, `else`, `define` … – after a null directive
that is still text, see `is_null_directive`), or one directive.  Everything the directive arms of
`preprocess2` do not look at is dropped: the tokens after `#else/#endif/#ifdef X/#ifndef X/#undef X`
are kept only as the flag `extra` (`skip_line` warns and drops them; `detect_include_guard` *does*
look at them).  Controlling expressions are an abstract type `ε` with an evaluation function
`ev : ε → Defs β → Except Diag Bool` (`eval_const_expr(...) != 0`, or the diagnostic it raises);
every theorem is for all `ev`.  The concrete evaluator used by the driver is in `Model/PPExpr.lean`.

C sites that abort (`error_tok`) are explicit `Diag` outcomes.
Core Lean only.
-/
namespace ChibiVerif.CondIncl

/-- classes of diagnostics (`error_tok` sites reachable from the modelled arms) -/
inductive Diag where
  | strayElif        -- "stray #elif"  (no open conditional, or #elif after #else)
  | strayElse        -- "stray #else"  (no open conditional, or second #else)
  | strayEndif       -- "stray #endif"
  | unterminated     -- "unterminated conditional directive" (preprocess, after preprocess2)
  | errorDirective   -- "#error"
  | badExpr          -- any diagnostic raised while reading/evaluating a controlling expression
  | cannotOpen       -- include_file: "cannot open file"
  | badDirective     -- "invalid preprocessor directive", malformed #include operand, …
  | outOfFuel        -- only in the include machine: the include graph did not bottom out
  deriving DecidableEq, Repr

/-- decidable equality of outcomes, so that concrete runs can be compared by `decide` -/
instance instDecidableEqExcept {ε α : Type} [DecidableEq ε] [DecidableEq α] : DecidableEq (Except ε α)
  | .ok a, .ok b => if h : a = b then isTrue (by rw [h]) else isFalse (by intro h'; cases h'; exact h rfl)
  | .error a, .error b => if h : a = b then isTrue (by rw [h]) else isFalse (by intro h'; cases h'; exact h rfl)
  | .ok _, .error _ => isFalse (by intro h; cases h)
  | .error _, .ok _ => isFalse (by intro h; cases h)

-- ------------------------------------------------------------------ macro table (definedness + body)

/-- the macro table as far as conditional inclusion can observe it: name ↦ body, last write wins
    (C17 proves that hashmap.c behaves like this) -/
abbrev Defs (β : Type) := List (String × β)

namespace Defs
variable {β : Type}

def isDef (d : Defs β) (n : String) : Bool := d.any (fun p => p.1 == n)
def lookup (d : Defs β) (n : String) : Option β := (d.find? (fun p => p.1 == n)).map (·.2)
/-- `undef_macro` -/
def undef (d : Defs β) (n : String) : Defs β := d.filter (fun p => !(p.1 == n))
/-- `add_macro` (hashmap_put overwrites) -/
def define (d : Defs β) (n : String) (b : β) : Defs β := (n, b) :: d.undef n

end Defs

-- ------------------------------------------------------------------ lines

/-- lines that neither open, continue nor close a conditional -/
inductive Plain (β : Type) where
  | text (toks : List String)                 -- a text line (tokens are emitted)
  | define (n : String) (body : β)            -- #define n body
  | undef (n : String) (extra : Bool)         -- #undef n  [extra tokens]
  | error                                     -- #error …
  | bad                                       -- a directive preprocess2 rejects when it reaches it: unknown name,
                                              -- #undef / #define without a macro name ("invalid preprocessor directive", "macro name must be an identifier")
  | other                                     -- null directive, #pragma (not once), #line: no effect here
  deriving DecidableEq, Repr

/-- the three directives that open an if-section -/
inductive IfHead (ε : Type) where
  | ifE (c : ε)                               -- #if c
  | ifdef (n : String) (extra : Bool)         -- #ifdef n [extra tokens]
  | ifndef (n : String) (extra : Bool)        -- #ifndef n [extra tokens]
  | noName                                    -- #ifdef / #ifndef not followed by an identifier on the same line
  deriving DecidableEq, Repr

/-- the two directives that continue an if-section -/
inductive PartHead (ε : Type) where
  | elif (c : ε)                              -- #elif c
  | els (extra : Bool)                        -- #else [extra tokens]
  deriving DecidableEq, Repr

inductive Line (ε β : Type) where
  | plain (p : Plain β)
  | opens (h : IfHead ε)
  | part (h : PartHead ε)
  | endif (extra : Bool)                      -- #endif [extra tokens]
  deriving DecidableEq, Repr

-- ------------------------------------------------------------------ state

/-- `CondIncl.ctx` -/
inductive Ctx where
  | inThen | inElif | inElse
  deriving DecidableEq, Repr

/-- one `CondIncl` record -/
structure Frame where
  ctx : Ctx
  included : Bool
  deriving DecidableEq, Repr

/-- what is observable from outside: macro table and emitted text lines (in order) -/
structure Obs (β : Type) where
  defs : Defs β
  out : List (List String)
  deriving DecidableEq, Repr

/-- state of `preprocess2`'s loop: observable part + the `cond_incl` stack (innermost first) -/
structure St (β : Type) where
  obs : Obs β
  stack : List Frame
  deriving DecidableEq, Repr

/-- where the C program counter is: in `preprocess2`'s own loop (`proc`), or inside
    `skip_cond_incl` with `d` activations of `skip_cond_incl2` on the C stack (`skip d`;
    `skip 0` is the loop of `skip_cond_incl` itself). -/
inductive Mode where
  | proc
  | skip (d : Nat)
  deriving DecidableEq, Repr

-- ------------------------------------------------------------------ the two skip functions

variable {ε β : Type}

/-- `skip_cond_incl` (depth 0) and `skip_cond_incl2` (depth d+1 = d+1 nested activations) as one
    function over lines.  At depth 0 it returns *at* the first #elif/#else/#endif (the caller's
    loop then dispatches that directive); at depth d+1 an #endif ends one activation of
    `skip_cond_incl2` (which returns the token after `endif`; the rest of that line holds no
    line-initial `#`).  Null directives, text and all other directives are stepped over. -/
def skipFrom : Nat → List (Line ε β) → List (Line ε β)
  | _, [] => []
  | 0, l :: ls =>
    match l with
    | .opens _ => skipFrom 1 ls
    | .part _ => l :: ls
    | .endif _ => l :: ls
    | .plain _ => skipFrom 0 ls
  | d+1, l :: ls =>
    match l with
    | .opens _ => skipFrom (d+2) ls
    | .endif _ => skipFrom d ls
    | .part _ => skipFrom (d+1) ls
    | .plain _ => skipFrom (d+1) ls

/-- `skip_cond_incl(tok)` -/
def skipCondIncl (ls : List (Line ε β)) : List (Line ε β) := skipFrom 0 ls

/-- `skip_cond_incl2` as it is written in C: a loop that calls itself for a nested #if-kind line and
    returns behind the first #endif it sees itself.  `fuel` bounds loop iterations + recursion depth. -/
def skipCondIncl2C : Nat → List (Line ε β) → List (Line ε β)
  | 0, ls => ls
  | _+1, [] => []
  | f+1, l :: ls =>
    match l with
    | .opens _ => skipCondIncl2C f (skipCondIncl2C f ls)      -- tok = skip_cond_incl2(tok->next->next); continue;
    | .endif _ => ls                                          -- return tok->next->next;
    | _ => skipCondIncl2C f ls                                -- tok = tok->next;

/-- `skip_cond_incl` as it is written in C -/
def skipCondInclC : Nat → List (Line ε β) → List (Line ε β)
  | 0, ls => ls
  | _+1, [] => []
  | f+1, l :: ls =>
    match l with
    | .opens _ => skipCondInclC f (skipCondIncl2C f ls)       -- tok = skip_cond_incl2(tok->next->next); continue;
    | .part _ => l :: ls                                      -- break;
    | .endif _ => l :: ls
    | .plain _ => skipCondInclC f ls

-- ------------------------------------------------------------------ directive arms of preprocess2

/-- non-conditional lines in `preprocess2`'s loop -/
def procPlain (p : Plain β) (o : Obs β) : Except Diag (Obs β) :=
  match p with
  | .text toks => .ok { o with out := o.out ++ [toks] }
  | .define n b => .ok { o with defs := o.defs.define n b }      -- read_macro_definition → add_macro
  | .undef n _ => .ok { o with defs := o.defs.undef n }          -- undef_macro; skip_line
  | .error => .error .errorDirective                            -- error_tok(tok, "error")
  | .bad => .error .badDirective
  | .other => .ok o

/-- the value of the controlling condition of #if / #ifdef / #ifndef -/
def evalHead (ev : ε → Defs β → Except Diag Bool) (h : IfHead ε) (d : Defs β) : Except Diag Bool :=
  match h with
  | .ifE c => ev c d
  | .ifdef n _ => .ok (d.isDef n)                                -- find_macro(tok->next)
  | .ifndef n _ => .ok (!d.isDef n)
  | .noName => .error .badDirective                             -- "macro name must be an identifier"

/-- One directive (or text line) handled by `preprocess2`'s own loop.  Returns the new state and
    where control continues: `proc` (next line), or `skip 0` (the arm called `skip_cond_incl`). -/
def procLine (ev : ε → Defs β → Except Diag Bool) (l : Line ε β) (s : St β) :
    Except Diag (St β × Mode) :=
  match l with
  | .plain p => do
    let o ← procPlain p s.obs
    pure ({ s with obs := o }, .proc)
  | .opens h => do
    -- #if: val = eval_const_expr; push_cond_incl(start, val); if (!val) skip_cond_incl
    -- #ifdef/#ifndef: push_cond_incl(tok, defined / !defined); skip_line; skip_cond_incl if not taken
    let v ← evalHead ev h s.obs.defs
    pure ({ s with stack := ⟨.inThen, v⟩ :: s.stack }, if v then .proc else .skip 0)
  | .part (.elif c) =>
    match s.stack with
    | [] => .error .strayElif                                   -- !cond_incl
    | f :: st =>
      if f.ctx = .inElse then .error .strayElif                 -- cond_incl->ctx == IN_ELSE
      else if f.included then
        -- `!cond_incl->included && …` is false: the expression is NOT evaluated
        pure ({ s with stack := ⟨.inElif, true⟩ :: st }, .skip 0)
      else do
        let v ← ev c s.obs.defs
        if v then pure ({ s with stack := ⟨.inElif, true⟩ :: st }, .proc)
        else pure ({ s with stack := ⟨.inElif, false⟩ :: st }, .skip 0)
  | .part (.els _) =>
    match s.stack with
    | [] => .error .strayElse
    | f :: st =>
      if f.ctx = .inElse then .error .strayElse
      else pure ({ s with stack := ⟨.inElse, f.included⟩ :: st },
                 if f.included then .skip 0 else .proc)
  | .endif _ =>
    match s.stack with
    | [] => .error .strayEndif
    | _ :: st => pure ({ s with stack := st }, .proc)           -- cond_incl = cond_incl->next

/-- One line, in whatever mode control is.  In `skip (d+1)` (inside `skip_cond_incl2`) only
    #if-kind and #endif lines matter; in `skip 0` (inside `skip_cond_incl`) an #if-kind line starts
    `skip_cond_incl2`, and #elif/#else/#endif end the skip: `skip_cond_incl` returns *at* that
    line and `preprocess2`'s loop dispatches it. -/
def stepLine (ev : ε → Defs β → Except Diag Bool) (l : Line ε β) (m : Mode) (s : St β) :
    Except Diag (St β × Mode) :=
  match m with
  | .proc => procLine ev l s
  | .skip 0 =>
    match l with
    | .opens _ => .ok (s, .skip 1)
    | .plain _ => .ok (s, .skip 0)
    | .part _ => procLine ev l s
    | .endif _ => procLine ev l s
  | .skip (d+1) =>
    match l with
    | .opens _ => .ok (s, .skip (d+2))
    | .endif _ => .ok (s, .skip d)
    | .part _ => .ok (s, .skip (d+1))
    | .plain _ => .ok (s, .skip (d+1))

/-- `preprocess2` over a list of lines -/
def run (ev : ε → Defs β → Except Diag Bool) : List (Line ε β) → Mode → St β → Except Diag (St β × Mode)
  | [], m, s => .ok (s, m)
  | l :: ls, m, s =>
    match stepLine ev l m s with
    | .error e => .error e
    | .ok (s', m') => run ev ls m' s'

/-- `preprocess`: run `preprocess2`, then `if (cond_incl) error_tok(…, "unterminated conditional directive")` -/
def finish (r : Except Diag (St β × Mode)) : Except Diag (Obs β) :=
  match r with
  | .error e => .error e
  | .ok (s, _) => if s.stack.isEmpty then .ok s.obs else .error .unterminated

/-- **the conditional-inclusion machine**: a whole translation unit (no #include) from macro
    table `d`; result = emitted text lines and final macro table, or the diagnostic. -/
def condMachine (ev : ε → Defs β → Except Diag Bool) (ls : List (Line ε β)) (d : Defs β) :
    Except Diag (Obs β) :=
  finish (run ev ls .proc ⟨⟨d, []⟩, []⟩)

-- ------------------------------------------------------------------ detect_include_guard

/-- the scanning loop of `detect_include_guard` (entered at the `#define` line with depth 1).
    Lines that are not directives and null directives are stepped over; every directive other than
    the six conditional ones falls through all three tests. -/
def guardScan : Nat → List (Line ε β) → Bool
  | _, [] => false                                             -- EOF: return NULL
  | depth, l :: ls =>
    match l with
    | .opens _ => guardScan (depth + 1) ls
    | .part _ => if depth = 1 then false else guardScan depth ls
    | .endif extra =>
      if depth = 1 then (!extra && ls.isEmpty)                  -- dir->next->kind == TK_EOF
      else guardScan (depth - 1) ls
    | .plain _ => guardScan depth ls

/-- `detect_include_guard`: `#ifndef G` (nothing else on the line), `#define G …`, and the #endif
    that closes the #ifndef is the last token of the file, with no #elif/#else of its own. -/
def detectGuard : List (Line ε β) → Option String
  | .opens (.ifndef g false) :: .plain (.define g' b) :: rest =>
    if g = g' then (if guardScan 1 (.plain (.define g' b) :: rest) then some g else none) else none
  | _ => none

end ChibiVerif.CondIncl
