/- A software implementation of the x86-64 floating formats (IEEE-754 binary32 / binary64, x87 double extended) with
   round-to-nearest-even: the arithmetic on which the driver runs the translated floating folder and the floating Spec
   (property C07), so that both can be compared bit for bit with what the real compiler emits and with gcc.

   Nothing is *proved* about this file.  It is a model of the hardware used only on the executable side (`drv_c07`): the
   theorems of Props/C07.lean are stated for every `FpuSpec` that meets the contracts; this file is what the check runs, and
   it is validated on every run against the CPU (the folded bits of the snapshot binary, the run-time bits of the compiled
   program, gcc's bits).

   A finite datum is decoded to (−1)^neg · m · 2^e (`Spec.Fpu.Val`, `Ieee.decode*`); `+ − × ÷` are carried out exactly on
   these dyadic numbers (÷ to enough quotient bits plus a sticky bit) and rounded once to the destination format.
   NaN: an invalid operation (0/0, ∞−∞, 0·∞) delivers the x86 "real indefinite" (negative quiet NaN, zero payload); a NaN
   operand is delivered quieted (first operand first).  Core Lean only. -/
import ChibiVerif.Spec.FpuSpec

namespace ChibiVerif.SoftFp
open ChibiVerif.Spec.Fpu

/-- a binary format: `p` significant bits, `w` exponent bits, explicit integer bit (x87) or not -/
structure Fmt where
  p : Nat
  w : Nat
  explicitInt : Bool
  deriving DecidableEq, Repr

def f32 : Fmt := ⟨24, 8, false⟩
def f64 : Fmt := ⟨53, 11, false⟩
def f80 : Fmt := ⟨64, 15, true⟩

namespace Fmt
def bias (f : Fmt) : Int := 2 ^ (f.w - 1) - 1
/-- number of stored significand bits -/
def t (f : Fmt) : Nat := if f.explicitInt then f.p else f.p - 1
def width (f : Fmt) : Nat := 1 + f.w + f.t
/-- exponent of the least significant bit of a subnormal / of the smallest normal binade -/
def eminLsb (f : Fmt) : Int := 1 - f.bias - (f.p - 1 : Nat)
def emaxExp (f : Fmt) : Nat := 2 ^ f.w - 1        -- the all-ones exponent field
end Fmt

/-- assemble sign | exponent field | significand field -/
def pack (f : Fmt) (neg : Bool) (ex : Nat) (sig : Nat) : Nat :=
  (if neg then 2 ^ (f.w + f.t) else 0) + ex * 2 ^ f.t + sig

def infBits (f : Fmt) (neg : Bool) : Nat :=
  pack f neg f.emaxExp (if f.explicitInt then 2 ^ (f.p - 1) else 0)

/-- the default NaN ("real indefinite"): negative, quiet, zero payload -/
def defaultNaN (f : Fmt) : Nat :=
  pack f true f.emaxExp (if f.explicitInt then 2 ^ (f.p - 1) + 2 ^ (f.p - 2) else 2 ^ (f.p - 2))

/-- round (−1)^neg · (m + sticky·ε) · 2^e to the format (nearest, ties to even) and encode it.
    `sticky`: the exact value is a little larger in magnitude than m·2^e (less than one unit of m). -/
def roundPack (f : Fmt) (neg : Bool) (m : Nat) (e : Int) (sticky : Bool) : Nat :=
  if m = 0 then pack f neg 0 0 else
  let l := bitLen m
  -- number of low bits to drop: to p significant bits, or to the subnormal grid
  let s : Int := max ((l : Int) - f.p) (f.eminLsb - e)
  let (q, e') :=
    if s ≤ 0 then (m * 2 ^ (-s).toNat, e + s)     -- exact (sticky can only be set together with s > 0: see callers)
    else
      let sn := s.toNat
      let q0 := m / 2 ^ sn
      let r := m % 2 ^ sn
      let half := 2 ^ (sn - 1)
      let up := r > half ∨ (r = half ∧ (sticky ∨ q0 % 2 = 1))
      ((if up then q0 + 1 else q0), e + s)
  -- q · 2^e' with q ≤ 2^p; renormalise a carry out of the significand
  let (q, e') := if q = 2 ^ f.p then (2 ^ (f.p - 1), e' + 1) else (q, e')
  if q = 0 then pack f neg 0 0 else
  if q < 2 ^ (f.p - 1) then
    -- subnormal (e' = eminLsb): exponent field 0
    pack f neg 0 q
  else
    let ex : Int := e' + (f.p - 1 : Nat) + f.bias       -- biased exponent of the leading bit
    if ex ≥ f.emaxExp then infBits f neg
    else pack f neg ex.toNat (if f.explicitInt then q else q - 2 ^ (f.p - 1))

def decode (f : Fmt) (bits : Nat) : Val :=
  if f.explicitInt then Ieee.decode80 (BitVec.ofNat 80 bits) else Ieee.decodeIeee f.w (f.p - 1) bits

/-- the sign bit -/
def signOf (f : Fmt) (bits : Nat) : Bool := bits / 2 ^ (f.w + f.t) % 2 = 1

/-- quiet a NaN: set the most significant fraction bit -/
def quiet (f : Fmt) (bits : Nat) : Nat :=
  let qb := 2 ^ (f.p - 2)
  if bits / qb % 2 = 1 then bits else bits + qb

/-- re-encode a value in format `f` (rounding if needed); a NaN keeps its sign and its payload's leading bits -/
def encode (f : Fmt) (src : Fmt) (srcBits : Nat) (v : Val) : Nat :=
  match v with
  | .nan =>
    -- NaN conversion: sign kept, payload truncated / extended on the left, quieted
    let neg := signOf src srcBits
    let frac := srcBits % 2 ^ (src.p - 1)
    let frac' := if f.p ≥ src.p then frac * 2 ^ (f.p - src.p) else frac / 2 ^ (src.p - f.p)
    quiet f (pack f neg f.emaxExp ((if f.explicitInt then 2 ^ (f.p - 1) else 0) + frac'))
  | .inf neg => infBits f neg
  | .fin neg m e => roundPack f neg m e false

def convert (src dst : Fmt) (bits : Nat) : Nat := encode dst src bits (decode src bits)

/-- m1·2^e1 ± m2·2^e2 exactly, as (neg, m, e) -/
def addExact (n1 : Bool) (m1 : Nat) (e1 : Int) (n2 : Bool) (m2 : Nat) (e2 : Int) : Bool × Nat × Int :=
  let e0 := min e1 e2
  let a : Int := Val.scaled n1 m1 e1 e0
  let b : Int := Val.scaled n2 m2 e2 e0
  let r := a + b
  (decide (r < 0), r.natAbs, e0)

inductive Op where | add | sub | mul | div
  deriving DecidableEq, Repr

def isNaNBits (f : Fmt) (bits : Nat) : Bool := (decode f bits).isNaN

/-- `a op b` in format `f` -/
def arith (f : Fmt) (op : Op) (a b : Nat) : Nat :=
  let va := decode f a
  let vb := decode f b
  if va.isNaN then quiet f a
  else if vb.isNaN then quiet f b
  else
    let flip (v : Val) : Val := match v with | .inf n => .inf (!n) | .fin n m e => .fin (!n) m e | .nan => .nan
    match op with
    | .add | .sub =>
      let vb := if op = .sub then flip vb else vb
      match va, vb with
      | .inf n1, .inf n2 => if n1 = n2 then infBits f n1 else defaultNaN f
      | .inf n1, _ => infBits f n1
      | _, .inf n2 => infBits f n2
      | .fin n1 m1 e1, .fin n2 m2 e2 =>
        let (n, m, e) := addExact n1 m1 e1 n2 m2 e2
        if m = 0 then
          -- exact zero sum: +0 unless both operands are −0 (round to nearest)
          pack f (n1 && n2) 0 0
        else roundPack f n m e false
      | _, _ => defaultNaN f
    | .mul =>
      match va, vb with
      | .inf n1, .inf n2 => infBits f (n1 != n2)
      | .inf n1, .fin n2 m2 _ => if m2 = 0 then defaultNaN f else infBits f (n1 != n2)
      | .fin n1 m1 _, .inf n2 => if m1 = 0 then defaultNaN f else infBits f (n1 != n2)
      | .fin n1 m1 e1, .fin n2 m2 e2 => roundPack f (n1 != n2) (m1 * m2) (e1 + e2) false
      | _, _ => defaultNaN f
    | .div =>
      match va, vb with
      | .inf _, .inf _ => defaultNaN f
      | .inf n1, .fin n2 _ _ => infBits f (n1 != n2)
      | .fin n1 _ _, .inf n2 => pack f (n1 != n2) 0 0
      | .fin n1 m1 e1, .fin n2 m2 e2 =>
        if m2 = 0 then (if m1 = 0 then defaultNaN f else infBits f (n1 != n2))
        else if m1 = 0 then pack f (n1 != n2) 0 0
        else
          -- quotient to at least p+2 bits, remainder as sticky
          let k := f.p + 2 + bitLen m2
          let num := m1 * 2 ^ k
          let q := num / m2
          let r := num % m2
          roundPack f (n1 != n2) (2 * q + (if r = 0 then 0 else 1)) (e1 - e2 - k - 1) false
      | _, _ => defaultNaN f

/-- negation: the sign bit is complemented -/
def neg (f : Fmt) (a : Nat) : Nat :=
  if signOf f a then a - 2 ^ (f.w + f.t) else a + 2 ^ (f.w + f.t)

/-- the integer `v` in format `f` (rounded) -/
def ofInt (f : Fmt) (v : Int) : Nat := roundPack f (decide (v < 0)) v.natAbs 0 false

def bv (n : Nat) (x : Nat) : BitVec n := BitVec.ofNat n x

/-- the x87 / SSE truncating conversion to a signed 64-bit integer ("integer indefinite" when it does not fit) -/
def toI64 (f : Fmt) (a : Nat) : BitVec 64 := truncTo 64 (decode f a)

/-- what gcc's sequence for `(uint64_t)x` delivers: below 2^63 the signed conversion, from 2^63 on the signed conversion of
    x − 2^63 with the top bit complemented -/
def toU64 (f : Fmt) (a : Nat) : BitVec 64 :=
  match (decode f a).trunc? with
  | some t => if t < 2 ^ 63 then truncTo 64 (decode f a)
              else if t < 2 ^ 64 then BitVec.ofInt 64 t else indefinite 64 ^^^ (1#64 <<< 63)
  | none => indefinite 64

def fitsI64 (f : Fmt) (a : Nat) : Bool :=
  match (decode f a).trunc? with
  | some t => decide (-(2 ^ 63 : Int) ≤ t ∧ t < 2 ^ 63)
  | none => false

def fitsU64 (f : Fmt) (a : Nat) : Bool :=
  match (decode f a).trunc? with
  | some t => decide (0 ≤ t ∧ t < 2 ^ 64)
  | none => false

def cmp (f : Fmt) (a b : Nat) : Rel := Val.cmp (decode f a) (decode f b)

end ChibiVerif.SoftFp
