/- The typed tree chibicc builds for an integer constant expression (property C07): parse.c
   (`new_binary`, `new_unary`, `new_cast`, `unary` "+", `relational` swapping `>`/`>=`) followed by type.c
   `add_type` (`usual_arith_conv`, `get_common_type`, promotion of the operand of `- ~ << >>`).
   Hand-written; tied to the code on every run by the differential leg of checklib/C07.py (the folded value the
   real compiler emits for an expression is compared with `Gen.eval2 (elabE e)`).  Core Lean only. -/
import ChibiVerif.Gen.ConstEvalGen
import ChibiVerif.Spec.ConstSpec

namespace ChibiVerif.ConstElab
open ChibiVerif.Gen.ConstEval ChibiVerif.Spec.Const

/-- the `Type` object chibicc uses for each integer type (type.c `ty_bool` ... `ty_ulong`) -/
def descr : ITy → CTy
  | .bool => ⟨.TY_BOOL, 1, false⟩
  | .i8 => ⟨.TY_CHAR, 1, false⟩
  | .u8 => ⟨.TY_CHAR, 1, true⟩
  | .i16 => ⟨.TY_SHORT, 2, false⟩
  | .u16 => ⟨.TY_SHORT, 2, true⟩
  | .i32 => ⟨.TY_INT, 4, false⟩
  | .u32 => ⟨.TY_INT, 4, true⟩
  | .i64 => ⟨.TY_LONG, 8, false⟩
  | .u64 => ⟨.TY_LONG, 8, true⟩

def tyInt : CTy := descr .i32

/-- type.c `get_common_type` on integer types (no pointers, no floating types) -/
def getCommonType (ty1 ty2 : CTy) : CTy :=
  let ty1 := if ty1.size.toNat < 4 then tyInt else ty1
  let ty2 := if ty2.size.toNat < 4 then tyInt else ty2
  if ty1.size ≠ ty2.size then (if ty1.size.toNat < ty2.size.toNat then ty2 else ty1)
  else if ty2.isUnsigned then ty2 else ty1

def nodeTy : CNode → CTy
  | .null => tyInt
  | .mk _ ty _ _ _ _ _ _ _ => ty

def un (k : NodeKind) (ty : CTy) (a : CNode) : CNode := .mk k ty 0 0 a .null .null .null .null
def bin (k : NodeKind) (ty : CTy) (a b : CNode) : CNode := .mk k ty 0 0 a b .null .null .null
/-- `new_cast(expr, ty)` -/
def mkCast (a : CNode) (ty : CTy) : CNode := un .ND_CAST ty a

/-- arithmetic arms of `add_type`: `usual_arith_conv(&lhs, &rhs); node->ty = lhs->ty` -/
def mkArith (k : NodeKind) (a b : CNode) : CNode :=
  let t := getCommonType (nodeTy a) (nodeTy b)
  bin k t (mkCast a t) (mkCast b t)
/-- comparison arms: `usual_arith_conv(&lhs, &rhs); node->ty = ty_int` -/
def mkCompare (k : NodeKind) (a b : CNode) : CNode :=
  let t := getCommonType (nodeTy a) (nodeTy b)
  bin k tyInt (mkCast a t) (mkCast b t)
/-- `ND_NEG`, `ND_BITNOT`, `ND_SHL`, `ND_SHR`: the (left) operand is promoted, the result has the promoted type -/
def mkPromoted (k : NodeKind) (a b : CNode) : CNode :=
  let t := getCommonType tyInt (nodeTy a)
  .mk k t 0 0 (mkCast a t) b .null .null .null

def elabE : CExpr → CNode
  | .lit t v => .mk .ND_NUM (descr t) (BitVec.ofInt 64 v) 0 .null .null .null .null .null
  | .un .neg e => mkPromoted .ND_NEG (elabE e) .null
  | .un .bitnot e => mkPromoted .ND_BITNOT (elabE e) .null
  | .un .lognot e => un .ND_NOT tyInt (elabE e)
  | .un .plus e =>
    let n := elabE e
    if isInteger (nodeTy n) && (nodeTy n).size.toNat < 4 then mkCast n tyInt else n
  | .bin op a b =>
    let x := elabE a
    let y := elabE b
    match op with
    | .add => mkArith .ND_ADD x y
    | .sub => mkArith .ND_SUB x y
    | .mul => mkArith .ND_MUL x y
    | .div => mkArith .ND_DIV x y
    | .mod => mkArith .ND_MOD x y
    | .band => mkArith .ND_BITAND x y
    | .bor => mkArith .ND_BITOR x y
    | .bxor => mkArith .ND_BITXOR x y
    | .shl => mkPromoted .ND_SHL x y
    | .shr => mkPromoted .ND_SHR x y
    | .eq => mkCompare .ND_EQ x y
    | .ne => mkCompare .ND_NE x y
    | .lt => mkCompare .ND_LT x y
    | .le => mkCompare .ND_LE x y
    | .gt => mkCompare .ND_LT y x          -- relational(): `a > b` is built as `b < a`
    | .ge => mkCompare .ND_LE y x
  | .land a b => bin .ND_LOGAND tyInt (elabE a) (elabE b)
  | .lor a b => bin .ND_LOGOR tyInt (elabE a) (elabE b)
  | .cond c a b =>
    let x := elabE a
    let y := elabE b
    let t := getCommonType (nodeTy x) (nodeTy y)
    .mk .ND_COND t 0 0 .null .null (elabE c) (mkCast x t) (mkCast y t)
  | .cast t e => mkCast (elabE e) (descr t)

/-- a host without floating arithmetic (integer constant expressions never consult it) -/
def noFp : FpEnv := ChibiVerif.Host.HostFp.none

end ChibiVerif.ConstElab
