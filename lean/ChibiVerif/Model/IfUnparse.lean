/-
The printer that belongs to the `#if` parser of Model/IfParse.lean: a tree as a token line with the MINIMAL parentheses the
C11 grammar requires (an operand is parenthesised exactly when its outermost construct binds weaker than the operand position
allows: level of the operator for a left operand, one level tighter for a right operand, cast-expression for the operand of a
unary operator, logical-OR-expression for the condition of `?:`, conditional-expression for its third operand and for the
left operand of a comma; the middle operand of `?:` and the right operand of a comma are never parenthesised).

`Props/C10IfParseUnparse.lean` proves that the C11 grammar derives the printed line with the printed tree, hence (completeness)
that the parser maps it back to the tree: the image of the parser is exactly `WF`.  Core Lean only.
-/
import ChibiVerif.Model.IfParse

namespace ChibiVerif.IfParse
open ChibiVerif.PPExpr

/-- C11 level of a binary operator: 1 = multiplicative … 10 = logical OR -/
def binLevel : BinOp → Nat
  | .mul | .div | .mod => 1
  | .add | .sub => 2
  | .shl | .shr => 3
  | .lt | .le | .gt | .ge => 4
  | .eq | .ne => 5
  | .band => 6
  | .bxor => 7
  | .bor => 8
  | .land => 9
  | .lor => 10

def binSym : BinOp → String
  | .mul => "*" | .div => "/" | .mod => "%" | .add => "+" | .sub => "-" | .shl => "<<" | .shr => ">>"
  | .lt => "<" | .le => "<=" | .gt => ">" | .ge => ">=" | .eq => "==" | .ne => "!=" | .band => "&" | .bxor => "^"
  | .bor => "|" | .land => "&&" | .lor => "||"

def unSym : UnOp → String
  | .neg => "-" | .plus => "+" | .bnot => "~" | .lnot => "!"

/-- the tightest position the outermost construct of a tree can stand in: 0 = cast-expression, 1 … 10 = the binary levels,
    11 = conditional-expression, 12 = expression -/
def PT.prec : PT → Nat
  | .num _ _ => 0
  | .un _ _ => 0
  | .bin op _ _ => binLevel op
  | .cond _ _ _ => 11
  | .comma _ _ => 12

def parens (ts : List PTok) : List PTok := .punct "(" :: ts ++ [.punct ")"]

/-- the printed operand `ts` of tree `t` in a position that allows levels ≤ `k` -/
def atLvl (k : Nat) (t : PT) (ts : List PTok) : List PTok := if t.prec ≤ k then ts else parens ts

def unparse : PT → List PTok
  | .num v u => [.num v u]
  | .un op e => .punct (unSym op) :: atLvl 0 e (unparse e)
  | .bin op a b => atLvl (binLevel op) a (unparse a) ++ .punct (binSym op) :: atLvl (binLevel op - 1) b (unparse b)
  | .cond c a b => atLvl 10 c (unparse c) ++ .punct "?" :: (unparse a ++ .punct ":" :: atLvl 11 b (unparse b))
  | .comma a b => atLvl 11 a (unparse a) ++ .punct "," :: unparse b

/-- the line of a `#if`: a constant-expression (a comma operator at the top is parenthesised) -/
def unparseTop (t : PT) : List PTok := atLvl 11 t (unparse t)

/-- the trees parse.c builds: no node for unary `+` (unary() returns the operand), no node kinds for `>` `>=` (relational()
    builds ND_LT / ND_LE with the operands exchanged) -/
def PT.WF : PT → Bool
  | .num _ _ => true
  | .un op e => op != .plus && e.WF
  | .bin op a b => op != .gt && op != .ge && a.WF && b.WF
  | .cond c a b => c.WF && a.WF && b.WF
  | .comma a b => a.WF && b.WF

end ChibiVerif.IfParse
