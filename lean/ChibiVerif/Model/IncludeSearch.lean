/-
Model of #include / #include_next resolution and of the re-inclusion shortcuts (C10):
/repo/preprocess.c `search_include_paths` (with its `cache`), `search_include_next`, the `#include`
and `#include_next` arms of `preprocess2` (the "directory of the including file" rule for the quoted
form), `include_file` (the `pragma_once` table, the `include_guards` table, `detect_include_guard`),
the `#pragma once` arm; /repo/main.c: how `include_paths` is assembled (-I in order, the default
system directories, -idirafter), `-D and -U` (applied while the command line is scanned), `-include`
(files tokenized before the main file).

The file system is a function `path ↦ lines` (`FS`); `file_exists` is definedness.  Paths are
the strings chibicc builds (`format("%s/%s", dir, name)`), compared as strings like the C code does
(the hash maps are keyed by the path string, so two spellings of one file are two keys).

`runInc` is `preprocess2` over lines *with* #include: an included file's lines are spliced in front
of the rest of the input (`append(tok2, tok)`), so an included file shares the `cond_incl` stack
with its includer, exactly like the C code.  It is structurally recursive on a step budget; running
out of budget is the explicit outcome `outOfFuel`.

NOTE (commit b453bf4 of /repo): `include_file` now refuses an #include at nesting depth 200.  The
machine WITH that limit – and with the third operand form `#include MACRO` – is
Model/IncludeDepth.lean (`runIncD`, the total `runAt` / `includeRun`); it reuses the search
functions, tables and `IState` defined here.  `includeFile`, `stepInc`, `runInc`, `cmdStream` and
`runMain` below are the code BEFORE that commit (no nesting limit: an include cycle without guards
exhausts every budget); they are kept unchanged because Findings/C10.lean and property C13 state the
pre-fix behaviour on them.  The driver and Props/C10.lean use Model/IncludeDepth.lean.

Core Lean only.
-/
import ChibiVerif.Model.CondIncl
import ChibiVerif.Gen.C10InclGen

namespace ChibiVerif.IncludeSearch
open ChibiVerif.CondIncl
open ChibiVerif.Gen.C10Incl (Seg pathOrder)

-- ------------------------------------------------------------------ command line → include_paths

/-- the directory options of one command line -/
structure Config where
  iDirs : List String          -- -I, in command-line order
  sysDirs : List String        -- what add_default_include_paths pushes (argv[0]'s directory resolved)
  idirafter : List String      -- -idirafter, in command-line order
  deriving DecidableEq, Repr

def Config.seg (c : Config) : Seg → List String
  | .I => c.iDirs
  | .sys => c.sysDirs
  | .after => c.idirafter

/-- `include_paths` as the cc1 child sees it (order of pushes regenerated from main.c) -/
def includePaths (c : Config) : List String := pathOrder.flatMap c.seg

-- ------------------------------------------------------------------ paths

/-- `format("%s/%s", dir, name)` -/
def joinPath (dir name : String) : String := dir ++ "/" ++ name

/-- `filename[0] == '/'` -/
def isAbs (name : String) : Bool := name.toList.head? == some '/'

/-- POSIX `dirname` on the characters of a path (no trailing-slash cases: file names never end in `/`) -/
def dirnameChars (p : List Char) : List Char :=
  let r := p.reverse.dropWhile (· != '/')          -- reversed, starts with the last '/' (or empty)
  match r with
  | [] => ['.']
  | _ :: r' =>
    let d := (r'.dropWhile (· == '/')).reverse       -- strip the slash run
    if d.isEmpty then ['/'] else d

/-- `dirname(strdup(start->file->name))` -/
def dirname (p : String) : String := String.ofList (dirnameChars p.toList)

/-- `!strncmp(dir, cur_file, len) && cur_file[len] == '/'` -/
def isDirPrefix (dir cur : String) : Bool := (dir.toList ++ ['/']).isPrefixOf cur.toList

-- ------------------------------------------------------------------ the two search functions

/-- first directory of `dirs` in which `name` exists -/
def firstExisting (fsx : String → Bool) (dirs : List String) (name : String) : Option String :=
  (dirs.map (joinPath · name)).find? fsx

/-- the filename → path memo table of `search_include_paths` -/
abbrev Cache := List (String × String)

def Cache.get (c : Cache) (name : String) : Option String := (c.find? (·.1 == name)).map (·.2)

/-- `search_include_paths(filename)`; returns the answer and the new cache -/
def searchIncludePaths (fsx : String → Bool) (paths : List String) (cache : Cache) (name : String) :
    Option String × Cache :=
  if isAbs name then (some name, cache)
  else match cache.get name with
    | some p => (some p, cache)
    | none =>
      match firstExisting fsx paths name with
      | some p => (some p, (name, p) :: cache)
      | none => (none, cache)

/-- index of the first `include_paths` entry that is a directory prefix of the current file -/
def dirPrefixIdx (paths : List String) (cur : String) : Option Nat :=
  let i := paths.findIdx (isDirPrefix · cur)
  if i < paths.length then some i else none

/-- `search_include_next(filename, cur_file)` -/
def searchIncludeNext (fsx : String → Bool) (paths : List String) (name cur : String) : Option String :=
  let start := match dirPrefixIdx paths cur with | some i => i + 1 | none => 0
  firstExisting fsx (paths.drop start) name

/-- path opened by `#include "name"` / `#include <name>` in file `cur` (arm of preprocess2);
    when nothing is found the name itself is handed to `include_file` -/
def resolveInclude (fsx : String → Bool) (paths : List String) (cache : Cache) (cur : String) (dq : Bool)
    (name : String) : String × Cache :=
  if !isAbs name && dq && fsx (joinPath (dirname cur) name) then (joinPath (dirname cur) name, cache)
  else
    let r := searchIncludePaths fsx paths cache name
    (r.1.getD name, r.2)

/-- path opened by `#include_next` in file `cur` -/
def resolveIncludeNext (fsx : String → Bool) (paths : List String) (cur name : String) : String :=
  (searchIncludeNext fsx paths name cur).getD name

-- ------------------------------------------------------------------ lines with #include

variable {ε β : Type}

inductive ILine (ε β : Type) where
  | c (l : Line ε β)                          -- everything Model/CondIncl.lean knows
  | incl (dq : Bool) (name : String)          -- #include "name" (dq) / <name>; extra tokens dropped by skip_line
  | includeNext (name : String)               -- #include_next "name" / <name>
  | pragmaOnce                                -- #pragma once
  deriving DecidableEq, Repr

/-- how the skip functions and detect_include_guard see a line -/
def ILine.toLine : ILine ε β → Line ε β
  | .c l => l
  | _ => .plain .other

/-- the file system: path ↦ lines of the file (`none`: no such file) -/
abbrev FS (ε β : Type) := String → Option (List (ILine ε β))

def FS.get (fs : FS ε β) (p : String) : Option (List (ILine ε β)) := fs p
/-- `file_exists` -/
def FS.has (fs : FS ε β) (p : String) : Bool := (fs p).isSome

/-- a file system given as a finite table, paths compared literally -/
def FS.ofTable (t : List (String × List (ILine ε β))) : FS ε β :=
  fun p => (t.find? (·.1 == p)).map (·.2)

/-- what the operating system does with a path: `.` and empty components vanish, `x/..` cancels
    (the generated trees have no symbolic links).  Only the *file system* normalises; chibicc's own
    tables (`pragma_once`, `include_guards`, the cache) are keyed by the spelling. -/
def normComponents : List String → List String → List String
  | acc, [] => acc.reverse
  | acc, c :: cs =>
    if c == "" || c == "." then normComponents acc cs
    else if c == ".." then
      match acc with
      | a :: acc' => if a == ".." then normComponents (c :: acc) cs else normComponents acc' cs
      | [] => normComponents [c] cs
    else normComponents (c :: acc) cs

def normPath (p : String) : String :=
  (if isAbs p then "/" else "") ++ "/".intercalate (normComponents [] (p.splitOn "/"))

/-- a file system given as a table of normalised paths; lookups normalise the path first (driver) -/
def FS.ofTableNorm (t : List (String × List (ILine ε β))) : FS ε β :=
  fun p => FS.ofTable t (normPath p)

/-- state of preprocess2 with includes -/
structure IState (β : Type) where
  st : St β
  once : List String                          -- keys of `pragma_once`
  guards : List (String × String)             -- `include_guards`: path ↦ guard macro
  cache : Cache                               -- `search_include_paths`' cache
  deriving Repr

def guardOf (guards : List (String × String)) (p : String) : Option String :=
  (guards.find? (·.1 == p)).map (·.2)

/-- `hashmap_put(&include_guards, path, guard_name)` (putting the value a key already has changes nothing) -/
def putGuard (guards : List (String × String)) (path g : String) : List (String × String) :=
  if guardOf guards path = some g then guards else (path, g) :: guards.filter (·.1 != path)

/-- `include_file(tok, path, …)`: the lines to splice in front of the rest, or nothing (shortcut) -/
def includeFile (fs : FS ε β) (useGuards : Bool) (path : String) (s : IState β) :
    Except Diag (List (String × ILine ε β) × IState β) :=
  if s.once.contains path then .ok ([], s)                        -- hashmap_get(&pragma_once, path)
  else
    let shortcut := useGuards &&
      (match guardOf s.guards path with
       | some g => s.st.obs.defs.isDef g                          -- guard_name && hashmap_get(&macros, guard_name)
       | none => false)
    if shortcut then .ok ([], s)
    else match fs.get path with
      | none => .error .cannotOpen                                -- tokenize_file failed
      | some ls =>
        let s' := match detectGuard (ls.map ILine.toLine) with
          | some g => { s with guards := putGuard s.guards path g }
          | none => s
        .ok (ls.map (fun l => (path, l)), s')

/-- one line of `preprocess2`'s loop (or of the skip functions) with includes: the lines to splice
    in front of the rest of the input, the new state, and where control continues -/
def stepInc (ev : ε → Defs β → Except Diag Bool) (fs : FS ε β) (paths : List String) (useGuards : Bool)
    (file : String) (l : ILine ε β) (m : Mode) (s : IState β) :
    Except Diag (List (String × ILine ε β) × IState β × Mode) :=
  match m, l with
  | .proc, .incl dq name =>
    let r := resolveInclude fs.has paths s.cache file dq name
    match includeFile fs useGuards r.1 { s with cache := r.2 } with
    | .error e => .error e
    | .ok (ls, s') => .ok (ls, s', .proc)
  | .proc, .includeNext name =>
    match includeFile fs useGuards (resolveIncludeNext fs.has paths file name) s with
    | .error e => .error e
    | .ok (ls, s') => .ok (ls, s', .proc)
  | .proc, .pragmaOnce => .ok ([], { s with once := file :: s.once }, .proc)
  | m, l =>
    match stepLine ev l.toLine m s.st with
    | .error e => .error e
    | .ok (st', m') => .ok ([], { s with st := st' }, m')

/-- `preprocess2` over lines tagged with the file they come from.  `useGuards = false` is the same
    machine without the include-guard shortcut (plain textual inclusion; `#pragma once` keeps its
    meaning). -/
def runInc (ev : ε → Defs β → Except Diag Bool) (fs : FS ε β) (paths : List String) (useGuards : Bool) :
    Nat → List (String × ILine ε β) → Mode → IState β → Except Diag (IState β × Mode)
  | _, [], m, s => .ok (s, m)
  | 0, _ :: _, _, _ => .error .outOfFuel
  | fuel+1, (file, l) :: rest, m, s =>
    match stepInc ev fs paths useGuards file l m s with
    | .error e => .error e
    | .ok (ls, s', m') => runInc ev fs paths useGuards fuel (ls ++ rest) m' s'

-- ------------------------------------------------------------------ command line: -D, -U, -include

/-- the options of one command line that C10 is about, in command-line order -/
inductive Opt (β : Type) where
  | D (n : String) (body : β)      -- -Dn=body, -D n=body  (-Dn is body "1")
  | U (n : String)                 -- -Un, -U n
  | I (dir : String)
  | idirafter (dir : String)
  | inc (file : String)
  deriving DecidableEq, Repr

/-- `parse_args`: -D and -U act on the macro table at once, in command-line order -/
def applyDU (d : Defs β) : List (Opt β) → Defs β
  | [] => d
  | .D n b :: os => applyDU (d.define n b) os
  | .U n :: os => applyDU (d.undef n) os
  | _ :: os => applyDU d os

def optConfig (sysDirs : List String) (os : List (Opt β)) : Config :=
  { iDirs := os.filterMap (fun o => match o with | .I d => some d | _ => none),
    sysDirs := sysDirs,
    idirafter := os.filterMap (fun o => match o with | .idirafter d => some d | _ => none) }

def optIncludes (os : List (Opt β)) : List String :=
  os.filterMap (fun o => match o with | .inc f => some f | _ => none)

/-- `cc1`: path of one -include file: the name itself if it exists (relative to the working
    directory), else `search_include_paths` -/
def resolveCmdInclude (fsx : String → Bool) (paths : List String) (cache : Cache) (name : String) :
    Except Diag (String × Cache) :=
  if fsx name then .ok (name, cache)
  else match searchIncludePaths fsx paths cache name with
    | (some p, c) => .ok (p, c)
    | (none, _) => .error .cannotOpen

/-- `cc1`: the token stream handed to `preprocess`: the -include files in order, then the main file
    (each tagged with its own path) -/
def cmdStream (fs : FS ε β) (paths : List String) :
    List String → Cache → String → Except Diag (List (String × ILine ε β) × Cache)
  | [], cache, main =>
    match fs.get main with
    | none => .error .cannotOpen
    | some ls => .ok (ls.map (fun l => (main, l)), cache)
  | f :: fsn, cache, main =>
    match resolveCmdInclude fs.has paths cache f with
    | .error e => .error e
    | .ok (p, cache') =>
      match fs.get p with
      | none => .error .cannotOpen
      | some ls =>
        match cmdStream fs paths fsn cache' main with
        | .error e => .error e
        | .ok (rest, c) => .ok (ls.map (fun l => (p, l)) ++ rest, c)

/-- one whole run of `chibicc -E <options> main`: emitted text lines and final macro table -/
def runMain (ev : ε → Defs β → Except Diag Bool) (fs : FS ε β) (sysDirs : List String) (builtin : Defs β)
    (os : List (Opt β)) (main : String) (useGuards : Bool) (fuel : Nat) : Except Diag (Obs β) :=
  let paths := includePaths (optConfig sysDirs os)
  match cmdStream fs paths (optIncludes os) [] main with
  | .error e => .error e
  | .ok (stream, cache) =>
    match runInc ev fs paths useGuards fuel stream .proc ⟨⟨⟨applyDU builtin os, []⟩, []⟩, [], [], cache⟩ with
    | .error e => .error e
    | .ok (s, m) => finish (.ok (s.st, m))

end ChibiVerif.IncludeSearch
