/-
Byte loops of codegen.c (property C04: whole-aggregate assignment, pass/return by value, zero fill).

  store(struct|union)   pop %rdi;            for (i = 0; i < ty->size; i++) { mov i(%rax), %r8b;  mov %r8b, i(%rdi) }
  push_struct           sub $align_to(size, 8), %rsp;  for (…)            { mov i(%rax), %r10b; mov %r10b, i(%rsp) }
  copy_struct_mem       mov off(%rbp), %rdi;  for (…)                     { mov i(%rax), %dl;   mov %dl, i(%rdi) }; mov %rdi, %rax
  ND_MEMZERO            mov $size, %rcx; lea off(%rbp), %rdi; mov $0, %al; rep stosb

The instruction lists are regenerated from the source (`Gen.C04.storeStructLines`, `pushStructLines`,
`copyStructMemLines`, `memzeroLines`: `(List.range size).flatMap …` with the loop bound `ty->size` checked by the
translator).  This file gives their meaning on a byte-addressed memory.  Addresses are `Int` (no wrap-around).
Core Lean only.
-/
import ChibiVerif.Gen.C04Gen

namespace ChibiVerif.Copy
open ChibiVerif.Gen.C04 ChibiVerif.Asm
open ChibiVerif.Gen.Declspec (alignTo)

abbrev Mem := Int → BitVec 8

/-- one trip: `mov i(%src), %tmp; mov %tmp, i(%dst)` -/
def moveByte (src dst : Int) (m : Mem) (i : Nat) : Mem :=
  fun a => if a = dst + i then m (src + i) else m a

/-- the loop, in the order of the emitted lines (`List.range size`: i = 0, 1, …, size-1) -/
def copyBytes (m : Mem) (src dst : Int) (size : Nat) : Mem :=
  (List.range size).foldl (moveByte src dst) m

/-- `rep stosb` with DF = 0: store %al at (%rdi), rdi++, rcx--, until rcx = 0 -/
def repStosb (m : Mem) (al : BitVec 8) (rdi : Int) : Nat → Mem
  | 0 => m
  | rcx + 1 => repStosb (fun a => if a = rdi then al else m a) al (rdi + 1) rcx

/-- ND_MEMZERO for a local at `rbp + offset` -/
def memzero (m : Mem) (rbp offset : Int) (size : Nat) : Mem :=
  repStosb m 0 (rbp + offset) size

/-- `push_struct`: new %rsp and memory -/
def pushStruct (m : Mem) (rsp src : Int) (size : Nat) : Int × Mem :=
  let rsp' := rsp - alignTo size 8
  (rsp', copyBytes m src rsp' size)

/-- the loops are the ones the code prints -/
theorem storeStructLines_shape (size : Nat) : storeStructLines size =
    [.ins ⟨"pop", [.r "%rdi"]⟩] ++ ((List.range size).flatMap fun i =>
      [.ins ⟨"mov", [.m (i : Int) "%rax", .r "%r8b"]⟩, .ins ⟨"mov", [.r "%r8b", .m (i : Int) "%rdi"]⟩]) := rfl

theorem pushStructLines_shape (size : Nat) : pushStructLines size =
    [.ins ⟨"sub", [.i (alignTo (size : Int) 8), .r "%rsp"]⟩] ++ ((List.range size).flatMap fun i =>
      [.ins ⟨"mov", [.m (i : Int) "%rax", .r "%r10b"]⟩, .ins ⟨"mov", [.r "%r10b", .m (i : Int) "%rsp"]⟩]) := rfl

theorem copyStructMemLines_shape (off : Int) (size : Nat) : copyStructMemLines off size =
    [.ins ⟨"mov", [.m off "%rbp", .r "%rdi"]⟩] ++ ((List.range size).flatMap fun i =>
      [.ins ⟨"mov", [.m (i : Int) "%rax", .r "%dl"]⟩, .ins ⟨"mov", [.r "%dl", .m (i : Int) "%rdi"]⟩]) ++
    [.ins ⟨"mov", [.r "%rdi", .r "%rax"]⟩] := rfl

theorem memzeroLines_shape (size : Nat) (off : Int) : memzeroLines size off =
    [.ins ⟨"mov", [.i (size : Int), .r "%rcx"]⟩, .ins ⟨"lea", [.m off "%rbp", .r "%rdi"]⟩,
     .ins ⟨"mov", [.i 0, .r "%al"]⟩, .ins ⟨"rep", [.s "stosb"]⟩] := rfl

end ChibiVerif.Copy
