/-
C01: `gen_expr` on expressions whose *objects* are reached through lvalues other than plain variables — `compileJ`
(Model/C01ExprJ) with the address of every object computed by the `gen_addr` code of the lvalue that designates it
(`s.m`, `p->m`, `*p`, `a[c]`, `p[c]`, … anywhere in the expression: as an operand, assigned, compound-assigned,
incremented).  Core Lean only (`drv_c01 compilea` runs it).

The variables of the store are the scalar objects of the program; `Acc` says how chibicc reaches each of them:
`pcode i` = `gen_addr` of the lvalue (of its parent `P` when the lvalue is a member `P.x`, because parse.c `to_assign`
takes the address of `P`), `dsuf i` = `add $offset(x), %rax` for a member and nothing otherwise.  The address code is
straight-line and free of side effects (index expressions are in the `compileE` fragment), so it draws no label number and
creates no temporary; `accOfL` builds it from a table of lvalues (Model/C01Lvalue `LVal`).
With `Acc.direct` (every object a plain variable: `lea off(%rbp), %rax`) `compileA` is `compileJ` (`compileA_direct`).
-/
import ChibiVerif.Model.C01Lvalue

namespace ChibiVerif.C01
open ChibiVerif.Asm ChibiVerif.Spec.IntSpec ChibiVerif.Gen.CommonType ChibiVerif.C01Codegen ChibiVerif.X86 ChibiVerif.X86J

/-- how the address of each object is computed -/
structure Acc where
  /-- `gen_addr` of the lvalue that designates object `i`; of its parent when the lvalue is a member -/
  pcode : Nat → List Ins
  /-- `add $offset, %rax` when the lvalue is a member, nothing otherwise -/
  dsuf : Nat → List Ins
  /-- stack slots `pcode i` needs -/
  adep : Nat → Nat

def Acc.acode (A : Acc) (i : Nat) : List Ins := A.pcode i ++ A.dsuf i

/-- every object is a plain variable -/
def Acc.direct (off : Nat → Int) : Acc := ⟨fun i => [iLea (off i)], fun _ => [], fun _ => 0⟩

/-- `A++` / `A--` for a non-`_Bool` object: `(T)((A += ±1) + ∓1)` (`new_inc_dec`) -/
def postCodeA (A : Acc) (ti : ITy) (i : Nat) (tmp : Int) (addend : Int) : List JI :=
  let t := binopOperandType .add ti .i32
  J ([iMovImm (-addend)] ++ castSeq .i32 t) ++ (JI.ins iPush ::
    ((opAssignCodeL .ND_ADD .add ti .i32 tmp (J (A.pcode i)) (A.dsuf i) (J [iMovImm addend]) ++ J (castSeq ti t)) ++
      (JI.ins iPopRdi :: J (opSeq .ND_ADD t ++ castSeq t ti))))

def compileA (tys : List ITy) (toff : Nat → Int) (A : Acc) : Nat → Nat → E → Option (ITy × List JI × Nat × Nat)
  | k, c, .lit t v => some (t, J [iMovImm v], k, c)
  | k, c, .var i => (tys[i]?).map fun t => (t, J (A.acode i ++ loadSeq t), k, c)
  | k, c, .cast t e => (compileA tys toff A k c e).map fun (te, cd, k1, c1) => (t, cd ++ J (castSeq te t), k1, c1)
  | k, c, .un op e =>
      (compileA tys toff A k c e).map fun (te, cd, k1, c1) =>
        match op with
        | .plus => (promote te, cd ++ J (castSeq te (promote te)), k1, c1)
        | .lognot => (.i32, cd ++ J (unSeq .ND_NOT te), k1, c1)
        | .neg => (promote te, cd ++ J (castSeq te (promote te) ++ unSeq .ND_NEG (promote te)), k1, c1)
        | .bitnot => (promote te, cd ++ J (castSeq te (promote te) ++ unSeq .ND_BITNOT (promote te)), k1, c1)
  | k, c, .bin op a b =>
      let swap := (nodeOf op).2
      match compileA tys toff A k (if swap then c else c + nlbl b) a with
      | some (ta, ca, k1, _) =>
        match compileA tys toff A k1 (if swap then c + nlbl a else c) b with
        | some (tb, cb, k2, _) =>
          let nk := (nodeOf op).1
          let (tl, cl, tr, cr) := if swap then (tb, cb, ta, ca) else (ta, ca, tb, cb)
          let t := binopOperandType op tl tr
          let rhs := if op.isShift then cr else cr ++ J (castSeq tr t)
          some (binopType op ta tb,
                rhs ++ (JI.ins iPush :: ((cl ++ J (castSeq tl t)) ++ (JI.ins iPopRdi :: J (opSeq nk t)))),
                k2, c + (nlbl a + nlbl b))
        | none => none
      | none => none
  | k, c, .comma a b =>
      match compileA tys toff A k c a with
      | some (_, ca, k1, c1) => (compileA tys toff A k1 c1 b).map fun (tb, cb, k2, c2) => (tb, ca ++ cb, k2, c2)
      | none => none
  | k, c, .assign i e =>
      match tys[i]?, compileA tys toff A k c e with
      | some ti, some (te, cd, k1, c1) =>
          some (ti, J (A.acode i) ++ (JI.ins iPush :: ((cd ++ J (castSeq te ti)) ++ J (storeSeq ti))), k1, c1)
      | _, _ => none
  | k, c, .opassign op i e =>
      match tys[i]?, compileA tys toff A k c e with
      | some ti, some (te, cd, k1, c1) =>
          if compoundable op then
            some (ti, opAssignCodeL (nodeOf op).1 op ti te (toff k1) (J (A.pcode i)) (A.dsuf i) cd, k1 + 1, c1)
          else none
      | _, _ => none
  | k, c, .preinc i =>
      (tys[i]?).map fun ti => (ti, opAssignCodeL .ND_ADD .add ti .i32 (toff k) (J (A.pcode i)) (A.dsuf i) (J [iMovImm 1]), k + 1, c)
  | k, c, .predec i =>
      (tys[i]?).map fun ti => (ti, opAssignCodeL .ND_SUB .sub ti .i32 (toff k) (J (A.pcode i)) (A.dsuf i) (J [iMovImm 1]), k + 1, c)
  | k, c, .postinc i =>
      match tys[i]? with
      | some ti => if ti = .bool then none else some (ti, postCodeA A ti i (toff k) 1, k + 1, c)
      | none => none
  | k, c, .postdec i =>
      match tys[i]? with
      | some ti => if ti = .bool then none else some (ti, postCodeA A ti i (toff k) (-1), k + 1, c)
      | none => none
  | k, c, .land a b =>
      match compileA tys toff A k (c + 1) a with
      | some (ta, ca, k1, c1) =>
        (compileA tys toff A k1 c1 b).map fun (tb, cb, k2, c2) => (.i32, landCode c ta tb ca cb, k2, c2)
      | none => none
  | k, c, .lor a b =>
      match compileA tys toff A k (c + 1) a with
      | some (ta, ca, k1, c1) =>
        (compileA tys toff A k1 c1 b).map fun (tb, cb, k2, c2) => (.i32, lorCode c ta tb ca cb, k2, c2)
      | none => none
  | k, c, .cond cnd a b =>
      match compileA tys toff A k (c + 1) cnd with
      | some (tc, cc, k1, c1) =>
        match compileA tys toff A k1 c1 a with
        | some (ta, ca, k2, c2) =>
          (compileA tys toff A k2 c2 b).map fun (tb, cb, k3, c3) =>
            (usualArith ta tb,
             condCode c tc cc (ca ++ J (castSeq ta (usualArith ta tb))) (cb ++ J (castSeq tb (usualArith ta tb))), k3, c3)
        | none => none
      | none => none

/-- stack slots `compileA` needs below `%rsp` -/
def depthA (A : Acc) : E → Nat
  | .lit _ _ => 0
  | .var i => A.adep i
  | .cast _ e | .un _ e => depthA A e
  | .bin op a b => if (nodeOf op).2 then max (depthA A a) (depthA A b + 1) else max (depthA A b) (depthA A a + 1)
  | .comma a b | .land a b | .lor a b => max (depthA A a) (depthA A b)
  | .cond c a b => max (depthA A c) (max (depthA A a) (depthA A b))
  | .assign i e => max (A.adep i) (depthA A e + 1)
  | .opassign _ i e => max (A.adep i + 1) (max (depthA A e + 1) 2)
  | .preinc i | .predec i => max (A.adep i + 1) 2
  | .postinc i | .postdec i => max (A.adep i + 1) 2 + 1

/-- the objects an expression accesses -/
def objs : E → List Nat
  | .lit _ _ => []
  | .var i | .preinc i | .predec i | .postinc i | .postdec i => [i]
  | .un _ e | .cast _ e => objs e
  | .assign i e | .opassign _ i e => i :: objs e
  | .bin _ a b | .comma a b | .land a b | .lor a b => objs a ++ objs b
  | .cond c a b => objs c ++ (objs a ++ objs b)

/-! ### address code from a table of lvalues -/

/-- a side-effect-free, jump-free lvalue: its `gen_addr` code as straight-line instructions.  `none` when an index
    expression is outside the `compileE` fragment. -/
def pureAddr (tys : List ITy) (off : Nat → Int) : LVal → Option (List Ins)
  | .var i => some [iLea (off i)]
  | .member l d => (pureAddr tys off l).map fun c => c ++ [iAddImm d]
  | .index i0 esz ie => (compileE tys off ie).map fun (ti, ci) => ptrAddCode false ti esz ci [iLea (off i0)]
  | .deref j => some (iLea (off j) :: loadSeq .u64)
  | .pindex j esz ie => (compileE tys off ie).map fun (ti, ci) => ptrAddCode false ti esz ci (iLea (off j) :: loadSeq .u64)

/-- the variables the address computation of an lvalue reads (the pointer of `*p`, the variables of an index expression) -/
def rdL : LVal → List Nat
  | .var _ => []
  | .member l _ => rdL l
  | .index _ _ ie => rd ie
  | .deref j => [j]
  | .pindex j _ ie => j :: rd ie

/-- the lvalue that designates object `i` (objects beyond the table are plain variables) -/
def lvOf (lvs : List LVal) (i : Nat) : LVal := lvs.getD i (.var i)

/-- the access table of a list of lvalues -/
def accOfL (tys : List ITy) (off : Nat → Int) (lvs : List LVal) : Acc :=
  { pcode := fun i => (pureAddr tys off (splitMember (lvOf lvs i)).1).getD [],
    dsuf := fun i => (splitMember (lvOf lvs i)).2,
    adep := fun i => depthL (splitMember (lvOf lvs i)).1 }

/-- the syntactic side conditions on the lvalue of object `i`: it has address code, its element sizes are `sizeof` values, and
    the variables its address depends on are in `D` -/
def lvOK (tys : List ITy) (off : Nat → Int) (D : List Nat) (l : LVal) : Bool :=
  (pureAddr tys off (splitMember l).1).isSome && wfL l && (rdL l).all fun j => D.contains j

end ChibiVerif.C01
