/-
C19 — the second `chibicc -E` pass over the models: bridge between the tokenizer's tokens (Model/Lex.lean: spelling as a list
of code points) and the preprocessor's tokens (Model/PP.lean: spelling as a `String`, hide set, origin, line).

    chibicc -E a.c -o b.c ; chibicc -E b.c
      b.c            = printTokens ts            ts  = what the first pass holds       (Model/PrintTokens.lean)
      tokenize(b.c)  = lex (printTokens ts)      ts' = what the second pass reads      (Model/Lex.lean)
      preprocess     = PP.preprocess (toPPs ts') — `preprocess2` of Model/PP.lean from the table of `init_macros`
      print_tokens   = printTokens (out.map ofPP)

What `tokenize` leaves in a fresh token: `origin = NULL`, `hideset = NULL` (new_token callocs), `line_no` from
`add_line_numbers`.  In a text written by `print_tokens` every token with `at_bol` except the first is preceded by exactly one
newline and no spelling contains one (a character constant may, in principle: `'a<newline>b'`; stated, not modelled), so the
line of a token is 1 + the number of `at_bol` tokens before it, not counting the first token of the file.

Core Lean only (linked into drv_c19).
-/
import ChibiVerif.Model.PP
import ChibiVerif.Model.PrintTokens

namespace ChibiVerif.C19Bridge
open ChibiVerif

/-- TK_IDENT, TK_PUNCT, TK_STR, TK_NUM (character constant), TK_PP_NUM in the preprocessor model's names -/
def kindToPP : Lex.Kind → PP.Kind
  | .ident => .ident | .punct => .punct | .str => .str | .chr => .other | .ppnum => .num

def kindOfPP : PP.Kind → Lex.Kind
  | .ident => .ident | .punct => .punct | .str => .str | .other => .chr | .num => .ppnum

/-- a spelling as a `String` -/
def str (a : List Nat) : String := String.ofList (a.map Char.ofNat)
/-- a `String` as a spelling (code points) -/
def cps (s : String) : List Nat := s.toList.map Char.toNat

/-- a freshly tokenized token as the preprocessor sees it -/
def toPP (t : Lex.Tok) (line : Nat) : PP.Tok :=
  { kind := kindToPP t.kind, text := str t.text, hasSpace := t.hasSpace, atBol := t.atBol, hide := [], line := line, origin := none }

/-- the token list of a freshly tokenized file; `line` is the line of the previous token (0 before the first) -/
def toPPsFrom : Nat → List Lex.Tok → List PP.Tok
  | _, [] => []
  | line, t :: ts =>
    let l := if t.atBol || line == 0 then line + 1 else line
    toPP t l :: toPPsFrom l ts

def toPPs (ts : List Lex.Tok) : List PP.Tok := toPPsFrom 0 ts

/-- what `print_tokens` reads of a preprocessor token: spelling, `at_bol`, `has_space` (the kind is carried along; the printer
    does not look at it) -/
def ofPP (u : PP.Tok) : Lex.Tok := ⟨kindOfPP u.kind, cps u.text, u.atBol, u.hasSpace⟩

/-- the names `init_macros` enters into the macro table (predefined object-like macros and the built-in handlers;
    regenerated from preprocess.c: Gen/PPGen.lean) -/
def initNames : List String := PP.initDefs.map (·.1)

/-- the spelling is the name of a macro of the initial table -/
def isInitMacro (a : List Nat) : Bool := initNames.any (fun n => cps n == a)

/-- no `#` at the beginning of a line, no spelling that names a macro of the initial table -/
def inertInit (ts : List Lex.Tok) : Bool :=
  ts.all (fun t => !(t.atBol && t.text == [35]) && !isInitMacro t.text)

/-- the first token of a file is at the beginning of a line for `tokenize`, whatever flag the first pass held for it (the
    first pass's first token has no `at_bol` when the file starts with a macro that expands to nothing) -/
def normFirst : List Lex.Tok → List Lex.Tok
  | [] => []
  | t :: r => { t with atBol := true } :: r

/-- every code point of every spelling is a Unicode scalar value (what `decode_utf8` of well-formed UTF-8 yields) -/
def validText (ts : List Lex.Tok) : Bool := ts.all (fun t => t.text.all (fun c => decide (Nat.isValidChar c)))

/-- **the second pass**: `preprocess` (from the table of `init_macros`, display name `file`) on the freshly tokenized list.
    Fuel: one unit per iteration of the loop of `preprocess2`; an inert list needs `length`, a list with macro invocations
    more (C09). -/
def secondPassX (fuel : Nat) (file : String) (ts' : List Lex.Tok) : Except PP.Err (List PP.Tok) :=
  PP.preprocess fuel (toPPs ts') file

/-- the same as a total function on printer tokens: an error of the second pass (a diagnostic of cc1: nothing is printed)
    is the empty list -/
def secondPass (fuel : Nat) (file : String) (ts' : List Lex.Tok) : List Lex.Tok :=
  match secondPassX fuel file ts' with
  | .ok out => out.map ofPP
  | .error _ => []

/-! ### a whole `chibicc -E` run over the models: text → text -/

inductive PassErr
  | lex (e : Lex.Err)      -- `tokenize` stops with a diagnostic
  | pp (e : PP.Err)        -- `preprocess` stops with a diagnostic (or the model's fuel ran out / directive outside Model/PP)
  deriving DecidableEq, Repr

/-- `tokenize_file`, `preprocess` from the table of `init_macros`: the tokens `print_tokens` receives.  Restrictions of
    the models: no `#include`/`#if…`/`#line` (C10's model), line numbers as in `toPPsFrom` (exact when the text has no
    empty line, no comment or literal across lines and no backslash-newline). -/
def passTokens (fuel : Nat) (file : String) (text : List Nat) : Except PassErr (List Lex.Tok) :=
  match Lex.lex text with
  | .error e => .error (.lex e)
  | .ok ts =>
    match secondPassX fuel file ts with
    | .error e => .error (.pp e)
    | .ok out => .ok (out.map ofPP)

/-- the text `chibicc -E` writes -/
def passText (fuel : Nat) (file : String) (text : List Nat) : Except PassErr (List Nat) :=
  match passTokens fuel file text with
  | .ok ts => .ok (Lex.printTokens ts)
  | .error e => .error e

end ChibiVerif.C19Bridge
