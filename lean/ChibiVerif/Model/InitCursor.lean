/-
`write_gvar_data` of /repo/parse.c with the relocation list as the C code keeps it (property C05).

Model/Init.lean abstracts `Relocation *cur` away: `writeGvar` appends every new relocation to `Image.relocs`.  In C the list
hangs behind a dummy `head`, `cur` points to the node the next relocation is linked to

    Relocation *rel = calloc(...); ...; cur->next = rel; return cur->next;

and every arm of the function hands the cursor on: `cur = write_gvar_data(cur, ...)` in the array loop and in the struct's member
loop (`continue` for a bit-field: unchanged), `return write_gvar_data(cur, ...)` for a union.  An arm that returns the cursor it
was given instead makes the next relocation overwrite `cur->next`: relocations written inside that arm are unlinked.

`writeGvarC` keeps the list and the cursor explicitly (cursor = number of nodes up to and including `*cur`, 0 = `&head`;
linking at `cur` drops whatever hung behind it).  `Arms` says, per aggregate arm, whether the arm returns the cursor of its
recursive calls (the code) or the cursor it was given (the seeded change C05b did this to the union arm).
Lemmas/InitCursorLemmas.lean: with all arms threading the cursor, `writeGvarC` is `writeGvar` and the cursor is the end of the list.
-/
import ChibiVerif.Model.Init

namespace ChibiVerif.Init

/-- which arms of `write_gvar_data` return the cursor of their recursive calls -/
structure Arms where
  array : Bool
  struct : Bool
  union : Bool
  deriving DecidableEq, Repr, Inhabited

/-- the code: every arm threads the cursor -/
def Arms.code : Arms := ⟨true, true, true⟩

/-- `cur->next = rel; return cur->next` -/
def linkReloc (rels : List Reloc) (cur : Nat) (r : Reloc) : List Reloc × Nat := (rels.take cur ++ [r], cur + 1)

/-- the scalar tail of `write_gvar_data` with the cursor -/
def writeGvarLeafC (e : Expr) (sz : Nat) (kind : SKind) (im : Image) (cur : Nat) (off : Nat) : Except Fail (Image × Nat) :=
  match kind with
  | .flt => do
    let im' ← writeGvarLeaf e sz kind im off
    pure (im', cur)
  | _ =>
    match e.label with
    | none => do
      let im' ← writeGvarLeaf e sz kind im off
      pure (im', cur)
    | some l =>
      let (rels, cur') := linkReloc im.relocs cur { offset := off, label := l, addend := e.ival }
      .ok ({ im with relocs := rels }, cur')

mutual
  /-- `write_gvar_data(cur, init, ty, buf, offset)`: the image and the returned cursor -/
  def writeGvarC (a : Arms) : Init → Ty → Image → Nat → Nat → Except Fail (Image × Nat)
    | .arr cs, .array elem _, im, cur, off => do
      let (im', cur') ← writeGvarArrC a cs elem im cur off
      pure (im', if a.array then cur' else cur)
    | .flex, .array _ _, im, cur, _ => .ok (im, cur)
    | .struct _ cs, .struct ms _ _, im, cur, off => do
      let (im', cur') ← writeGvarMsC a cs ms im cur off
      pure (im', if a.struct then cur' else cur)
    | .union _ none _, .union _ _ _, im, cur, _ => .ok (im, cur)
    | .union _ (some k) cs, .union ms _ _, im, cur, off => do
      let (im', cur') ← writeGvarNthC a cs ms k im cur off
      pure (im', if a.union then cur' else cur)
    | .leaf none, .scalar _ _, im, cur, _ => .ok (im, cur)
    | .leaf (some e), .scalar sz kind, im, cur, off => writeGvarLeafC e sz kind im cur off
    | _, _, _, _, _ => .error (.crash "initializer tree does not have the shape of the type")
  /-- `for (...) cur = write_gvar_data(cur, init->children[i], ...)` (a mutated array arm still threads the cursor through its own
      loop only if it assigns it: `array = false` models `write_gvar_data(cur, ...)` without the assignment, so every element starts
      at the cursor the arm was given) -/
  def writeGvarArrC (a : Arms) : List Init → Ty → Image → Nat → Nat → Except Fail (Image × Nat)
    | [], _, im, cur, _ => .ok (im, cur)
    | c :: cs, elem, im, cur, off => do
      let (im', cur') ← writeGvarC a c elem im cur off
      writeGvarArrC a cs elem im' (if a.array then cur' else cur) (off + elem.size.toNat)
  /-- the member loop of the TY_STRUCT arm; a bit-field: `continue` or merge into the bytes, the cursor stays -/
  def writeGvarMsC (a : Arms) : List Init → Members → Image → Nat → Nat → Except Fail (Image × Nat)
    | _, [], im, cur, _ => .ok (im, cur)
    | [], _ :: _, _, _, _ => .error (.crash "children[mem->idx] outside the allocated block")
    | c :: cs, (mi, t) :: ms, im, cur, off =>
      match mi.bf with
      | some _ => do
        -- the bit-field arm never touches the relocation list
        let im' ← writeGvarMs [c] [(mi, t)] im off
        writeGvarMsC a cs ms { im' with relocs := im.relocs } cur off
      | none => do
        let (im', cur') ← writeGvarC a c t im cur (off + mi.offset)
        writeGvarMsC a cs ms im' (if a.struct then cur' else cur) off
  def writeGvarNthC (a : Arms) : List Init → Members → Nat → Image → Nat → Nat → Except Fail (Image × Nat)
    | c :: _, (_, t) :: _, 0, im, cur, off => writeGvarC a c t im cur off
    | _ :: cs, _ :: ms, k+1, im, cur, off => writeGvarNthC a cs ms k im cur off
    | _, _, _, _, _, _ => .error (.crash "union member index outside the member list")
end

/-- `gvar_initializer`: `Relocation head = {}; write_gvar_data(&head, ...)` -/
def gvarInitC (a : Arms) (init : Init) (ty : Ty) : Except Fail Image := do
  let (im, _) ← writeGvarC a init ty { bytes := List.replicate ty.size.toNat 0, relocs := [] } 0 0
  pure im

end ChibiVerif.Init
