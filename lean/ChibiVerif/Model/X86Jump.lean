/-
Labels and jumps on top of Model/X86 (C01): a small-step semantics for instruction lists with local labels, as
`gen_expr` emits them for ND_LOGAND / ND_LOGOR / ND_COND (`.L.false.N`, `.L.true.N`, `.L.else.N`, `.L.end.N`, `jmp`,
`je`, `jne`).  Core Lean only (the driver `drv_c01` runs it).

* A program is a `List JI`: a straight-line instruction of Model/X86 (`Asm.Ins`, executed by `X86.step`, so every fact
  about `X86.run` carries over), a label definition, an unconditional jump or a conditional jump `jCC`.
* Labels are structured (`kind`, number drawn from `count()`); `Lbl.render` gives the spelling chibicc prints and the
  text tie compares (Lemmas/C01LabelText.lean: the spelling is injective).
* Label resolution is **by position**: `findLbl p l` is the index of the first definition of `l` in the whole program.
  The code generator's freshness invariant (Lemmas/C01JumpCompile.lean: every label is defined once, numbers come from the
  monotone counter) makes "first" the only one.
* `jCC` reads the flags with `State.cond`, exactly like `setCC`; after an instruction that leaves the flags
  architecturally undefined (`flagsValid = false`) a conditional jump is `none`, never guessed.
* `runJ fuel p pc s` runs from position `pc` until the position falls off the end of the program.  `runJ_ins`
  (Lemmas/C01Jump.lean): on jump-free code it is `X86.run`.

Validated against the host CPU by checklib/C01.py (leg c): `cmp` / `test` followed by each of the fourteen `jCC`, and
`cmp_zero; je / jne`, are assembled with real labels and run on boundary + random register files.
-/
import ChibiVerif.Model.X86

namespace ChibiVerif.X86J
open ChibiVerif.Asm ChibiVerif.X86

/-- the label families `gen_expr` makes up from `count()` -/
inductive LKind where
  | else_ | end_ | false_ | true_
  deriving DecidableEq, Repr, Inhabited

/-- `.L.<kind>.<n>` -/
structure Lbl where
  kind : LKind
  n : Nat
  deriving DecidableEq, Repr, Inhabited

def LKind.tag : LKind → String
  | .else_ => ".L.else." | .end_ => ".L.end." | .false_ => ".L.false." | .true_ => ".L.true."

/-- the spelling chibicc prints: `println(".L.else.%d", c)` -/
def Lbl.render (l : Lbl) : String := l.kind.tag ++ toString l.n

/-- one line of a program with labels and jumps -/
inductive JI where
  | ins (i : Ins)              -- a straight-line instruction (Model/X86)
  | lbl (l : Lbl)              -- `l:`
  | jmp (l : Lbl)              -- `jmp l`
  | jcc (c : CC) (l : Lbl)     -- `je l`, `jne l`, …
  deriving DecidableEq, Repr, Inhabited

/-- a straight-line sequence as a program -/
def J (is : List Ins) : List JI := is.map JI.ins

def ccSuffix : CC → String
  | .e => "e" | .ne => "ne" | .l => "l" | .le => "le" | .g => "g" | .ge => "ge" | .b => "b" | .be => "be"
  | .a => "a" | .ae => "ae" | .p => "p" | .np => "np" | .s => "s" | .ns => "ns"

def ccOfSuffix? : String → Option CC
  | "e" => some .e | "ne" => some .ne | "l" => some .l | "le" => some .le | "g" => some .g | "ge" => some .ge
  | "b" => some .b | "be" => some .be | "a" => some .a | "ae" => some .ae | "p" => some .p | "np" => some .np
  | "s" => some .s | "ns" => some .ns
  | _ => none

/-- the line chibicc prints -/
def JI.line : JI → Line
  | .ins i => .ins i
  | .lbl l => .label l.render
  | .jmp l => .ins ⟨"jmp", [.s l.render]⟩
  | .jcc c l => .ins ⟨"j" ++ ccSuffix c, [.s l.render]⟩

/-- the labels a program defines, in order -/
def defs : List JI → List Lbl
  | [] => []
  | .lbl l :: r => l :: defs r
  | _ :: r => defs r

/-- position of the first definition of `l` -/
def findLbl : List JI → Lbl → Option Nat
  | [], _ => none
  | .lbl l' :: r, l => if l' = l then some 0 else (findLbl r l).map (· + 1)
  | _ :: r, l => (findLbl r l).map (· + 1)

/-- one step of the program `p` at position `pc`; `none`: no instruction there, a CPU fault, an undecodable instruction,
    a jump to a label the program does not define, or a conditional jump on undefined flags -/
def stepJ (p : List JI) (pc : Nat) (s : State) : Option (Nat × State) :=
  match p[pc]? with
  | none => none
  | some (.ins i) => (X86.step i s).map fun s' => (pc + 1, s')
  | some (.lbl _) => some (pc + 1, s)
  | some (.jmp l) => (findLbl p l).map fun t => (t, s)
  | some (.jcc c l) =>
      if s.flagsValid then
        (if s.cond c then (findLbl p l).map fun t => (t, s) else some (pc + 1, s))
      else none

/-- exactly `n` steps -/
def stepsJ (p : List JI) : Nat → Nat × State → Option (Nat × State)
  | 0, x => some x
  | n + 1, x => (stepJ p x.1 x.2).bind (stepsJ p n)

/-- run from position `pc` until the position is past the last line; `none` also when the fuel runs out first -/
def runJ : Nat → List JI → Nat → State → Option State
  | 0, p, pc, s => if p.length ≤ pc then some s else none
  | fuel + 1, p, pc, s =>
      if p.length ≤ pc then some s else
      match stepJ p pc s with
      | none => none
      | some x => runJ fuel p x.1 x.2

end ChibiVerif.X86J
