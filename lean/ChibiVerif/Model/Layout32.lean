/-
The loops of `struct_decl` / `union_decl` (parse.c) and `align_to` / `align_down` once more, this time with every C `int`
operation made explicit (property C08, the "aggregates of 256 MiB or more" boundary).

`Model/Layout.lean` computes in unbounded `Int`.  Here every arithmetic operation of the C text whose operands are `int`
goes through `op32`, in one of two modes:

* `IntMode.strict` — the C abstract machine: a result outside [-2^31, 2^31) is signed overflow (undefined behaviour,
  C11 6.5p5), the explicit outcome `Fail32.overflow`;
* `IntMode.wrap`   — what the compiled parse.c does on x86-64 when built without optimisation (the build the checks use):
  two's complement wrap-around (`int32`).  This mode is executable on the huge declarations too and is what the check
  compares with the numbers the real compiler prints there (known finding C08-huge-struct-overflow).

Division: `x / 0` and `INT_MIN / -1` trap (SIGFPE) — `Fail32.divByZero`.

The order of the operations is that of the C expressions: `align_to(n, align) = (n + align - 1) / align * align` is
`((n + align) - 1) / align * align`; `align_down(n, align) = align_to(n - align + 1, align)`.
`Lemmas/Layout32Lemmas.lean` proves that inside the `int` range (in either mode) these functions are the unbounded ones.

Core Lean only.
-/
import ChibiVerif.Model.Layout

namespace ChibiVerif.Layout
open ChibiVerif.Gen.Declspec

/-- a C `int` expression evaluated with 32-bit two's complement wrap-around -/
def int32 (x : Int) : Int := (x + 2147483648) % 4294967296 - 2147483648

inductive IntMode where
  | strict        -- C11: signed overflow is undefined
  | wrap          -- the compiled code: wrap-around
  deriving DecidableEq, Repr

inductive Fail32 where
  | divByZero     -- SIGFPE: division by zero, or INT_MIN / -1
  | overflow      -- `strict` only: signed overflow
  deriving DecidableEq, Repr

def inInt (x : Int) : Bool := decide (-2147483648 ≤ x) && decide (x ≤ 2147483647)

/-- the result of one C `int` operation whose mathematical value is `x` -/
def op32 (md : IntMode) (x : Int) : Except Fail32 Int :=
  match md with
  | .wrap => .ok (int32 x)
  | .strict => if inInt x then .ok x else .error .overflow

/-- C `/` on `int` (truncating) -/
def div32 (x y : Int) : Except Fail32 Int :=
  if y = 0 then .error .divByZero
  else if x = -2147483648 ∧ y = -1 then .error .divByZero
  else .ok (Int.tdiv x y)

/-- C `%` on `int` -/
def mod32 (x y : Int) : Except Fail32 Int :=
  if y = 0 then .error .divByZero
  else if x = -2147483648 ∧ y = -1 then .error .divByZero
  else .ok (Int.tmod x y)

/-- codegen.c `align_to`: `(n + align - 1) / align * align` -/
def alignTo32 (md : IntMode) (n a : Int) : Except Fail32 Int := do
  let t ← op32 md (n + a)
  let t ← op32 md (t - 1)
  let q ← div32 t a
  op32 md (q * a)

/-- parse.c `align_down`: `align_to(n - align + 1, align)` -/
def alignDown32 (md : IntMode) (n a : Int) : Except Fail32 Int := do
  let t ← op32 md (n - a)
  let t ← op32 md (t + 1)
  alignTo32 md t a

/-- first half of the body of the `for` loop of `struct_decl` (cf. `placeMember`) -/
def placeMember32 (md : IntMode) (packed : Bool) (bits : Int) (m : Mem) : Except Fail32 (Int × Placed) :=
  match m.bitWidth with
  | some w =>
    if w = 0 then do
      -- bits = align_to(bits, mem->ty->size * 8);
      let u ← op32 md (m.size * 8)
      let b ← alignTo32 md bits u
      pure (b, { offset := 0, bitOffset := 0 })
    else do
      -- int sz = mem->ty->size;
      -- if (bits / (sz * 8) != (bits + mem->bit_width - 1) / (sz * 8)) bits = align_to(bits, sz * 8);
      let u ← op32 md (m.size * 8)
      let q1 ← div32 bits u
      let t ← op32 md (bits + w)
      let t ← op32 md (t - 1)
      let q2 ← div32 t u
      let b ← if q1 ≠ q2 then alignTo32 md bits u else pure bits
      -- mem->offset = align_down(bits / 8, sz); mem->bit_offset = bits % (sz * 8); bits += mem->bit_width;
      let d ← div32 b 8
      let off ← alignDown32 md d m.size
      let bo ← mod32 b u
      let nb ← op32 md (b + w)
      pure (nb, { offset := off, bitOffset := bo })
  | none => do
    -- bits = align_to(bits, ty->is_packed ? 8 : mem->align * 8); mem->offset = bits / 8; bits += mem->ty->size * 8;
    let a ← if packed then pure 8 else op32 md (m.align * 8)
    let b ← alignTo32 md bits a
    let off ← div32 b 8
    let s8 ← op32 md (m.size * 8)
    let nb ← op32 md (b + s8)
    pure (nb, { offset := off, bitOffset := 0 })

def structLoop32 (md : IntMode) (packed : Bool) : Int → Int → List Mem → Except Fail32 (Int × Int × List Placed)
  | bits, align, [] => .ok (bits, align, [])
  | bits, align, m :: ms => do
    let (b, p) ← placeMember32 md packed bits m
    let (b', a', ps) ← structLoop32 md packed b (stepAlign packed align m) ms
    pure (b', a', p :: ps)

/-- `struct_decl` (cf. `structLayout`): `ty->size = align_to(bits, ty->align * 8) / 8` -/
def structLayout32 (md : IntMode) (packed : Bool) (align0 : Int) (ms : List Mem) : Except Fail32 Layout := do
  let (bits, align, ps) ← structLoop32 md packed 0 align0 ms
  let a8 ← op32 md (align * 8)
  let s ← alignTo32 md bits a8
  let sz ← div32 s 8
  pure { size := sz, align := align, placed := ps }

/-- body of the loop of `union_decl` (cf. `unionStep`): `(mem->bit_width + 7) / 8` is the only arithmetic -/
def unionStep32 (md : IntMode) (packed : Bool) (size align : Int) (m : Mem) : Except Fail32 (Int × Int) :=
  match m.bitWidth, m.named with
  | some w, false => do
    let t ← op32 md (w + 7)
    let e ← div32 t 8
    pure (if size < e then e else size, align)
  | _, _ => pure (if size < m.size then m.size else size, if !packed && align < m.align then m.align else align)

def unionLoop32 (md : IntMode) (packed : Bool) : Int → Int → List Mem → Except Fail32 (Int × Int)
  | size, align, [] => .ok (size, align)
  | size, align, m :: ms => do
    let (s, a) ← unionStep32 md packed size align m
    unionLoop32 md packed s a ms

/-- `union_decl` (cf. `unionLayout`): `ty->size = align_to(ty->size, ty->align)` -/
def unionLayout32 (md : IntMode) (packed : Bool) (align0 : Int) (ms : List Mem) : Except Fail32 Layout := do
  let (size, align) ← unionLoop32 md packed (STRUCT_INIT_SIZE : Nat) align0 ms
  let s ← alignTo32 md size align
  pure { size := s, align := align, placed := ms.map fun _ => { offset := 0, bitOffset := 0 } }

/-! ## type descriptions with `int` arithmetic (cf. `Ty.sizeAlign`, `Members.toMems`, `Ty.layout`) -/

/-- outcomes of the type-level functions other than a type -/
inductive TyFail32 where
  | divByZero          -- SIGFPE
  | overflow           -- `strict` only: signed overflow (undefined behaviour)
  | badAlign           -- "alignment must be a power of two no larger than 2^28"
  | bitfieldType       -- "bit-field has non-integer type"
  | incompleteField    -- struct_members: "field has incomplete type" (`mem->ty->size < 0` for a struct/union member type — reached
                       --   only after the size of an aggregate of 256 MiB or more wrapped to a negative number)
  deriving DecidableEq, Repr

def Fail32.toTy : Fail32 → TyFail32
  | .divByZero => .divByZero
  | .overflow => .overflow

def TyFail.to32 : TyFail → TyFail32
  | .divByZero => .divByZero
  | .badAlign => .badAlign
  | .bitfieldType => .bitfieldType

def lift32 {α : Type} : Except Fail32 α → Except TyFail32 α
  | .ok a => .ok a
  | .error e => .error e.toTy

def liftTy {α : Type} : Except TyFail α → Except TyFail32 α
  | .ok a => .ok a
  | .error e => .error e.to32

/-- `ty->kind == TY_STRUCT || ty->kind == TY_UNION` -/
def Ty.isAggregate : Ty → Bool
  | .struct _ _ _ => true
  | .union _ _ _ => true
  | _ => false

mutual
  /-- (ty->size, ty->align) with `int` arithmetic: `array_of` multiplies `base->size * len` in `int` -/
  def Ty.sizeAlign32 (md : IntMode) : Ty → Except TyFail32 (Int × Int)
    | .prim t => .ok (primSize t, primAlign t)
    | .enum => .ok ((ENUM_SIZE : Nat), (ENUM_ALIGN : Nat))
    | .ptr => .ok ((PTR_SIZE : Nat), (PTR_ALIGN : Nat))
    | .arr e n => do
      let (s, a) ← e.sizeAlign32 md
      let sz ← lift32 (op32 md (s * n))
      pure (sz, a)
    | .flex e => do
      let (s, a) ← e.sizeAlign32 md
      let sz ← lift32 (op32 md (s * 0))
      pure (sz, a)
    | .struct p al ms => do
      let a0 ← liftTy (alignAttr (STRUCT_INIT_ALIGN : Nat) al)
      let mems ← ms.toMems32 md
      let l ← lift32 (structLayout32 md p a0 mems)
      pure (l.size, l.align)
    | .union p al ms => do
      let a0 ← liftTy (alignAttr (STRUCT_INIT_ALIGN : Nat) al)
      let mems ← ms.toMems32 md
      let l ← lift32 (unionLayout32 md p a0 mems)
      pure (l.size, l.align)
  def Aligns.eval32 (md : IntMode) : Aligns → Int → Except TyFail32 Int
    | .nil, acc => .ok acc
    | .const n rest, acc =>
      if alignasConstBad n then .error .badAlign else rest.eval32 md (alignasCombine acc (alignasOfConst n))
    | .type t rest, acc => do
      let (s, a) ← t.sizeAlign32 md
      rest.eval32 md (alignasCombine acc (alignasOfType s a))
  /-- `struct_members`, including `if ((kind == TY_STRUCT || kind == TY_UNION) && mem->ty->size < 0) error_tok(.., "field has
      incomplete type")` (in this model only a wrapped size can be negative) -/
  def Members.toMems32 (md : IntMode) : Members → Except TyFail32 (List Mem)
    | .nil => .ok []
    | .cons d as ty rest => do
      let attrAlign ← as.eval32 md 0
      let (s, a) ← ty.sizeAlign32 md
      if ty.isAggregate && decide (s < 0) then .error .incompleteField
      else if d.bitWidth.isSome && !ty.isInteger then .error .bitfieldType
      else do
        let tl ← rest.toMems32 md
        pure ({ size := s, align := memberAlign attrAlign a, bitWidth := d.bitWidth, named := d.named } :: tl)
end

def Ty.layout32 (md : IntMode) : Ty → Except TyFail32 Layout
  | .struct p al ms => do
    let a0 ← liftTy (alignAttr (STRUCT_INIT_ALIGN : Nat) al)
    let mems ← ms.toMems32 md
    lift32 (structLayout32 md p a0 mems)
  | .union p al ms => do
    let a0 ← liftTy (alignAttr (STRUCT_INIT_ALIGN : Nat) al)
    let mems ← ms.toMems32 md
    lift32 (unionLayout32 md p a0 mems)
  | t => do let (s, a) ← t.sizeAlign32 md; pure { size := s, align := a, placed := [] }

end ChibiVerif.Layout
