/-
C12, fixpoint half — behaviour of chibicc's OWN source that C leaves unspecified or undefined.

The gcc-built compiler (stage 1) and the self-compiled compiler (stage 2) are two executions of the same C program by
two implementations that resolve unspecified behaviour differently (gcc 12 evaluates most operand pairs left to right;
chibicc's code generator evaluates the RIGHT operand of every binary operator and the LAST argument of every call
first).  Wherever the observable behaviour of chibicc's source depends on such a choice, stage 1 and stage 2 may differ;
the defect repaired in /repo 7b517d1 (eval3: `&&l - &&l` diagnosed at a different operand) was of this kind.

`Gen/C12AuditGen.lean` (regenerated from clang-14's typed AST of the nine sources on every run by
tools/extract/c12audit.py) lists, with the raw effect sets of each operand, every expression whose operands C11 leaves
unsequenced or indeterminately sequenced and of which at least two have side effects (or one writes what another reads),
every local variable without initializer, every malloc/realloc, every relational comparison / subtraction / integer
conversion of pointers and every call of an order-unstable library function.

This file is the DECISION: when is such a site harmless.  The mechanical part (`conflict`) is computed here from the raw
sets; what cannot be decided from the sets is looked up in reviewed tables (keyed by file, function and source text, so
that an edit of the expression invalidates the entry).  Props/C12.lean proves by whole-list `decide` that every listed
site has a verdict.  A new site that is neither mechanically conflict-free nor reviewed breaks the theorem.
-/
namespace ChibiVerif.C12Audit

/-- effects of evaluating one operand (abstract locations are indices into `Gen.C12Audit.locNames`) -/
structure Eff where
  exitDiag : Bool          -- may terminate the process with a user diagnostic (error / error_at / error_tok / exit)
  exitInt : Bool           -- may terminate through an internal error only (`unreachable()`, assert)
  writes : List Nat
  reads : List Nat
  bare : List Nat          -- writes performed by the operand expression itself (++, --, =), not inside a called function
  deriving Repr, DecidableEq

structure Site where
  file : String
  fn : String
  line : Nat
  kind : String            -- "binary +", "assign =", "call", "subscript", "init-list"
  text : String
  store : List Nat         -- for assignments: the locations the assignment itself stores to
  ops : List Eff
  deriving Repr

def mask (l : List Nat) : Nat := l.foldl (fun m i => m ||| (1 <<< i)) 0

def Eff.effectful (e : Eff) : Bool := e.exitDiag || e.exitInt || !e.writes.isEmpty

/-- Does the observable behaviour depend on which of `a`, `b` is evaluated first?
    * both may exit: which diagnostic is printed;
    * one may exit and the other writes to a stream / the file system: whether that output happens;
    * one writes what the other writes or reads.
    `strict`: an internal error (`unreachable()`, assert) counts as an exit. -/
def conflict (io : Nat) (strict : Bool) (a b : Eff) : Bool :=
  let ea := a.exitDiag || (strict && a.exitInt)
  let eb := b.exitDiag || (strict && b.exitInt)
  let wa := mask a.writes
  let wb := mask b.writes
  (ea && eb)
  || (ea && (wb &&& io) != 0) || (eb && (wa &&& io) != 0)
  || (wa &&& (wb ||| mask b.reads)) != 0
  || (wb &&& mask a.reads) != 0

def pairsFree (f : Eff → Eff → Bool) : List Eff → Bool
  | [] => true
  | a :: rest => rest.all (fun b => !f a b) && pairsFree f rest

/-- a side effect inside an operand of an assignment is unsequenced relative to the assignment's own store (`i = i++`) -/
def storeFree (s : Site) : Bool := s.ops.all (fun e => (mask e.bare &&& mask s.store) == 0)

inductive Why where
  | disjoint              -- no two operands conflict, even if internal errors are counted as exits
  | disjointUpToInternal  -- no two operands conflict provided `unreachable()` / assert never fire (C13 territory)
  | reviewed (why : String)
  deriving Repr, DecidableEq

/-- sites that the effect sets cannot settle, with the reason why the order of evaluation is not observable -/
def reviewed (file fn text : String) : Option String :=
  if file == "codegen.c" && fn == "struct_in_regs" && text == "*ngp = *nfp = 0" then
    some "both stores write the constant 0: the result is the same even if ngp and nfp aliased (type-based alias class d:int)"
  else if file == "parse.c" && fn == "function" &&
      (text == "push_scope(\"__func__\")->var = new_string_literal(fn->name, array_of(ty_char, strlen(fn->name) + 1))"
       || text == "push_scope(\"__FUNCTION__\")->var = new_string_literal(fn->name, array_of(ty_char, strlen(fn->name) + 1))") then
    some "both operands insert into the scope map under different keys (`__func__` resp. a fresh `.L..N`); the map is only ever queried by key (C17: dictionary semantics independent of the history), the label counter is advanced by the right operand only, and the list of globals is extended by the right operand only"
  else if file == "parse.c" && fn == "new_inc_dec" &&
      text == "new_cast(new_add(to_assign(new_add(node, new_num(addend, tok), tok)), new_num(-addend, tok), tok), node->ty)" then
    some "`add_type(node)` on the preceding line has already set node->ty, and add_type never overwrites a type that is set: the read of node->ty yields the same value before and after the first argument"
  else if file == "parse.c" && fn == "union_rest" && text == "*init->children[mem->idx] = *new_initializer(mem->ty, false)" then
    some "the right operand only allocates and fills a FRESH Initializer tree (calloc; it reads the member's Type, never an Initializer that exists already); the left operand reads init->children and mem->idx, which new_initializer does not write: the address stored to is the same whichever side is evaluated first (/repo e1837fd)"
  else none

def verdict (io : Nat) (s : Site) : Option Why :=
  if storeFree s && pairsFree (conflict io true) s.ops then some .disjoint
  else if storeFree s && pairsFree (conflict io false) s.ops then some .disjointUpToInternal
  else (reviewed s.file s.fn s.text).map .reviewed

/-! ### storage that is not zero-filled -/

inductive UninitWhy where
  | flowChecked               -- scalar whose address is never taken: clang's flow analysis reports no use before initialisation
  | outParam (callee : String) -- passed by address to `callee`, which stores to it on every returning path before it is read here
  | vaList                    -- va_list initialised by va_start before use
  | libcFills (fn : String)   -- filled by the libc function; read only when that function reported success, and only the part it filled
  | assignedFirst             -- explicitly zeroed / assigned member by member before the first read
  | dummyHead                 -- list head of which only `.next` is read, after it has been stored
  deriving Repr, DecidableEq

def reviewedUninit (file fn name : String) : Option UninitWhy :=
  if file == "codegen.c" && (fn == "assign_lvar_offsets" || fn == "emit_text" || fn == "gen_expr" || fn == "push_args")
      && (name == "ngp" || name == "nfp") then some (.outParam "struct_in_regs")
  else if file == "codegen.c" && fn == "gen_expr" && name == "u" then some .assignedFirst   -- memset(&u, 0, sizeof(u)); u.f80 = ...
  else if name == "ap" && (fn == "println" || fn == "format" || fn == "error" || fn == "error_at" || fn == "error_tok" || fn == "warn_tok") then some .vaList
  else if (file == "main.c" && fn == "cc1" || file == "strings.c" && fn == "format" || file == "tokenize.c" && fn == "read_file")
      && (name == "buf" || name == "buflen") then some (.libcFills "open_memstream + fflush/fclose")
  else if file == "main.c" && fn == "file_exists" && name == "st" then some (.libcFills "stat")
  else if file == "main.c" && fn == "run_subprocess" && name == "status" then some (.libcFills "wait")
  else if file == "parse.c" && (fn == "array_initializer1" || fn == "designation") && (name == "begin" || name == "end" || name == "tok2") then
    some (.outParam "array_designator")
  else if file == "parse.c" && fn == "scan_globals" && name == "head" then some .dummyHead
  else if file == "preprocess.c" && fn == "eval_const_expr" && name == "rest2" then some (.outParam "const_expr")
  else if file == "preprocess.c" && fn == "preprocess2" && (name == "ignore" || name == "is_dquote") then some (.outParam "read_include_filename")
  else if file == "preprocess.c" && fn == "timestamp_macro" && name == "buf" then some (.libcFills "ctime_r")
  else if file == "preprocess.c" && fn == "timestamp_macro" && name == "st" then some (.libcFills "stat")
  else if file == "tokenize.c" && fn == "convert_pp_number" && name == "end" then some (.libcFills "strtold")
  else if file == "tokenize.c" && fn == "read_file" && name == "buf2" then some (.libcFills "fread")
  else if file == "tokenize.c" && fn == "read_ident" && name == "q" then some (.outParam "decode_utf8")
  else none

def uninitVerdict (clangClean : Bool) (v : String × String × String × String × Bool × Bool) : Option UninitWhy :=
  let (file, fn, name, _, aggregate, addrTaken) := v
  if !aggregate && !addrTaken then (if clangClean then some .flowChecked else none)
  else reviewedUninit file fn name

/-- realloc'ed storage: the new part is written before it is read -/
def reviewedAlloc (file fn : String) : Option String :=
  if file == "strings.c" && fn == "strarray_push" then some "the loop after the realloc stores NULL into every new slot [len, capacity)"
  else if file == "tokenize.c" && fn == "tokenize_file" then some "both new slots [file_no] and [file_no + 1] are stored right after the realloc"
  else none

/-! ### pointer values as data -/

/-- relational comparison / subtraction of pointers: both operands point into the same character buffer -/
def reviewedPointerOp (file fn text : String) : Option String :=
  if file == "main.c" && fn == "define" && text == "eq - str" then some "eq = strchr(str, '=')"
  else if file == "tokenize.c" && fn == "error_at" && text == "p < loc" then some "p runs over current_file->contents, loc is a position in it (precondition of error_at)"
  else if file == "tokenize.c" && fn == "new_token" && text == "end - start" then some "start <= end delimit one token of the buffer being tokenized"
  else if file == "tokenize.c" && fn == "read_ident" && text == "p - start" then some "p was advanced from start"
  else if file == "tokenize.c" && (fn == "read_string_literal" || fn == "read_utf32_string_literal") && text == "end - quote" then some "end = string_literal_end(quote + 1)"
  else if file == "tokenize.c" && (fn == "read_string_literal" || fn == "read_utf16_string_literal" || fn == "read_utf32_string_literal") && text == "p < end" then
    some "p was advanced from the opening quote, end is the closing quote of the same literal"
  else if file == "tokenize.c" && fn == "read_utf16_string_literal" && text == "end - start" then some "end = string_literal_end(quote + 1), quote > start in the same buffer"
  else if file == "tokenize.c" && fn == "verror_at" && (text == "input < line" || text == "end - line" || text == "loc - line") then
    some "line and end are moved from loc inside the buffer `input` that contains loc (tok->loc lies in tok->file->contents)"
  else if file == "unicode.c" && fn == "display_width" && text == "p - start" then some "p was advanced from start"
  else none

end ChibiVerif.C12Audit
