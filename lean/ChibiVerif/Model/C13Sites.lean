/-
C13 — instrumented doubles of model functions whose originals hide a crash site behind a total default.

1. Literal readers (Model/Literals.lean).  The original reads the text through `byteAt p i = p.getD i 0`: every index behind
   the terminating NUL reads as 0, so an over-read of the C code (tokenize.c walks `char *p` over a NUL-terminated buffer)
   cannot be seen.  Here every read goes through `rd`, which answers `Fault.overread i` for `i > p.length` (index
   `p.length` IS the terminator), and every pointer `p + j` handed on as the start of a text goes through `sub`.  The
   functions are otherwise copies, arm by arm, of `hexLoop`, `readEscapedChar`, `decodeCont`/`decodeUtf8` (Gen),
   `strEnd`, `narrowLoop`/`utf16Loop`/`utf32Loop`, `readString`, `readCharLiteral`, `ppNumberLoop`, `matchText`,
   `lexLiteral`; in C the `&&` chains short-circuit, so a byte is read only where the copy reads it.
   Lemmas/C13Literals.lean proves `lexLiteralI p = lift (lexLiteral p)` for EVERY byte list: the site is never reached
   and the double agrees with the original.

2. Struct member lookup (parse.c `get_struct_member`): `mem->name->len` dereferences `mem->name`, which is NULL for
   anonymous struct/union members and unnamed bit-fields; `getStructMemberI` makes the dereference an outcome.

Core Lean only.
-/
import ChibiVerif.Model.Literals
import ChibiVerif.Model.Init

namespace ChibiVerif.C13Sites
open ChibiVerif.Literals ChibiVerif.Gen.Literals

/-! ## 1. literal readers -/

inductive Fault
  | lit (e : LitErr)
  | overread (idx : Nat)          -- a read (or a pointer handed on) behind the terminating NUL
  deriving DecidableEq, Repr

abbrev R := Except Fault

def lift {α : Type} : Except LitErr α → R α
  | .ok a => .ok a
  | .error e => .error (.lit e)

/-- `p[i]` -/
def rd (p : List Byte) (i : Nat) : R Byte := if i ≤ p.length then .ok (byteAt p i) else .error (.overread i)

/-- `p + j` used as the start of a text -/
def sub (p : List Byte) (j : Nat) : R (List Byte) := if j ≤ p.length then .ok (p.drop j) else .error (.overread j)

def hexLoopI (p : List Byte) : Nat → Nat → BitVec 32 → R (BitVec 32 × Nat)
  | 0, i, c => .ok (c, i)
  | fuel + 1, i, c =>
    match rd p i with
    | .error e => .error e
    | .ok b => if isXDigit b then hexLoopI p fuel (i + 1) ((c <<< 4) + fromHex b) else .ok (c, i)

def readEscapedCharI (p : List Byte) : R (BitVec 32 × Nat) :=
  match rd p 0 with
  | .error e => .error e
  | .ok b0 =>
    if isOctDigit b0 then
      let c : BitVec 32 := b0.signExtend 32 - 48
      match rd p 1 with
      | .error e => .error e
      | .ok b1 =>
        if isOctDigit b1 then
          let c := (c <<< 3) + (b1.signExtend 32 - 48)
          match rd p 2 with
          | .error e => .error e
          | .ok b2 => if isOctDigit b2 then .ok ((c <<< 3) + (b2.signExtend 32 - 48), 3) else .ok (c, 2)
        else .ok (c, 1)
    else if b0 = 120#8 then
      match rd p 1 with
      | .error e => .error e
      | .ok b1 => if !isXDigit b1 then .error (.lit .invalidHexEscape) else hexLoopI p (p.length + 1) 1 0
    else .ok (escapeValue b0, 1)

def decodeContI (p : List Byte) : Nat → Nat → BitVec 32 → R (BitVec 32)
  | 0, _, c => .ok c
  | fuel + 1, i, c =>
    match rd p i with
    | .error e => .error e
    | .ok b =>
      if (((b.zeroExtend 32).sshiftRight 6) ≠ (2#32)) then .error (.lit .invalidUtf8)
      else decodeContI p fuel (i + 1) ((c <<< 6) ||| ((b.signExtend 32) &&& (0x3F#32)))

/-- `decode_utf8(&new_pos, p)`; the lead byte `p[0]` is the only byte `decodeLead` looks at -/
def decodeUtf8I (p : List Byte) : R (BitVec 32 × Nat) :=
  match rd p 0 with
  | .error e => .error e
  | .ok b0 =>
    if ((b0.zeroExtend 32).toInt < (0x80#32).toInt) then .ok (b0.signExtend 32, 1)
    else match decodeLead p with
      | none => .error (.lit .invalidUtf8)
      | some (len, c) =>
        match decodeContI p (len - 1) 1 c with
        | .error e => .error e
        | .ok c => .ok (c, len)

def decodeAtI (p : List Byte) (i : Nat) : R (BitVec 32 × Nat) :=
  match sub p i with
  | .error e => .error e
  | .ok q => decodeUtf8I q

def strEndI (p : List Byte) : Nat → Nat → R Nat
  | 0, _ => .error (.lit .unclosedString)
  | fuel + 1, i =>
    match rd p i with
    | .error e => .error e
    | .ok b =>
      if b = 34#8 then .ok i
      else if b = 10#8 ∨ b = 0#8 then .error (.lit .unclosedString)
      else if b = 92#8 then
        match rd p (i + 1) with                   -- `*p == '\\' && p[1]`
        | .error e => .error e
        | .ok b1 => if b1 ≠ 0#8 then strEndI p fuel (i + 2) else strEndI p fuel (i + 1)
      else strEndI p fuel (i + 1)

/-- `read_escaped_char(&p, p + 1)` at the backslash `p[i]` -/
def escapeAtI (p : List Byte) (i : Nat) : R (BitVec 32 × Nat) :=
  match sub p (i + 1) with
  | .error e => .error e
  | .ok q => readEscapedCharI q

def narrowLoopI (p : List Byte) (endp : Nat) : Nat → Nat → List Nat → R (List Nat)
  | 0, _, _ => .error (.lit .fuel)
  | fuel + 1, i, acc =>
    if i < endp then
      match rd p i with
      | .error e => .error e
      | .ok b =>
        if b = 92#8 then
          match escapeAtI p i with
          | .error e => .error e
          | .ok (c, n) => narrowLoopI p endp fuel (i + 1 + n) ((c.setWidth 8).toNat :: acc)
        else narrowLoopI p endp fuel (i + 1) (b.toNat :: acc)
    else .ok acc.reverse

def utf16LoopI (p : List Byte) (endp : Nat) : Nat → Nat → List Nat → R (List Nat)
  | 0, _, _ => .error (.lit .fuel)
  | fuel + 1, i, acc =>
    if i < endp then
      match rd p i with
      | .error e => .error e
      | .ok b =>
        if b = 92#8 then
          match escapeAtI p i with
          | .error e => .error e
          | .ok (c, n) => utf16LoopI p endp fuel (i + 1 + n) ((c.setWidth 16).toNat :: acc)
        else
          match decodeAtI p i with
          | .error e => .error e
          | .ok (c, n) => utf16LoopI p endp fuel (i + n) (((utf16Units c).map BitVec.toNat).reverse ++ acc)
    else .ok acc.reverse

def utf32LoopI (p : List Byte) (endp : Nat) : Nat → Nat → List Nat → R (List Nat)
  | 0, _, _ => .error (.lit .fuel)
  | fuel + 1, i, acc =>
    if i < endp then
      match rd p i with
      | .error e => .error e
      | .ok b =>
        if b = 92#8 then
          match escapeAtI p i with
          | .error e => .error e
          | .ok (c, n) => utf32LoopI p endp fuel (i + 1 + n) (c.toNat :: acc)
        else
          match decodeAtI p i with
          | .error e => .error e
          | .ok (c, n) => utf32LoopI p endp fuel (i + n) (c.toNat :: acc)
    else .ok acc.reverse

def readStringI (r : StrReader) (ty : Ty) (p : List Byte) (q : Nat) : R StrTok :=
  match strEndI p (p.length + 2) (q + 1) with
  | .error e => .error e
  | .ok endp =>
    match (match r with
      | .narrow => narrowLoopI p endp (endp + 1) (q + 1) []
      | .utf16 => utf16LoopI p endp (endp + 1) (q + 1) []
      | .utf32 => utf32LoopI p endp (endp + 1) (q + 1) []) with
    | .error e => .error e
    | .ok units => .ok ⟨ty, units, endp + 1, p.take (endp + 1)⟩

def readCharLiteralI (p : List Byte) (q : Nat) : R (BitVec 32 × Nat) :=
  let i := q + 1
  match rd p i with
  | .error e => .error e
  | .ok b =>
    if b = 0#8 then .error (.lit .unclosedChar)
    else
      let first : R (BitVec 32 × Nat) :=
        if b = 92#8 then
          match rd p (i + 1) with                 -- `*p == '\\' && p[1] == '\0'`
          | .error e => .error e
          | .ok b1 =>
            if b1 = 0#8 then .error (.lit .unclosedChar)
            else match escapeAtI p i with
              | .error e => .error e
              | .ok (c, n) => .ok (c, i + 1 + n)
        else match decodeAtI p i with
          | .error e => .error e
          | .ok (c, n) => .ok (c, i + n)
      match first with
      | .error e => .error e
      | .ok (c, j) =>
        if j ≤ p.length then                       -- `strchr(p, '\'')` starts inside the text
          match findQuote p (p.length + 1) j with
          | none => .error (.lit .unclosedChar)
          | some e => .ok (c, e)
        else .error (.overread j)

def ppNumberLoopI (p : List Byte) : Nat → Nat → R Nat
  | 0, i => .ok i
  | fuel + 1, i =>
    match rd p i with
    | .error e => .error e
    | .ok a =>
      if a = 0#8 then .ok i                        -- `p[0] && …` and `isalnum(0)`, `0 == '.'` are all false
      else match rd p (i + 1) with
        | .error e => .error e
        | .ok b =>
          if b ≠ 0#8 ∧ (a = 101#8 ∨ a = 69#8 ∨ a = 112#8 ∨ a = 80#8) ∧ (b = 43#8 ∨ b = 45#8) then ppNumberLoopI p fuel (i + 2)
          else if isAlnum a ∨ a = 46#8 then ppNumberLoopI p fuel (i + 1)
          else .ok i

def matchTextI (p : List Byte) (i : Nat) : List Nat → Bool → R Bool
  | [], _ => .ok true
  | c :: cs, ci =>
    match rd p i with
    | .error e => .error e
    | .ok a =>
      let b : Byte := BitVec.ofNat 8 c
      if a ≠ 0#8 && (if ci then toLower a == toLower b else a == b) then matchTextI p (i + 1) cs ci else .ok false

def findI {α : Type} (f : α → R Bool) : List α → R (Option α)
  | [] => .ok none
  | x :: xs =>
    match f x with
    | .error e => .error e
    | .ok true => .ok (some x)
    | .ok false => findI f xs

/-- the literal arms of `tokenize()` at the start of a text -/
def lexLiteralI (p : List Byte) : R LitTok :=
  match rd p 0 with
  | .error e => .error e
  | .ok b0 =>
    let isNum : R Bool :=
      if isDigit b0 then .ok true
      else if b0 = 46#8 then (match rd p 1 with | .error e => .error e | .ok b1 => .ok (isDigit b1))
      else .ok false
    match isNum with
    | .error e => .error e
    | .ok true =>
      match ppNumberLoopI p (p.length + 1) 1 with
      | .error e => .error e
      | .ok n =>
        match convertPpInt (p.take n) with
        | some (v, ty) => .ok (.int v ty n)
        | none => .ok (.flt n)
    | .ok false =>
      match findI (fun e => matchTextI p 0 (e.1 ++ [34]) false) stringPrefixes with
      | .error e => .error e
      | .ok (some (pre, r, ty)) =>
        (match readStringI r ty p pre.length with | .error e => .error e | .ok t => .ok (.str t))
      | .ok none =>
        match findI (fun e => matchTextI p 0 (e.1 ++ [39]) false) charPrefixes with
        | .error e => .error e
        | .ok (some (pre, ty, post)) =>
          (match readCharLiteralI p pre.length with
           | .error e => .error e
           | .ok (c, e) => .ok (.chr (charPost post c) ty (e + 1)))
        | .ok none => .error (.lit .notALiteral)

/-! ## 2. get_struct_member -/

mutual
  /-- `get_struct_member(ty, tok)`: index of the member found; `mem->name->len` on a NULL `mem->name` is the outcome
      `crash`.  The C code tests `!mem->name` in both arms before it compares the names. -/
  def getStructMemberI : Init.Ty → String → Except Init.Fail (Option Nat)
    | .struct ms _ _, n => getStructMemberMsI ms n 0
    | .union ms _ _, n => getStructMemberMsI ms n 0
    | _, _ => .ok none
  def getStructMemberMsI : Init.Members → String → Nat → Except Init.Fail (Option Nat)
    | [], _, _ => .ok none
    | (mi, t) :: r, n, i =>
      if t.isAgg && mi.name.isNone then
        -- anonymous struct/union member: `if (get_struct_member(mem->ty, tok)) return mem; continue;`
        match getStructMemberI t n with
        | .error e => .error e
        | .ok (some _) => .ok (some i)
        | .ok none => getStructMemberMsI r n (i + 1)
      else if mi.name.isNone then getStructMemberMsI r n (i + 1)        -- unnamed bit-field: `if (!mem->name) continue;`
      else match mi.name with
        | none => .error (.crash "mem->name->len: mem->name is NULL")
        | some m => if m = n then .ok (some i) else getStructMemberMsI r n (i + 1)
end

end ChibiVerif.C13Sites
