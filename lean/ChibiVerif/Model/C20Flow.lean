/-
C20: definitions for the theorems about code with labels and jumps (no proofs; used by the theorems
in Lemmas/C20Flow*.lean, Props/C20.lean and by the driver `drv_c20 scope` / `drv_c20 effect`, which
must keep building when a proof breaks).

* `startsDot` — the spelling side condition on the labels the parser hands to the code generator
  (`.L..12`: `new_unique_name`): a label starts with `.`, so `Effect.jumpTarget` reads a jump to it as
  a jump to exactly that label and `Effect.renameLocals` leaves it alone.
* `defsS` — the labels a statement defines in its *region*: the `break`/`continue` labels of loops and
  switches, `case`/`default` labels, labelled statements.  A region is the body of a function or the
  body of a statement expression, without the bodies of nested statement expressions.
* `flowE/flowA/flowS/flowBody` — the decidable scope of the label-height theorems:
    - every `goto` (`break`, `continue` and `goto` are all ND_GOTO), every `case` dispatch of a
      `switch` and every loop exit targets a label of its own region (outside: known finding
      C20-jump-out-of-stmt-expr; a jump *into* a statement expression is excluded with it);
    - `return` occurs only in the region of the function body, and the long-double-ness of the
      returned value is that of the function's return type;
    - the sizes of struct/union arguments of calls are not negative; a call of the builtin `alloca` is
      not of type long double and neither is its argument;
    - the labels the node defines are parser labels (`userLabel`), its jump targets are spelled `.…`.
* `labsN`, `treeDistinct` — the parser's labels of a tree (all regions) and the decidable statement that
  they are pairwise distinct: a fact about the TREE (each ND_FOR/ND_DO/ND_SWITCH/ND_CASE/ND_LABEL gets its
  own `new_unique_name()` in parse.c), evaluated on every dumped function; Lemmas/C20TreeLabels.lean
  derives `userDistinct` of the generated code from it.
* `labelNames`, `labelsDistinct` — the labels a piece of code defines, and the decidable statement
  that they are pairwise distinct, distinct from the function's return label and not of the shape
  `.L.return.*`.  Lemmas/C20Fresh.lean proves it for generated code from the monotone label counter
  `count()` and `userDistinct` (the labels that come from the parser are emitted once each).
* `verifyL` — `Effect.verify` without the range check (`rsp ≤ 0`, `0 ≤ x87 ≤ 8`): the label-height
  discipline alone.  `Effect.checkBody ls = ok` implies `verifyL (inferred …) (steps ls) (some 0) = ok`.
-/
import ChibiVerif.Model.Codegen
import ChibiVerif.Model.Effect
import ChibiVerif.Model.C20Scope

namespace ChibiVerif.C20Scope
open ChibiVerif ChibiVerif.Codegen ChibiVerif.Ast ChibiVerif.Effect

/-- a label the code generator may be handed or makes up: it starts with `.` -/
def startsDot (l : String) : Bool :=
  match l.toList with
  | '.' :: _ => true
  | _ => false

/-- the spellings of the labels `gen_expr`/`gen_stmt` make up from `count()`: `.L.else.7`, `.L.end.7`, … -/
def ctrTags : List String := [".L.else.", ".L.end.", ".L.false.", ".L.true.", ".L.begin."]

/-- spelled like a label made up from `count()` -/
def isCtr (l : String) : Bool := ctrTags.any (fun t => t.toList.isPrefixOf l.toList)

/-- a label the parser hands to the code generator (`new_unique_name`: `.L..12`): it starts with `.`, is not
    spelled like a label of `count()` and not like `.L.return.*` -/
def userLabel (l : String) : Bool := startsDot l && !isCtr l && !isReturnLabel l

mutual
/-- the labels a statement defines in its region (not inside nested statement expressions) -/
def defsS : Node → List String
  | .if_ _ _ t e => defsS t ++ defsS e
  | .for_ _ init _ _ t brk cont => defsS init ++ (defsS t ++ [cstr cont, cstr brk])
  | .do_ _ t _ brk cont => defsS t ++ [cstr cont, cstr brk]
  | .switch_ _ _ t brk _ _ => defsS t ++ [cstr brk]
  | .case_ _ _ _ lbl lhs => cstr lbl :: defsS lhs
  | .block _ body => defsSs body
  | .label _ _ ul lhs => cstr ul :: defsS lhs
  | _ => []
def defsSs : NodeList → List String
  | .nil => []
  | .cons n rest => defsS n ++ defsSs rest
end

/-- `l` is a label of the region, spelled `.…` -/
def rlabel (R : List String) (l : String) : Bool := R.contains l && startsDot l

/-- the `case`/`default` dispatch of a switch goes to labels of the region -/
def casesOK (R : List String) (cases : List Case) (dflt : Option (Option String)) : Bool :=
  cases.all (fun c => rlabel R (cstr c.label)) &&
  (match dflt with
   | some l => rlabel R (cstr l)
   | none => true)

/-- `return` is allowed (`rl = some ld`: in the region of the function body, whose return type is /
    is not long double) and the returned value has that long-double-ness -/
def retOK (rl : Option Bool) (lhs : Node) : Bool :=
  match rl with
  | none => false
  | some ld => if isNull lhs then !ld else (isLD lhs.ty? == ld)

/-- a call of the builtin `alloca`: its value is not a long double, and neither is its size argument -/
def allocaOK (i : NInfo) (args : NodeList) : Bool :=
  !isLD i.ty && (match args with
    | .cons a _ => !isLD a.ty?
    | .nil => true)

mutual
/-- value-producing expression in the scope of the label-height theorems -/
def flowE : Node → Bool
  | .nullExpr _ | .num .. | .var .. | .memzero .. | .labelVal .. => true
  | .neg _ a | .deref _ a | .not _ a | .bitnot _ a | .cast _ a => flowE a
  | .member _ a _ | .addr _ a => flowA a
  | .assign _ a b => flowA a && flowE b
  | .comma _ a b | .binop _ _ a b | .logand _ a b | .logor _ a b | .exch _ a b => flowE a && flowE b
  | .cond _ a b c | .cas _ a b c => flowE a && flowE b && flowE c
  | .funcall i f _ _ args => flowE f && flowArgs args && structArgsOKb args && (notAlloca f || allocaOK i args)
  | .stmtExpr _ body => flowBody (defsSs body) body
  | _ => false
/-- lvalue (`gen_addr`) in scope -/
def flowA : Node → Bool
  | .var .. | .vlaPtr .. => true
  | .deref _ a => flowE a
  | .comma _ a b => flowE a && flowA b
  | .member _ a _ => flowA a
  | .assign _ a b => flowA a && flowE b
  | .cond _ a b c => flowE a && flowE b && flowE c
  | .funcall i f _ _ args => flowE f && flowArgs args && structArgsOKb args && (notAlloca f || allocaOK i args)
      && !isLD i.ty
  | _ => false
def flowArgs : NodeList → Bool
  | .nil => true
  | .cons a rest => flowE a && flowArgs rest
/-- statement in scope, in a region whose labels are `R` -/
def flowS (R : List String) (rl : Option Bool) : Node → Bool
  | .if_ _ c t e => flowE c && flowS R rl t && (isNull e || flowS R rl e)
  | .for_ _ init c inc t brk cont =>
    (isNull init || flowS R rl init) && (isNull c || flowE c) && (isNull inc || flowE inc) && flowS R rl t
      && rlabel R (cstr brk) && userLabel (cstr brk) && userLabel (cstr cont)
  | .do_ _ t c brk cont => flowS R rl t && flowE c && userLabel (cstr brk) && userLabel (cstr cont)
  | .switch_ _ c t brk cases dflt => flowE c && flowS R rl t && rlabel R (cstr brk) && userLabel (cstr brk)
      && casesOK R cases dflt
  | .case_ _ _ _ lbl lhs => userLabel (cstr lbl) && flowS R rl lhs
  | .block _ body => flowSs R rl body
  | .goto_ _ _ ul => rlabel R (cstr ul)
  | .gotoExpr _ lhs => flowE lhs
  | .label _ _ ul lhs => userLabel (cstr ul) && flowS R rl lhs
  | .ret _ lhs => retOK rl lhs && (isNull lhs || flowE lhs)
  | .exprStmt _ lhs => flowE lhs
  | .asm_ _ _ => true
  | _ => false
def flowSs (R : List String) (rl : Option Bool) : NodeList → Bool
  | .nil => true
  | .cons n rest => flowS R rl n && flowSs R rl rest
/-- the body of a statement expression: a region of its own, without `return` -/
def flowBody (R : List String) : NodeList → Bool
  | .nil => true
  | .cons (.exprStmt _ lhs) .nil => flowE lhs
  | .cons n rest => flowS R none n && flowBody R rest
end

/-- a function body in scope: the region is the whole body -/
def flowFn (env : Env) (body : Node) : Bool :=
  flowS (defsS body) (some (isLD env.retTy)) body

/-- `.L.return.<fn>` -/
def retLabel (env : Env) : String := s!".L.return.{cstr env.fnName}"

/-! ## labels of a piece of code -/

/-- names of the labels a skeleton defines, in order -/
def labelNames : List Step → List String
  | [] => []
  | .label l :: r => l :: labelNames r
  | _ :: r => labelNames r

/-- the labels of the code that come from the parser (`userLabel`) are pairwise distinct -/
def userDistinct (ls : List Asm.Line) : Bool :=
  decide ((labelNames (ls.flatMap classify)).filter userLabel).Nodup

/-! ## the parser's labels, on the tree -/

mutual
/-- every label the code of a node defines that comes from the parser — the `break`/`continue` labels
    of loops and switches, `case`/`default` labels, labelled statements — in ALL regions (nested
    statement expressions included), each as often as the tree mentions it.  `parse.c` gives every such
    node its own `new_unique_name()`; that the list has no repetition is a decidable fact about the
    dumped tree (`treeDistinct`), evaluated on every function of every dump. -/
def labsN : Node → List String
  | .null | .nullExpr _ | .num .. | .var .. | .memzero .. | .labelVal .. | .vlaPtr .. | .goto_ .. | .asm_ .. => []
  | .neg _ a | .deref _ a | .not _ a | .bitnot _ a | .cast _ a | .member _ a _ | .addr _ a | .gotoExpr _ a
  | .exprStmt _ a | .ret _ a => labsN a
  | .assign _ a b | .comma _ a b | .binop _ _ a b | .logand _ a b | .logor _ a b | .exch _ a b => labsN a ++ labsN b
  | .cond _ a b c | .cas _ a b c | .if_ _ a b c => labsN a ++ (labsN b ++ labsN c)
  | .funcall _ f _ _ args => labsN f ++ labsL args
  | .stmtExpr _ body | .block _ body => labsL body
  | .for_ _ init c inc t brk cont => labsN init ++ (labsN c ++ (labsN inc ++ (labsN t ++ [cstr cont, cstr brk])))
  | .do_ _ t c brk cont => labsN t ++ (labsN c ++ [cstr cont, cstr brk])
  | .switch_ _ c t brk _ _ => labsN c ++ (labsN t ++ [cstr brk])
  | .case_ _ _ _ lbl lhs => cstr lbl :: labsN lhs
  | .label _ _ ul lhs => cstr ul :: labsN lhs
def labsL : NodeList → List String
  | .nil => []
  | .cons n rest => labsN n ++ labsL rest
end

/-- the parser's labels of the tree are pairwise distinct (each loop, switch, `case` and labelled
    statement has a label of its own) -/
def treeDistinct (n : Node) : Bool := decide ((labsN n).filter userLabel).Nodup

/-- the labels the code defines are pairwise distinct, distinct from `ret`, none spelled `.L.return.*` -/
def labelsDistinct (ret : String) (ls : List Asm.Line) : Bool :=
  let names := labelNames (steps ls)
  decide (ret :: names).Nodup && names.all (fun l => !isReturnLabel l)

/-! ## `verify` without the range check -/

/-- `Effect.verify` without `okH`: one height per label, every jump and every fall-through arrives
    at its label's height, `rsp` = 0 at every jump to `.L.return.*` -/
def verifyL (h : Labelling) : List Step → Option H → Except String Unit
  | [], _ => .ok ()
  | s :: r, cur =>
    match s with
    | .delta d => verifyL h r (cur.map (· + d))
    | .cond l | .jump l =>
      let next := match s with | .jump _ => none | _ => cur
      match cur with
      | none => verifyL h r next
      | some c =>
        if isReturnLabel l then
          if c.rsp == 0 then verifyL h r next else .error s!"return with rsp {c.rsp}"
        else match h.lookup l with
          | some hl => if hl == c then verifyL h r next else .error s!"jump to {l} at a different height"
          | none => .error s!"jump to a label with no height: {l}"
    | .leave => verifyL h r none
    | .label l =>
      if isReturnLabel l then verifyL h r none else
      match h.lookup l, cur with
      | some hl, some c => if hl == c then verifyL h r (some hl) else .error s!"fall-through into {l} at a different height"
      | some hl, none => verifyL h r (some hl)
      | none, some c => .error s!"label without a height: {l} (rsp {c.rsp})"
      | none, none => verifyL h r none
    | .bad why => .error why

/-- the whole-function statement of the label-height theorems: some labelling passes `verifyL` -/
def FnBalanced (ls : List Asm.Line) : Prop :=
  ∃ h : Labelling, verifyL h (steps ls) (some H.zero) = .ok ()


/-! ## does control fall out of the end? -/

/-- whether control can fall out of the end of a skeleton that is entered by falling in (`live`):
    after `jmp`/`ret` it cannot, at a label it can again -/
def liveEnd : List Step → Bool → Bool
  | [], live => live
  | .delta _ :: r, live => liveEnd r live
  | .cond _ :: r, live => liveEnd r live
  | .bad _ :: r, live => liveEnd r live
  | .jump _ :: r, _ => liveEnd r false
  | .leave :: r, _ => liveEnd r false
  | .label _ :: r, _ => liveEnd r true

/-- the code does not end in a jump away: control falls out of its end -/
def fallsThrough (ls : List Asm.Line) : Bool := liveEnd (steps ls) true

/-! ## known finding C20-x87-depth-overflow: how many x87 registers an evaluation needs -/

/-- 1 for a long double value -/
def ldVal (t : Option Ty) : Nat := if isLD t then 1 else 0

/-- registers while a long double value is tested against zero or converted: the value and one more -/
def ldTmp (t : Option Ty) : Nat := if isLD t then 2 else 0

/-- registers while a long double value is converted: the value itself; one more when the target is
    `_Bool` or an integer (`fldz` / `flds` of 2^63 in the cast strings) -/
def ldCast (src dst : Option Ty) : Nat :=
  if isLD src then
    (match dst with
     | some t => if isFlonum t then 1 else 2
     | none => 2)
  else 0

mutual
/-- the number of x87 registers the code of `gen_expr(n)` occupies at its peak, above the registers in
    use when it starts, following the code generator's order of evaluation (a long double binary
    operator keeps its left operand on the x87 stack while the right one is evaluated; a test against
    zero or a conversion of a long double may load one more register) -/
def x87Need : Node → Nat
  | .num i .. | .var i _ => ldVal i.ty
  | .nullExpr _ | .memzero .. | .labelVal .. => 0
  | .neg _ a | .bitnot _ a => x87Need a
  | .not _ a => max (x87Need a) (ldTmp a.ty?)
  | .cast i a => max (x87Need a) (max (ldCast a.ty? i.ty) (ldVal i.ty))
  | .deref i a => max (x87Need a) (ldVal i.ty)
  | .member i a _ => max (x87NeedA a) (ldVal i.ty)
  | .addr _ a => x87NeedA a
  | .assign _ a b => max (x87NeedA a) (x87Need b)
  | .comma _ a b | .exch _ a b => max (x87Need a) (x87Need b)
  | .binop _ _ a b =>
    if isLD a.ty? then max (x87Need a) (1 + x87Need b) else max (x87Need a) (x87Need b)
  | .logand _ a b | .logor _ a b =>
    max (max (x87Need a) (ldTmp a.ty?)) (max (x87Need b) (ldTmp b.ty?))
  | .cond _ c t e => max (max (x87Need c) (ldTmp c.ty?)) (max (x87Need t) (x87Need e))
  | .cas _ a b c => max (x87Need a) (max (x87Need b) (x87Need c))
  | .funcall _ f _ _ args => max (x87Need f) (x87NeedL args)
  | .stmtExpr _ body => x87NeedL body
  | .if_ _ c t e => max (max (x87Need c) (ldTmp c.ty?)) (max (x87Need t) (x87Need e))
  | .for_ _ init c inc t _ _ =>
    max (max (x87Need init) (max (x87Need c) (ldTmp c.ty?))) (max (x87Need inc) (x87Need t))
  | .do_ _ t c _ _ => max (x87Need t) (max (x87Need c) (ldTmp c.ty?))
  | .switch_ _ c t _ _ _ => max (x87Need c) (x87Need t)
  | .case_ _ _ _ _ a | .label _ _ _ a | .ret _ a | .gotoExpr _ a | .exprStmt _ a => x87Need a
  | .block _ body => x87NeedL body
  | .null | .goto_ .. | .asm_ .. | .vlaPtr .. => 0
/-- the same for `gen_addr(n)` -/
def x87NeedA : Node → Nat
  | .deref _ a => x87Need a
  | .comma _ a b => max (x87Need a) (x87NeedA b)
  | .member _ a _ => x87NeedA a
  | .assign _ a b => max (x87NeedA a) (x87Need b)
  | .cond _ c t e => max (max (x87Need c) (ldTmp c.ty?)) (max (x87Need t) (x87Need e))
  | .funcall _ f _ _ args => max (x87Need f) (x87NeedL args)
  | _ => 0
def x87NeedL : NodeList → Nat
  | .nil => 0
  | .cons n rest => max (x87Need n) (x87NeedL rest)
end

/-- the region of known finding C20-x87-depth-overflow: the evaluation of some expression of the tree
    keeps more long double values on the x87 register stack than it has registers -/
def x87Deep (n : Node) : Bool := decide (8 < x87Need n)

end ChibiVerif.C20Scope
