/-
C14: from argv to the driver's run — the composition of the argument-parser model (Model/C14Args.lean over the
regenerated tables of Gen/C14ArgsGen.lean) with the driver-loop model (Model/DriverProc.lean) and the dependency
overlay (Model/C14Deps.lean).

* `parseArgs`   main.c `parse_args` on the tables regenerated from main.c;
* `toCmd`       what `main` makes of the option variables: mode (`opt_E`, `opt_S`, `opt_c`, none), `-o`, `-M`, the input
                list with `get_file_type` (`-x`, suffix ladder) and `replace_extn`;
* `runArgv`     the driver process for an argv: `usage()` / `error()` of parse_args end it at once (status, no child, no
                file), otherwise the driver loop runs on `toCmd`;
* `cc1Argv`, `asArgv`, `ldArgv`   the command lines of the children (`run_cc1`, `assemble`, `run_linker`);
* `depPath`, `depEnvOf`           main.c `dependency_path` as evaluated by the cc1 child of an input;
* `cc1Trace`    the steps of `cc1Plan` for given `-M` / `-MD` / `-E`.
Core Lean only.
-/
import ChibiVerif.Model.C14Args
import ChibiVerif.Gen.C14ArgsGen
import ChibiVerif.Model.DriverProc
import ChibiVerif.Model.C14Deps

namespace ChibiVerif.C14Compose
open ChibiVerif.C14Args ChibiVerif.DriverProc
open ChibiVerif.Gen.C14Args

/-- the option variables before `parse_args` -/
def st0 : St := St.init flagVars strVars arrVars

/-- main.c `parse_args` (argument words `argv[1..]`) -/
def parseArgs (args : List String) : C14Args.Outcome := parseWith takeArgList ladder optXTable st0 args

/-! ### `main` after `parse_args` -/

/-- `get_file_type` after the `opt_x` test -/
def suffixType : List (String × FileType) → String → Option FileType
  | [], _ => none
  | (suf, t) :: r, s => if hasSuffix suf s then some t else suffixType r s

def kindOfType : FileType → Kind
  | .c => .C
  | .asm => .asm
  | .obj => .obj
  | .ar => .obj
  | .dso => .obj
  | .none => .unknown

def isLOpt (s : String) : Bool := hasPrefix "-l" s
def isWlOpt (s : String) : Bool := !isLOpt s && hasPrefix "-Wl," s

/-- split at `,`, dropping empty pieces (`strtok(s, ",")`) -/
def splitCommas : List Char → List Char → List (List Char)
  | acc, [] => if acc = [] then [] else [acc.reverse]
  | acc, c :: r =>
    if c = ',' then (if acc = [] then splitCommas [] r else acc.reverse :: splitCommas [] r)
    else splitCommas (c :: acc) r

/-- the words `-Wl,a,b` contributes to `ld_args` -/
def wlTokens (s : String) : List String := (splitCommas [] (s.toList.drop 4)).map String.ofList

/-- the loop of `main`: kind of an element of `input_paths` -/
def inputKind (st : St) (s : String) : Kind :=
  if isLOpt s || isWlOpt s then .lib
  else if st.x ≠ .none then kindOfType st.x
  else match suffixType fileTypeLadder s with
    | some t => kindOfType t
    | none => .unknown

def mkInput (st : St) (s : String) : Input String :=
  { path := s, kind := inputKind st s, sOut := replaceExtn s ".s", oOut := replaceExtn s ".o" }

/-- an element of `input_paths` the loop skips without any effect: `-Wl,` with no non-empty token -/
def isNoop (s : String) : Bool := isWlOpt s && (wlTokens s).isEmpty

def inputWords (st : St) : List String := (st.arr "input_paths").filterMap id

def modeOf (st : St) : Mode :=
  if st.flag "opt_E" then .E else if st.flag "opt_S" then .S else if st.flag "opt_c" then .c else .link

/-- the command the driver loop executes.  A word `-Wl,a,b` is ONE linker input here (the loop pushes `a` and `b`;
    `expandWl` does that when the linker's command line is built) -/
def toCmd (st : St) : Cmd String :=
  { mode := modeOf st
    out := st.str "opt_o"
    inputs := ((inputWords st).filter (fun s => !isNoop s)).map (mkInput st)
    aout := "a.out"
    depsOnly := st.flag "opt_M"
    nExtra := ((inputWords st).filter isNoop).length }

/-! ### the driver process for an argv -/

/-- the process ends inside `parse_args`: message, `exit(code)`, nothing else -/
def earlyExit (why : Option DrvErr) (code : Nat) : DState String :=
  { acts := [], tmpfiles := [], ldArgs := [], phase := .done code,
    log := (match why with | some w => [Event.error w] | none => []) ++ [Event.exit code] }

/-- the state in which a process that read through the NULL behind argv would be (unreachable: `C14_args_total`) -/
def crashed : DState String := { acts := [], tmpfiles := [], ldArgs := [], phase := .stuck }

/-- `-cc1` among the option words: the process is the compiler proper, not the driver -/
def isDriver (args : List String) : Bool :=
  match parseArgs args with
  | .ok st => !st.flag "opt_cc1"
  | _ => true

/-- initial configuration of the driver for an argv: either it has already ended, or `main` starts on `toCmd` -/
def initArgv (args : List String) : DState String :=
  match parseArgs args with
  | .ok st => init (toCmd st)
  | .usage 0 => earlyExit none 0
  | .usage n => earlyExit (some .usage) n
  | .exit0 => earlyExit none 0
  | .diag (.unknownArg _) => earlyExit (some .unknownArg) 1
  | .diag (.unknownX _) => earlyExit (some .unknownX) 1
  | .diag .noInput => earlyExit (some .noInput) 1
  | .nullDeref _ => crashed

/-- the whole run of `chibicc args…` -/
def runArgv (env : Env String) (args : List String) (fs : FS String) : DState String × FS String :=
  match parseArgs args with
  | .ok st => runCmd env (toCmd st) fs
  | _ => (initArgv args, fs)

/-! ### command lines of the children -/

/-- main.c `run_cc1` -/
def cc1Tail (input : String) (output : Option String) : List String :=
  [cc1Flag, cc1InputFlag, input] ++ (match output with | some o => [cc1OutputFlag, o] | none => [])

def cc1Argv (argv0 : String) (args : List String) (input : String) (output : Option String) : List String :=
  argv0 :: args ++ cc1Tail input output

/-- main.c `assemble` -/
def asArgv (input output : String) : List String :=
  asTemplate.map (fun x => match x with | .inl s => s | .inr false => input | .inr true => output)

/-- `format(fmt, arg)` for a format with one `%s` -/
def fmtChars : List Char → List Char → List Char
  | [], _ => []
  | '%' :: 's' :: r, a => a ++ r
  | c :: r, a => c :: fmtChars r a

def fmt1 (fmt arg : String) : String := String.ofList (fmtChars fmt.toList arg.toList)

/-- the linker inputs as `main`'s loop pushes them: `-Wl,a,b` becomes `a`, `b` -/
def expandWl (ld : List String) : List String :=
  ld.flatMap (fun s => if isWlOpt s then wlTokens s else [s])

mutual
  def ldItem (st : St) (libpath gccLibpath : String) (inputs : List String) (output : String) :
      LdItem → List (Option String)
    | .lit s => [some s]
    | .output => [some output]
    | .libpath f => [some (fmt1 f libpath)]
    | .gccLibpath f => [some (fmt1 f gccLibpath)]
    | .extraArgs => st.arr "ld_extra_args"
    | .inputs => inputs.map some
    | .ifFlag v thn els => if st.flag v then ldItems st libpath gccLibpath inputs output thn
                           else ldItems st libpath gccLibpath inputs output els
    | .ifNotFlag v thn => if st.flag v then [] else ldItems st libpath gccLibpath inputs output thn
  def ldItems (st : St) (libpath gccLibpath : String) (inputs : List String) (output : String) :
      List LdItem → List (Option String)
    | [] => []
    | x :: r => ldItem st libpath gccLibpath inputs output x ++ ldItems st libpath gccLibpath inputs output r
end

/-- main.c `run_linker`: the array handed to `execvp` ends at the first NULL -/
def ldArgv (st : St) (libpath gccLibpath : String) (inputs : List String) (output : String) : List String :=
  ((ldItems st libpath gccLibpath (expandWl inputs) output ldTemplate).takeWhile Option.isSome).filterMap id

/-! ### dependency output -/

/-- main.c `open_file`: `"-"` is standard output -/
def fileOrStdout (s : String) : Option String := if s = "-" then none else some s

/-- main.c `dependency_path()` in the cc1 child compiling `input` (`base_file`), when `-M` or `-MD` is given;
    `none`: standard output, or no dependency output at all -/
def depPath (st : St) (input : String) : Option String :=
  if st.flag "opt_M" || st.flag "opt_MD" then
    match st.str "opt_MF" with
    | some f => fileOrStdout f
    | none =>
      if st.flag "opt_MD" then fileOrStdout (replaceExtn ((st.str "opt_o").getD input) ".d")
      else match st.str "opt_o" with
        | some o => fileOrStdout o
        | none => none
  else none

def depEnvOf (st : St) : DepEnv String := { depOf := depPath st }

/-- the whole run, dependency files included -/
def runArgvD (env : Env String) (args : List String) (fs : FS String) : DState String × FS String :=
  match parseArgs args with
  | .ok st => runCmdD (depEnvOf st) env (toCmd st) fs
  | _ => (initArgv args, fs)

/-- target of the rule: `-MT`/`-MQ` words, else the quoted object name -/
def depTarget (st : St) (input : String) : String :=
  match st.str "opt_MT" with
  | some t => t
  | none => quoteMakefile (replaceExtn input ".o")

/-- main.c `in_std_include_path` -/
def inStdInclude (std : List String) (path : String) : Bool :=
  std.any (fun d => hasPrefix d path && (path.toList.drop d.toList.length).head? == some '/')

/-- main.c `print_dependencies`: `files` = names of the input files in the order `get_input_files()` returns them
    (the main file first); `std` = the standard include directories -/
def depText (st : St) (input : String) (files std : List String) : String :=
  let keep := fun (f : String) => !(st.flag "opt_MMD" && inStdInclude std f)
  let head := depTarget st input ++ ":" ++ String.join ((files.filter keep).map (fun f => " \\\n  " ++ f)) ++ "\n\n"
  let phony := if st.flag "opt_MP" then String.join (((files.drop 1).filter keep).map (fun f => quoteMakefile f ++ ":\n\n")) else ""
  head ++ phony

/-! ### the tail of `cc1` -/

mutual
  /-- the events of one step, and whether `return` was reached -/
  def cc1Step (f : String → Bool) : Cc1Step → List Cc1Ev × Bool
    | .collectDeps => ([.collectDeps], false)
    | .writeDeps => ([.writeDeps], false)
    | .printTokens => ([.printTokens], false)
    | .parse => ([.parse], false)
    | .codegen => ([.codegen], false)
    | .writeOutput => ([.writeOutput], false)
    | .ret => ([], true)
    | .ifAny fl body => if fl.any f then cc1Steps f body else ([], false)
  def cc1Steps (f : String → Bool) : List Cc1Step → List Cc1Ev × Bool
    | [] => ([], false)
    | s :: r =>
      match cc1Step f s with
      | (a, true) => (a, true)
      | (a, false) => let b := cc1Steps f r; (a ++ b.1, b.2)
end

/-- what cc1 does after `preprocess()` for the given flags -/
def cc1Trace (f : String → Bool) : List Cc1Ev := (cc1Steps f cc1Plan).1

def evIsWrite : Cc1Ev → Bool
  | .writeDeps => true
  | .printTokens => true
  | .writeOutput => true
  | _ => false

def evCanFail : Cc1Ev → Bool
  | .parse => true
  | .codegen => true
  | _ => false

/-- the discipline of a trace: nothing that can raise a front-end error comes after a write; the dependency write,
    if any, is the last event and happens exactly when asked for; the output is written before it -/
def traceOK (wantDeps : Bool) : List Cc1Ev → Bool
  | [] => !wantDeps
  | [e] => (e == .writeDeps) == wantDeps
  | e :: e' :: r =>
    e != .writeDeps && (!evIsWrite e || !(e' :: r).any evCanFail) && traceOK wantDeps (e' :: r)

/-- all assignments of the three flags `cc1Plan` tests -/
def flagAssignments : List (Bool × Bool × Bool) :=
  [(false, false, false), (false, false, true), (false, true, false), (false, true, true),
   (true, false, false), (true, false, true), (true, true, false), (true, true, true)]

def flagFn (a : Bool × Bool × Bool) (v : String) : Bool :=
  if v = "opt_M" then a.1 else if v = "opt_MD" then a.2.1 else if v = "opt_E" then a.2.2 else false

mutual
  /-- the flags a step tests -/
  def stepFlags : Cc1Step → List String
    | .ifAny fl body => fl ++ stepsFlags body
    | _ => []
  def stepsFlags : List Cc1Step → List String
    | [] => []
    | s :: r => stepFlags s ++ stepsFlags r
end

/-! ### audit of the file-system call sites (`fileSites`) -/

/-- option variables that hold a path named on the command line (`output_file`: the word after `-cc1-output`, which
    the driver sets to a requested output or to a temporary) -/
def pathOpts : List String := ["opt_o", "opt_MF", "output_file"]

/-- extensions `replace_extn` derives output names with -/
def derivedExts : List String := [".s", ".o", ".d"]

/-- functions of main.c whose k-th parameter is a path: every call of them must be a listed site -/
def listedCallee (sites : List FileSite) (f : String) : Bool := sites.any (fun s => s.callee == f)

def writeOriginOK (sites : List FileSite) : Origin → Bool
  | .userOpt v => pathOpts.contains v
  | .derived e => derivedExts.contains e
  | .fixedName s => s == "a.out"                       -- the one fixed name: the default executable, a requested output
  | .stdout => true
  | .tempVar => true
  | .param f _ => listedCallee sites f
  | _ => false

def readOriginOK (sites : List FileSite) : Origin → Bool
  | .inputArg => true
  | .tempVar => true
  | .param f _ => listedCallee sites f || f == "read_file"   -- tokenize.c read_file: source and header files
  | _ => false

def isTemplate (t : String) : Bool := hasPrefix "/tmp/" t && hasSuffix "XXXXXX" t

/-- one call site obeys the discipline: temporaries come from `mkstemp` on a `…XXXXXX` template and are recorded,
    only recorded temporaries are removed, and every path written is named by the user, derived from such a name,
    the default `a.out`, standard output, or a temporary -/
def siteOK (sites : List FileSite) (s : FileSite) : Bool :=
  match s.kind with
  | .create => s.callee == "mkstemp" && s.fn == "create_tmpfile" &&
      (match s.origins with | [.mkstempTemplate t] => isTemplate t | _ => false)
  | .record => s.fn == "create_tmpfile" && (match s.origins with | [.mkstempTemplate t] => isTemplate t | _ => false)
  | .remove => s.callee == "unlink" && s.fn == "cleanup" && s.origins == [.tmpfilesEntry]
  | .write => s.origins.all (writeOriginOK sites)
  | .read => s.origins.all (readOriginOK sites)

def sitesOfKind (k : SiteKind) (sites : List FileSite) : List FileSite := sites.filter (fun s => s.kind == k)

end ChibiVerif.C14Compose
